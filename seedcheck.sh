#!/bin/bash
# Development helper: validates one seeded change (/tmp/seed/out/<ID>/<V>) and runs all checks against it
# (on a scratch worktree with the change applied, via --repo).   usage: seedcheck.sh C07 A
set -u
ID=$1; V=$2
SRC=${3:-/tmp/seed/out}/$ID/$V
export GOFLAGS=-mod=mod GOPROXY=off GOSUMDB=off GOTOOLCHAIN=local
unset GOWORK
W=/tmp/seedv/$ID$V
rm -rf $W; mkdir -p /tmp/seedv
git -C /repo worktree prune
git -C /repo worktree add -q --detach $W HEAD || exit 9
cd $W
echo "== $ID/$V: apply"; git apply $SRC/patch.diff || { echo APPLY-FAILED; git -C /repo worktree remove --force $W; exit 8; }
echo "== build+suite with the change"; go build ./... && go test -count=1 ./... 2>&1 | tail -4
DEMO=$(ls $SRC/*_test.go 2>/dev/null | head -1)
if [ -n "$DEMO" ]; then
  PKG=$(grep -m1 '^package ' $DEMO | awk '{print $2}')
  case $PKG in
    pql|pql_test) D=. ;;
    parser|parser_test) D=parser ;;
    main|main_test) D=cmd/pql ;;
    *) D=. ;;
  esac
  cp $DEMO $D/zz_seed_demo_test.go
  echo "== demo WITH change (expect FAIL) in $D"; (cd $D && go test -count=1 . 2>&1 | tail -5 | cut -c1-300)
  git diff > /tmp/seedv/$ID$V.applied.diff
  git checkout -q -- .
  echo "== demo WITHOUT change (expect ok)"; (cd $D && go test -count=1 . 2>&1 | tail -3)
  rm -f $D/zz_seed_demo_test.go
  git apply /tmp/seedv/$ID$V.applied.diff
else
  echo "(no *_test.go demo; see README)"; ls $SRC
fi
cd /verif
echo "== checks against the change"
./pqlcheck check all --no-evidence --repo $W 2>&1 | grep -E "^== |^  violation|CHECKER-ERROR" | grep -vE " 0 violated" | cut -c1-330
git -C /repo worktree remove --force $W
rm -f /tmp/seedv/$ID$V.applied.diff
