#!/bin/bash
# Development helper: validates one seeded change (/tmp/seed/out/<ID>/<V>) and runs the checks against it.
# usage: seedcheck.sh C07 A
set -u
ID=$1; V=$2
SRC=/tmp/seed/out/$ID/$V
export GOFLAGS=-mod=mod GOPROXY=off GOSUMDB=off GOTOOLCHAIN=local
unset GOWORK
W=/tmp/seedv/$ID$V
rm -rf $W; mkdir -p /tmp/seedv
git -C /repo worktree add -q --detach $W HEAD || exit 9
cd $W
echo "== $ID/$V: apply"; git apply $SRC/patch.diff || { echo APPLY-FAILED; git -C /repo worktree remove --force $W; exit 8; }
echo "== build+suite with the change"; go build ./... && go test -count=1 ./... 2>&1 | tail -4
# place the demo
DEMO=$(ls $SRC/*_test.go 2>/dev/null | head -1)
if [ -n "$DEMO" ]; then
  PKG=$(grep -m1 '^package ' $DEMO | awk '{print $2}')
  case $PKG in
    pql|pql_test) D=. ;;
    parser|parser_test) D=parser ;;
    main|main_test) D=cmd/pql ;;
    *) D=. ;;
  esac
  cp $DEMO $D/zz_seed_demo_test.go
  echo "== demo WITH change (expect FAIL) in $D"; (cd $D && go test -count=1 -run . . 2>&1 | tail -6)
  git stash -q -- $(git diff --name-only) 2>/dev/null || git checkout -q -- .
  git checkout -q -- . 2>/dev/null
  echo "== demo WITHOUT change (expect ok)"; (cd $D && go test -count=1 -run . . 2>&1 | tail -3)
else
  echo "(no *_test.go demo; see README)"; ls $SRC
fi
cd /verif
git -C /repo worktree remove --force $W
echo "== checks against the change"
git -C /repo apply $SRC/patch.diff || { echo APPLY-TO-REPO-FAILED; exit 7; }
./pqlcheck check all --no-evidence 2>&1 | grep -E "^== |^  violation|CHECKER-ERROR" | grep -vE "0 violated" | cut -c1-260
git -C /repo checkout -- .
git -C /repo status --short | head -3
