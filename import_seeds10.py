#!/usr/bin/env python3
"""One-off development helper: files the round-10 seeded changes (/tmp/r10/out/<id>_<1|2>) under
seeded/<id>/<AA|AB> with the confirmation recorded by seedcheck10.sh (/tmp/r10/res.txt)."""
import json, os, re, shutil, glob
os.chdir('/verif')
txt = open('/tmp/r10/res.txt').read()
blocks = re.split(r'(?m)^== (C\d\d)/([12]): apply\n', txt)
conf = {}
for i in range(1, len(blocks), 3):
    pid, v, body = blocks[i], blocks[i+1], blocks[i+2]
    pre = body.split('== demo WITH')[0]
    dw = re.search(r'demo WITH change.*?\n(.*?)== demo WITHOUT', body, re.S)
    wo = re.search(r'demo WITHOUT change.*?\n(.*?)== end', body, re.S)
    conf[(pid, v)] = {
        'suite_ok': 'FAIL' not in pre and 'APPLY-FAILED' not in pre and pre.count('ok ') >= 3,
        'demo_with': 'FAIL' if dw and ('FAIL' in dw.group(1) or 'panic' in dw.group(1)) else '?',
        'demo_without': 'ok' if wo and re.search(r'(?m)^ok', wo.group(1)) and 'FAIL' not in wo.group(1) else '?',
    }
newname = {'1': 'AA', '2': 'AB'}
for d in sorted(glob.glob('/tmp/r10/out/C*_[12]/')):
    pid, v = d.rstrip('/').split('/')[-1].split('_')
    c = conf.get((pid, v))
    if not c or not c['suite_ok'] or c['demo_with'] != 'FAIL' or c['demo_without'] != 'ok':
        print('NOT CONFIRMED', pid, v, c)
        continue
    dst = f'seeded/{pid}/{newname[v]}'
    if os.path.exists(dst + '/meta.json'):
        continue
    os.makedirs(dst, exist_ok=True)
    shutil.copy(d + 'patch.diff', dst + '/patch.diff')
    notes = open(d + 'notes.txt').read() if os.path.exists(d + 'notes.txt') else ''
    open(dst + '/README.md', 'w').write(notes)
    demo = d + 'demo_test.go'
    shutil.copy(demo, dst + '/demo_test.go.txt')
    m = re.search(r'(?m)^package (\w+)', open(demo).read())
    pkg = m.group(1) if m else ''
    where = {'pql': '.', 'pql_test': '.', 'parser': 'parser', 'parser_test': 'parser', 'main': 'cmd/pql', 'main_test': 'cmd/pql'}.get(pkg, '.')
    lines = [l for l in notes.split('\n') if l.strip()]
    meta = {
        'property': pid, 'variant': newname[v], 'round': 10,
        'origin': 'independent sub-agent that saw only the property text and a scratch worktree (tenth round: a maintainer slip that needs something specific to manifest)',
        'needs_to_manifest': ' '.join(lines)[:600],
        'demonstration': f'copy demo_test.go.txt to {where}/zz_seed_demo_test.go in a worktree of /repo and run `go test -count=1 .` there',
        'confirmed': {'applies_to': 'repo HEAD cf6718a', 'suite_with_change': 'go build ./... && go vet ./... && go test -count=1 ./... : 3 packages ok',
                      'demo_with_change': 'FAIL', 'demo_without_change': 'ok', 'how': 'seedcheck10.sh in a scratch git worktree under /tmp (removed afterwards)'},
    }
    json.dump(meta, open(dst + '/meta.json', 'w'), indent=1)
    print('filed', dst)
