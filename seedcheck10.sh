#!/bin/bash
# Development helper: confirms one round-10 seeded change (/tmp/r10/out/<ID>_<i>): applies, builds, runs the suite,
# runs the demonstration with and without the change.   usage: seedcheck10.sh C07 1
set -u
ID=$1; V=$2
SRC=/tmp/r10/out/${ID}_$V
export GOFLAGS=-mod=mod GOPROXY=off GOSUMDB=off GOTOOLCHAIN=local
unset GOWORK
W=/tmp/seedv/$ID$V
rm -rf $W; mkdir -p /tmp/seedv
git -C /repo worktree add -q --detach $W HEAD || exit 9
cd $W
echo "== $ID/$V: apply"; git apply $SRC/patch.diff || { echo APPLY-FAILED; git -C /repo worktree remove --force $W; exit 8; }
echo "== build+suite with the change"; go build ./... && go vet ./... 2>&1 | tail -2; go test -count=1 ./... 2>&1 | tail -4
DEMO=$SRC/demo_test.go
if [ -f "$DEMO" ]; then
  PKG=$(grep -m1 '^package ' $DEMO | awk '{print $2}')
  case $PKG in
    pql|pql_test) D=. ;;
    parser|parser_test) D=parser ;;
    main|main_test) D=cmd/pql ;;
    *) D=. ;;
  esac
  cp $DEMO $D/zz_seed_demo_test.go
  RUN=$(grep -o 'func Test[A-Za-z0-9_]*' $D/zz_seed_demo_test.go | sed 's/func //' | paste -sd'|')
  echo "== demo WITH change (expect FAIL) in $D"; (cd $D && timeout 300 go test -count=1 -run "^($RUN)\$" . 2>&1 | tail -5 | cut -c1-300)
  git checkout -q -- .; git clean -fdq -e zz_seed_demo_test.go -e '*/zz_seed_demo_test.go'
  echo "== demo WITHOUT change (expect ok)"; (cd $D && timeout 300 go test -count=1 -run "^($RUN)\$" . 2>&1 | tail -3)
  echo "== end"
fi
cd /verif
git -C /repo worktree remove --force $W
