#!/bin/bash
# Development helper: runs checks against a behaviour-preserving change; any alarm is a false alarm.
# usage: benigncheck.sh <patch.diff> [binary] [properties]
set -u
P=$1
BIN=${2:-/verif/pqlcheck}
PROPS=${3:-all}
export GOFLAGS=-mod=mod GOPROXY=off GOSUMDB=off GOTOOLCHAIN=local
unset GOWORK
W=$(mktemp -d /tmp/bn.XXXX); rmdir $W
git -C /repo worktree add -q --detach $W HEAD || exit 9
git -C $W apply $P || { echo APPLY-FAILED; git -C /repo worktree remove --force $W; exit 8; }
if [ -z "${NOSUITE:-}" ]; then (cd $W && go build ./... && go test -count=1 ./... 2>&1 | grep -v "^ok" | head -5); fi
cd /verif
$BIN check $PROPS --no-evidence --repo $W 2>&1 | grep -E "^  violation|CHECKER-ERROR|^VIOLATION" | cut -c1-${WIDTH:-330}
git -C /repo worktree remove --force $W
