#!/bin/bash
# Development helper: runs all checks against a behaviour-preserving change; any alarm is a false alarm.
# usage: benigncheck.sh <patch.diff>
set -u
P=$1
export GOFLAGS=-mod=mod GOPROXY=off GOSUMDB=off GOTOOLCHAIN=local
unset GOWORK
W=$(mktemp -d /tmp/bn.XXXX); rmdir $W
git -C /repo worktree add -q --detach $W HEAD || exit 9
git -C $W apply $P || { echo APPLY-FAILED; git -C /repo worktree remove --force $W; exit 8; }
(cd $W && go build ./... && go test -count=1 ./... 2>&1 | grep -v "^ok" | head -5)
cd /verif
./pqlcheck check all --no-evidence --repo $W 2>&1 | grep -E "^  violation|CHECKER-ERROR|^VIOLATION" | cut -c1-330
git -C /repo worktree remove --force $W
