#!/usr/bin/env python3
"""Runs the registered checks against every kept seeded change (each applied to a scratch worktree of /repo that is
removed at once; four at a time) and records which rules report it in meta.json. Development helper; never called
by a registered check.  usage: seeded_run.py [binary] [only-prefix]"""
import json, os, re, subprocess, sys, glob
from concurrent.futures import ThreadPoolExecutor
os.chdir('/verif')
BIN = sys.argv[1] if len(sys.argv) > 1 else './pqlcheck'
ONLY = sys.argv[2] if len(sys.argv) > 2 else ''
def sh(cmd): return subprocess.run(cmd, shell=True, capture_output=True, text=True)
def rules(out): return sorted(set(re.findall(r'^  violation (\S+) ', out, re.M)))
def props(out): return sorted(set(re.findall(r'^VIOLATION property=(\S+)', out, re.M)))
def one(d):
    meta_p = os.path.join(d, 'meta.json')
    meta = json.load(open(meta_p))
    pid = meta['property']
    w = '/tmp/sr_' + d.replace('/verif/seeded/', '').replace('/', '')
    sh(f'git -C /repo worktree remove --force {w}')
    r = sh(f'git -C /repo worktree add -q --detach {w} HEAD && git -C {w} apply {d}patch.diff')
    if r.returncode != 0:
        sh(f'git -C /repo worktree remove --force {w}')
        return (d, 'APPLY FAILED', r.stderr[:200])
    try:
        own = sh(f'VERIF_DIR=/verif {BIN} check {pid} --no-evidence --repo {w}')
        allr = sh(f'VERIF_DIR=/verif {BIN} check all --no-evidence --repo {w}')
    finally:
        sh(f'git -C /repo worktree remove --force {w}')
    meta['own_check'] = {'exit': own.returncode, 'rules': rules(own.stdout), 'checker_error': 'CHECKER-ERROR' in own.stderr}
    meta['all_checks'] = {'properties_alarming': props(allr.stdout), 'rules': rules(allr.stdout)}
    meta['caught'] = own.returncode == 1
    json.dump(meta, open(meta_p, 'w'), indent=1)
    return (d.replace('/verif/seeded/', ''), meta['caught'], meta['own_check']['rules'], meta['all_checks']['properties_alarming'])
dirs = [d for d in sorted(glob.glob('/verif/seeded/C*/*/')) if d.replace('/verif/seeded/', '').startswith(ONLY)]
with ThreadPoolExecutor(max_workers=7) as ex:
    for row in ex.map(one, dirs):
        print(row); sys.stdout.flush()
