#!/usr/bin/env python3
"""Runs the registered checks against every kept seeded change (applies it to /repo, runs, undoes) and
records which rules report it in meta.json. Development helper; never called by a registered check."""
import json, os, re, subprocess, sys, glob
os.chdir('/verif')
def sh(cmd): return subprocess.run(cmd, shell=True, capture_output=True, text=True)
assert sh('git -C /repo status --short').stdout.strip() == '', '/repo not clean'
rows = []
for d in sorted(glob.glob('/verif/seeded/C*/*/')):
    meta_p = os.path.join(d, 'meta.json')
    meta = json.load(open(meta_p))
    pid = meta['property']
    r = sh(f'git -C /repo apply {d}patch.diff')
    if r.returncode != 0:
        print('APPLY FAILED', d, r.stderr); continue
    try:
        own = sh(f'./pqlcheck check {pid} --no-evidence')
        allr = sh('./pqlcheck check all --no-evidence')
    finally:
        sh('git -C /repo checkout -- .')
    def rules(out):
        return sorted(set(re.findall(r'^  violation (\S+) ', out, re.M)))
    def props(out):
        return sorted(set(re.findall(r'^VIOLATION property=(\S+)', out, re.M)))
    meta['own_check'] = {'exit': own.returncode, 'rules': rules(own.stdout), 'checker_error': 'CHECKER-ERROR' in own.stderr}
    meta['all_checks'] = {'properties_alarming': props(allr.stdout), 'rules': rules(allr.stdout)}
    meta['caught'] = own.returncode == 1
    json.dump(meta, open(meta_p, 'w'), indent=1)
    rows.append((d.replace('/verif/seeded/', ''), meta['caught'], meta['own_check']['rules'], meta['all_checks']['properties_alarming']))
    print(rows[-1]); sys.stdout.flush()
assert sh('git -C /repo status --short').stdout.strip() == ''
