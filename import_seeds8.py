#!/usr/bin/env python3
"""One-off development helper: files the round-8 seeded changes (/tmp/seed8/out/<id>/<A|B|C>) under
seeded/<id>/<U|V|W> with the confirmation recorded by seedcheck3.sh (/tmp/seed8/res*.txt)."""
import json, os, re, shutil, glob
os.chdir('/verif')
txt = ''
for f in ['/tmp/seed8/res.txt']:
    if os.path.exists(f):
        txt += open(f).read()
blocks = re.split(r'(?m)^== (C\d\d)/([ABC]): apply\n', txt)
conf = {}
for i in range(1, len(blocks), 3):
    pid, v, body = blocks[i], blocks[i+1], blocks[i+2]
    pre = body.split('== demo WITH')[0]
    dw = re.search(r'demo WITH change.*?\n(.*?)== demo WITHOUT', body, re.S)
    wo = re.search(r'demo WITHOUT change.*?\n(.*?)== end', body, re.S)
    conf[(pid, v)] = {
        'suite_ok': 'FAIL' not in pre and 'APPLY-FAILED' not in pre and pre.count('ok ') >= 3,
        'demo_with': 'FAIL' if dw and ('FAIL' in dw.group(1) or 'panic' in dw.group(1)) else '?',
        'demo_without': 'ok' if wo and re.search(r'(?m)^ok', wo.group(1)) and 'FAIL' not in wo.group(1) else '?',
    }
newname = {'A': 'U', 'B': 'V', 'C': 'W'}
kind = {'A': 'a copy-paste or wrong-name slip', 'B': 'a scoping or control-flow slip', 'C': 'an over-reaching bug fix or small tolerance'}
for d in sorted(glob.glob('/tmp/seed8/out/C*/[ABC]/')):
    pid, v = d.split('/')[-3], d.split('/')[-2]
    c = conf.get((pid, v))
    if not c or not c['suite_ok'] or c['demo_with'] != 'FAIL' or c['demo_without'] != 'ok':
        print('NOT CONFIRMED', pid, v, c)
        continue
    dst = f'seeded/{pid}/{newname[v]}'
    os.makedirs(dst, exist_ok=True)
    shutil.copy(d + 'patch.diff', dst + '/patch.diff')
    shutil.copy(d + 'README.md', dst + '/README.md')
    demos = glob.glob(d + '*_test.go')
    pkg = ''
    if demos:
        shutil.copy(demos[0], dst + '/demo_test.go.txt')
        m = re.search(r'(?m)^package (\w+)', open(demos[0]).read())
        pkg = m.group(1) if m else ''
    where = {'pql': '.', 'pql_test': '.', 'parser': 'parser', 'parser_test': 'parser', 'main': 'cmd/pql', 'main_test': 'cmd/pql'}.get(pkg, '.')
    readme = [l for l in open(d + 'README.md').read().split('\n') if l.strip()]
    meta = {
        'property': pid, 'variant': newname[v], 'round': 8,
        'origin': 'independent sub-agent that saw only the property text and a scratch worktree (eighth round: ' + kind[v] + ')',
        'needs_to_manifest': readme[0].strip('# ').strip() if readme else '',
        'demonstration': f'copy demo_test.go.txt to {where}/zz_seed_demo_test.go in a worktree of /repo and run `go test -count=1 .` there',
        'confirmed': {'applies_to': 'repo HEAD cf6718a', 'suite_with_change': 'go build ./... && go vet ./... && go test -count=1 ./... : 3 packages ok',
                      'demo_with_change': 'FAIL', 'demo_without_change': 'ok', 'how': 'seedcheck3.sh (given the round-8 directory) in a scratch git worktree under /tmp (removed afterwards)'},
    }
    json.dump(meta, open(dst + '/meta.json', 'w'), indent=1)
    print('filed', dst)
