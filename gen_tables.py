#!/usr/bin/env python3
"""Development helper: prints the markdown tables of DESIGN.md section 6 from the kept corpora.
  gen_tables.py seeded            -> catch table of the independent seeded changes (from seeded/*/*/meta.json)
  gen_tables.py benign <results>  -> table of the behaviour-preserving changes (from a benignall.sh result file)
  gen_tables.py fill <results>    -> writes both tables into DESIGN.md between their markers
  gen_tables.py summary <binary> <repo> -> refreshes the rule/obligation column of the table in section 0
Never called by a registered check."""
import glob, json, os, re, sys
os.chdir('/verif')

def seeded():
    rows = []
    per_round = {}
    for mp in sorted(glob.glob('seeded/C*/*/meta.json')):
        m = json.load(open(mp))
        pid, v = m['property'], m['variant']
        need = m.get('needs_to_manifest', '').replace('|', '\\|')
        need = re.sub(r'^C\d\d\s*/\s*variant\s+\w\s*[-–:]\s*', '', need)
        own = m.get('own_check', {})
        allc = m.get('all_checks', {})
        own_rules = ', '.join(own.get('rules', [])) or '—'
        others = ', '.join(p for p in allc.get('properties_alarming', []) if p != pid) or '—'
        rd = m.get('round', 1)
        st = per_round.setdefault(rd, [0, 0, 0])
        st[0] += 1
        if m.get('caught'):
            st[1] += 1
        elif allc.get('properties_alarming'):
            st[2] += 1
        rows.append((pid, v, rd, need[:150], own_rules if m.get('caught') else '**not reported by the own check**', others))
    print('| change | round | needs, to manifest | reported by (own check) | other checks alarming |')
    print('|---|---|---|---|---|')
    for pid, v, rd, need, own, others in rows:
        print(f'| {pid}/{v} | {rd} | {need} | {own} | {others} |')
    print()
    for rd in sorted(per_round):
        n, own, other = per_round[rd]
        print(f'round {rd}: {n} changes, {own} reported by the own check, {other} more only by another property\'s check, {n-own-other} by none')

def benign(path):
    txt = open(path).read()
    blocks = re.split(r'(?m)^=== (\S+)\n', txt)
    print('| change | what it does | result |')
    print('|---|---|---|')
    for i in range(1, len(blocks), 2):
        name, body = blocks[i], blocks[i+1]
        rules = sorted(set(re.findall(r'violation (\S+) ', body)))
        err = 'CHECKER-ERROR' in body
        readme = ''
        for fn in ('README.md',):
            p = f'benign/{name}/{fn}'
            if os.path.exists(p):
                readme = ' '.join(open(p).read().split())[:140].replace('|', '\\|')
        note = os.path.exists(f'benign/{name}/NOTE.md')
        if not rules and not err:
            res = 'silent'
        else:
            res = ('alarm: ' + ', '.join(rules)) if rules else 'checker error (anchor/floor)'
            if note:
                res += ' — correct, see NOTE.md'
        print(f'| {name} | {readme} | {res} |')

def summary(binary, repo):
    """rewrites columns 2-3 of the table in section 0 from a run of the checks"""
    import subprocess
    d = open('DESIGN.md').read()
    for pid in [f'C{i:02d}' for i in range(1, 17)]:
        out = subprocess.run(f'VERIF_DIR=/verif {binary} check {pid} --no-evidence --repo {repo}', shell=True, capture_output=True, text=True).stdout
        m = re.search(r'== %s \(quick\): (\d+) obligations' % pid, out)
        total = m.group(1) if m else '?'
        rules = re.findall(r'^  (C\d\d/[\w-]+)\s+(\d+)/(\d+)', out, re.M)
        own = [f'{r.split("/")[1]} ({n})' for r, n, _ in rules if r.startswith(pid + '/')]
        other = [f'{r} ({n})' for r, n, _ in rules if not r.startswith(pid + '/')]
        cell = ', '.join(own)
        if other:
            cell += '; shared: ' + ', '.join(other)
        cell += f' — {total} obligations'
        row = re.search(r'^\| %s \| (\w+) \| (.*?) \| (.*?) \| (.*?) \|$' % pid, d, re.M)
        if not row:
            continue
        new = f'| {pid} | {row.group(1)} | {cell} | {row.group(3)} | {row.group(4)} |'
        d = d.replace(row.group(0), new, 1)
    open('DESIGN.md', 'w').write(d)

def fill(benign_results):
    import io, contextlib
    d = open('DESIGN.md').read()
    for name, fn in (('SEEDED', seeded), ('BENIGN', lambda: benign(benign_results))):
        buf = io.StringIO()
        with contextlib.redirect_stdout(buf):
            fn()
        b, e = f'<!-- {name}-TABLE-BEGIN -->', f'<!-- {name}-TABLE-END -->'
        i, j = d.index(b) + len(b), d.index(e)
        d = d[:i] + '\n' + buf.getvalue() + d[j:]
    open('DESIGN.md', 'w').write(d)

if __name__ == '__main__':
    if len(sys.argv) >= 4 and sys.argv[1] == 'summary':
        summary(sys.argv[2], sys.argv[3])
    elif len(sys.argv) >= 3 and sys.argv[1] == 'fill':
        fill(sys.argv[2])
    elif len(sys.argv) >= 2 and sys.argv[1] == 'seeded':
        seeded()
    elif len(sys.argv) >= 3 and sys.argv[1] == 'benign':
        benign(sys.argv[2])
    else:
        print(__doc__)
