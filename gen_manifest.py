#!/usr/bin/env python3
"""Regenerates /verif/MANIFEST.json from the table below (development helper; the manifest itself is committed)."""
import json
ENV = "GOFLAGS=-mod=mod GOPROXY=off GOSUMDB=off GOTOOLCHAIN=local"
NOTE = "Decides only the structural necessary conditions named in the evidence file's coverage.explanation; the behavioural remainder of the property (values computed on rows / bytes / inputs) is not decided. Trusted: go/packages, go/types, go/ssa (x/tools v0.29.0), the rule code, and the specification tables in checker/internal/pc (taken from the property text and README)."
CLAIMED = {
 "C02": ("other", "Path-sensitive typestate check of splitQueries (pending sort/take never crossed), canAttachSort refuse-set, top = sort+take, clause order and sort-default tables. These are the decision points the property names; result-set equality itself is out of reach of static analysis.", "DESIGN.md §3 C02",
         "typestate over an AST abstract interpreter with path facts + table extraction"),
 "C09": ("other", "Scanner back-up typestate on every path, token span shape at every construction site, Scan's dispatch read as a table with path facts and compared with the documented token table, first-character classes of the sub-scanners and the white-space class recovered from path facts and compared on U+0000..U+30FF, every documented lexeme yields a token, escape decoding of string literals. Kinds/values of arbitrary lexemes are runtime quantities and are not decided.", "DESIGN.md §3 C09",
         "typestate + table extraction with path facts (AST abstract interpreter)"),
 "C11": ("other", "parser.Walk read as a table: pushed dynamic types subset of handled cases, every node field pushed once, optional fields nil-guarded, one gated visitor call per case. Nearly the whole property is a shape property of one function, so a table-agreement check is the right level.", "DESIGN.md §3 C11",
         "table extraction from the type switch (go/types implementers vs cases) + AST guard matching"),
}
CLAIMED["C13"] = ("other", "Return-pair typestate of Compile on every path, single-query typestate, arity ranges at the first emission of every built-in writer compared with the documented table, error discipline of every emitting call, let-mode and join-alias gates as must-facts at the identifier emission, row-count and join-kind validation in the parser, no error value overwritten before it is looked at. 'Every rule-abiding program compiles' quantifies over programs and is not decided.", "DESIGN.md §3 C13",
         "path facts (AST abstract interpreter) at return/emission sites + table agreement")
CLAIMED["C16"] = ("other", "Sibling/must-check rules on cmd/pql run and main with path facts: every Compile call gets the let prelude, read errors are consulted and returned, the failure flag is sticky, the prelude grows only on validated statements, output format, exit status, carry of the unfinished statement, plus the splitter rules of C15. Byte-exact stdout over all scripts is a runtime quantity and is not decided.", "DESIGN.md §3 C16",
         "path facts (AST abstract interpreter) at call/return sites of cmd/pql")
CLAIMED["C14"] = ("proof", "Absence of shared mutable state and ambient input is an effect property of the code, decided soundly by an interprocedural provenance/effect analysis over the SSA form of every function of the two library packages: every write is to call-local memory, globals are written only at init or under their own sync.Once, no goroutines/channels/time/rand/os/reflect/unsafe, map iteration order never reaches output, nil options guarded. All obligations must be discharged or the check fails.", "DESIGN.md §3 C14",
         "interprocedural effect/provenance analysis on go/ssa (allocation-site classes, fixpoint over call sites)")
CLAIMED["C15"] = ("other", "Provenance of every cut offset in SplitStatements with path facts (only Span.Start/End of tokens known to be TokenSemi from Scan of the same string), tail piece unconditional, Parse's splitter tests the same kind on the same scan, every return hands back the pieces, and the scanner's look-ahead typestate (C09/backup, C09/lookahead). That a piece scanned alone yields the same tokens depends on every lexer look-ahead and is not decided.", "DESIGN.md §3 C15",
         "value-provenance rule with path facts (AST abstract interpreter)")
CLAIMED["C10"] = ("other", "Completeness of all per-node Span() unions against the struct definitions, provenance class of every recorded span (token span / nullSpan / union of token bounds / copy), error-position safety, the shape of every source slice by span, line:column counted in characters, clause spans of sort terms. Exactness of each position on every input is a runtime quantity and is not decided.", "DESIGN.md §3 C10",
         "exhaustiveness check over go/types struct fields + syntactic provenance classes of span values")
CLAIMED["C07"] = ("other", "Precedence table order, precedence-climbing guards as path facts at the BinaryExpr construction and the recursive call, sign operand production, keyword/synonym table of the tabular operators, sort-term defaults and their rendering, every production result kept in the tree. The tree for every derivation and layout independence quantify over inputs and are not decided.", "DESIGN.md §3 C07",
         "table extraction from switches + path facts (AST abstract interpreter) at construction sites")
CLAIMED["C01"] = ("other", "Output-grammar derivation of the expression writer with closedness classes at every operand hole, needsParens agreement, descending unwrap loops, reader/writer operator table agreement and built-in rewrite skeletons. Value equality over rows needs the semantics of both languages and is not decided.", "DESIGN.md §3 C01",
         "grammar extraction by abstract interpretation + FIRST/LAST-style class analysis + table agreement")
CLAIMED["C04"] = ("other", "Taint analysis of every raw write into the SQL text with path facts, no hand-made quotes, escape sets of the two sanitizers recovered from their per-byte branches and compared with the dialect's metacharacters (missing and extra escapes), pass-through function names are identifier tokens. Decoding by a real SQL lexer and numeric value preservation are not decided.", "DESIGN.md §3 C04",
         "taint analysis over the derived output grammar + sanitizer escape-set recovery")
CLAIMED["C05"] = ("other", "Bracket-depth abstract interpretation over every emitting function (path-sensitive), single terminator, and deadness of all placeholder branches by constructed-vs-handled set inclusion, table references name subqueries that are defined. Whether arbitrary accepted programs parse under ClickHouse is not decided.", "DESIGN.md §3 C05",
         "abstract interpretation of bracket depth over the derived grammar + exhaustiveness tables")
CLAIMED["C06"] = ("other", "Provenance of the scope in every expression context, the single guarded lookup site as path facts, closedness class of stored let values from the derived grammar, let mode, lets after the query, store order, parameter copy. Evaluation equivalence of substituted SQL is not decided.", "DESIGN.md §3 C06",
         "value-provenance over call sites + path facts at the lookup site + grammar class of the let production")
CLAIMED["C03"] = ("other", "Join-kind table agreement parser/compiler/documentation, what is written per kind read off the derived grammar with path facts (DISTINCT, JOIN, LEFT JOIN), left index fixed before the recursion on the right-hand pipeline, bare-name rewrite and AND-fold shapes, $left/$right gate. Join result equality on databases is not decided.", "DESIGN.md §3 C03",
         "table agreement + path facts on the derived join-source grammar + AST shape rules")
CLAIMED["C08"] = ("other", "Pairing rule for every split range (closed by endSplit, an explicit exhaustion test or a recorded error on every path), interprocedural not-found hygiene (a not-found error that can reach an isNotFound decision was produced before any token was consumed), and no production accepts the lexer's error token. 'Re-printing the tree gives back the token sequence' for all inputs is not decided.", "DESIGN.md §3 C08",
         "typestate/pairing over an AST abstract interpreter + bottom-up production summaries to a fixpoint")
CLAIMED["C12"] = ("other", "Progress witnesses for every unbounded loop on every abstract back-edge path (net successful cursor reads, with interprocedural consumption summaries), cursor discipline, acyclicity of same-node recursion in every call-graph SCC, deadness of explicit panics and discharge of every index/slice expression by guard facts (in the helper or in each caller's context) or a reviewed row, errors merged at most once. Time bounds, stack depth and general nil-safety are not decided.", "DESIGN.md §3 C12",
         "termination witnesses and bounds-obligation discharge over an AST abstract interpreter + call-graph SCC analysis")
NA = {}
def main():
    props = [json.loads(l) for l in open('/verif/properties.jsonl')]
    m = {"version": 1,
         "setup_cmd": "cd checker && env -u GOWORK %s go build -o ../pqlcheck ./cmd/pqlcheck" % ENV,
         "hooks": {"guard": "verif", "enable": "none needed: the static checks read /repo's source; no instrumentation is compiled in", "baseline_off_cmd": "cd /repo && env GOFLAGS=-mod=mod GOPROXY=off go test -count=1 ./...", "source_commits": [], "add_only": True},
         "engines": [{"name": "pqlcheck", "path": "checker/", "serves_properties": sorted(CLAIMED), "kind_free_text": "repository-specific static analyser (go/packages + go/types + AST abstract interpreter with path facts + go/ssa), one binary, rules per property"}],
         "checks": [], "not_applicable": [],
         "notes": "Technique family: static analysis only. Every check loads /repo's working tree, type-checks it and decides structural necessary conditions; see DESIGN.md. thorough = quick + checker self-validation on the seeded-break corpus under mutants/ (scratch copies under $TMPDIR, removed at once)."}
    for p in props:
        i = p['id']
        if i in CLAIMED:
            lvl, text, ref, tech = CLAIMED[i]
            m["checks"].append({"property_id": i, "quick_cmd": "./pqlcheck check %s --tier quick" % i, "thorough_cmd": "./pqlcheck check %s --tier thorough" % i, "evidence_file": "evidence/%s.json" % i, "replay_cmd_template": "./pqlcheck explain {path}", "engine": "pqlcheck", "level_claimed": {"category": lvl, "text": text, "design_ref": ref}, "level_note": NOTE, "technique": tech})
        else:
            m["not_applicable"].append({"property_id": i, "reason": NA.get(i, "check not built yet in this session (planned, see DESIGN.md §3)")})
    json.dump(m, open('/verif/MANIFEST.json', 'w'), indent=1)
main()
