#!/bin/bash
# Development helper: runs the checks against every kept behaviour-preserving change (benign/<W>/<V>/patch.diff),
# six at a time.   usage: benignall.sh [binary] [outfile]
BIN=${1:-/verif/pqlcheck}
OUT=${2:-/tmp/benign_res.txt}
TMP=$(mktemp -d /tmp/bnall.XXXX)
export BIN TMP
one() {
  d=$1
  n=$(basename $(dirname $d))_$(basename $d)
  NOSUITE=1 WIDTH=${WIDTH:-260} /verif/benigncheck.sh $d/patch.diff $BIN "${PROPS:-all}" 2>&1 | head -${LINES_MAX:-14} > $TMP/$n.txt
}
export -f one
for d in /verif/benign/*/*/; do
  [ -f $d/patch.diff ] && echo "${d%/}"
done | xargs -P 6 -I{} bash -c 'one {}'
: > $OUT
for f in $(ls $TMP/*.txt | sort); do
  n=$(basename $f .txt); echo "=== ${n%_*}/${n#*_}" >> $OUT; cat $f >> $OUT
done
rm -rf $TMP
grep -c "^===" $OUT
