#!/bin/bash
# Development helper: runs the checks against every kept behaviour-preserving change (benign/<W>/<V>/patch.diff).
# usage: benignall.sh [binary] [outfile]
BIN=${1:-/verif/pqlcheck}
OUT=${2:-/tmp/benign_res.txt}
: > $OUT
for d in /verif/benign/*/*/; do
  f=$d/patch.diff; [ -f $f ] || continue
  echo "=== $(basename $(dirname $d))/$(basename $d)" >> $OUT
  NOSUITE=1 WIDTH=${WIDTH:-260} /verif/benigncheck.sh $f $BIN all 2>&1 | head -${LINES_MAX:-14} >> $OUT
done
grep -c "^===" $OUT
