// Command pqlcheck decides structural necessary conditions of the pql properties
// by static analysis of /repo's current source.
package main

import (
	"encoding/json"
	"flag"
	"fmt"
	"os"
	"path/filepath"
	"strconv"
	"strings"

	"pqlverif/checker/internal/pc"
)

func verifDir() string {
	if d := os.Getenv("VERIF_DIR"); d != "" {
		return d
	}
	exe, err := os.Executable()
	if err == nil {
		d := filepath.Dir(exe)
		if _, err := os.Stat(filepath.Join(d, "properties.jsonl")); err == nil {
			return d
		}
	}
	wd, _ := os.Getwd()
	return wd
}

func main() {
	if len(os.Args) < 2 {
		usage()
	}
	code := 0
	func() {
		defer func() {
			if e := recover(); e != nil {
				if ce, ok := e.(*pc.CheckerError); ok {
					fmt.Fprintf(os.Stderr, "pqlcheck: CHECKER-ERROR: %s\n", ce.Msg)
					code = 2
					if os.Args[1] == "check" {
						// the tree could not even be loaded: nothing is shown to hold
						for _, a := range os.Args[2:] {
							if len(a) == 3 && a[0] == 'C' {
								fmt.Printf("VIOLATION property=%s replay=(undecided: %s)\n", a, ce.Msg)
								code = 1
							}
						}
						if code == 2 {
							for _, id := range pc.PropertyIDs() {
								fmt.Printf("VIOLATION property=%s replay=(undecided: %s)\n", id, ce.Msg)
							}
							code = 1
						}
					}
					return
				}
				panic(e)
			}
		}()
		switch os.Args[1] {
		case "check":
			code = cmdCheck(os.Args[2:])
		case "explain":
			code = cmdExplain(os.Args[2:])
		case "selftest":
			code = pc.CmdSelftest(os.Args[2:], verifDir())
		case "grammar":
			dir := "/repo"
			if d := os.Getenv("PQL_REPO"); d != "" {
				dir = d
			}
			prog := pc.Load(dir)
			fmt.Print(prog.Grammar().Dump())
		case "anchors":
			// development: prints the fingerprint table (internal/pc/anchors_gen.go) of the tree under review
			dir := "/repo"
			if d := os.Getenv("PQL_REPO"); d != "" {
				dir = d
			}
			fmt.Print(pc.Load(dir).AnchorsSource())
		case "list":
			for _, id := range pc.PropertyIDs() {
				fmt.Println(id)
			}
		default:
			usage()
		}
	}()
	os.Exit(code)
}

func usage() {
	fmt.Fprintln(os.Stderr, "usage: pqlcheck check <Cxx|all> [--tier quick|thorough] [--repo DIR] [--no-evidence]\n       pqlcheck explain <report.json>\n       pqlcheck selftest <Cxx|all>")
	os.Exit(2)
}

func cmdCheck(args []string) int {
	fs := flag.NewFlagSet("check", flag.ExitOnError)
	tier := fs.String("tier", "", "quick or thorough")
	repo := fs.String("repo", "/repo", "module root to analyse")
	noEvidence := fs.Bool("no-evidence", false, "do not write evidence/report files (used by selftest)")
	verbose := fs.Bool("v", false, "print every obligation")
	var ids []string
	for len(args) > 0 && !strings.HasPrefix(args[0], "-") {
		ids = append(ids, args[0])
		args = args[1:]
	}
	fs.Parse(args)
	if *tier == "" {
		*tier = os.Getenv("VERIF_TIER")
	}
	if *tier == "" {
		*tier = "quick"
	}
	if *tier != "quick" && *tier != "thorough" {
		usage()
	}
	if len(ids) == 0 {
		usage()
	}
	if len(ids) == 1 && ids[0] == "all" {
		ids = pc.PropertyIDs()
	}
	seed := 0
	if s := os.Getenv("VERIF_SEED"); s != "" {
		seed, _ = strconv.Atoi(s)
	}
	vdir := verifDir()
	prog := pc.Load(*repo)
	known := pc.LoadKnown(filepath.Join(vdir, "known_findings.json"))
	exit := 0
	for _, id := range ids {
		prop := pc.Lookup(id)
		if prop == nil {
			fmt.Fprintf(os.Stderr, "pqlcheck: unknown property %s\n", id)
			return 2
		}
		run := pc.NewRun(id, *tier)
		// a rule that cannot be applied (an anchor is gone, the tree does not type-check) decides nothing: the
		// property is reported as not shown to hold, never as held
		if msg := runRules(prop, prog, run); msg != "" {
			fmt.Fprintf(os.Stderr, "pqlcheck: CHECKER-ERROR: %s\n", msg)
			fmt.Printf("== %s (%s): undecided\n  violation %s/undecided %s: the check cannot be applied to this tree (%s); the property is not shown to hold\n", id, *tier, id, id, msg)
			fmt.Printf("VIOLATION property=%s replay=(undecided: %s)\n", id, msg)
			exit = 1
			continue
		}
		extra := map[string]any{}
		selfOK := true
		if *tier == "thorough" && !*noEvidence {
			res := pc.Selftest(id, vdir, *repo)
			extra["selftest"] = res
			selfOK = res.OK
		}
		out := run.Outcome(known)
		fmt.Printf("== %s (%s): %d obligations, %d violated, %d known\n%s", id, *tier, len(run.Obs), len(out.Violations), len(out.Known), run.Summary())
		if *verbose {
			for _, o := range run.Obs {
				st := "ok  "
				if !o.OK {
					st = "FAIL"
				}
				fmt.Printf("   %s %-18s %s [%s] %s\n", st, o.Rule, o.Key, o.Pos, o.How)
			}
		}
		for _, o := range out.Known {
			fmt.Printf("KNOWN-FINDING: property=%s %s %s [%s]: %s\n", id, o.Rule, o.Key, o.Pos, out.KnownWhat[o.Rule+"\x00"+o.Key])
		}
		if !*noEvidence {
			cmd := fmt.Sprintf("./pqlcheck check %s --tier %s", id, *tier)
			run.WriteEvidence(filepath.Join(vdir, "evidence"), prop.Meta, out, seed, cmd, extra)
		}
		if len(out.FloorFails) > 0 {
			for _, f := range out.FloorFails {
				fmt.Fprintf(os.Stderr, "pqlcheck: CHECKER-ERROR: %s\n", f)
				fmt.Printf("  violation %s/undecided %s: a rule found fewer instances than it must (%s): the code it decides about is gone or has changed shape; the property is not shown to hold\n", id, id, f)
			}
			if len(out.Violations) == 0 {
				fmt.Printf("VIOLATION property=%s replay=(undecided: vacuity guard)\n", id)
			}
			exit = 1
		}
		if !selfOK {
			fmt.Fprintf(os.Stderr, "pqlcheck: CHECKER-ERROR: selftest of %s failed (a seeded break was not detected or a fixture was not flagged)\n", id)
			if exit == 0 {
				exit = 2
			}
		}
		if len(out.Violations) > 0 {
			for _, o := range out.Violations {
				fmt.Printf("  violation %s %s [%s]: %s\n", o.Rule, o.Key, o.Pos, o.How)
			}
			path := ""
			if !*noEvidence {
				path = run.WriteReport(filepath.Join(vdir, "reports"), out)
			} else {
				path = "(not written)"
			}
			fmt.Printf("VIOLATION property=%s replay=%s\n", id, path)
			exit = 1
		}
	}
	return exit
}

// runRules runs the rules of one property; a checker error (missing anchor, unsupported shape) is returned as text.
func runRules(prop *pc.Property, prog *pc.Program, run *pc.Run) (msg string) {
	defer func() {
		if e := recover(); e != nil {
			if ce, ok := e.(*pc.CheckerError); ok {
				msg = ce.Msg
				return
			}
			panic(e)
		}
	}()
	for _, rule := range prop.Rules {
		rule(prog, run)
	}
	return ""
}

func cmdExplain(args []string) int {
	if len(args) != 1 {
		usage()
	}
	b, err := os.ReadFile(args[0])
	if err != nil {
		fmt.Fprintln(os.Stderr, err)
		return 2
	}
	var rep struct {
		Property   string  `json:"property"`
		Tier       string  `json:"tier"`
		Violations []pc.Ob `json:"violations"`
	}
	if err := json.Unmarshal(b, &rep); err != nil {
		fmt.Fprintln(os.Stderr, err)
		return 2
	}
	fmt.Printf("recorded report for %s (%s): %d violation(s)\n", rep.Property, rep.Tier, len(rep.Violations))
	for _, o := range rep.Violations {
		fmt.Printf("  %s %s [%s]: %s\n", o.Rule, o.Key, o.Pos, o.How)
	}
	fmt.Println("re-running the property's rules on the current tree:")
	return cmdCheck([]string{rep.Property, "--tier", "quick", "--no-evidence", "-v"})
}
