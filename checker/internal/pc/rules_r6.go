package pc

import (
	"fmt"
	"go/ast"
	"go/token"
	"go/types"
	"sort"
	"strings"
)

// ---- C09/resync: a character that starts no token costs exactly itself.
//
// Scan's dispatch has one arm for characters that begin no lexeme of the language: it reports the character as an
// error token and goes on with the next one. That arm must not read any further: whatever follows the offending
// character is a lexeme of its own (an identifier, a number, an operator) and has to be scanned as such - a longer
// "resynchronisation" swallows valid tokens into the error token. Decided on the shape of the dispatch: the arm
// without a condition (the default clause of the dispatch switch, or the final else of an if-chain) contains no
// statement that can move the scanner (no store to its position, no call whose write summary includes it).
func ruleC09Resync(p *Program, r *Run) {
	pkg := p.Parser
	info := pkg.TypesInfo
	fd := p.MustFunc(pkg, "Scan")
	fn := FuncName(pkg, fd)
	r.Saw(fn)
	var loop *ast.ForStmt
	for _, s := range fd.Body.List {
		if f, ok := s.(*ast.ForStmt); ok {
			loop = f
			break
		}
	}
	if loop == nil {
		r.PassNT("C09/resync", fn+" arm for characters that start no token", p.Pos(fd.Pos()), "the scanning loop is not a for statement of Scan's body; not decided by this rule")
		return
	}
	// the dispatch: the last statement of the loop body that branches
	var arm []ast.Stmt
	var armPos token.Pos
	for i := len(loop.Body.List) - 1; i >= 0 && arm == nil; i-- {
		switch v := loop.Body.List[i].(type) {
		case *ast.SwitchStmt:
			for _, cc := range v.Body.List {
				if cl := cc.(*ast.CaseClause); cl.List == nil {
					arm, armPos = cl.Body, cl.Pos()
				}
			}
		case *ast.IfStmt:
			var cur ast.Stmt = v
			for cur != nil {
				is, ok := cur.(*ast.IfStmt)
				if !ok {
					if b, isB := cur.(*ast.BlockStmt); isB {
						arm, armPos = b.List, b.Pos()
					}
					break
				}
				cur = is.Else
			}
		}
	}
	// an arm that only branches further: the unconditional arm of that branching
	for len(arm) == 1 {
		var next []ast.Stmt
		var nextPos token.Pos
		switch v := arm[0].(type) {
		case *ast.SwitchStmt:
			for _, cc := range v.Body.List {
				if cl := cc.(*ast.CaseClause); cl.List == nil {
					next, nextPos = cl.Body, cl.Pos()
				}
			}
		case *ast.IfStmt:
			var cur ast.Stmt = v
			for cur != nil {
				is, ok := cur.(*ast.IfStmt)
				if !ok {
					if b, isB := cur.(*ast.BlockStmt); isB {
						next, nextPos = b.List, b.Pos()
					}
					break
				}
				cur = is.Else
			}
		}
		if next == nil {
			break
		}
		arm, armPos = next, nextPos
	}
	key := fn + " arm for characters that start no token"
	if arm == nil {
		r.PassNT("C09/resync", key, p.Pos(loop.Pos()), "the dispatch has no unconditional arm; every character belongs to a class that C09/tables and C09/classes account for")
		return
	}
	sums := p.Summaries()
	isScannerT := func(t types.Type) bool {
		return t != nil && strings.HasSuffix(strings.TrimPrefix(TypeStr(t), "*"), "parser.scanner")
	}
	movesScanner := func(f *types.Func) bool {
		w, ok := sums.Writes[f]
		if !ok && f.Origin() != nil {
			w, ok = sums.Writes[f.Origin()]
		}
		if !ok {
			return false // not a module function: works on its arguments only
		}
		if w.All {
			return true
		}
		for fld := range w.Fields {
			if fldName(fld) == "pos" || fldName(fld) == "last" {
				return true
			}
		}
		return false
	}
	bad := ""
	for _, s := range arm {
		ast.Inspect(s, func(n ast.Node) bool {
			if bad != "" {
				return false
			}
			switch v := n.(type) {
			case *ast.CallExpr:
				if f := Callee(info, v); f != nil && movesScanner(f) {
					touches := cursorOf(f) == "scanner"
					for _, a := range v.Args {
						if t := info.TypeOf(a); isScannerT(t) {
							touches = true
						}
					}
					if touches {
						bad = fmt.Sprintf("%s is called at %s", exprStr(v.Fun), p.Pos(v.Pos()))
					}
				}
			case *ast.AssignStmt:
				for _, l := range v.Lhs {
					if sel, ok := ast.Unparen(l).(*ast.SelectorExpr); ok && isScannerT(info.TypeOf(sel.X)) {
						bad = fmt.Sprintf("the scanner field %s is assigned at %s", sel.Sel.Name, p.Pos(v.Pos()))
					}
				}
			case *ast.IncDecStmt:
				if sel, ok := ast.Unparen(v.X).(*ast.SelectorExpr); ok && isScannerT(info.TypeOf(sel.X)) {
					bad = fmt.Sprintf("the scanner field %s is changed at %s", sel.Sel.Name, p.Pos(v.Pos()))
				}
			}
			return true
		})
	}
	r.Check(bad == "", "C09/resync", key, p.Pos(armPos), "the arm reports the character it was selected by and reads nothing further", "the arm for characters that start no token moves the scanner ("+bad+"): the error token swallows whatever follows the offending character, so valid lexemes after it are not scanned as tokens of their own")
}

// ---- C10/union (whole spans): a node's extent is put together from whole recorded spans.
//
// Span() methods and the helpers they share (the nil-safe accessor, the list and union helpers) may select,
// compare and combine the spans recorded in the tree, but never compute a position of their own: an offset added
// to or subtracted from a recorded start or end designates something that is not a token boundary. And each of them
// answers for the very node (or list) it was asked about: the receiver, a node parameter or the loop variable over
// a node list is never replaced by another node (a child, an unwrapped operand).
func ruleC10Whole(p *Program, r *Run) {
	pkg := p.Parser
	info := pkg.TypesInfo
	spanT := p.spanType()
	nodeIface := p.Iface(pkg, "Node")
	methods := p.spanMethods()
	// the helpers: functions of the package that return a span, take no integer, and are reached from a Span method
	decls := map[*types.Func]*ast.FuncDecl{}
	for _, fd := range AllFuncs(pkg) {
		if f := FuncObj(pkg, fd); f != nil {
			decls[f] = fd
		}
	}
	set := map[*ast.FuncDecl]bool{}
	var work []*ast.FuncDecl
	for _, fd := range methods {
		set[fd] = true
		work = append(work, fd)
	}
	takesInt := func(f *types.Func) bool {
		ps := f.Type().(*types.Signature).Params()
		for i := 0; i < ps.Len(); i++ {
			if b, ok := ps.At(i).Type().Underlying().(*types.Basic); ok && b.Info()&types.IsInteger != 0 {
				return true
			}
		}
		return false
	}
	for len(work) > 0 {
		fd := work[len(work)-1]
		work = work[:len(work)-1]
		ast.Inspect(fd.Body, func(n ast.Node) bool {
			call, ok := n.(*ast.CallExpr)
			if !ok {
				return true
			}
			f := Callee(info, call)
			if f == nil {
				return true
			}
			if f.Origin() != nil {
				f = f.Origin()
			}
			d := decls[f]
			if d == nil || set[d] || d.Recv != nil {
				return true
			}
			res := f.Type().(*types.Signature).Results()
			if res.Len() != 1 || !types.Identical(res.At(0).Type(), spanT) || takesInt(f) || f.Type().(*types.Signature).Params().Len() == 0 {
				return true
			}
			set[d] = true
			work = append(work, d)
			return true
		})
	}
	var fds []*ast.FuncDecl
	for fd := range set {
		fds = append(fds, fd)
	}
	sortDecls(fds)
	isPosition := func(x ast.Expr) bool {
		found := false
		ast.Inspect(x, func(n ast.Node) bool {
			switch v := n.(type) {
			case *ast.SelectorExpr:
				if t := info.TypeOf(v.X); t != nil && types.Identical(t, spanT) {
					if f := selField(info, v); f != nil {
						found = true
					}
				}
			case *ast.CallExpr:
				if sel, ok := ast.Unparen(v.Fun).(*ast.SelectorExpr); ok {
					if t := info.TypeOf(sel.X); t != nil && types.Identical(t, spanT) {
						if rt := info.TypeOf(v); rt != nil {
							if b, isB := rt.Underlying().(*types.Basic); isB && b.Info()&types.IsInteger != 0 {
								found = true // span.Len()
							}
						}
					}
				}
			}
			return !found
		})
		return found
	}
	isNodeVar := func(o types.Object) bool {
		v, ok := o.(*types.Var)
		if !ok || v.IsField() {
			return false
		}
		t := v.Type()
		if sl, isSl := t.Underlying().(*types.Slice); isSl {
			t = sl.Elem()
		}
		if tp, isTP := t.(*types.TypeParam); isTP {
			return types.Implements(tp.Constraint(), nodeIface) || types.Identical(tp.Constraint().Underlying(), nodeIface.Underlying())
		}
		return types.Implements(t, nodeIface)
	}
	for _, fd := range fds {
		fn := FuncName(pkg, fd)
		bad := ""
		// what the function was asked about: receiver, parameters, variables of range loops
		asked := map[types.Object]bool{}
		if fd.Recv != nil {
			for _, f := range fd.Recv.List {
				for _, nm := range f.Names {
					asked[info.Defs[nm]] = true
				}
			}
		}
		for _, f := range fd.Type.Params.List {
			for _, nm := range f.Names {
				asked[info.Defs[nm]] = true
			}
		}
		ast.Inspect(fd.Body, func(n ast.Node) bool {
			if rs, ok := n.(*ast.RangeStmt); ok && rs.Tok == token.DEFINE {
				for _, x := range []ast.Expr{rs.Key, rs.Value} {
					if id, isID := x.(*ast.Ident); isID {
						asked[info.Defs[id]] = true
					}
				}
			}
			return true
		})
		ast.Inspect(fd.Body, func(n ast.Node) bool {
			if bad != "" {
				return false
			}
			switch v := n.(type) {
			case *ast.BinaryExpr:
				switch v.Op {
				case token.ADD, token.SUB, token.MUL, token.QUO, token.REM, token.SHL, token.SHR:
					if isPosition(v.X) || isPosition(v.Y) {
						bad = fmt.Sprintf("%s computes %s: a position that is not the recorded start or end of a part", p.Pos(v.Pos()), exprStr(v))
					}
				}
			case *ast.AssignStmt:
				if v.Tok == token.DEFINE {
					return true
				}
				for _, l := range v.Lhs {
					if id, ok := ast.Unparen(l).(*ast.Ident); ok {
						if o := objOf(info, id); o != nil && asked[o] && isNodeVar(o) {
							if _, isSl := o.Type().Underlying().(*types.Slice); isSl {
								continue // shrinking a list while walking it
							}
							bad = fmt.Sprintf("%s replaces the node %s it was asked about by another one: the span reported for a node would be that of a part of it", p.Pos(v.Pos()), id.Name)
						}
					}
				}
				if v.Tok != token.ASSIGN {
					for _, l := range v.Lhs {
						if isPosition(l) {
							bad = fmt.Sprintf("%s changes a recorded position in place", p.Pos(v.Pos()))
						}
					}
				}
			case *ast.IncDecStmt:
				if isPosition(v.X) {
					bad = fmt.Sprintf("%s changes a recorded position in place", p.Pos(v.Pos()))
				}
			}
			return true
		})
		r.Check(bad == "", "C10/union", fn+" reports whole spans of the node it is given", p.Pos(fd.Pos()), "only selects, compares and combines recorded spans; the receiver, node parameters and loop variables are never replaced", bad)
	}
}

func sortDecls(fds []*ast.FuncDecl) {
	for i := 1; i < len(fds); i++ {
		for j := i; j > 0 && fds[j].Pos() < fds[j-1].Pos(); j-- {
			fds[j], fds[j-1] = fds[j-1], fds[j]
		}
	}
}

// ---- C07/filled: a production that succeeds hands back a complete node.
//
// The parser's productions return (node, error) or (list, error). What the rest of the system relies on - the tree
// walk, the compiler, Span() - is that after a successful parse every part the grammar requires is there: the
// operand of a sign, both sides of a binary operator, the column of `top ... by`, at least one sort term, at least
// one value between the parentheses of `in`, at least one join condition. Which fields are optional is derived
// (fields a production assigns nil or leaves out of its literal, and fields the consumers of the tree test against
// nil); every other node-typed field is required, and the lists of requiredLists must not be empty.
//
// The rule reports only what the code itself shows to be left out - it never alarms on a value of unknown origin.
// Three-valued per value: present (a literal, a value tested against nil, the result of a production whose every
// successful return gives one), absent by evidence (an explicit nil, a field a literal leaves out and nothing
// stores afterwards, a list that was never appended to, the result of a production that has a return giving
// nothing together with a nil error), or unknown. Summaries of productions (and of their helpers that return
// nodes) are computed from their returns: `v, err := production()` continues as (err == nil, v as the summary
// says) or (err != nil); errors merged or wrapped by the module's error combinators stay errors. Obligations:
//   - at every return on which no error has occurred, no required field of the returned node is absent;
//   - wherever a required field is given a value, the value is not absent (unless an error has already occurred on
//     that path: partial trees next to an error are the parser's contract, and what happens to the error is the
//     business of C08/errors-kept and C13/lost-error);
//   - fields that Span() dereferences without a guard are not absent at any return, error or not (C10: spans of a
//     failed parse can still be asked for).
// A production that starts to return (nil, nil) or an empty list "for convenience" gets the summary "can give
// nothing", and every caller that does not test for it is reported at the field it leaves empty.

// requiredLists: node lists that the grammar does not allow to be empty (canonical Type.Field).
var requiredLists = map[string]string{
	"SortOperator.Terms":      "sort by takes one or more terms",
	"ProjectOperator.Cols":    "project takes one or more columns",
	"ExtendOperator.Cols":     "extend takes one or more columns",
	"InExpr.Vals":             "in (...) takes one or more values",
	"JoinOperator.Conditions": "join ... on takes one or more conditions",
}

// resInfo: the summary of one node (or node list) result of a production.
type resInfo struct {
	idx    int
	list   bool
	sure   bool   // present at every return on which no error has occurred
	evid   bool   // some such return gives nothing
	evidAt string // that return
}

type prodInfo struct {
	fd     *ast.FuncDecl
	fn     *types.Func
	errIdx int // index of the error result, -1 if there is none
	res    []*resInfo
}

func (pi *prodInfo) resAt(i int) *resInfo {
	for _, r := range pi.res {
		if r.idx == i {
			return r
		}
	}
	return nil
}

type filledWorld struct {
	p        *Program
	prods    map[*types.Func]*prodInfo
	optional map[string]string
	always   map[*types.Var]string // fields Span() dereferences unguarded: required at every return
	node     *types.Interface
	changed  bool
}

func (w *filledWorld) isNodeRef(t types.Type) bool {
	if t == nil {
		return false
	}
	if _, isSlice := t.Underlying().(*types.Slice); isSlice {
		return false
	}
	if _, isPtr := t.(*types.Pointer); !isPtr {
		if _, isIface := t.Underlying().(*types.Interface); !isIface {
			return false
		}
	}
	return types.Implements(t, w.node)
}

func (w *filledWorld) isNodeList(t types.Type) bool {
	if t == nil {
		return false
	}
	sl, ok := t.Underlying().(*types.Slice)
	return ok && w.isNodeRef(sl.Elem())
}

// nodeStruct: the struct behind a node pointer type.
func (w *filledWorld) nodeStruct(t types.Type) (*types.Named, *types.Struct) {
	if t == nil {
		return nil, nil
	}
	if p, ok := t.(*types.Pointer); ok {
		t = p.Elem()
	}
	n, ok := t.(*types.Named)
	if !ok {
		return nil, nil
	}
	st, ok := n.Underlying().(*types.Struct)
	if !ok || !(types.Implements(types.NewPointer(n), w.node) || types.Implements(n, w.node)) {
		return nil, nil
	}
	return n, st
}

type fieldNeed struct {
	f    *types.Var
	list bool
	why  string
}

// needs: the required parts of a node type.
func (w *filledWorld) needs(n *types.Named, st *types.Struct) []fieldNeed {
	var out []fieldNeed
	for i := 0; i < st.NumFields(); i++ {
		f := st.Field(i)
		switch {
		case w.isNodeRef(f.Type()):
			if _, opt := w.optional[fieldKey(n, f)]; !opt {
				out = append(out, fieldNeed{f: f})
			}
		case w.isNodeList(f.Type()):
			if why, req := requiredLists[objName(n.Obj())+"."+fldName(f)]; req {
				out = append(out, fieldNeed{f: f, list: true, why: why})
			}
		}
	}
	return out
}

func (w *filledWorld) prodOf(f *types.Func) *prodInfo {
	if f == nil {
		return nil
	}
	if pi := w.prods[f]; pi != nil {
		return pi
	}
	if f.Origin() != nil {
		return w.prods[f.Origin()]
	}
	return nil
}

const (
	vUnknown = iota
	vPresent
	vAbsent
)

type filledClient struct {
	BaseClient
	w      *filledWorld
	pi     *prodInfo
	fn     string
	report bool
	// literal fields evaluated before the assignment, applied after it
	pending   []pendingField
	rhsFailed map[int]bool // right-hand sides that are known to be errors (judged before the assignment)
	returns   int
}

type pendingField struct {
	lhs  int
	f    *types.Var
	val  int
	list bool
}

// Inline: accessors and conversions such as AsQualified are read where they are called; functions of errors
// (combinators, isNotFound) are taken as what they are; productions are summarised, not inlined.
func (c *filledClient) Inline(e *Engine, call *ast.CallExpr, callee *types.Func, decl *ast.FuncDecl) bool {
	if callee == nil || atomFunctions[fnName(callee)] || c.w.prodOf(callee) != nil {
		return false
	}
	sig := callee.Type().(*types.Signature)
	for i := 0; i < sig.Params().Len(); i++ {
		t := sig.Params().At(i).Type()
		if sl, ok := t.(*types.Slice); ok {
			t = sl.Elem()
		}
		if isErrorType(t) {
			return false
		}
	}
	return InlinePure{}.Inline(e, call, callee, decl)
}

// value: what is known about a node-valued expression.
func (c *filledClient) value(e *Engine, st *State, x ast.Expr) int {
	x = ast.Unparen(x)
	if isNilIdent(e.Info, x) {
		return vAbsent
	}
	switch v := x.(type) {
	case *ast.UnaryExpr:
		if v.Op == token.AND {
			if cl, ok := ast.Unparen(v.X).(*ast.CompositeLit); ok {
				c.literalInPlace(e, st, cl)
				return vPresent
			}
		}
	case *ast.CompositeLit:
		return vPresent
	}
	if e.NonNil(st, x) {
		return vPresent
	}
	if f := e.valueOf(st, x); f != nil {
		switch {
		case f.Nil == 2:
			return vPresent
		case f.Nil == 1:
			return vAbsent
		case hasStr(f.Tags, "maynil"):
			return vAbsent
		}
	}
	return vUnknown
}

// listValue: what is known about a node list.
func (c *filledClient) listValue(e *Engine, st *State, x ast.Expr) int {
	x = ast.Unparen(x)
	if isNilIdent(e.Info, x) {
		return vAbsent
	}
	if cl, ok := x.(*ast.CompositeLit); ok {
		if len(cl.Elts) >= 1 {
			return vPresent
		}
		return vAbsent
	}
	if e.LenAtLeast(st, x, 1) {
		return vPresent
	}
	if k := e.CanonSt(st, x); k.OK {
		if lf := st.Get("len(" + k.Key + ")"); lf != nil && lf.Hi != nil && *lf.Hi == 0 {
			return vAbsent
		}
		if f := st.Get(k.Key); f != nil && (f.Nil == 1 || hasStr(f.Tags, "mayempty")) {
			return vAbsent
		}
	}
	if f := e.valueOf(st, x); f != nil && (f.Nil == 1 || hasStr(f.Tags, "mayempty")) {
		return vAbsent
	}
	return vUnknown
}

// failed: an error has occurred on this path.
func (c *filledClient) failed(e *Engine, st *State) bool {
	if st.Ext("everfailed") == "1" {
		return true
	}
	for _, k := range st.Keys() {
		f := st.Get(k)
		if f == nil || f.Nil != 2 || len(f.ObjDeps) != 1 || len(f.FieldDeps) != 0 {
			continue
		}
		if v, ok := f.ObjDeps[0].(*types.Var); ok && isErrorType(v.Type()) && e.objKey(v) == k {
			return true
		}
	}
	return false
}

// literalInPlace: a node literal written inside another expression: the fields it names are given their values here.
func (c *filledClient) literalInPlace(e *Engine, st *State, cl *ast.CompositeLit) {
	if n, stt := c.w.nodeStruct(e.Info.TypeOf(cl)); n != nil {
		c.checkLiteral(e, st, cl, n, stt)
	}
}

// checkLiteral: the fields a literal names.
func (c *filledClient) checkLiteral(e *Engine, st *State, cl *ast.CompositeLit, n *types.Named, stt *types.Struct) {
	for _, need := range c.w.needs(n, stt) {
		for _, el := range cl.Elts {
			kv, ok := el.(*ast.KeyValueExpr)
			if !ok {
				continue
			}
			if f, _ := objOf(e.Info, kv.Key).(*types.Var); f != need.f {
				continue
			}
			c.given(e, st, kv.Value, n, need, cl)
		}
	}
}

// given: a required field is given the value x here.
func (c *filledClient) given(e *Engine, st *State, x ast.Expr, n *types.Named, need fieldNeed, at ast.Node) {
	if isNilIdent(e.Info, x) {
		return // an explicit nil is a field left empty: decided at the return
	}
	v := vUnknown
	if need.list {
		v = c.listValue(e, st, x)
	} else {
		v = c.value(e, st, x)
	}
	if !c.report || !e.Reporting() || v == vUnknown {
		return
	}
	if v == vAbsent && e.IsNil(st, x) {
		return // known to be nil: a field left empty, decided at the return like an explicit nil
	}
	ok := v == vPresent || c.failed(e, st)
	key := fmt.Sprintf("%s gives %s.%s the value %s", c.fn, n.Obj().Name(), need.f.Name(), exprStr(x))
	e.Site("C07/filled", key, at, ok, "the value is known to be there (or an error has already occurred on the path)")
	if !ok {
		what := "can be nil"
		if need.list {
			what = "can be empty (" + need.why + ")"
		}
		e.Site("C07/filled", key, at, false, fmt.Sprintf("%s.%s is required in a successfully parsed tree, but the value it is given here %s on a path on which no error has occurred%s", n.Obj().Name(), need.f.Name(), what, c.blame(e)))
	}
}

// blame: names the productions called here that can give nothing.
func (c *filledClient) blame(e *Engine) string {
	var out []string
	seen := map[*prodInfo]bool{}
	ast.Inspect(e.Func.Body, func(n ast.Node) bool {
		if call, ok := n.(*ast.CallExpr); ok {
			if pi := c.w.prodOf(Callee(e.Info, call)); pi != nil && !seen[pi] {
				seen[pi] = true
				for _, r := range pi.res {
					if r.evid {
						out = append(out, fmt.Sprintf("%s can give nothing together with a nil error (%s)", pi.fn.Name(), r.evidAt))
					}
				}
			}
		}
		return true
	})
	if len(out) == 0 {
		return ""
	}
	sort.Strings(out)
	return "; " + strings.Join(out, "; ")
}

func (c *filledClient) fieldKeyOf(e *Engine, st *State, base ast.Expr, f *types.Var) keyInfo {
	k := e.CanonSt(st, base)
	if !k.OK {
		return keyInfo{}
	}
	out := k.merge(keyInfo{Fields: []*types.Var{f}})
	out.Key = k.Key + "." + fldName(f)
	out.OK = true
	out.Value = false
	return out
}

func (c *filledClient) PreAssign(e *Engine, st *State, lhs, rhs []ast.Expr, stmt ast.Stmt) *State {
	c.pending = c.pending[:0]
	c.rhsFailed = map[int]bool{}
	if len(rhs) == 1 && len(lhs) >= 2 {
		// v, err := production(v, ...): the arguments are judged before v is overwritten
		if call, ok := ast.Unparen(rhs[0]).(*ast.CallExpr); ok && c.w.prodOf(Callee(e.Info, call)) != nil {
			v := "0"
			if c.argsPresent(e, st, call) {
				v = "1"
			}
			if st.Ext("argsok") != v {
				return st.WithExt("argsok", v)
			}
		}
		return nil
	}
	if len(lhs) != len(rhs) {
		return nil
	}
	var out *State
	for i, r := range rhs {
		if t := e.Info.TypeOf(lhs[i]); t != nil && isErrorType(t) {
			if errorForSure(e, st, r) {
				c.rhsFailed[i] = true
			}
		}
		// v := production(...) with a single result
		if call, ok := ast.Unparen(r).(*ast.CallExpr); ok && c.w.prodOf(Callee(e.Info, call)) != nil {
			v := "0"
			if c.argsPresent(e, st, call) {
				v = "1"
			}
			if st.Ext("argsok") != v {
				out = st.WithExt("argsok", v)
			}
		}
		x := ast.Unparen(r)
		if u, ok := x.(*ast.UnaryExpr); ok && u.Op == token.AND {
			x = ast.Unparen(u.X)
		}
		// v := &T{...} / new(T): what the fields are given
		var lt types.Type
		var cl *ast.CompositeLit
		if l, ok := x.(*ast.CompositeLit); ok {
			cl, lt = l, e.Info.TypeOf(l)
		} else if call, ok := x.(*ast.CallExpr); ok && IsBuiltinCall(e.Info, call, "new") && len(call.Args) == 1 {
			lt = e.Info.TypeOf(call.Args[0])
		}
		if lt != nil {
			if n, stt := c.w.nodeStruct(lt); n != nil {
				if cl != nil {
					c.checkLiteral(e, st, cl, n, stt)
				}
				for j := 0; j < stt.NumFields(); j++ {
					f := stt.Field(j)
					isRef, isList := c.w.isNodeRef(f.Type()), c.w.isNodeList(f.Type())
					if !isRef && !isList {
						continue
					}
					var val ast.Expr
					positional := false
					if cl != nil {
						for _, el := range cl.Elts {
							if kv, isKV := el.(*ast.KeyValueExpr); isKV {
								if ff, _ := objOf(e.Info, kv.Key).(*types.Var); ff == f {
									val = kv.Value
								}
							} else {
								positional = true
							}
						}
					}
					pf := pendingField{lhs: i, f: f, list: isList, val: vAbsent}
					switch {
					case positional:
						pf.val = vUnknown
					case val != nil && isList:
						pf.val = c.listValue(e, st, val)
					case val != nil:
						pf.val = c.value(e, st, val)
					}
					c.pending = append(c.pending, pf)
				}
			}
			continue
		}
		// n.F = v with F required
		if sel, ok := ast.Unparen(lhs[i]).(*ast.SelectorExpr); ok {
			if f := selField(e.Info, sel); f != nil {
				if n, stt := c.w.nodeStruct(e.Info.TypeOf(sel.X)); n != nil {
					for _, need := range c.w.needs(n, stt) {
						if need.f == f {
							if call, isCall := ast.Unparen(r).(*ast.CallExpr); isCall && IsBuiltinCall(e.Info, call, "append") {
								continue // a list that grows
							}
							c.given(e, st, r, n, need, stmt)
						}
					}
				}
			}
		}
	}
	return out
}

func (c *filledClient) PostAssign(e *Engine, st *State, lhs, rhs []ast.Expr, _ ast.Stmt) *State {
	out := st
	for _, pf := range c.pending {
		k := c.fieldKeyOf(e, out, lhs[pf.lhs], pf.f)
		if !k.OK {
			continue
		}
		if pf.list {
			lk := k
			lk.Key = "len(" + k.Key + ")"
			switch pf.val {
			case vPresent:
				one := int64(1)
				if n := e.update(out, lk, func(f *Fact) {
					if f.Lo == nil || *f.Lo < one {
						f.Lo = &one
					}
				}); n != nil {
					out = n
				}
			case vAbsent:
				zero := int64(0)
				if n := e.update(out, lk, func(f *Fact) { f.Hi = &zero }); n != nil {
					out = n
				}
			}
			continue
		}
		switch pf.val {
		case vPresent:
			if n := e.update(out, k, func(f *Fact) { f.Nil = 2 }); n != nil {
				out = n
			}
		case vAbsent:
			if n := e.update(out, k, func(f *Fact) { f.Nil = 1 }); n != nil {
				out = n
			}
		}
	}
	c.pending = c.pending[:0]
	// an error that is a merge or wrapper of a known error is a known error
	if len(lhs) == len(rhs) {
		for i, l := range lhs {
			if c.rhsFailed[i] {
				out = e.SetNonNil(out, l)
				if out.Ext("everfailed") != "1" {
					out = out.WithExt("everfailed", "1")
				}
			}
			// v := helper(...) where the helper returns a node and no error: what its summary says
			if call, ok := ast.Unparen(rhs[i]).(*ast.CallExpr); ok {
				if pi := c.w.prodOf(Callee(e.Info, call)); pi != nil && pi.errIdx < 0 && len(lhs) == 1 {
					if ri := pi.resAt(0); ri != nil {
						out = c.applySummary(e, out, l, ri, out.Ext("argsok") == "1")
					}
				}
			}
		}
	}
	if len(rhs) == 1 && len(lhs) >= 2 {
		if call, ok := ast.Unparen(rhs[0]).(*ast.CallExpr); ok {
			if pi := c.w.prodOf(Callee(e.Info, call)); pi != nil && pi.errIdx < 0 {
				for i, l := range lhs {
					if ri := pi.resAt(i); ri != nil {
						out = c.applySummary(e, out, l, ri, out.Ext("argsok") == "1")
					}
				}
			}
		}
	}
	for _, l := range lhs {
		if t := e.Info.TypeOf(l); t == nil || !isErrorType(t) {
			continue
		}
		if o := objOf(e.Info, l); o != nil {
			v := ""
			if f := out.Get(e.objKey(o)); f != nil && f.Nil == 2 {
				v = "1"
			}
			if out.Ext("failed:"+e.objKey(o)) != v {
				out = out.WithExt("failed:"+e.objKey(o), v)
			}
			if v == "1" && out.Ext("everfailed") != "1" {
				out = out.WithExt("everfailed", "1")
			}
		}
	}
	if out != st {
		return out
	}
	return nil
}

// applySummary: l has just been assigned result ri of a production (on a path on which the production reported
// no error).
func (c *filledClient) applySummary(e *Engine, st *State, l ast.Expr, ri *resInfo, argsOK bool) *State {
	if id, isID := ast.Unparen(l).(*ast.Ident); isID && id.Name == "_" {
		return st
	}
	switch {
	case ri.sure && argsOK:
		if ri.list {
			return e.SetLenAtLeast(st, l, 1)
		}
		if n := e.SetNonNilStrict(st, l); n != nil {
			return n
		}
	case ri.evid:
		if ri.list {
			return e.SetTag(st, l, "mayempty")
		}
		return e.SetTag(st, l, "maynil")
	}
	return st
}

// SplitAssign: `v, err := production(...)` continues as (no error: v as the production's summary says) or (error).
func (c *filledClient) SplitAssign(e *Engine, st *State, lhs, rhs []ast.Expr, _ ast.Stmt) []*State {
	if len(rhs) != 1 || len(lhs) < 2 {
		return nil
	}
	call, ok := ast.Unparen(rhs[0]).(*ast.CallExpr)
	if !ok {
		return nil
	}
	pi := c.w.prodOf(Callee(e.Info, call))
	if pi == nil || pi.errIdx < 0 || pi.errIdx >= len(lhs) {
		return nil
	}
	errL := lhs[pi.errIdx]
	if id, isID := ast.Unparen(errL).(*ast.Ident); isID && id.Name == "_" {
		return nil
	}
	var out []*State
	if a := e.SetNil(st, errL); a != nil {
		for i, l := range lhs {
			if ri := pi.resAt(i); ri != nil {
				a = c.applySummary(e, a, l, ri, st.Ext("argsok") == "1")
			}
		}
		out = append(out, a)
	}
	if b := e.SetNonNilStrict(st, errL); b != nil {
		if b.Ext("everfailed") != "1" {
			b = b.WithExt("everfailed", "1")
		}
		out = append(out, b)
	}
	// which errors are known is part of what keeps path states apart when the engine has to merge some
	if o := objOf(e.Info, errL); o != nil {
		for i, s := range out {
			v := ""
			if f := s.Get(e.objKey(o)); f != nil && f.Nil == 2 {
				v = "1"
			}
			if s.Ext("failed:"+e.objKey(o)) != v {
				out[i] = s.WithExt("failed:"+e.objKey(o), v)
			}
		}
	}
	return out
}

// PreCall: an error that is made or handed on is an error that has occurred on this path (whatever object collects it).
func (c *filledClient) PreCall(e *Engine, st *State, call *ast.CallExpr, callee *types.Func) *State {
	if st.Ext("everfailed") == "1" {
		return nil
	}
	hit := false
	if callee != nil {
		switch callee.FullName() {
		case "fmt.Errorf", "errors.New":
			hit = true
		}
	}
	for _, a := range call.Args {
		if hit {
			break
		}
		t := e.Info.TypeOf(a)
		if t == nil {
			continue
		}
		if types.Implements(t, errorIface()) || isErrorType(t) {
			if errorForSure(e, st, a) {
				hit = true
			}
		}
	}
	if hit {
		return st.WithExt("everfailed", "1")
	}
	return nil
}

// Visit: so is an error value written as a literal.
func (c *filledClient) Visit(e *Engine, st *State, n ast.Node) *State {
	cl, ok := n.(*ast.CompositeLit)
	if !ok || st.Ext("everfailed") == "1" {
		return nil
	}
	t := e.Info.TypeOf(cl)
	if t == nil {
		return nil
	}
	if types.Implements(t, errorIface()) || types.Implements(types.NewPointer(t), errorIface()) {
		return st.WithExt("everfailed", "1")
	}
	return nil
}

// argsPresent: every node handed to the production is known to be present (the summary assumes it).
func (c *filledClient) argsPresent(e *Engine, st *State, call *ast.CallExpr) bool {
	for _, a := range call.Args {
		if t := e.Info.TypeOf(a); c.w.isNodeRef(t) && c.value(e, st, a) != vPresent {
			return false
		}
	}
	return true
}

func (c *filledClient) Return(e *Engine, st *State, ret *ast.ReturnStmt) {
	if e.Lit != nil || ret == nil || len(e.Frames()) > 0 {
		return
	}
	c.returns++
	ord := returnOrdinal(e.Func, ret)
	where := fmt.Sprintf("return #%d at %s", ord, e.P.Pos(ret.Pos()))
	nres := c.pi.fn.Type().(*types.Signature).Results().Len()
	var results []ast.Expr
	switch {
	case len(ret.Results) == nres:
		results = ret.Results
	case len(ret.Results) == 1:
		// return production(...): the callee answers for its nodes; its summary is handed on
		if call, ok := ast.Unparen(ret.Results[0]).(*ast.CallExpr); ok {
			if pi := c.w.prodOf(Callee(e.Info, call)); pi != nil && pi.errIdx == c.pi.errIdx {
				args := c.argsPresent(e, st, call)
				for _, mine := range c.pi.res {
					theirs := pi.resAt(mine.idx)
					if theirs == nil || !theirs.sure || !args {
						c.unsure(mine)
					}
					if theirs != nil && theirs.evid {
						c.evidence(mine, where+" hands on the result of "+pi.fn.Name()+", which can give nothing ("+theirs.evidAt+")")
					}
				}
				return
			}
		}
		for _, mine := range c.pi.res {
			c.unsure(mine)
		}
		return
	case len(ret.Results) == 0:
		res := e.Func.Type.Results
		if res != nil {
			for _, f := range res.List {
				for _, nm := range f.Names {
					results = append(results, nm)
				}
			}
		}
		if len(results) != nres {
			for _, mine := range c.pi.res {
				c.unsure(mine)
			}
			return
		}
	default:
		return
	}
	// the outcome of this return
	failure, success := false, false
	if c.pi.errIdx >= 0 {
		E := results[c.pi.errIdx]
		failure = errorForSure(e, st, E)
		success = isNilIdent(e.Info, E) || e.IsNil(st, E)
	}
	noError := !failure && (success || !c.failed(e, st))
	for _, mine := range c.pi.res {
		R := results[mine.idx]
		n, stt := c.w.nodeStruct(e.Info.TypeOf(R))
		rv := vUnknown
		if mine.list {
			rv = c.listValue(e, st, R)
		} else {
			rv = c.value(e, st, R)
		}
		// what Span() dereferences without a guard is there at every return
		if n != nil && rv != vAbsent {
			for i := 0; i < stt.NumFields(); i++ {
				f := stt.Field(i)
				why, is := c.w.always[f]
				if !is {
					continue
				}
				fv := c.fieldValue(e, st, R, f, false)
				if c.report && e.Reporting() && fv != vUnknown {
					key := fmt.Sprintf("%s return #%d: %s.%s is set whatever the outcome", c.fn, ord, n.Obj().Name(), f.Name())
					e.Site("C07/filled", key, ret, fv == vPresent, "present on every path to this return")
					if fv != vPresent {
						e.Site("C07/filled", key, ret, false, fmt.Sprintf("the node returned here has no %s on some path, with or without an error; %s: asking the tree of a failed parse for its span panics", f.Name(), why))
					}
				}
			}
		}
		if !noError {
			continue
		}
		// no error has occurred: the summary, and the required parts of the node
		if rv != vPresent {
			c.unsure(mine)
		}
		if rv == vAbsent {
			c.evidence(mine, where)
		}
		if n == nil || rv == vAbsent || !c.report || !e.Reporting() {
			continue
		}
		for _, need := range c.w.needs(n, stt) {
			fv := c.fieldValue(e, st, R, need.f, need.list)
			if fv == vUnknown {
				continue
			}
			key := fmt.Sprintf("%s return #%d: %s.%s is there when no error has occurred", c.fn, ord, n.Obj().Name(), need.f.Name())
			e.Site("C07/filled", key, ret, fv == vPresent, "known to be there on every path to this return on which no error has occurred")
			if fv != vPresent {
				what := "nil"
				if need.list {
					what = "empty (" + need.why + ")"
				}
				e.Site("C07/filled", key, ret, false, fmt.Sprintf("the parse can succeed with %s.%s %s: the source is accepted although a required part is missing, and the tree walk, the compiler and Span() meet a node they take to be complete%s", n.Obj().Name(), need.f.Name(), what, c.blame(e)))
			}
		}
	}
}

// fieldValue: what is known about field f of the returned node R.
func (c *filledClient) fieldValue(e *Engine, st *State, R ast.Expr, f *types.Var, list bool) int {
	x := ast.Unparen(R)
	if u, ok := x.(*ast.UnaryExpr); ok && u.Op == token.AND {
		x = ast.Unparen(u.X)
	}
	if cl, ok := x.(*ast.CompositeLit); ok {
		for _, el := range cl.Elts {
			kv, isKV := el.(*ast.KeyValueExpr)
			if !isKV {
				return vUnknown
			}
			if ff, _ := objOf(e.Info, kv.Key).(*types.Var); ff == f {
				if list {
					return c.listValue(e, st, kv.Value)
				}
				return c.value(e, st, kv.Value)
			}
		}
		return vAbsent
	}
	k := c.fieldKeyOf(e, st, R, f)
	if !k.OK {
		return vUnknown
	}
	if list {
		lf := st.Get("len(" + k.Key + ")")
		switch {
		case lf != nil && lf.Lo != nil && *lf.Lo >= 1:
			return vPresent
		case lf != nil && lf.Hi != nil && *lf.Hi == 0:
			return vAbsent
		}
		if ff := st.Get(k.Key); ff != nil && (ff.Nil == 1 || hasStr(ff.Tags, "mayempty")) {
			return vAbsent
		}
		return vUnknown
	}
	ff := st.Get(k.Key)
	switch {
	case ff == nil:
		return vUnknown
	case ff.Nil == 2:
		return vPresent
	case ff.Nil == 1 || hasStr(ff.Tags, "maynil"):
		return vAbsent
	}
	return vUnknown
}

func (c *filledClient) unsure(r *resInfo) {
	if r.sure {
		r.sure = false
		c.w.changed = true
	}
}

func (c *filledClient) evidence(r *resInfo, where string) {
	if !r.evid {
		r.evid = true
		r.evidAt = where
		c.w.changed = true
	}
}

func ruleC07Filled(p *Program, r *Run) {
	pkg := p.Parser
	info := pkg.TypesInfo
	w := &filledWorld{p: p, prods: map[*types.Func]*prodInfo{}, optional: p.optionalNodeFields(), always: map[*types.Var]string{}, node: p.Iface(pkg, "Node")}
	// a field that the consumers of the tree (the traversal, Span(), the compiler) test against nil is one they
	// are prepared to find empty: optional, whatever the productions do today
	for _, cpkg := range p.Lib() {
		for _, fd := range AllFuncs(cpkg) {
			if f := FuncObj(cpkg, fd); f == nil || cursorOf(f) == "parser" {
				continue
			}
			cinfo := cpkg.TypesInfo
			ast.Inspect(fd.Body, func(n ast.Node) bool {
				b, ok := n.(*ast.BinaryExpr)
				if !ok || (b.Op != token.EQL && b.Op != token.NEQ) {
					return true
				}
				x, _, isNil := nilCompare(cinfo, b)
				if !isNil {
					return true
				}
				sel, ok := ast.Unparen(x).(*ast.SelectorExpr)
				if !ok {
					return true
				}
				f := selField(cinfo, sel)
				if f == nil || !w.isNodeRef(f.Type()) {
					return true
				}
				k := fieldKey(cinfo.TypeOf(sel.X), f)
				if _, have := w.optional[k]; !have {
					w.optional[k] = "tested against nil in " + FuncName(cpkg, fd)
				}
				return true
			})
		}
	}
	// the productions: methods of the parser that return nodes or node lists, with or without an error
	var order []*prodInfo
	for _, fd := range AllFuncs(pkg) {
		f := FuncObj(pkg, fd)
		if f == nil || fd.Body == nil || cursorOf(f) != "parser" {
			continue // Parse itself and generic combinators are decided by C07/statements
		}
		sig := f.Type().(*types.Signature)
		pi := &prodInfo{fd: fd, fn: f, errIdx: -1}
		for i := 0; i < sig.Results().Len(); i++ {
			rt := sig.Results().At(i).Type()
			switch {
			case w.isNodeRef(rt):
				pi.res = append(pi.res, &resInfo{idx: i, sure: true})
			case w.isNodeList(rt):
				pi.res = append(pi.res, &resInfo{idx: i, list: true, sure: true})
			case isErrorType(rt) && i == sig.Results().Len()-1:
				pi.errIdx = i
			}
		}
		if len(pi.res) == 0 {
			continue
		}
		w.prods[f] = pi
		order = append(order, pi)
	}
	// fields that a Span() method dereferences without a guard (a method call on an interface-typed field)
	for _, fd := range p.spanMethods() {
		var recv types.Object
		if len(fd.Recv.List[0].Names) == 1 {
			recv = info.Defs[fd.Recv.List[0].Names[0]]
		}
		guarded := map[*types.Var]bool{}
		ast.Inspect(fd.Body, func(n ast.Node) bool {
			if b, ok := n.(*ast.BinaryExpr); ok && (b.Op == token.EQL || b.Op == token.NEQ) {
				if x, _, isNil := nilCompare(info, b); isNil {
					if sel, isSel := ast.Unparen(x).(*ast.SelectorExpr); isSel {
						if f := fieldSel(info, sel, recv); f != nil {
							guarded[f] = true
						}
					}
				}
			}
			return true
		})
		ast.Inspect(fd.Body, func(n ast.Node) bool {
			call, ok := n.(*ast.CallExpr)
			if !ok {
				return true
			}
			msel, ok := ast.Unparen(call.Fun).(*ast.SelectorExpr)
			if !ok {
				return true
			}
			fsel, ok := ast.Unparen(msel.X).(*ast.SelectorExpr)
			if !ok {
				return true
			}
			f := fieldSel(info, fsel, recv)
			if f == nil || guarded[f] {
				return true
			}
			if _, isIface := f.Type().Underlying().(*types.Interface); isIface {
				w.always[f] = fmt.Sprintf("%s calls %s on it without a nil test (%s)", FuncName(pkg, fd), msel.Sel.Name, p.Pos(call.Pos()))
			}
			return true
		})
	}
	run := func(pi *prodInfo, report bool) *Engine {
		c := &filledClient{w: w, pi: pi, fn: FuncName(pkg, pi.fd), report: report}
		e := NewEngine(p, pkg, pi.fd, c)
		// the summary is about present arguments
		init := newState()
		for _, f := range pi.fd.Type.Params.List {
			for _, nm := range f.Names {
				if w.isNodeRef(info.TypeOf(nm)) {
					init = e.SetNonNil(init, nm)
				}
			}
		}
		e.Run(init)
		if c.returns == 0 && report {
			r.Fail("C07/filled", c.fn+" returns", p.Pos(pi.fd.Pos()), "no return statement of the production was reached by the analysis")
		}
		return e
	}
	// the summaries: "sure" starts true and is taken away by a return that does not show the result, "can give
	// nothing" starts false and is set by a return that shows it; both only move one way, so this ends
	for round := 0; round < 2*len(order)+4; round++ {
		w.changed = false
		for _, pi := range order {
			run(pi, false)
		}
		if !w.changed {
			break
		}
	}
	for _, pi := range order {
		fn := FuncName(pkg, pi.fd)
		r.Saw(fn)
		e := run(pi, true)
		for _, m := range e.Errs {
			r.Fail("C07/filled", fn+" engine", "-", m)
		}
		e.FlushSites(r)
		for _, ri := range pi.res {
			key := fn + " summary"
			if len(pi.res) > 1 {
				key = fmt.Sprintf("%s summary of result %d", fn, ri.idx+1)
			}
			switch {
			case ri.evid:
				r.PassNT("C07/filled", key, p.Pos(pi.fd.Pos()), "can give nothing although no error has occurred ("+ri.evidAt+"): callers have to test the result, and are reported where they do not")
			case ri.sure:
				r.PassNT("C07/filled", key, p.Pos(pi.fd.Pos()), "when no error has occurred the result is there (shown at each of its returns; callers build on it)")
			default:
				r.PassNT("C07/filled", key, p.Pos(pi.fd.Pos()), "some return hands on a value of unknown origin: callers get no guarantee from it and nothing is reported about what they do with it")
			}
		}
	}
	r.Floor("C07/filled", 40)
}

// ---- C10/union (every return): whichever way a Span() method returns, no part is left out.
//
// C10/union asks that every span-bearing field of a node takes part in its Span(). That has to hold on every path:
// a method that picks one of several unions (`switch { case a.IsValid(): return union(x, a); case b.IsValid():
// return union(x, b) }`) leaves b out exactly when both are there. Decided on path facts at each return of a
// Span() method reached with a non-nil receiver: a span-bearing field that the returned expression (with the locals
// it is put together from) does not mention must be known to hold nothing on that path - its IsValid() known
// false, the node known nil, the list known empty.
type unionPathClient struct {
	BaseClient
	InlinePredicates
	p      *Program
	fn     string
	recv   types.Object
	named  *types.Named
	fields []*types.Var
}

func (c *unionPathClient) mentioned(e *Engine, st *State, x ast.Expr, out map[*types.Var]bool) {
	ast.Inspect(x, func(n ast.Node) bool {
		switch v := n.(type) {
		case *ast.SelectorExpr:
			if f := fieldSel(e.Info, v, c.recv); f != nil {
				out[f] = true
			}
		case *ast.Ident:
			if o := objOf(e.Info, v); o != nil && o != c.recv {
				for _, name := range strings.Split(st.Ext("m:"+e.objKey(o)), ",") {
					for _, f := range c.fields {
						if name != "" && f.Name() == name {
							out[f] = true
						}
					}
				}
			}
		}
		return true
	})
}

func (c *unionPathClient) PostAssign(e *Engine, st *State, lhs, rhs []ast.Expr, _ ast.Stmt) *State {
	if len(lhs) != len(rhs) {
		return nil
	}
	out := st
	for i, l := range lhs {
		id, ok := ast.Unparen(l).(*ast.Ident)
		if !ok || id.Name == "_" {
			continue
		}
		o := objOf(e.Info, id)
		if o == nil {
			continue
		}
		m := map[*types.Var]bool{}
		c.mentioned(e, st, rhs[i], m)
		var names []string
		for f := range m {
			names = append(names, f.Name())
		}
		sort.Strings(names)
		v := strings.Join(names, ",")
		if out.Ext("m:"+e.objKey(o)) != v {
			out = out.WithExt("m:"+e.objKey(o), v)
		}
	}
	if out != st {
		return out
	}
	return nil
}

func (c *unionPathClient) Return(e *Engine, st *State, ret *ast.ReturnStmt) {
	if !e.Reporting() || e.Lit != nil || ret == nil || len(ret.Results) != 1 || len(e.Frames()) > 0 {
		return
	}
	rk := e.objKey(c.recv)
	if f := st.Get(rk); f != nil && f.Nil == 1 {
		return // the nil receiver: no node, no span
	}
	m := map[*types.Var]bool{}
	c.mentioned(e, st, ret.Results[0], m)
	for _, f := range c.fields {
		if m[f] {
			continue
		}
		fk := rk + "." + fldName(f)
		empty := false
		if g := st.Get(fk); g != nil && g.Nil == 1 {
			empty = true
		}
		if g := st.Get("len(" + fk + ")"); g != nil && g.Hi != nil && *g.Hi == 0 {
			empty = true
		}
		for _, k := range st.Keys() {
			if strings.HasPrefix(k, "call:") && strings.HasSuffix(k, ".IsValid("+fk+")") {
				if g := st.Get(k); g != nil && g.HasEq && g.Eq == "false" {
					empty = true
				}
			}
		}
		key := fmt.Sprintf("%s return #%d covers %s", c.fn, returnOrdinal(e.Func, ret), f.Name())
		e.Site("C10/union", key, ret, empty, "the field is not part of what is returned here, and is known to hold nothing on this path")
		if !empty {
			e.Site("C10/union", key, ret, false, fmt.Sprintf("this return leaves %s.%s out of the node's span on a path where it can hold something: the node's extent would not contain that part", c.named.Obj().Name(), f.Name()))
		}
	}
}

func ruleC10UnionPaths(p *Program, r *Run) {
	pkg := p.Parser
	info := pkg.TypesInfo
	nodeIface := p.Iface(pkg, "Node")
	spanT := p.spanType()
	methods := p.spanMethods()
	var names []*types.Named
	for n := range methods {
		names = append(names, n)
	}
	sort.Slice(names, func(i, j int) bool { return names[i].Obj().Name() < names[j].Obj().Name() })
	for _, named := range names {
		fd := methods[named]
		stt, ok := named.Underlying().(*types.Struct)
		if !ok || len(fd.Recv.List[0].Names) != 1 {
			continue
		}
		// only methods that return in more than one place need the path argument
		rets := 0
		ast.Inspect(fd.Body, func(n ast.Node) bool {
			if _, isRet := n.(*ast.ReturnStmt); isRet {
				rets++
			}
			return true
		})
		if rets < 2 {
			continue
		}
		c := &unionPathClient{p: p, fn: FuncName(pkg, fd), recv: info.Defs[fd.Recv.List[0].Names[0]], named: named}
		for i := 0; i < stt.NumFields(); i++ {
			f := stt.Field(i)
			elem := f.Type()
			if sl, isSl := elem.Underlying().(*types.Slice); isSl {
				elem = sl.Elem()
			}
			if types.Identical(f.Type(), spanT) || types.Implements(elem, nodeIface) {
				c.fields = append(c.fields, f)
			}
		}
		e := NewEngine(p, pkg, fd, c)
		e.Run(nil)
		for _, m := range e.Errs {
			r.Fail("C10/union", c.fn+" engine", "-", m)
		}
		e.FlushSites(r)
	}
}
