package pc

import (
	"fmt"
	"go/ast"
	"go/token"
	"go/types"
	"sort"
	"strconv"
	"strings"
)

// ---- C03/sides: which subqueries a join reads.
//
// Decided on the path states of splitQueries (helpers that take or return subqueries are interpreted in place).
// The list of subqueries is followed as a sequence of versions: the list the function was entered with, extended
// by `append` and by the recursive call that compiles the right-hand pipeline (both only ever add at the end).
// An integer `len(L) - 1` denotes "the last element of version V", and so does an element read with it from V or
// from any later version. The obligations:
//
//   - the first subquery name written after the recursion (the left input) is the last element of the version that
//     was passed INTO the recursion;
//   - it is written exactly where `entry length <= that index` is known to hold, and the pipeline's own table
//     exactly where it is known not to hold;
//   - the second name (the right input) is the last element of the version the recursion RETURNED;
//   - the recursion compiles the operator's Right pipeline;
//   - an iteration that compiled a right-hand pipeline writes both names.
type sidesClient struct {
	BaseClient
	p       *Program
	self    *types.Func
	fn      string
	sawPrev bool
	sawSrc  bool
}

func isSubqPtr(t types.Type) bool   { return t != nil && TypeStr(t) == "*pql.subquery" }
func isSubqSlice(t types.Type) bool { return t != nil && TypeStr(t) == "[]*pql.subquery" }

// Inline: helpers that take or return subqueries (splitJoin, writeJoinLeft, chainSubquery, leftSource ...).
func (c *sidesClient) Inline(e *Engine, call *ast.CallExpr, callee *types.Func, decl *ast.FuncDecl) bool {
	if !smallBody(decl) || callee.Pkg() == nil || callee.Pkg().Path() != PathPQL {
		return false
	}
	if !e.P.recordedFunc(callee) {
		return true // a helper the join code was split into
	}
	sig := callee.Type().(*types.Signature)
	for _, tup := range []*types.Tuple{sig.Params(), sig.Results()} {
		for i := 0; i < tup.Len(); i++ {
			if t := tup.At(i).Type(); isSubqPtr(t) || isSubqSlice(t) {
				return true
			}
		}
	}
	return false
}

func capVersion(v string) string {
	if len(v) > 120 {
		return ""
	}
	return v
}

// val: what the expression denotes: a list version ("v0", "v0.a123"), "len:V", "last:V" (index of the last element
// of V) or "elem:V" (the last element of V); "" when nothing is known.
func (c *sidesClient) val(e *Engine, st *State, x ast.Expr) string {
	x = ast.Unparen(x)
	switch v := x.(type) {
	case *ast.Ident:
		if o := objOf(e.Info, v); o != nil {
			return st.Ext("sv:" + e.objKey(o))
		}
	case *ast.CallExpr:
		if IsBuiltinCall(e.Info, v, "append") && len(v.Args) >= 1 && isSubqSlice(e.Info.TypeOf(v.Args[0])) {
			if b := c.val(e, st, v.Args[0]); isVersion(b) {
				return capVersion(b + ".a" + strconv.Itoa(int(v.Pos())))
			}
			return ""
		}
		if IsBuiltinCall(e.Info, v, "len") && len(v.Args) == 1 && isSubqSlice(e.Info.TypeOf(v.Args[0])) {
			if b := c.val(e, st, v.Args[0]); isVersion(b) {
				return "len:" + b
			}
			return ""
		}
		if ids, ok := e.inlined[v]; ok && len(ids) == 1 {
			return c.val(e, st, ids[0])
		}
	case *ast.BinaryExpr:
		if v.Op == token.SUB {
			if one, ok := constInt(e.Info, v.Y); ok && one == 1 {
				if b := c.val(e, st, v.X); strings.HasPrefix(b, "len:") {
					return "last:" + strings.TrimPrefix(b, "len:")
				}
			}
		}
	case *ast.SelectorExpr:
		// E.name for a subquery E that is the last element of some version
		if f := selField(e.Info, v); f != nil && fldName(f) == "name" && isSubqPtr(e.Info.TypeOf(v.X)) {
			if b := c.val(e, st, v.X); strings.HasPrefix(b, "elem:") {
				return "name:" + b
			}
		}
	case *ast.IndexExpr:
		if !isSubqSlice(e.Info.TypeOf(v.X)) {
			return ""
		}
		b, i := c.val(e, st, v.X), c.val(e, st, v.Index)
		if isVersion(b) && strings.HasPrefix(i, "last:") {
			w := strings.TrimPrefix(i, "last:")
			if b == w || strings.HasPrefix(b, w+".") {
				return "elem:" + w
			}
		}
	}
	return ""
}

func isVersion(v string) bool {
	return v != "" && !strings.HasPrefix(v, "len:") && !strings.HasPrefix(v, "last:") && !strings.HasPrefix(v, "elem:")
}

func (c *sidesClient) Stmt(e *Engine, st *State, s ast.Stmt) *State {
	if st.Ext("sv:init") != "" {
		return nil
	}
	st = st.WithExt("sv:init", "1")
	// the list the function is entered with
	for _, f := range e.Func.Type.Params.List {
		for _, n := range f.Names {
			if o := e.Info.Defs[n]; o != nil && isSubqSlice(o.Type()) {
				st = st.WithExt("sv:"+e.objKey(o), "v0")
			}
		}
	}
	return st
}

func (c *sidesClient) PostAssign(e *Engine, st *State, lhs, rhs []ast.Expr, _ ast.Stmt) *State {
	vals := make([]string, len(lhs))
	out := st
	switch {
	case len(rhs) == len(lhs):
		for i := range rhs {
			vals[i] = c.val(e, st, rhs[i])
		}
	case len(rhs) == 1:
		if call, ok := ast.Unparen(rhs[0]).(*ast.CallExpr); ok {
			if Callee(e.Info, call) == c.self && len(call.Args) > 0 {
				// the right-hand pipeline is compiled: the list comes back extended
				pre := c.val(e, st, call.Args[0])
				if !isVersion(pre) {
					pre = "?" + strconv.Itoa(int(call.Pos()))
				}
				rec := capVersion(pre + ".r" + strconv.Itoa(int(call.Pos())))
				vals[0] = rec
				out = out.WithExt("join:pre", pre).WithExt("join:rec", rec).WithExt("join:n", "0")
				if e.Reporting() {
					last := e.ResolveExpr(call.Args[len(call.Args)-1])
					f := selField(e.Info, last)
					ok := f != nil && fldName(f) == "Right"
					e.Site("C03/sides", c.fn+" compiles the parenthesised pipeline as a query of its own", call, ok, "recursive call on the join operator's Right pipeline")
					if !ok {
						e.Site("C03/sides", c.fn+" compiles the parenthesised pipeline as a query of its own", call, false, "the right-hand side is not compiled by a recursive call on op.Right")
					}
				}
			} else if ids, ok := e.inlined[call]; ok {
				for i := range lhs {
					if i < len(ids) {
						vals[i] = c.val(e, st, ids[i])
					}
				}
			}
		}
	}
	for i, l := range lhs {
		id, ok := ast.Unparen(l).(*ast.Ident)
		if !ok || id.Name == "_" {
			continue
		}
		o := objOf(e.Info, id)
		if o == nil {
			continue
		}
		out = out.WithExt("sv:"+e.objKey(o), vals[i])
		// elements of the list are never nil (the code dereferences them unconditionally everywhere)
		if i < len(rhs) && len(rhs) == len(lhs) && isSubqPtr(o.Type()) {
			if ix, ok := ast.Unparen(rhs[i]).(*ast.IndexExpr); ok && isSubqSlice(e.Info.TypeOf(ix.X)) {
				if n := e.SetNonNil(out, l); n != nil {
					out = n
				}
			}
		}
	}
	if out != st {
		return out
	}
	return nil
}

// LoopHead (outermost loops of the function itself): versions are renamed to the variable holding them - the
// sequence of versions of one iteration starts afresh - and what the previous iteration knew about a join is
// dropped. Inner loops leave the versions alone (a loop that keeps appending runs into the length cap and the
// version becomes unknown).
func (c *sidesClient) LoopHead(e *Engine, st *State, loop ast.Stmt) *State {
	if len(e.Frames()) != 0 {
		return nil
	}
	for n := e.P.Parent(loop); n != nil && n != ast.Node(e.Func); n = e.P.Parent(n) {
		switch n.(type) {
		case *ast.ForStmt, *ast.RangeStmt:
			return nil
		}
	}
	ren := map[string]string{}
	var keys []string
	for k := range st.ext {
		if strings.HasPrefix(k, "sv:") && k != "sv:init" {
			keys = append(keys, k)
		}
	}
	sort.Strings(keys)
	for _, k := range keys {
		v := st.ext[k]
		if isVersion(v) && v != "v0" {
			if _, done := ren[v]; !done {
				ren[v] = "h:" + strings.TrimPrefix(k, "sv:")
			}
		}
	}
	rename := func(v string) string {
		for _, pre := range []string{"len:", "last:", "elem:"} {
			if strings.HasPrefix(v, pre) {
				if n, ok := ren[strings.TrimPrefix(v, pre)]; ok {
					return pre + n
				}
				return v
			}
		}
		if n, ok := ren[v]; ok {
			return n
		}
		return v
	}
	out := st
	for _, k := range keys {
		if n := rename(st.ext[k]); n != st.ext[k] {
			out = out.WithExt(k, n)
		}
	}
	out = out.WithExt("join:pre", "").WithExt("join:rec", "").WithExt("join:n", "")
	if out != st {
		return out
	}
	return nil
}

func (c *sidesClient) LoopBack(e *Engine, st *State, loop ast.Stmt) {
	if len(e.Frames()) != 0 || st.Ext("join:rec") == "" || !e.Reporting() {
		return
	}
	key := c.fn + " names written for the two sides"
	ok := st.Ext("join:n") == "2"
	e.Site("C03/sides", key, loop, ok, "an iteration that compiled a right-hand pipeline writes the left and the right input")
	if !ok {
		e.Site("C03/sides", key, loop, false, fmt.Sprintf("an iteration that compiled a right-hand pipeline goes on after writing %s input name(s) instead of two", st.Ext("join:n")))
	}
}

// rel: is `entry length <= index of the left input` known on this path?
func (c *sidesClient) rel(e *Engine, st *State) (known, prev bool) {
	pre := st.Ext("join:pre")
	var starts, lefts []string
	for k, v := range st.ext {
		if !strings.HasPrefix(k, "sv:") {
			continue
		}
		switch v {
		case "len:v0":
			starts = append(starts, strings.TrimPrefix(k, "sv:"))
		case "last:" + pre:
			lefts = append(lefts, strings.TrimPrefix(k, "sv:"))
		}
	}
	sort.Strings(starts)
	sort.Strings(lefts)
	for _, sk := range starts {
		for _, lk := range lefts {
			if f := st.Get("(" + sk + " <= " + lk + ")"); f != nil && f.HasEq {
				return true, f.Eq == "true"
			}
			if f := st.Get("(" + lk + " < " + sk + ")"); f != nil && f.HasEq {
				return true, f.Eq == "false"
			}
		}
	}
	return false, false
}

func (c *sidesClient) PreCall(e *Engine, st *State, call *ast.CallExpr, callee *types.Func) *State {
	// chainSubquery(list, start, source): a new subquery reads the previous one iff this pipeline has produced one,
	// so the start index it is given is the length the list had when this pipeline was entered
	inOwnCode := e.Lit == nil
	for _, fr := range e.Frames() {
		if !e.P.isClosureDecl(fr.Decl) {
			inOwnCode = false // inside a named helper: its parameters stand for what the caller passed, decided there
		}
	}
	if callee != nil && fnName(callee) == "chainSubquery" && len(call.Args) == 3 && inOwnCode && e.Reporting() {
		got := c.val(e, st, call.Args[1])
		ok := got == "len:v0"
		key := c.fn + " new subqueries start from this pipeline's own first subquery"
		e.Site("C03/sides", key, call, ok, "the start index handed to chainSubquery is the length of the list at entry")
		if !ok {
			e.Site("C03/sides", key, call, false, "the start index handed to chainSubquery ("+exprStr(call.Args[1])+") is not known to be the length the list had when this pipeline was entered: inside a parenthesised right-hand pipeline the new subquery would read the outer pipeline's last subquery instead of its own table")
		}
	}
	if callee == nil || st.Ext("join:rec") == "" {
		return nil
	}
	n := st.Ext("join:n")
	switch fnName(callee) {
	case "dataSourceSQL":
		if n != "0" {
			return nil
		}
		if e.Reporting() {
			c.sawSrc = true
			known, prev := c.rel(e, st)
			key := c.fn + " left side: previous subquery iff this pipeline already produced one"
			ok := known && !prev
			e.Site("C03/sides", key, call, ok, "the pipeline's own table is read where `entry length <= index of the last subquery before the recursion` is known to be false")
			if !ok {
				e.Site("C03/sides", key, call, false, "the pipeline's table is written as the left input on a path where it is not known that this pipeline has produced no subquery yet (saved index compared with the number of subqueries at entry): a join after an earlier operator would read the bare table")
			}
		}
		return st.WithExt("join:n", "1")
	case "quoteIdentifier":
		if len(call.Args) != 2 {
			return nil
		}
		arg := e.ResolveExpr(call.Args[1])
		isName := false
		if sel, ok := ast.Unparen(arg).(*ast.SelectorExpr); ok {
			if f := selField(e.Info, sel); f != nil && fldName(f) == "name" && isSubqPtr(e.Info.TypeOf(sel.X)) {
				isName = true
			}
		}
		got := strings.TrimPrefix(c.val(e, st, arg), "name:")
		if !isName && !strings.HasPrefix(c.val(e, st, arg), "name:") {
			// a name held in a string variable: only counts when it is known to be a subquery's name
			if got = c.val(e, st, call.Args[1]); !strings.HasPrefix(got, "name:") {
				return nil
			}
			got = strings.TrimPrefix(got, "name:")
		}
		switch n {
		case "0":
			if e.Reporting() {
				c.sawPrev = true
				key := c.fn + " left side index is taken before the right-hand pipeline is compiled"
				ok := got == "elem:"+st.Ext("join:pre")
				e.Site("C03/sides", key, call, ok, "the left input is the last subquery of the list that was passed into the recursion")
				if !ok {
					e.Site("C03/sides", key, call, false, "the name written as the left input ("+exprStr(arg)+") is not known to be the last subquery that existed before the right-hand pipeline was compiled: the join would read its left input from a subquery of the right-hand side (or an older one)")
				}
				known, prev := c.rel(e, st)
				key = c.fn + " left side: previous subquery iff this pipeline already produced one"
				ok = known && prev
				e.Site("C03/sides", key, call, ok, "the previous subquery is read where `entry length <= saved index` is known to hold")
				if !ok {
					e.Site("C03/sides", key, call, false, "the previous subquery is written as the left input on a path where it is not known that this pipeline has produced one (saved index compared with the number of subqueries at entry): a join at the start of a parenthesised right-hand pipeline would read the outer pipeline's subquery")
				}
			}
			return st.WithExt("join:n", "1")
		case "1":
			if e.Reporting() {
				key := c.fn + " right side is the last subquery of the recursion"
				ok := got == "elem:"+st.Ext("join:rec")
				e.Site("C03/sides", key, call, ok, "the right input is the last subquery of the list the recursion returned")
				if !ok {
					e.Site("C03/sides", key, call, false, "the name written as the right input ("+exprStr(arg)+") is not known to be the last subquery produced for the parenthesised pipeline")
				}
			}
			return st.WithExt("join:n", "2")
		default:
			if e.Reporting() {
				e.Site("C03/sides", c.fn+" names written for the two sides", call, false, "a third subquery name is written into the join source")
			}
		}
	}
	return nil
}

func ruleC03Sides(p *Program, r *Run, sq *ast.FuncDecl) {
	pkg := p.PQL
	fn := FuncName(pkg, sq)
	c := &sidesClient{p: p, self: FuncObj(pkg, sq), fn: fn}
	e := NewEngine(p, pkg, sq, c)
	e.Run(nil)
	for _, m := range e.Errs {
		r.Fail("C03/sides", fn+" engine", "-", m)
	}
	e.FlushSites(r)
	r.Check(c.sawPrev && c.sawSrc, "C03/sides", fn+" both kinds of left input occur", p.Pos(sq.Pos()), "a join reads either the previous subquery or the pipeline's table", "the join never reads the previous subquery, or never the pipeline's own table, as its left input")
	r.Floor("C03/sides", 5)
}
