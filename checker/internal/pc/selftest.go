package pc

import (
	"encoding/json"
	"flag"
	"fmt"
	"io"
	"io/fs"
	"os"
	"os/exec"
	"path/filepath"
	"sort"
	"strings"
	"sync"
)

// Mutant is one seeded semantic break of /repo used to validate the checker.
type Mutant struct {
	ID       string `json:"id"`
	Property string `json:"property"`
	Rule     string `json:"expected_rule"`
	KeyPart  string `json:"expected_key_contains,omitempty"`
	File     string `json:"file"`
	Old      string `json:"old"`
	New      string `json:"new"`
	Note     string `json:"note,omitempty"`
	Survives *bool  `json:"survives_suite,omitempty"`
}

// SelftestResult summarises the checker self-validation of one property.
type SelftestResult struct {
	OK       bool     `json:"ok"`
	Mutants  int      `json:"mutants_applicable"`
	Detected int      `json:"mutants_detected"`
	Stale    []string `json:"stale,omitempty"`
	Missed   []string `json:"missed,omitempty"`
	Details  []string `json:"details,omitempty"`
}

func loadMutants(vdir string) []Mutant {
	files, _ := filepath.Glob(filepath.Join(vdir, "mutants", "*.json"))
	sort.Strings(files)
	var out []Mutant
	for _, f := range files {
		b, err := os.ReadFile(f)
		if err != nil {
			fatalf("read %s: %v", f, err)
		}
		var ms []Mutant
		if err := json.Unmarshal(b, &ms); err != nil {
			fatalf("parse %s: %v", f, err)
		}
		out = append(out, ms...)
	}
	return out
}

func copyTree(src, dst string) error {
	return filepath.WalkDir(src, func(path string, d fs.DirEntry, err error) error {
		if err != nil {
			return err
		}
		rel, _ := filepath.Rel(src, path)
		if d.IsDir() {
			if d.Name() == ".git" {
				return filepath.SkipDir
			}
			return os.MkdirAll(filepath.Join(dst, rel), 0o755)
		}
		if !d.Type().IsRegular() {
			return nil
		}
		in, err := os.Open(path)
		if err != nil {
			return err
		}
		defer in.Close()
		out, err := os.Create(filepath.Join(dst, rel))
		if err != nil {
			return err
		}
		if _, err := io.Copy(out, in); err != nil {
			out.Close()
			return err
		}
		return out.Close()
	})
}

// runMutant applies m to a scratch copy of repo and runs the property's rules on it in a child process.
// It returns (applicable, detected, detail).
func runMutant(m Mutant, repo string) (bool, bool, string) {
	if strings.HasPrefix(m.File, "@patch:") {
		return runPatchMutant(m, repo)
	}
	src, err := os.ReadFile(filepath.Join(repo, m.File))
	if err != nil {
		return false, false, "file missing: " + m.File
	}
	if strings.Count(string(src), m.Old) != 1 {
		return false, false, fmt.Sprintf("stale: old text occurs %d times in %s", strings.Count(string(src), m.Old), m.File)
	}
	tmp, err := os.MkdirTemp("", "pqlmut-")
	if err != nil {
		return true, false, err.Error()
	}
	defer os.RemoveAll(tmp)
	if err := copyTree(repo, tmp); err != nil {
		return true, false, "copy: " + err.Error()
	}
	mutated := strings.Replace(string(src), m.Old, m.New, 1)
	if err := os.WriteFile(filepath.Join(tmp, m.File), []byte(mutated), 0o644); err != nil {
		return true, false, err.Error()
	}
	exe, _ := os.Executable()
	cmd := exec.Command(exe, "check", m.Property, "--tier", "quick", "--repo", tmp, "--no-evidence")
	cmd.Env = append(os.Environ(), "VERIF_DIR="+verifDirOf(exe))
	out, _ := cmd.CombinedOutput()
	text := string(out)
	if strings.Contains(text, "does not type-check") {
		return true, false, "mutant does not type-check: " + firstLine(text)
	}
	for _, line := range strings.Split(text, "\n") {
		line = strings.TrimSpace(line)
		if !strings.HasPrefix(line, "violation ") {
			continue
		}
		if strings.HasPrefix(line, "violation "+m.Rule+" ") && (m.KeyPart == "" || strings.Contains(line, m.KeyPart)) {
			return true, true, line
		}
	}
	if strings.Contains(text, "VIOLATION property="+m.Property) {
		return true, false, "violation reported, but not by the expected rule " + m.Rule + ": " + grepFirst(text, "violation ")
	}
	return true, false, "no violation reported: " + firstLine(text)
}

// runPatchMutant applies a unified diff (an independent seeded change) to a scratch copy.
func runPatchMutant(m Mutant, repo string) (bool, bool, string) {
	patch := strings.TrimPrefix(m.File, "@patch:")
	tmp, err := os.MkdirTemp("", "pqlmut-")
	if err != nil {
		return true, false, err.Error()
	}
	defer os.RemoveAll(tmp)
	if err := copyTree(repo, tmp); err != nil {
		return true, false, "copy: " + err.Error()
	}
	ap := exec.Command("git", "apply", "--unsafe-paths", "--directory="+tmp, patch)
	ap.Dir = "/"
	if out, err := ap.CombinedOutput(); err != nil {
		return false, false, "stale: patch no longer applies: " + firstLine(string(out))
	}
	exe, _ := os.Executable()
	cmd := exec.Command(exe, "check", m.Property, "--tier", "quick", "--repo", tmp, "--no-evidence")
	cmd.Env = append(os.Environ(), "VERIF_DIR="+verifDirOf(exe))
	out, _ := cmd.CombinedOutput()
	text := string(out)
	for _, line := range strings.Split(text, "\n") {
		line = strings.TrimSpace(line)
		for _, rule := range strings.Split(m.Rule, "|") {
			if strings.HasPrefix(line, "violation "+rule+" ") {
				return true, true, line
			}
		}
	}
	if strings.Contains(text, "VIOLATION property="+m.Property) {
		return true, false, "violation reported, but not by " + m.Rule + ": " + grepFirst(text, "violation ")
	}
	return true, false, "no violation reported: " + firstLine(text)
}

func verifDirOf(exe string) string {
	if d := os.Getenv("VERIF_DIR"); d != "" {
		return d
	}
	return filepath.Dir(exe)
}

func firstLine(s string) string {
	if i := strings.Index(s, "\n"); i >= 0 {
		return s[:i]
	}
	return s
}

func grepFirst(s, pfx string) string {
	for _, l := range strings.Split(s, "\n") {
		if strings.HasPrefix(strings.TrimSpace(l), pfx) {
			return strings.TrimSpace(l)
		}
	}
	return ""
}

// seededPatches lists the independent seeded changes kept under /verif/seeded/<id>/<variant>/ as patch-mutants.
func seededPatches(vdir, id string) []Mutant {
	dirs, _ := filepath.Glob(filepath.Join(vdir, "seeded", id, "*", "meta.json"))
	sort.Strings(dirs)
	var out []Mutant
	for _, mp := range dirs {
		b, err := os.ReadFile(mp)
		if err != nil {
			continue
		}
		var meta struct {
			Property string `json:"property"`
			Variant  string `json:"variant"`
			Own      struct {
				Rules []string `json:"rules"`
			} `json:"own_check"`
		}
		if json.Unmarshal(b, &meta) != nil || len(meta.Own.Rules) == 0 {
			continue
		}
		out = append(out, Mutant{ID: "seeded-" + id + "-" + meta.Variant, Property: id, Rule: strings.Join(meta.Own.Rules, "|"), File: "@patch:" + filepath.Join(filepath.Dir(mp), "patch.diff")})
	}
	return out
}

// Selftest runs the property's seeded-break corpus; every applicable mutant must be reported by its expected rule.
func Selftest(id, vdir, repo string) SelftestResult {
	var mine []Mutant
	for _, m := range loadMutants(vdir) {
		if m.Property == id {
			mine = append(mine, m)
		}
	}
	mine = append(mine, seededPatches(vdir, id)...)
	res := SelftestResult{OK: true}
	type outT struct {
		m                    Mutant
		applicable, detected bool
		detail               string
	}
	outs := make([]outT, len(mine))
	var wg sync.WaitGroup
	sem := make(chan struct{}, 8)
	for i, m := range mine {
		wg.Add(1)
		go func(i int, m Mutant) {
			defer wg.Done()
			sem <- struct{}{}
			defer func() { <-sem }()
			a, d, det := runMutant(m, repo)
			outs[i] = outT{m, a, d, det}
		}(i, m)
	}
	wg.Wait()
	for _, o := range outs {
		switch {
		case !o.applicable:
			res.Stale = append(res.Stale, o.m.ID+": "+o.detail)
		case o.detected:
			res.Mutants++
			res.Detected++
			res.Details = append(res.Details, o.m.ID+": detected: "+o.detail)
		default:
			res.Mutants++
			res.Missed = append(res.Missed, o.m.ID+": "+o.detail)
			res.OK = false
		}
	}
	if res.Mutants < 2 {
		res.OK = false
		res.Details = append(res.Details, fmt.Sprintf("only %d applicable mutants for %s (need >= 2)", res.Mutants, id))
	}
	return res
}

// CmdSelftest implements `pqlcheck selftest <Cxx|all> [--repo DIR]`.
func CmdSelftest(args []string, vdir string) int {
	fset := flag.NewFlagSet("selftest", flag.ExitOnError)
	repo := fset.String("repo", "/repo", "module root")
	var ids []string
	for len(args) > 0 && !strings.HasPrefix(args[0], "-") {
		ids = append(ids, args[0])
		args = args[1:]
	}
	fset.Parse(args)
	if len(ids) == 0 || ids[0] == "all" {
		ids = PropertyIDs()
	}
	code := 0
	for _, id := range ids {
		res := Selftest(id, vdir, *repo)
		fmt.Printf("selftest %s: %d/%d mutants detected, %d stale\n", id, res.Detected, res.Mutants, len(res.Stale))
		for _, d := range res.Details {
			fmt.Println("   ", d)
		}
		for _, d := range res.Stale {
			fmt.Println("    STALE", d)
		}
		for _, d := range res.Missed {
			fmt.Println("    MISSED", d)
		}
		if !res.OK {
			code = 2
		}
	}
	return code
}
