package pc

// SelftestResult summarises the checker self-validation of one property.
type SelftestResult struct {
	OK       bool     `json:"ok"`
	Mutants  int      `json:"mutants_applicable"`
	Detected int      `json:"mutants_detected"`
	Stale    []string `json:"stale,omitempty"`
	Missed   []string `json:"missed,omitempty"`
	Details  []string `json:"details,omitempty"`
}

func Selftest(id, vdir, repo string) SelftestResult { return SelftestResult{OK: true} }

func CmdSelftest(args []string, vdir string) int { return 0 }
