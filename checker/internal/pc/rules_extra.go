package pc

import (
	"fmt"
	"go/ast"
	"go/token"
	"go/types"
	"sort"
	"strings"
)

// ---- C04/funcname: the name of a call expression is an unquoted identifier token.
//
// The writer copies CallExpr.Func.Name into the SQL as it is (origin "funcname" of C04/taint); that is only safe
// because the lexer's identifier class has no character that means anything to SQL. The parser must therefore build
// the name from a token that is known to be a plain identifier where the node is built.

type funcNameClient struct {
	BaseClient
	p      *Program
	fn     string
	ident  string // constant key of TokenIdentifier
	n      int
	inline *types.Func
}

func (c *funcNameClient) Inline(e *Engine, call *ast.CallExpr, callee *types.Func, decl *ast.FuncDecl) bool {
	return c.inline != nil && callee == c.inline
}

func (c *funcNameClient) Visit(e *Engine, st *State, n ast.Node) *State {
	cl, ok := n.(*ast.CompositeLit)
	if !ok || TypeStr(e.Info.TypeOf(cl)) != "parser.CallExpr" || !e.Reporting() {
		return nil
	}
	c.n++
	key := fmt.Sprintf("%s CallExpr #%d function name", c.fn, c.n)
	fv := litField(e.Info, cl, "Func")
	if fv == nil {
		e.Site("C04/funcname", key, cl, false, "a call expression is built without a function name")
		return nil
	}
	ok2, how := false, "the function name is not taken from a token known to be an unquoted identifier"
	if il := litOf(c.p.Constructed(fv)); il != nil && TypeStr(e.Info.TypeOf(il)) == "parser.Ident" {
		if q := litField(e.Info, il, "Quoted"); q != nil {
			if v := constOf(e.Info, q); v == nil || v.String() != "false" {
				how = "the function name can be a quoted identifier: its characters would be written into the SQL unquoted"
				e.Site("C04/funcname", key, cl, false, how)
				return nil
			}
		}
		if nv := litField(e.Info, il, "Name"); nv != nil {
			if sel, isSel := ast.Unparen(c.p.Resolve(nv)).(*ast.SelectorExpr); isSel && sel.Sel.Name == "Value" {
				if k := e.CanonSt(st, sel.X); k.OK {
					if f := st.Get(k.Key + ".Kind"); f != nil && f.HasEq && f.Eq == c.ident {
						ok2, how = true, "name = text of a token whose kind is known to be TokenIdentifier here"
					}
				}
			}
		}
	} else if k := e.CanonSt(st, fv); k.OK {
		// an identifier node parsed earlier: must be known unquoted
		if f := st.Get(k.Key + ".Quoted"); f != nil && f.HasEq && f.Eq == "false" {
			ok2, how = true, "name = an identifier node known to be unquoted here"
		}
	}
	e.Site("C04/funcname", key, cl, ok2, how)
	if !ok2 {
		e.Site("C04/funcname", key, cl, false, how+": pass-through function names are written without quoting, so a backtick-quoted name could close a bracket, start a comment or a new statement")
	}
	return nil
}

func ruleC04FuncName(p *Program, r *Run) {
	pkg := p.Parser
	idc, ok := pkg.Types.Scope().Lookup("TokenIdentifier").(*types.Const)
	if !ok {
		fatalf("anchor not found: parser.TokenIdentifier")
	}
	for _, fd := range AllFuncs(pkg) {
		has := false
		ast.Inspect(fd.Body, func(n ast.Node) bool {
			if cl, ok := n.(*ast.CompositeLit); ok && TypeStr(p.Info.TypeOf(cl)) == "parser.CallExpr" {
				has = true
			}
			return !has
		})
		if !has {
			continue
		}
		fn := FuncName(pkg, fd)
		r.Saw(fn)
		c := &funcNameClient{p: p, fn: fn, ident: constKey(idc.Val())}
		e := NewEngine(p, pkg, fd, c)
		e.Run(nil)
		for _, m := range e.Errs {
			r.Fail("C04/funcname", fn+" engine", "-", m)
		}
		failed := false
		for _, s := range e.Sites() {
			if len(s.Fails) > 0 {
				failed = true
			}
		}
		// a helper that receives the token as a parameter: decided where it is called (helper interpreted in place)
		if fobj := FuncObj(pkg, fd); failed && p.onlyCalledDirectly(fobj) && smallBody(fd) {
			decided := 0
			for _, caller := range AllFuncs(pkg) {
				if caller == fd || !p.callsAny(caller, map[*types.Func]bool{fobj: true}) {
					continue
				}
				c2 := &funcNameClient{p: p, fn: FuncName(pkg, caller), ident: constKey(idc.Val()), inline: fobj}
				e2 := NewEngine(p, pkg, caller, c2)
				e2.Run(nil)
				for _, m := range e2.Errs {
					r.Fail("C04/funcname", c2.fn+" engine", "-", m)
				}
				decided += len(e2.Sites())
				e2.FlushSites(r)
			}
			if decided > 0 {
				continue
			}
		}
		e.FlushSites(r)
	}
	r.Floor("C04/funcname", 1)
}

// ---- C05/refs: names written as table references are names of subqueries that exist.
//
// In splitQueries/chainSubquery every quoted identifier written into a FROM/JOIN source is the name field of a
// subquery taken from the list being built (so the common table expression is defined), the table name of the
// pipeline's data source, or a constant alias - never a name computed on the side.
func ruleC05Refs(p *Program, r *Run) {
	g := p.Grammar()
	info := p.Info
	n := 0
	for _, ev := range g.events {
		if ev.Kind != "Q" {
			continue
		}
		name := declName(ev.Func)
		if name != "splitQueries" && name != "chainSubquery" {
			continue
		}
		n++
		arg := p.Resolve(ev.Arg)
		key := fmt.Sprintf("%s table reference #%d %s", ev.FnName, n, exprStr(ev.Arg))
		ok, how := false, ""
		switch {
		case constOf(info, arg) != nil:
			ok, how = true, "constant alias"
		default:
			if sel, isSel := ast.Unparen(arg).(*ast.SelectorExpr); isSel {
				if f := selField(info, sel); f != nil {
					owner := TypeStr(info.TypeOf(sel.X))
					switch {
					case fldName(f) == "name" && owner == "*pql.subquery":
						ok, how = true, "name of a subquery held in the list being built"
					case f.Name() == "Name" && owner == "*parser.Ident":
						ok, how = true, "a name written in the PQL source (table of the data source)"
					}
				}
			}
		}
		r.Check(ok, "C05/refs", key, p.Pos(ev.Call.Pos()), how, "a table reference is written from "+exprStr(arg)+", which is neither the name of a subquery in the list being built, a table named in the source, nor a constant alias: the statement could read a common table expression that is never defined")
	}
	r.Floor("C05/refs", 3)
}

// ---- C10/linecol: columns are counted in characters.
//
// Both line:column helpers must walk the text before the position rune by rune (range over a string); a loop that
// indexes bytes counts a multi-byte character several times and reports columns beyond the end of the line.
func ruleC10Linecol(p *Program, r *Run) {
	for _, pkg := range p.Lib() {
		fd := p.FuncDecl(pkg, "linecol")
		if fd == nil {
			continue
		}
		fn := FuncName(pkg, fd)
		r.Saw(fn)
		info := p.Info
		ok, why := true, ""
		seenRange := false
		ast.Inspect(fd.Body, func(n ast.Node) bool {
			switch v := n.(type) {
			case *ast.RangeStmt:
				if b, isB := info.TypeOf(v.X).Underlying().(*types.Basic); isB && b.Info()&types.IsString != 0 {
					seenRange = true
				} else {
					ok, why = false, "iterates over "+TypeStr(info.TypeOf(v.X))+" (bytes), not over the characters of the string"
				}
			case *ast.ForStmt:
				ok, why = false, "walks the text with a counted loop (byte offsets) instead of ranging over its characters"
			case *ast.IndexExpr:
				if b, isB := info.TypeOf(v.X).Underlying().(*types.Basic); isB && b.Info()&types.IsString != 0 {
					ok, why = false, "indexes single bytes of the text ("+exprStr(v)+")"
				}
			}
			return true
		})
		if !seenRange && ok {
			ok, why = false, "no loop over the characters of the text before the position"
		}
		r.Check(ok, "C10/linecol", fn+" counts characters", p.Pos(fd.Pos()), "ranges over the runes of the text before the position", "line:column is not counted in characters: "+why+" - a position after non-ASCII text would be reported beyond the end of its line")
	}
	r.Floor("C10/linecol", 2)
}

// ---- C12/errdup: an error value is merged into an accumulated error at most once per path.
//
// Joining the same error twice doubles the error list at every nesting level (2^depth on nested erroneous input).
type errDupClient struct {
	BaseClient
	InlinePredicates
	fn   string
	join *types.Func
	n    map[*ast.CallExpr]int
}

func (c *errDupClient) PreCall(e *Engine, st *State, call *ast.CallExpr, callee *types.Func) *State {
	if callee == nil || (callee != c.join && callee.Origin() != c.join) {
		return nil
	}
	out := st
	for i, a := range call.Args {
		// the error variable merged by this argument: the argument itself, or what a wrapper call passes on
		// (joinErrors(acc, makeErrorOpaque(err)))
		var id *ast.Ident
		ast.Inspect(a, func(n ast.Node) bool {
			if x, ok := n.(*ast.Ident); ok && id == nil {
				if o, isVar := objOf(e.Info, x).(*types.Var); isVar && !o.IsField() && isErrorType(o.Type()) {
					id = x
				}
			}
			return id == nil
		})
		if id == nil {
			continue
		}
		o := objOf(e.Info, id)
		// the accumulator itself (x = joinErrors(x, ...)) is reassigned by this very statement
		if as, ok := e.P.Parent(call).(*ast.AssignStmt); ok && len(as.Lhs) == 1 && objOf(e.Info, as.Lhs[0]) == o {
			continue
		}
		key := fmt.Sprintf("%s joinErrors call #%d argument %s", c.fn, callOrdinal(e, call, c.join), id.Name)
		joined := out.Ext("joined:"+e.objKey(o)) == "1"
		known := e.IsNil(out, id)
		ok2 := !joined || known
		e.Site("C12/errdup", key, call, ok2, "merged once on every path (or known nil)")
		if !ok2 {
			e.Site("C12/errdup", key, call, false, fmt.Sprintf("the error held in %s (argument #%d) is merged into an accumulated error a second time on some path without having been reassigned: every nesting level doubles the error list (exponential time and memory on nested erroneous input)", id.Name, i+1))
		}
		out = out.WithExt("joined:"+e.objKey(o), "1")
	}
	if out != st {
		return out
	}
	return nil
}

func (c *errDupClient) PostAssign(e *Engine, st *State, lhs, rhs []ast.Expr, _ ast.Stmt) *State {
	out := st
	for _, l := range lhs {
		if o := objOf(e.Info, l); o != nil && out.Ext("joined:"+e.objKey(o)) != "" {
			out = out.WithExt("joined:"+e.objKey(o), "")
		}
	}
	if out != st {
		return out
	}
	return nil
}

func ruleC12ErrDup(p *Program, r *Run) {
	pkg := p.Parser
	jfd := p.FuncDecl(pkg, "joinErrors")
	if jfd == nil {
		return
	}
	join := FuncObj(pkg, jfd)
	for _, fd := range AllFuncs(pkg) {
		uses := 0
		ast.Inspect(fd.Body, func(n ast.Node) bool {
			if call, ok := n.(*ast.CallExpr); ok && Callee(p.Info, call) == join {
				uses++
			}
			return true
		})
		if uses < 2 {
			continue
		}
		fn := FuncName(pkg, fd)
		r.Saw(fn)
		c := &errDupClient{fn: fn, join: join}
		e := NewEngine(p, pkg, fd, c)
		e.Run(nil)
		for _, m := range e.Errs {
			r.Fail("C12/errdup", fn+" engine", "-", m)
		}
		e.FlushSites(r)
	}
	r.Floor("C12/errdup", 4)
}

// ---- C13/lost-error: an error result is never overwritten while it may still hold an unreported error.
type lostErrClient struct {
	BaseClient
	InlinePredicates
	fn string
}

func isErrorType(t types.Type) bool { return t != nil && TypeStr(t) == "error" }

func (c *lostErrClient) consume(e *Engine, st *State, x ast.Expr) *State {
	out := st
	ast.Inspect(x, func(n ast.Node) bool {
		if id, ok := n.(*ast.Ident); ok {
			if o := objOf(e.Info, id); o != nil && out.Ext("pend:"+e.objKey(o)) == "1" {
				out = out.WithExt("pend:"+e.objKey(o), "")
			}
		}
		return true
	})
	return out
}

func (c *lostErrClient) PreCall(e *Engine, st *State, call *ast.CallExpr, _ *types.Func) *State {
	out := st
	for _, a := range call.Args {
		out = c.consume(e, out, a)
	}
	if out != st {
		return out
	}
	return nil
}

func (c *lostErrClient) PreAssign(e *Engine, st *State, lhs, rhs []ast.Expr, stmt ast.Stmt) *State {
	out := st
	// values flowing into other variables or fields are accounted for there
	for _, rr := range rhs {
		if _, isCall := ast.Unparen(rr).(*ast.CallExpr); !isCall {
			out = c.consume(e, out, rr)
		}
	}
	for _, l := range lhs {
		id, ok := ast.Unparen(l).(*ast.Ident)
		if !ok || id.Name == "_" {
			continue
		}
		o := objOf(e.Info, id)
		if o == nil || !isErrorType(o.Type()) {
			continue
		}
		if out.Ext("pend:"+e.objKey(o)) == "1" && !e.IsNil(out, id) && e.Reporting() {
			key := fmt.Sprintf("%s overwrites %s by %s", c.fn, id.Name, exprStr(rhs[0]))
			e.Site("C13/lost-error", key, l, false, fmt.Sprintf("the error variable %s is assigned again while the error of an earlier call may still be in it, unreturned and unmerged: that failure is silently dropped and the construct is accepted", id.Name))
		}
	}
	if out != st {
		return out
	}
	return nil
}

func (c *lostErrClient) PostAssign(e *Engine, st *State, lhs, rhs []ast.Expr, _ ast.Stmt) *State {
	if len(rhs) != 1 {
		return nil
	}
	call, ok := ast.Unparen(rhs[0]).(*ast.CallExpr)
	if !ok {
		return nil
	}
	out := st
	for _, l := range lhs {
		id, ok := ast.Unparen(l).(*ast.Ident)
		if !ok || id.Name == "_" {
			continue
		}
		if o := objOf(e.Info, id); o != nil && isErrorType(o.Type()) {
			// a fresh result of a call: pending until looked at
			if f := Callee(e.Info, call); f != nil && fnName(f) == "makeErrorOpaque" || f != nil && fnName(f) == "joinErrors" {
				continue
			}
			out = out.WithExt("pend:"+e.objKey(o), "1")
		}
	}
	if out != st {
		return out
	}
	return nil
}

func (c *lostErrClient) Return(e *Engine, st *State, ret *ast.ReturnStmt) {}

// AssumeCond: testing the variable counts as looking at it.
func (c *lostErrClient) Stmt(e *Engine, st *State, s ast.Stmt) *State {
	out := st
	switch v := s.(type) {
	case *ast.IfStmt:
		out = c.consume(e, out, v.Cond)
	case *ast.ReturnStmt:
		for _, x := range v.Results {
			out = c.consume(e, out, x)
		}
	case *ast.SwitchStmt:
		if v.Tag != nil {
			out = c.consume(e, out, v.Tag)
		}
	}
	if out != st {
		return out
	}
	return nil
}

func ruleC13LostError(p *Program, r *Run) {
	n := 0
	for _, pkg := range p.Lib() {
		for _, fd := range AllFuncs(pkg) {
			// functions that assign an error variable from more than one call
			cnt := 0
			ast.Inspect(fd.Body, func(x ast.Node) bool {
				if as, ok := x.(*ast.AssignStmt); ok && len(as.Rhs) == 1 {
					if _, isCall := ast.Unparen(as.Rhs[0]).(*ast.CallExpr); isCall {
						for _, l := range as.Lhs {
							if o := objOf(p.Info, l); o != nil && isErrorType(o.Type()) {
								cnt++
							}
						}
					}
				}
				return true
			})
			if cnt < 2 {
				continue
			}
			fn := FuncName(pkg, fd)
			r.Saw(fn)
			c := &lostErrClient{fn: fn}
			e := NewEngine(p, pkg, fd, c)
			e.Run(nil)
			for _, m := range e.Errs {
				r.Fail("C13/lost-error", fn+" engine", "-", m)
			}
			sites := e.Sites()
			if len(sites) == 0 {
				n++
				r.PassNT("C13/lost-error", fn+" error results", p.Pos(fd.Pos()), "on every path each error result is returned, merged, tested or known nil before its variable is assigned again")
			}
			e.FlushSites(r)
		}
	}
	r.Floor("C13/lost-error", 10)
}

// ---- C15/returns: SplitStatements returns the list built from the token-bounded pieces on every path.
func ruleC15Returns(p *Program, r *Run) {
	pkg := p.Parser
	info := p.Info
	fd := p.MustFunc(pkg, "SplitStatements")
	fn := FuncName(pkg, fd)
	source := info.Defs[fd.Type.Params.List[0].Names[0]]
	// the result variable: the one the source slices are appended to
	var parts types.Object
	ast.Inspect(fd.Body, func(n ast.Node) bool {
		as, ok := n.(*ast.AssignStmt)
		if !ok || len(as.Lhs) != 1 || len(as.Rhs) != 1 {
			return true
		}
		call, ok := ast.Unparen(as.Rhs[0]).(*ast.CallExpr)
		if !ok || !IsBuiltinCall(info, call, "append") || len(call.Args) < 2 {
			return true
		}
		for _, a := range call.Args[1:] {
			if sl, ok := ast.Unparen(a).(*ast.SliceExpr); ok && objOf(info, sl.X) == source {
				parts = objOf(info, as.Lhs[0])
			}
		}
		return true
	})
	if parts == nil {
		ast.Inspect(fd.Body, func(n ast.Node) bool {
			if ret, ok := n.(*ast.ReturnStmt); ok && len(ret.Results) == 1 {
				if call, ok := ast.Unparen(ret.Results[0]).(*ast.CallExpr); ok && IsBuiltinCall(info, call, "append") && len(call.Args) >= 2 {
					parts = objOf(info, call.Args[0])
				}
			}
			return true
		})
	}
	okRet, nret := parts != nil, 0
	why := "no result list built from slices of the source"
	ast.Inspect(fd.Body, func(n ast.Node) bool {
		switch v := n.(type) {
		case *ast.FuncLit:
			return false
		case *ast.ReturnStmt:
			nret++
			good := len(v.Results) == 1 && objOf(info, v.Results[0]) == parts
			// return append(parts, source[start:])
			if len(v.Results) == 1 && !good {
				if call, ok := ast.Unparen(v.Results[0]).(*ast.CallExpr); ok && IsBuiltinCall(info, call, "append") && len(call.Args) >= 2 && objOf(info, call.Args[0]) == parts {
					good = true
					for _, a := range call.Args[1:] {
						if sl, ok := ast.Unparen(a).(*ast.SliceExpr); !ok || objOf(info, sl.X) != source {
							good = false
						}
					}
				}
			}
			// return []string{source} where the source is known to contain no semicolon at all: no character but
			// ';' yields a semicolon token (C09/tables, part of this check), so there is nothing to cut
			if !good && len(v.Results) == 1 {
				if cl, ok := ast.Unparen(v.Results[0]).(*ast.CompositeLit); ok && len(cl.Elts) == 1 && objOf(info, cl.Elts[0]) == source && p.underNoSemicolon(v, source) {
					good = true
				}
			}
			if !good {
				okRet = false
				why = "the return at " + p.Pos(v.Pos()) + " returns " + exprStr(v.Results[0]) + ", not the list of token-bounded pieces"
			}
		case *ast.AssignStmt:
			// the list is only ever appended to with slices of the source (or created empty)
			for i, l := range v.Lhs {
				if objOf(info, l) != parts || parts == nil || i >= len(v.Rhs) {
					continue
				}
				rhs := ast.Unparen(v.Rhs[i])
				if call, ok := rhs.(*ast.CallExpr); ok {
					if IsBuiltinCall(info, call, "make") {
						continue
					}
					if IsBuiltinCall(info, call, "append") && objOf(info, call.Args[0]) == parts {
						for _, a := range call.Args[1:] {
							if sl, ok := ast.Unparen(a).(*ast.SliceExpr); !ok || objOf(info, sl.X) != source {
								okRet = false
								why = "at " + p.Pos(v.Pos()) + " something other than a slice of the source is appended: " + exprStr(a)
							}
						}
						continue
					}
				}
				if isNilIdent(info, rhs) {
					continue
				}
				okRet = false
				why = "the result list is assigned from " + exprStr(rhs) + " at " + p.Pos(v.Pos())
			}
		}
		return true
	})
	r.Check(okRet && nret > 0, "C15/provenance", fn+" returns the token-bounded pieces on every path", p.Pos(fd.Pos()), fmt.Sprintf("all %d returns give back the list that only ever receives slices of the source", nret), "the splitter can return something other than the pieces cut at the lexer's semicolon tokens ("+why+"): a shortcut that does not ask the lexer splits inside `!;`, strings or comments differently")
}

var _ = sort.Strings
var _ = token.NoPos
var _ = strings.TrimSpace

// callOrdinal: the position of call among the calls of fn in the function being interpreted.
func callOrdinal(e *Engine, call *ast.CallExpr, fn *types.Func) int {
	n, idx := 0, 0
	ast.Inspect(e.CurFunc().Body, func(x ast.Node) bool {
		if c, ok := x.(*ast.CallExpr); ok {
			if f := Callee(e.Info, c); f != nil && (f == fn || f.Origin() == fn) {
				n++
				if c == call {
					idx = n
				}
			}
		}
		return true
	})
	return idx
}

// ---- C10/clause: the span recorded for a sort term's direction / null-placement clause starts at the clause's own
// first keyword and ends at its last (path facts on the tokens' text where the span is stored).
type clauseSpanClient struct {
	BaseClient
	InlinePredicates
	fn string
}

func (c *clauseSpanClient) textOf(e *Engine, st *State, tok ast.Expr) (string, bool) {
	k := e.CanonSt(st, tok)
	if !k.OK {
		return "", false
	}
	if f := st.Get(k.Key + ".Value"); f != nil && f.HasEq {
		return strings.Trim(f.Eq, `"`), true
	}
	return "", false
}

func (c *clauseSpanClient) PreAssign(e *Engine, st *State, lhs, rhs []ast.Expr, _ ast.Stmt) *State {
	if len(lhs) != len(rhs) || !e.Reporting() {
		return nil
	}
	for i, l := range lhs {
		f := selField(e.Info, l)
		if f == nil || (f.Name() != "NullsSpan" && f.Name() != "AscDescSpan") {
			continue
		}
		key := fmt.Sprintf("%s span stored into %s", c.fn, f.Name())
		r := e.ResolveExpr(rhs[i])
		ok, how := false, "the stored span is not built from the tokens of the clause"
		tokOfSpan := func(x ast.Expr, field string) ast.Expr {
			// X.Span.<field> or X.Span
			sel, isSel := ast.Unparen(x).(*ast.SelectorExpr)
			if !isSel {
				return nil
			}
			if field != "" {
				if sel.Sel.Name != field {
					return nil
				}
				sel, isSel = ast.Unparen(sel.X).(*ast.SelectorExpr)
				if !isSel {
					return nil
				}
			}
			if sel.Sel.Name != "Span" || TypeStr(e.Info.TypeOf(sel.X)) != "parser.Token" {
				return nil
			}
			return sel.X
		}
		switch f.Name() {
		case "AscDescSpan":
			if tok := tokOfSpan(r, ""); tok != nil {
				if w, known := c.textOf(e, st, tok); known && (w == "asc" || w == "desc") {
					ok, how = true, "span of the token known to be asc/desc"
				} else {
					how = fmt.Sprintf("the span is that of a token whose text is %q (known=%v), not the asc/desc keyword", w, known)
				}
			}
		case "NullsSpan":
			if call, isCall := ast.Unparen(r).(*ast.CallExpr); isCall && len(call.Args) == 2 {
				if fn := Callee(e.Info, call); fn != nil && fnName(fn) == "newSpan" {
					a, b := tokOfSpan(call.Args[0], "Start"), tokOfSpan(call.Args[1], "End")
					if a != nil && b != nil {
						wa, ka := c.textOf(e, st, a)
						wb, kb := c.textOf(e, st, b)
						if ka && kb && wa == "nulls" && (wb == "first" || wb == "last") {
							ok, how = true, "from the start of the token known to be `nulls` to the end of the token known to be first/last"
						} else {
							how = fmt.Sprintf("the span runs from a token whose text is %q (known=%v) to one whose text is %q (known=%v); documented: from `nulls` to first/last", wa, ka, wb, kb)
						}
					}
				}
			}
		}
		e.Site("C10/clause", key, l, ok, how)
		if !ok {
			e.Site("C10/clause", key, l, false, how+": the recorded position would not designate the clause's own text")
		}
	}
	return nil
}

func ruleC10Clause(p *Program, r *Run) {
	pkg := p.Parser
	fd := p.MustFunc(pkg, "parser.sortTerm")
	fn := FuncName(pkg, fd)
	r.Saw(fn)
	c := &clauseSpanClient{fn: fn}
	e := NewEngine(p, pkg, fd, c)
	e.Run(nil)
	for _, m := range e.Errs {
		r.Fail("C10/clause", fn+" engine", "-", m)
	}
	e.FlushSites(r)
	r.Floor("C10/clause", 2)
}

// underNoSemicolon: the statement is only reached when the string variable is known not to contain a ';' - it sits
// in the then-branch of an if whose condition implies `!strings.Contains(v, ";")` (Contains, ContainsRune,
// ContainsAny, Index*, Count forms).
func (p *Program) underNoSemicolon(n ast.Node, v types.Object) bool {
	info := p.Info
	var child ast.Node = n
	for cur := p.Parent(n); cur != nil; child, cur = cur, p.Parent(cur) {
		if _, isFn := cur.(*ast.FuncDecl); isFn {
			return false
		}
		ifs, ok := cur.(*ast.IfStmt)
		if !ok || ifs.Body != child {
			continue
		}
		if p.impliesNoSemicolon(info, ifs.Cond, v) || p.impliesNoSemicolon(info, p.ResolveDeep(ifs.Cond), v) {
			return true
		}
	}
	return false
}

func (p *Program) impliesNoSemicolon(info *types.Info, cond ast.Expr, v types.Object) bool {
	cond = ast.Unparen(cond)
	isSemi := func(x ast.Expr) bool {
		if s, ok := constString(info, x); ok {
			return s == ";"
		}
		if n, ok := constInt(info, x); ok {
			return n == ';'
		}
		return false
	}
	search := func(x ast.Expr, names ...string) bool {
		call, ok := ast.Unparen(x).(*ast.CallExpr)
		if !ok || len(call.Args) != 2 || objOf(info, call.Args[0]) != v || !isSemi(call.Args[1]) {
			return false
		}
		f := Callee(info, call)
		if f == nil || f.Pkg() == nil || f.Pkg().Path() != "strings" {
			return false
		}
		for _, n := range names {
			if f.Name() == n {
				return true
			}
		}
		return false
	}
	// len(Scan(v)) == 0: no tokens at all
	noTokens := func(x ast.Expr) bool {
		call, ok := ast.Unparen(x).(*ast.CallExpr)
		if !ok || !IsBuiltinCall(info, call, "len") || len(call.Args) != 1 {
			return false
		}
		sc, ok := ast.Unparen(p.DefExpr(call.Args[0])).(*ast.CallExpr)
		if !ok || len(sc.Args) != 1 || objOf(info, sc.Args[0]) != v {
			return false
		}
		f := Callee(info, sc)
		return f != nil && f.Pkg() != nil && f.Pkg().Path() == PathParser && fnName(f) == "Scan"
	}
	if b, ok := cond.(*ast.BinaryExpr); ok {
		if z, isC := constInt(info, b.Y); isC && noTokens(b.X) && (b.Op == token.EQL && z == 0 || b.Op == token.LSS && z == 1 || b.Op == token.LEQ && z == 0) {
			return true
		}
	}
	switch c := cond.(type) {
	case *ast.UnaryExpr:
		if c.Op == token.NOT {
			return search(c.X, "Contains", "ContainsRune", "ContainsAny")
		}
	case *ast.BinaryExpr:
		switch c.Op {
		case token.LAND:
			return p.impliesNoSemicolon(info, c.X, v) || p.impliesNoSemicolon(info, c.Y, v)
		case token.LSS:
			if z, ok := constInt(info, c.Y); ok && z == 0 {
				return search(c.X, "Index", "IndexByte", "IndexRune", "IndexAny", "LastIndex", "LastIndexByte")
			}
		case token.EQL:
			if z, ok := constInt(info, c.Y); ok {
				if z == -1 {
					return search(c.X, "Index", "IndexByte", "IndexRune", "IndexAny", "LastIndex", "LastIndexByte")
				}
				if z == 0 {
					return search(c.X, "Count")
				}
			}
		}
	}
	return false
}
