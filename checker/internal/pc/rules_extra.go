package pc

import (
	"fmt"
	"go/ast"
	"go/constant"
	"go/token"
	"go/types"
	"sort"
	"strings"
)

// ---- C04/funcname: the name of a call expression is an unquoted identifier token.
//
// The writer copies CallExpr.Func.Name into the SQL as it is (origin "funcname" of C04/taint); that is only safe
// because the lexer's identifier class has no character that means anything to SQL. The parser must therefore build
// the name from a token that is known to be a plain identifier where the node is built.

type funcNameClient struct {
	BaseClient
	p      *Program
	fn     string
	ident  string // constant key of TokenIdentifier
	n      int
	inline *types.Func
}

func (c *funcNameClient) Inline(e *Engine, call *ast.CallExpr, callee *types.Func, decl *ast.FuncDecl) bool {
	return c.inline != nil && callee == c.inline
}

func (c *funcNameClient) Visit(e *Engine, st *State, n ast.Node) *State {
	cl, ok := n.(*ast.CompositeLit)
	if !ok || TypeStr(e.Info.TypeOf(cl)) != "parser.CallExpr" || !e.Reporting() {
		return nil
	}
	c.n++
	key := fmt.Sprintf("%s CallExpr #%d function name", c.fn, c.n)
	fv := litField(e.Info, cl, "Func")
	if fv == nil {
		e.Site("C04/funcname", key, cl, false, "a call expression is built without a function name")
		return nil
	}
	ok2, how := false, "the function name is not taken from a token known to be an unquoted identifier"
	if il := litOf(c.p.Constructed(fv)); il != nil && TypeStr(e.Info.TypeOf(il)) == "parser.Ident" {
		if q := litField(e.Info, il, "Quoted"); q != nil {
			if v := constOf(e.Info, q); v == nil || v.String() != "false" {
				how = "the function name can be a quoted identifier: its characters would be written into the SQL unquoted"
				e.Site("C04/funcname", key, cl, false, how)
				return nil
			}
		}
		if nv := litField(e.Info, il, "Name"); nv != nil {
			if sel, isSel := ast.Unparen(c.p.Resolve(nv)).(*ast.SelectorExpr); isSel && sel.Sel.Name == "Value" {
				if k := e.CanonSt(st, sel.X); k.OK {
					if f := st.Get(k.Key + ".Kind"); f != nil && f.HasEq && f.Eq == c.ident {
						ok2, how = true, "name = text of a token whose kind is known to be TokenIdentifier here"
					}
				}
			}
		}
	} else if k := e.CanonSt(st, fv); k.OK {
		// an identifier node parsed earlier: must be known unquoted
		if f := st.Get(k.Key + ".Quoted"); f != nil && f.HasEq && f.Eq == "false" {
			ok2, how = true, "name = an identifier node known to be unquoted here"
		}
	}
	e.Site("C04/funcname", key, cl, ok2, how)
	if !ok2 {
		e.Site("C04/funcname", key, cl, false, how+": pass-through function names are written without quoting, so a backtick-quoted name could close a bracket, start a comment or a new statement")
	}
	return nil
}

func ruleC04FuncName(p *Program, r *Run) {
	pkg := p.Parser
	idc, ok := pkg.Types.Scope().Lookup("TokenIdentifier").(*types.Const)
	if !ok {
		fatalf("anchor not found: parser.TokenIdentifier")
	}
	for _, fd := range AllFuncs(pkg) {
		has := false
		ast.Inspect(fd.Body, func(n ast.Node) bool {
			if cl, ok := n.(*ast.CompositeLit); ok && TypeStr(p.Info.TypeOf(cl)) == "parser.CallExpr" {
				has = true
			}
			return !has
		})
		if !has {
			continue
		}
		fn := FuncName(pkg, fd)
		r.Saw(fn)
		c := &funcNameClient{p: p, fn: fn, ident: constKey(idc.Val())}
		e := NewEngine(p, pkg, fd, c)
		e.Run(nil)
		for _, m := range e.Errs {
			r.Fail("C04/funcname", fn+" engine", "-", m)
		}
		failed := false
		for _, s := range e.Sites() {
			if len(s.Fails) > 0 {
				failed = true
			}
		}
		// a helper that receives the token as a parameter: decided where it is called (helper interpreted in place)
		if fobj := FuncObj(pkg, fd); failed && p.onlyCalledDirectly(fobj) && smallBody(fd) {
			decided := 0
			for _, caller := range AllFuncs(pkg) {
				if caller == fd || !p.callsAny(caller, map[*types.Func]bool{fobj: true}) {
					continue
				}
				c2 := &funcNameClient{p: p, fn: FuncName(pkg, caller), ident: constKey(idc.Val()), inline: fobj}
				e2 := NewEngine(p, pkg, caller, c2)
				e2.Run(nil)
				for _, m := range e2.Errs {
					r.Fail("C04/funcname", c2.fn+" engine", "-", m)
				}
				decided += len(e2.Sites())
				e2.FlushSites(r)
			}
			if decided > 0 {
				continue
			}
		}
		e.FlushSites(r)
	}
	r.Floor("C04/funcname", 1)
}

// ---- C05/refs: names written as table references are names of subqueries that exist.
//
// In splitQueries/chainSubquery every quoted identifier written into a FROM/JOIN source is the name field of a
// subquery taken from the list being built (so the common table expression is defined), the table name of the
// pipeline's data source, or a constant alias - never a name computed on the side.
func ruleC05Refs(p *Program, r *Run) {
	g := p.Grammar()
	info := p.Info
	n := 0
	for _, ev := range g.events {
		if ev.Kind != "Q" {
			continue
		}
		name := declName(ev.Func)
		if name != "splitQueries" && name != "chainSubquery" {
			continue
		}
		n++
		arg := p.Resolve(ev.Arg)
		key := fmt.Sprintf("%s table reference #%d %s", ev.FnName, n, exprStr(ev.Arg))
		ok, how := false, ""
		switch {
		case constOf(info, arg) != nil:
			ok, how = true, "constant alias"
		default:
			if sel, isSel := ast.Unparen(arg).(*ast.SelectorExpr); isSel {
				if f := selField(info, sel); f != nil {
					owner := TypeStr(info.TypeOf(sel.X))
					switch {
					case fldName(f) == "name" && owner == "*pql.subquery":
						ok, how = true, "name of a subquery held in the list being built"
					case f.Name() == "Name" && owner == "*parser.Ident":
						ok, how = true, "a name written in the PQL source (table of the data source)"
					}
				}
			}
		}
		r.Check(ok, "C05/refs", key, p.Pos(ev.Call.Pos()), how, "a table reference is written from "+exprStr(arg)+", which is neither the name of a subquery in the list being built, a table named in the source, nor a constant alias: the statement could read a common table expression that is never defined")
	}
	r.Floor("C05/refs", 3)
}

// ---- C10/linecol: columns are counted in characters.
//
// Both line:column helpers must walk the text before the position rune by rune (range over a string); a loop that
// indexes bytes counts a multi-byte character several times and reports columns beyond the end of the line.
func ruleC10Linecol(p *Program, r *Run) {
	for _, pkg := range p.Lib() {
		fd := p.FuncDecl(pkg, "linecol")
		if fd == nil {
			continue
		}
		fn := FuncName(pkg, fd)
		r.Saw(fn)
		info := p.Info
		ok, why := true, ""
		seenRange := false
		ast.Inspect(fd.Body, func(n ast.Node) bool {
			switch v := n.(type) {
			case *ast.RangeStmt:
				if b, isB := info.TypeOf(v.X).Underlying().(*types.Basic); isB && b.Info()&types.IsString != 0 {
					seenRange = true
				} else {
					ok, why = false, "iterates over "+TypeStr(info.TypeOf(v.X))+" (bytes), not over the characters of the string"
				}
			case *ast.ForStmt:
				ok, why = false, "walks the text with a counted loop (byte offsets) instead of ranging over its characters"
			case *ast.IndexExpr:
				if b, isB := info.TypeOf(v.X).Underlying().(*types.Basic); isB && b.Info()&types.IsString != 0 {
					ok, why = false, "indexes single bytes of the text ("+exprStr(v)+")"
				}
			}
			return true
		})
		if !seenRange && ok {
			ok, why = false, "no loop over the characters of the text before the position"
		}
		// the column counts from the *last* line break before the position: a search for a line feed in that text
		// that finds the first one (Index, IndexByte, IndexRune, Cut, SplitN) starts the count lines too early
		ast.Inspect(fd.Body, func(n ast.Node) bool {
			call, isCall := n.(*ast.CallExpr)
			if !isCall {
				return true
			}
			f := Callee(info, call)
			if f == nil || f.Pkg() == nil || (f.Pkg().Path() != "strings" && f.Pkg().Path() != "bytes") {
				return true
			}
			switch f.Name() {
			case "Index", "IndexByte", "IndexRune", "IndexAny", "Cut", "SplitN", "SplitAfterN":
			default:
				return true
			}
			for _, a := range call.Args[1:] {
				if v := constOf(info, a); v != nil {
					isNL := false
					if v.Kind() == constant.String && constant.StringVal(v) == "\n" {
						isNL = true
					} else if nv, isInt := constant.Int64Val(constant.ToInt(v)); isInt && v.Kind() != constant.String && nv == 10 {
						isNL = true
					}
					if isNL {
						r.Check(false, "C10/linecol", fn+" searches the last line break", p.Pos(call.Pos()), "", "the text before the position is searched for its first line feed ("+f.FullName()+"), not its last: from the third line on the column is counted from the end of line 1 and points far beyond the end of the line")
					}
				}
			}
			return true
		})
		r.Check(ok, "C10/linecol", fn+" counts characters", p.Pos(fd.Pos()), "ranges over the runes of the text before the position", "line:column is not counted in characters: "+why+" - a position after non-ASCII text would be reported beyond the end of its line")
		// the line number changes exactly at line feeds (path facts on the character of the iteration)
		var lineVar types.Object
		if rs := namedResults(fd); len(rs) >= 1 {
			lineVar = info.Defs[rs[0]]
		} else {
			ast.Inspect(fd.Body, func(n ast.Node) bool {
				if ret, isRet := n.(*ast.ReturnStmt); isRet && len(ret.Results) >= 1 && lineVar == nil {
					lineVar = objOf(info, ret.Results[0])
				}
				return true
			})
		}
		var colVar types.Object
		if rs := namedResults(fd); len(rs) >= 2 {
			colVar = info.Defs[rs[1]]
		} else {
			ast.Inspect(fd.Body, func(n ast.Node) bool {
				if ret, isRet := n.(*ast.ReturnStmt); isRet && len(ret.Results) >= 2 && colVar == nil {
					colVar = objOf(info, ret.Results[1])
				}
				return true
			})
		}
		if lineVar != nil && ok {
			lc := &linecolClient{fn: fn, line: lineVar, col: colVar}
			le := NewEngine(p, pkg, fd, lc)
			le.Run(nil)
			for _, m := range le.Errs {
				r.Fail("C10/linecol", fn+" engine", "-", m)
			}
			le.FlushSites(r)
		}
	}
	r.Floor("C10/linecol", 2)
}

// linecolClient: inside the loop over the characters, the line counter is changed on a path iff the character of
// this iteration is known to be a line feed.
type linecolClient struct {
	BaseClient
	fn   string
	line types.Object
	col  types.Object
}

func (c *linecolClient) charKey(e *Engine, loop ast.Stmt) string {
	if rs, ok := loop.(*ast.RangeStmt); ok && rs.Value != nil {
		if o := objOf(e.Info, rs.Value); o != nil {
			return e.objKey(o)
		}
	}
	return ""
}

func (c *linecolClient) LoopHead(e *Engine, st *State, loop ast.Stmt) *State {
	if c.charKey(e, loop) == "" {
		return nil
	}
	return st.WithExt("lineinc", "")
}

func (c *linecolClient) PostAssign(e *Engine, st *State, lhs, rhs []ast.Expr, stmt ast.Stmt) *State {
	for _, l := range lhs {
		if objOf(e.Info, l) != c.line {
			continue
		}
		// inside the loop?
		var loop ast.Stmt
		for n := e.P.Parent(stmt); n != nil; n = e.P.Parent(n) {
			if rs, ok := n.(*ast.RangeStmt); ok {
				loop = rs
				break
			}
		}
		if loop == nil {
			continue
		}
		if e.Reporting() {
			ck := c.charKey(e, loop)
			f := st.GetVar(ck)
			ok := f != nil && f.HasEq && f.Eq == "10"
			e.Site("C10/linecol", c.fn+" line counter changes only at a line feed", stmt, ok, "the character of the iteration is known to be '\\n' where the line number is changed")
			if !ok {
				e.Site("C10/linecol", c.fn+" line counter changes only at a line feed", stmt, false, "the line number is changed on a path where the character is not known to be a line feed: with CRLF (or any other character counted) every line break is counted more than once and positions point past the end of the source")
			}
		}
		return st.WithExt("lineinc", "1")
	}
	return nil
}

func (c *linecolClient) LoopBack(e *Engine, st *State, loop ast.Stmt) {
	ck := c.charKey(e, loop)
	if ck == "" || !e.Reporting() {
		return
	}
	if f := st.GetVar(ck); f != nil && f.HasEq && f.Eq == "10" {
		ok := st.Ext("lineinc") == "1"
		e.Site("C10/linecol", c.fn+" a line feed advances the line", loop, ok, "every iteration that saw '\\n' changed the line number")
		if !ok {
			e.Site("C10/linecol", c.fn+" a line feed advances the line", loop, false, "an iteration whose character is a line feed leaves the line number unchanged")
		}
		// and the column starts again at 1: nothing else is counted for the line feed itself
		if c.col != nil {
			cf := st.GetVar(e.objKey(c.col))
			okc := cf != nil && cf.HasEq && cf.Eq == "1"
			e.Site("C10/linecol", c.fn+" a line feed restarts the column", loop, okc, "after an iteration that saw '\n' the column is known to be 1")
			if !okc {
				e.Site("C10/linecol", c.fn+" a line feed restarts the column", loop, false, "after an iteration whose character is a line feed the column is not known to be 1 (it is counted on, or not reset): every position on a later line is reported one or more columns off")
			}
		}
	}
}

// ---- C12/errdup: an error value is merged into an accumulated error at most once per path.
//
// Joining the same error twice doubles the error list at every nesting level (2^depth on nested erroneous input).
type errDupClient struct {
	BaseClient
	InlinePredicates
	fn   string
	join *types.Func
	n    map[*ast.CallExpr]int
}

func (c *errDupClient) PreCall(e *Engine, st *State, call *ast.CallExpr, callee *types.Func) *State {
	if callee == nil || (callee != c.join && callee.Origin() != c.join) {
		return nil
	}
	out := st
	for i, a := range call.Args {
		// the error variable merged by this argument: the argument itself, or what a wrapper call passes on
		// (joinErrors(acc, makeErrorOpaque(err)))
		var id *ast.Ident
		ast.Inspect(a, func(n ast.Node) bool {
			if x, ok := n.(*ast.Ident); ok && id == nil {
				if o, isVar := objOf(e.Info, x).(*types.Var); isVar && !o.IsField() && isErrorType(o.Type()) {
					id = x
				}
			}
			return id == nil
		})
		if id == nil {
			continue
		}
		o := objOf(e.Info, id)
		// the accumulator itself (x = joinErrors(x, ...)) is reassigned by this very statement
		if as, ok := e.P.Parent(call).(*ast.AssignStmt); ok && len(as.Lhs) == 1 && objOf(e.Info, as.Lhs[0]) == o {
			continue
		}
		key := fmt.Sprintf("%s joinErrors call #%d argument %s", c.fn, callOrdinal(e, call, c.join), id.Name)
		joined := out.Ext("joined:"+e.objKey(o)) == "1"
		known := e.IsNil(out, id)
		ok2 := !joined || known
		e.Site("C12/errdup", key, call, ok2, "merged once on every path (or known nil)")
		if !ok2 {
			e.Site("C12/errdup", key, call, false, fmt.Sprintf("the error held in %s (argument #%d) is merged into an accumulated error a second time on some path without having been reassigned: every nesting level doubles the error list (exponential time and memory on nested erroneous input)", id.Name, i+1))
		}
		out = out.WithExt("joined:"+e.objKey(o), "1")
	}
	if out != st {
		return out
	}
	return nil
}

func (c *errDupClient) PostAssign(e *Engine, st *State, lhs, rhs []ast.Expr, _ ast.Stmt) *State {
	out := st
	for _, l := range lhs {
		if o := objOf(e.Info, l); o != nil && out.Ext("joined:"+e.objKey(o)) != "" {
			out = out.WithExt("joined:"+e.objKey(o), "")
		}
	}
	if out != st {
		return out
	}
	return nil
}

func ruleC12ErrDup(p *Program, r *Run) {
	pkg := p.Parser
	jfd := p.FuncDecl(pkg, "joinErrors")
	if jfd == nil {
		return
	}
	join := FuncObj(pkg, jfd)
	for _, fd := range AllFuncs(pkg) {
		uses := 0
		ast.Inspect(fd.Body, func(n ast.Node) bool {
			if call, ok := n.(*ast.CallExpr); ok && Callee(p.Info, call) == join {
				uses++
			}
			return true
		})
		if uses < 2 {
			continue
		}
		fn := FuncName(pkg, fd)
		r.Saw(fn)
		c := &errDupClient{fn: fn, join: join}
		e := NewEngine(p, pkg, fd, c)
		e.Run(nil)
		for _, m := range e.Errs {
			r.Fail("C12/errdup", fn+" engine", "-", m)
		}
		e.FlushSites(r)
	}
	r.Floor("C12/errdup", 4)
}

// ---- C13/lost-error: an error result is never overwritten while it may still hold an unreported error.
type lostErrClient struct {
	BaseClient
	InlinePredicates
	fn string
}

func isErrorType(t types.Type) bool { return t != nil && TypeStr(t) == "error" }

func (c *lostErrClient) consume(e *Engine, st *State, x ast.Expr) *State {
	out := st
	ast.Inspect(x, func(n ast.Node) bool {
		if id, ok := n.(*ast.Ident); ok {
			if o := objOf(e.Info, id); o != nil && out.Ext("pend:"+e.objKey(o)) == "1" {
				out = out.WithExt("pend:"+e.objKey(o), "")
			}
		}
		return true
	})
	return out
}

func (c *lostErrClient) PreCall(e *Engine, st *State, call *ast.CallExpr, _ *types.Func) *State {
	out := st
	for _, a := range call.Args {
		out = c.consume(e, out, a)
	}
	if out != st {
		return out
	}
	return nil
}

func (c *lostErrClient) PreAssign(e *Engine, st *State, lhs, rhs []ast.Expr, stmt ast.Stmt) *State {
	out := st
	// values flowing into other variables or fields are accounted for there
	for _, rr := range rhs {
		if _, isCall := ast.Unparen(rr).(*ast.CallExpr); !isCall {
			out = c.consume(e, out, rr)
		}
	}
	for _, l := range lhs {
		id, ok := ast.Unparen(l).(*ast.Ident)
		if !ok || id.Name == "_" {
			continue
		}
		o := objOf(e.Info, id)
		if o == nil || !isErrorType(o.Type()) {
			continue
		}
		if out.Ext("pend:"+e.objKey(o)) == "1" && !e.IsNil(out, id) && e.Reporting() {
			// replaced by something that is itself known to be an error: the outcome stays a failure
			// (only the wording of what is reported changes)
			if len(lhs) == len(rhs) {
				var mine ast.Expr
				for i := range lhs {
					if lhs[i] == l {
						mine = rhs[i]
					}
				}
				if mine != nil && errorForSure(e, out, mine) {
					continue
				}
			}
			key := fmt.Sprintf("%s overwrites %s by %s", c.fn, id.Name, exprStr(rhs[0]))
			e.Site("C13/lost-error", key, l, false, fmt.Sprintf("the error variable %s is assigned again while the error of an earlier call may still be in it, unreturned and unmerged: that failure is silently dropped and the construct is accepted", id.Name))
		}
	}
	if out != st {
		return out
	}
	return nil
}

// errorForSure: x is known to be a non-nil error - a fresh error, a variable known non-nil, or a merge or wrapper
// (module functions from errors to an error) of something that is.
func errorForSure(e *Engine, st *State, x ast.Expr) bool {
	if knownNonNilError(e, st, x) {
		return true
	}
	call, ok := ast.Unparen(x).(*ast.CallExpr)
	if !ok {
		return false
	}
	f := Callee(e.Info, call)
	if f == nil || !isErrorCombinator(e.P, f) {
		return false
	}
	for _, a := range call.Args {
		if errorForSure(e, st, a) {
			return true
		}
	}
	return false
}

// isErrorCombinator: a function of the module whose parameters are all errors (or a list of errors) and whose
// single result is an error: joinErrors, makeErrorOpaque and the like. They are taken to return nil only when every
// argument is nil (an assumption that can only silence this rule, never make it fire).
func isErrorCombinator(p *Program, f *types.Func) bool {
	if d, _ := p.DeclOf(f); d == nil {
		switch f.FullName() {
		case "errors.Join":
			return true
		}
		return false
	}
	sig := f.Type().(*types.Signature)
	if sig.Results().Len() != 1 || !isErrorType(sig.Results().At(0).Type()) || sig.Params().Len() == 0 || sig.Recv() != nil {
		return false
	}
	for i := 0; i < sig.Params().Len(); i++ {
		t := sig.Params().At(i).Type()
		if sl, ok := t.(*types.Slice); ok {
			t = sl.Elem()
		}
		if !isErrorType(t) {
			return false
		}
	}
	return true
}

func (c *lostErrClient) PostAssign(e *Engine, st *State, lhs, rhs []ast.Expr, _ ast.Stmt) *State {
	if len(rhs) != 1 {
		return nil
	}
	if _, ok := ast.Unparen(rhs[0]).(*ast.CallExpr); !ok {
		return nil
	}
	out := st
	for _, l := range lhs {
		id, ok := ast.Unparen(l).(*ast.Ident)
		if !ok || id.Name == "_" {
			continue
		}
		if o := objOf(e.Info, id); o != nil && isErrorType(o.Type()) {
			// a fresh result of a call (also of a wrapper or merge of earlier errors): pending until looked at
			out = out.WithExt("pend:"+e.objKey(o), "1")
		}
	}
	if out != st {
		return out
	}
	return nil
}

func (c *lostErrClient) Return(e *Engine, st *State, ret *ast.ReturnStmt) {}

// AssumeCond: testing the variable counts as looking at it.
func (c *lostErrClient) Stmt(e *Engine, st *State, s ast.Stmt) *State {
	out := st
	switch v := s.(type) {
	case *ast.IfStmt:
		out = c.consume(e, out, v.Cond)
	case *ast.ReturnStmt:
		for _, x := range v.Results {
			out = c.consume(e, out, x)
		}
	case *ast.SwitchStmt:
		if v.Tag != nil {
			out = c.consume(e, out, v.Tag)
		}
	}
	if out != st {
		return out
	}
	return nil
}

func ruleC13LostError(p *Program, r *Run) {
	n := 0
	for _, pkg := range p.Lib() {
		for _, fd := range AllFuncs(pkg) {
			// functions that assign an error variable from more than one call
			cnt := 0
			ast.Inspect(fd.Body, func(x ast.Node) bool {
				if as, ok := x.(*ast.AssignStmt); ok && len(as.Rhs) == 1 {
					if _, isCall := ast.Unparen(as.Rhs[0]).(*ast.CallExpr); isCall {
						for _, l := range as.Lhs {
							if o := objOf(p.Info, l); o != nil && isErrorType(o.Type()) {
								cnt++
							}
						}
					}
				}
				return true
			})
			if cnt < 2 {
				continue
			}
			fn := FuncName(pkg, fd)
			r.Saw(fn)
			c := &lostErrClient{fn: fn}
			e := NewEngine(p, pkg, fd, c)
			e.Run(nil)
			for _, m := range e.Errs {
				r.Fail("C13/lost-error", fn+" engine", "-", m)
			}
			sites := e.Sites()
			if len(sites) == 0 {
				n++
				r.PassNT("C13/lost-error", fn+" error results", p.Pos(fd.Pos()), "on every path each error result is returned, merged, tested or known nil before its variable is assigned again")
			}
			e.FlushSites(r)
		}
	}
	r.Floor("C13/lost-error", 10)
}

// ---- C15/returns: SplitStatements returns the list built from the token-bounded pieces on every path.
func ruleC15Returns(p *Program, r *Run) {
	pkg := p.Parser
	info := p.Info
	fd := p.MustFunc(pkg, "SplitStatements")
	fn := FuncName(pkg, fd)
	source := info.Defs[fd.Type.Params.List[0].Names[0]]
	// the result variable: the one the source slices are appended to
	var parts types.Object
	ast.Inspect(fd.Body, func(n ast.Node) bool {
		as, ok := n.(*ast.AssignStmt)
		if !ok || len(as.Lhs) != 1 || len(as.Rhs) != 1 {
			return true
		}
		call, ok := ast.Unparen(as.Rhs[0]).(*ast.CallExpr)
		if !ok || !IsBuiltinCall(info, call, "append") || len(call.Args) < 2 {
			return true
		}
		for _, a := range call.Args[1:] {
			if sl, ok := ast.Unparen(a).(*ast.SliceExpr); ok && objOf(info, sl.X) == source {
				parts = objOf(info, as.Lhs[0])
			}
		}
		return true
	})
	if parts == nil {
		ast.Inspect(fd.Body, func(n ast.Node) bool {
			if ret, ok := n.(*ast.ReturnStmt); ok && len(ret.Results) == 1 {
				if call, ok := ast.Unparen(ret.Results[0]).(*ast.CallExpr); ok && IsBuiltinCall(info, call, "append") && len(call.Args) >= 2 {
					parts = objOf(info, call.Args[0])
				}
			}
			return true
		})
	}
	okRet, nret := parts != nil, 0
	why := "no result list built from slices of the source"
	ast.Inspect(fd.Body, func(n ast.Node) bool {
		switch v := n.(type) {
		case *ast.FuncLit:
			return false
		case *ast.ReturnStmt:
			nret++
			good := len(v.Results) == 1 && objOf(info, v.Results[0]) == parts
			// return append(parts, source[start:])
			if len(v.Results) == 1 && !good {
				if call, ok := ast.Unparen(v.Results[0]).(*ast.CallExpr); ok && IsBuiltinCall(info, call, "append") && len(call.Args) >= 2 && objOf(info, call.Args[0]) == parts {
					good = true
					for _, a := range call.Args[1:] {
						if sl, ok := ast.Unparen(a).(*ast.SliceExpr); !ok || objOf(info, sl.X) != source {
							good = false
						}
					}
				}
			}
			// return []string{source} where the source is known to contain no semicolon at all: no character but
			// ';' yields a semicolon token (C09/tables, part of this check), so there is nothing to cut
			if !good && len(v.Results) == 1 {
				if cl, ok := ast.Unparen(v.Results[0]).(*ast.CompositeLit); ok && len(cl.Elts) == 1 && objOf(info, cl.Elts[0]) == source && p.underNoSemicolon(v, source) {
					good = true
				}
			}
			if !good {
				okRet = false
				why = "the return at " + p.Pos(v.Pos()) + " returns " + exprStr(v.Results[0]) + ", not the list of token-bounded pieces"
			}
		case *ast.AssignStmt:
			// the list is only ever appended to with slices of the source (or created empty)
			for i, l := range v.Lhs {
				if objOf(info, l) != parts || parts == nil || i >= len(v.Rhs) {
					continue
				}
				rhs := ast.Unparen(v.Rhs[i])
				if call, ok := rhs.(*ast.CallExpr); ok {
					if IsBuiltinCall(info, call, "make") {
						continue
					}
					if IsBuiltinCall(info, call, "append") && objOf(info, call.Args[0]) == parts {
						for _, a := range call.Args[1:] {
							if sl, ok := ast.Unparen(a).(*ast.SliceExpr); !ok || objOf(info, sl.X) != source {
								okRet = false
								why = "at " + p.Pos(v.Pos()) + " something other than a slice of the source is appended: " + exprStr(a)
							}
						}
						continue
					}
				}
				if isNilIdent(info, rhs) {
					continue
				}
				okRet = false
				why = "the result list is assigned from " + exprStr(rhs) + " at " + p.Pos(v.Pos())
			}
		}
		return true
	})
	r.Check(okRet && nret > 0, "C15/provenance", fn+" returns the token-bounded pieces on every path", p.Pos(fd.Pos()), fmt.Sprintf("all %d returns give back the list that only ever receives slices of the source", nret), "the splitter can return something other than the pieces cut at the lexer's semicolon tokens ("+why+"): a shortcut that does not ask the lexer splits inside `!;`, strings or comments differently")
}

var _ = sort.Strings
var _ = token.NoPos
var _ = strings.TrimSpace

// callOrdinal: the position of call among the calls of fn in the function being interpreted.
func callOrdinal(e *Engine, call *ast.CallExpr, fn *types.Func) int {
	n, idx := 0, 0
	ast.Inspect(e.CurFunc().Body, func(x ast.Node) bool {
		if c, ok := x.(*ast.CallExpr); ok {
			if f := Callee(e.Info, c); f != nil && (f == fn || f.Origin() == fn) {
				n++
				if c == call {
					idx = n
				}
			}
		}
		return true
	})
	return idx
}

// ---- C10/clause: the span recorded for a sort term's direction / null-placement clause starts at the clause's own
// first keyword and ends at its last (path facts on the tokens' text where the span is stored).
type clauseSpanClient struct {
	BaseClient
	InlinePredicates
	fn string
}

// Inline: helpers that are handed the term to fill in are read where they are called (as in C07/sortdefaults).
func (c *clauseSpanClient) Inline(e *Engine, call *ast.CallExpr, callee *types.Func, decl *ast.FuncDecl) bool {
	return (&sortTermClient{}).Inline(e, call, callee, decl)
}

func (c *clauseSpanClient) textOf(e *Engine, st *State, tok ast.Expr) (string, bool) {
	k := e.CanonSt(st, tok)
	if !k.OK {
		return "", false
	}
	if f := st.Get(k.Key + ".Value"); f != nil && f.HasEq {
		return strings.Trim(f.Eq, `"`), true
	}
	return "", false
}

func (c *clauseSpanClient) PreAssign(e *Engine, st *State, lhs, rhs []ast.Expr, _ ast.Stmt) *State {
	if len(lhs) != len(rhs) || !e.Reporting() {
		return nil
	}
	for i, l := range lhs {
		f := selField(e.Info, l)
		if f == nil || (f.Name() != "NullsSpan" && f.Name() != "AscDescSpan") {
			continue
		}
		key := fmt.Sprintf("%s span stored into %s", c.fn, f.Name())
		r := e.ResolveExpr(rhs[i])
		ok, how := false, "the stored span is not built from the tokens of the clause"
		tokOfSpan := func(x ast.Expr, field string) ast.Expr {
			// X.Span.<field> or X.Span
			sel, isSel := ast.Unparen(x).(*ast.SelectorExpr)
			if !isSel {
				return nil
			}
			if field != "" {
				if sel.Sel.Name != field {
					return nil
				}
				sel, isSel = ast.Unparen(sel.X).(*ast.SelectorExpr)
				if !isSel {
					return nil
				}
			}
			if sel.Sel.Name != "Span" || TypeStr(e.Info.TypeOf(sel.X)) != "parser.Token" {
				return nil
			}
			return sel.X
		}
		switch f.Name() {
		case "AscDescSpan":
			if tok := tokOfSpan(r, ""); tok != nil {
				if w, known := c.textOf(e, st, tok); known && (w == "asc" || w == "desc") {
					ok, how = true, "span of the token known to be asc/desc"
				} else {
					how = fmt.Sprintf("the span is that of a token whose text is %q (known=%v), not the asc/desc keyword", w, known)
				}
			}
		case "NullsSpan":
			if call, isCall := ast.Unparen(r).(*ast.CallExpr); isCall && len(call.Args) == 2 {
				if fn := Callee(e.Info, call); fn != nil && fnName(fn) == "newSpan" {
					a, b := tokOfSpan(call.Args[0], "Start"), tokOfSpan(call.Args[1], "End")
					if a != nil && b != nil {
						wa, ka := c.textOf(e, st, a)
						wb, kb := c.textOf(e, st, b)
						if ka && kb && wa == "nulls" && (wb == "first" || wb == "last") {
							ok, how = true, "from the start of the token known to be `nulls` to the end of the token known to be first/last"
						} else {
							how = fmt.Sprintf("the span runs from a token whose text is %q (known=%v) to one whose text is %q (known=%v); documented: from `nulls` to first/last", wa, ka, wb, kb)
						}
					}
				}
			}
		}
		e.Site("C10/clause", key, l, ok, how)
		if !ok {
			e.Site("C10/clause", key, l, false, how+": the recorded position would not designate the clause's own text")
		}
	}
	return nil
}

func ruleC10Clause(p *Program, r *Run) {
	pkg := p.Parser
	fd := p.MustFunc(pkg, "parser.sortTerm")
	fn := FuncName(pkg, fd)
	r.Saw(fn)
	c := &clauseSpanClient{fn: fn}
	e := NewEngine(p, pkg, fd, c)
	e.Run(nil)
	for _, m := range e.Errs {
		r.Fail("C10/clause", fn+" engine", "-", m)
	}
	e.FlushSites(r)
	r.Floor("C10/clause", 2)
}

// underNoSemicolon: the statement is only reached when the string variable is known not to contain a ';' - it sits
// in the then-branch of an if whose condition implies `!strings.Contains(v, ";")` (Contains, ContainsRune,
// ContainsAny, Index*, Count forms).
func (p *Program) underNoSemicolon(n ast.Node, v types.Object) bool {
	info := p.Info
	var child ast.Node = n
	for cur := p.Parent(n); cur != nil; child, cur = cur, p.Parent(cur) {
		if _, isFn := cur.(*ast.FuncDecl); isFn {
			return false
		}
		ifs, ok := cur.(*ast.IfStmt)
		if !ok || ifs.Body != child {
			continue
		}
		if p.impliesNoSemicolon(info, ifs.Cond, v) || p.impliesNoSemicolon(info, p.ResolveDeep(ifs.Cond), v) {
			return true
		}
	}
	return false
}

func (p *Program) impliesNoSemicolon(info *types.Info, cond ast.Expr, v types.Object) bool {
	cond = ast.Unparen(cond)
	isSemi := func(x ast.Expr) bool {
		if s, ok := constString(info, x); ok {
			return s == ";"
		}
		if n, ok := constInt(info, x); ok {
			return n == ';'
		}
		return false
	}
	search := func(x ast.Expr, names ...string) bool {
		call, ok := ast.Unparen(x).(*ast.CallExpr)
		if !ok || len(call.Args) != 2 || objOf(info, call.Args[0]) != v || !isSemi(call.Args[1]) {
			return false
		}
		f := Callee(info, call)
		if f == nil || f.Pkg() == nil || f.Pkg().Path() != "strings" {
			return false
		}
		for _, n := range names {
			if f.Name() == n {
				return true
			}
		}
		return false
	}
	// len(Scan(v)) == 0: no tokens at all
	noTokens := func(x ast.Expr) bool {
		call, ok := ast.Unparen(x).(*ast.CallExpr)
		if !ok || !IsBuiltinCall(info, call, "len") || len(call.Args) != 1 {
			return false
		}
		sc, ok := ast.Unparen(p.DefExpr(call.Args[0])).(*ast.CallExpr)
		if !ok || len(sc.Args) != 1 || objOf(info, sc.Args[0]) != v {
			return false
		}
		f := Callee(info, sc)
		return f != nil && f.Pkg() != nil && f.Pkg().Path() == PathParser && fnName(f) == "Scan"
	}
	if b, ok := cond.(*ast.BinaryExpr); ok {
		if z, isC := constInt(info, b.Y); isC && noTokens(b.X) && (b.Op == token.EQL && z == 0 || b.Op == token.LSS && z == 1 || b.Op == token.LEQ && z == 0) {
			return true
		}
	}
	switch c := cond.(type) {
	case *ast.UnaryExpr:
		if c.Op == token.NOT {
			return search(c.X, "Contains", "ContainsRune", "ContainsAny")
		}
	case *ast.BinaryExpr:
		switch c.Op {
		case token.LAND:
			return p.impliesNoSemicolon(info, c.X, v) || p.impliesNoSemicolon(info, c.Y, v)
		case token.LSS:
			if z, ok := constInt(info, c.Y); ok && z == 0 {
				return search(c.X, "Index", "IndexByte", "IndexRune", "IndexAny", "LastIndex", "LastIndexByte")
			}
		case token.EQL:
			if z, ok := constInt(info, c.Y); ok {
				if z == -1 {
					return search(c.X, "Index", "IndexByte", "IndexRune", "IndexAny", "LastIndex", "LastIndexByte")
				}
				if z == 0 {
					return search(c.X, "Count")
				}
			}
		}
	}
	return false
}

// ---- C06/quoted-flag: an identifier node is marked Quoted exactly when its name does not come from a plain
// identifier token.
//
// The compiler substitutes let bindings and parameters only for names whose Quoted flag is false; the flag is set
// where the parser builds the node. Decided on the path facts at every Ident literal of the parser: the name is the
// text of a token whose kind is known there; Quoted must be known true for anything but TokenIdentifier (a
// backtick name, or any new way of spelling a name literally) and known false for TokenIdentifier (or a plain
// name would never see its binding).
type quotedFlagClient struct {
	BaseClient
	InlinePredicates
	p      *Program
	fn     string
	ident  string
	n      int
	inline *types.Func
}

func (c *quotedFlagClient) Inline(e *Engine, call *ast.CallExpr, callee *types.Func, decl *ast.FuncDecl) bool {
	if c.inline != nil && callee == c.inline {
		return true
	}
	return c.InlinePredicates.Inline(e, call, callee, decl)
}

func (c *quotedFlagClient) Visit(e *Engine, st *State, n ast.Node) *State {
	cl, ok := n.(*ast.CompositeLit)
	if !ok || TypeStr(e.Info.TypeOf(cl)) != "parser.Ident" || !e.Reporting() {
		return nil
	}
	c.n++
	where := c.fn
	if k := e.FrameKey(); k != "" {
		where += " > " + k
	}
	key := fmt.Sprintf("%s Ident literal at %s", where, posInFunc(e, cl))
	nv := litField(e.Info, cl, "Name")
	if nv == nil {
		return nil
	}
	if constOf(e.Info, nv) != nil {
		return nil // a synthesised name
	}
	sel, isSel := ast.Unparen(e.ResolveExpr(nv)).(*ast.SelectorExpr)
	if !isSel || sel.Sel.Name != "Value" || TypeStr(e.Info.TypeOf(sel.X)) != "parser.Token" {
		e.Site("C06/quoted-flag", key, cl, false, "the name of an identifier node is not the text of a token ("+exprStr(nv)+"): whether it may be substituted by a let binding cannot be decided")
		return nil
	}
	k := e.CanonSt(st, sel.X)
	var f *Fact
	if k.OK {
		f = st.Get(k.Key + ".Kind")
	}
	plain, known := false, false
	switch {
	case f != nil && f.HasEq:
		plain, known = f.Eq == c.ident, true
	case f != nil && hasStr(f.Ne, c.ident):
		plain, known = false, true
	}
	if !known {
		e.Site("C06/quoted-flag", key, cl, false, "the kind of the token the name is taken from is not known where the identifier node is built")
		return nil
	}
	q := litField(e.Info, cl, "Quoted")
	var isQ, qKnown bool
	switch {
	case q == nil:
		isQ, qKnown = false, true
	case e.Known(st, q, true):
		isQ, qKnown = true, true
	case e.Known(st, q, false):
		isQ, qKnown = false, true
	}
	okQ := qKnown && isQ == !plain
	how := fmt.Sprintf("token is a plain identifier: %v, Quoted: %v", plain, isQ)
	e.Site("C06/quoted-flag", key, cl, okQ, how)
	if !okQ {
		if plain {
			e.Site("C06/quoted-flag", key, cl, false, "a plain identifier is marked Quoted (or the flag is not determined): let bindings and parameters would not be substituted for it")
		} else {
			e.Site("C06/quoted-flag", key, cl, false, "a name that does not come from a plain identifier token is not marked Quoted: a literally spelled name would be replaced by a let binding or parameter of the same name")
		}
	}
	return nil
}

// posInFunc: ordinal of the composite literal among those of the same type in the function being interpreted.
func posInFunc(e *Engine, cl *ast.CompositeLit) string {
	n, idx := 0, 0
	t := TypeStr(e.Info.TypeOf(cl))
	ast.Inspect(e.CurFunc().Body, func(x ast.Node) bool {
		if c, ok := x.(*ast.CompositeLit); ok && TypeStr(e.Info.TypeOf(c)) == t {
			n++
			if c == cl {
				idx = n
			}
		}
		return true
	})
	return fmt.Sprintf("#%d", idx)
}

func ruleC06Quoted(p *Program, r *Run) {
	pkg := p.Parser
	idc, ok := pkg.Types.Scope().Lookup("TokenIdentifier").(*types.Const)
	if !ok {
		fatalf("anchor not found: parser.TokenIdentifier")
	}
	for _, fd := range AllFuncs(pkg) {
		has := false
		ast.Inspect(fd.Body, func(n ast.Node) bool {
			if cl, ok := n.(*ast.CompositeLit); ok && TypeStr(p.Info.TypeOf(cl)) == "parser.Ident" {
				has = true
			}
			return !has
		})
		if !has {
			continue
		}
		fn := FuncName(pkg, fd)
		r.Saw(fn)
		c := &quotedFlagClient{p: p, fn: fn, ident: constKey(idc.Val())}
		e := NewEngine(p, pkg, fd, c)
		e.Run(nil)
		for _, m := range e.Errs {
			r.Fail("C06/quoted-flag", fn+" engine", "-", m)
		}
		failed := false
		for _, s := range e.Sites() {
			if len(s.Fails) > 0 {
				failed = true
			}
		}
		if fobj := FuncObj(pkg, fd); failed && p.onlyCalledDirectly(fobj) && smallBody(fd) {
			decided := 0
			for _, caller := range AllFuncs(pkg) {
				if caller == fd || !p.callsAny(caller, map[*types.Func]bool{fobj: true}) {
					continue
				}
				c2 := &quotedFlagClient{p: p, fn: FuncName(pkg, caller), ident: constKey(idc.Val()), inline: fobj}
				e2 := NewEngine(p, pkg, caller, c2)
				e2.Run(nil)
				for _, m := range e2.Errs {
					r.Fail("C06/quoted-flag", c2.fn+" engine", "-", m)
				}
				decided += len(e2.Sites())
				e2.FlushSites(r)
			}
			if decided > 0 {
				continue
			}
		}
		e.FlushSites(r)
	}
	// identifier nodes built outside the parser (the compiler making a column reference out of a column name):
	// a copy of an identifier keeps its Quoted flag
	for _, opkg := range p.All {
		if opkg == pkg {
			continue
		}
		oinfo := opkg.TypesInfo
		for _, fd := range AllFuncs(opkg) {
			n := 0
			ast.Inspect(fd.Body, func(x ast.Node) bool {
				cl, ok := x.(*ast.CompositeLit)
				if !ok || strings.TrimPrefix(TypeStr(oinfo.TypeOf(cl)), "*") != "parser.Ident" {
					return true
				}
				n++
				fn := FuncName(opkg, fd)
				r.Saw(fn)
				key := fmt.Sprintf("%s Ident literal #%d", fn, n)
				nv := litField(oinfo, cl, "Name")
				if nv == nil || constOf(oinfo, nv) != nil {
					r.Pass("C06/quoted-flag", key, p.Pos(cl.Pos()), "a synthesised name (constant or empty)")
					return true
				}
				if args, isParam := p.paramCallArgs(objOf(oinfo, nv)); isParam && p.neverReassigned(objOf(oinfo, nv)) {
					allConst := true
					for _, a := range args {
						if constOf(p.Info, a) == nil {
							allConst = false
						}
					}
					if allConst {
						r.Pass("C06/quoted-flag", key, p.Pos(cl.Pos()), "a synthesised name: the parameter is a constant at every call")
						return true
					}
				}
				src, isSel := ast.Unparen(nv).(*ast.SelectorExpr)
				if !isSel || src.Sel.Name != "Name" || strings.TrimPrefix(TypeStr(oinfo.TypeOf(src.X)), "*") != "parser.Ident" {
					r.Fail("C06/quoted-flag", key, p.Pos(cl.Pos()), "an identifier node is built outside the parser from "+exprStr(nv)+": whether the name was quoted cannot be told, so whether it may be substituted by a let binding cannot be decided")
					return true
				}
				q := litField(oinfo, cl, "Quoted")
				okQ := false
				if qs, isQ := ast.Unparen(q).(*ast.SelectorExpr); q != nil && isQ && qs.Sel.Name == "Quoted" && exprStr(qs.X) == exprStr(src.X) {
					okQ = true
				}
				r.Check(okQ, "C06/quoted-flag", key, p.Pos(cl.Pos()), "a copy of an identifier that copies its Quoted flag", "an identifier node is copied from "+exprStr(src.X)+" without its Quoted flag: a name that was written in backticks becomes a plain name and is replaced by a let binding or parameter of the same name")
				return true
			})
		}
	}
	r.Floor("C06/quoted-flag", 3)
}

// ---- C04/stale: text written into the SQL inside a loop is computed in the same iteration.
//
// A string variable that lives outside a loop, is given source-dependent values inside it and is handed to a call
// inside the loop must have been assigned on every path of the current iteration; otherwise the value written for
// one element is the value computed for an earlier one (a separator such as `sep = ", "` only ever receives
// constants and is exempt).
type staleClient struct {
	BaseClient
	fn     string
	cands  map[ast.Stmt][]types.Object
	nsites int
}

func (c *staleClient) candidates(e *Engine, loop ast.Stmt) []types.Object {
	if v, ok := c.cands[loop]; ok {
		return v
	}
	info := e.Info
	var body *ast.BlockStmt
	switch l := loop.(type) {
	case *ast.ForStmt:
		body = l.Body
	case *ast.RangeStmt:
		body = l.Body
	}
	seen := map[types.Object]bool{}
	var out []types.Object
	if body != nil {
		ast.Inspect(body, func(n ast.Node) bool {
			as, ok := n.(*ast.AssignStmt)
			if !ok {
				return true
			}
			for i, l := range as.Lhs {
				o, isVar := objOf(info, l).(*types.Var)
				if !isVar || seen[o] || o.Pos() >= loop.Pos() && o.Pos() < loop.End() {
					continue
				}
				if b, isBasic := o.Type().Underlying().(*types.Basic); !isBasic || b.Info()&types.IsString == 0 {
					continue
				}
				if len(as.Rhs) == len(as.Lhs) && constOf(info, as.Rhs[i]) != nil {
					continue
				}
				// s = s[i+1:], acc = acc + x: the variable is advanced from its own value - carrying it over is
				// the point of the loop, not a slip
				if len(as.Rhs) == len(as.Lhs) {
					self := false
					ast.Inspect(as.Rhs[i], func(m ast.Node) bool {
						if id, ok := m.(*ast.Ident); ok && objOf(info, id) == types.Object(o) {
							self = true
						}
						return !self
					})
					if self || as.Tok != token.ASSIGN && as.Tok != token.DEFINE {
						continue
					}
				}
				seen[o] = true
				out = append(out, o)
			}
			return true
		})
	}
	if c.cands == nil {
		c.cands = map[ast.Stmt][]types.Object{}
	}
	c.cands[loop] = out
	return out
}

func (c *staleClient) LoopHead(e *Engine, st *State, loop ast.Stmt) *State {
	out := st
	for _, o := range c.candidates(e, loop) {
		out = out.WithExt("stale:"+e.objKey(o), "1")
	}
	if out != st {
		return out
	}
	return nil
}

func (c *staleClient) PostAssign(e *Engine, st *State, lhs, rhs []ast.Expr, _ ast.Stmt) *State {
	out := st
	for _, l := range lhs {
		if o := objOf(e.Info, l); o != nil && out.Ext("stale:"+e.objKey(o)) != "" {
			out = out.WithExt("stale:"+e.objKey(o), "")
		}
	}
	if out != st {
		return out
	}
	return nil
}

func (c *staleClient) PreCall(e *Engine, st *State, call *ast.CallExpr, callee *types.Func) *State {
	if !e.Reporting() {
		return nil
	}
	for _, a := range call.Args {
		ast.Inspect(a, func(n ast.Node) bool {
			id, ok := n.(*ast.Ident)
			if !ok {
				return true
			}
			o, isVar := objOf(e.Info, id).(*types.Var)
			if !isVar {
				return true
			}
			if _, tracked := st.ext["stale:"+e.objKey(o)]; !tracked {
				// only variables that some loop of this function carries across iterations
				found := false
				for _, os := range c.cands {
					for _, x := range os {
						if x == o {
							found = true
						}
					}
				}
				if !found {
					return true
				}
			}
			stale := st.Ext("stale:"+e.objKey(o)) == "1"
			key := fmt.Sprintf("%s value of %s passed to %s", c.fn, o.Name(), exprStr(call.Fun))
			c.nsites++
			e.Site("C04/stale", key, call, !stale, "assigned on every path of the current iteration before it is used")
			if stale {
				e.Site("C04/stale", key, call, false, "the variable keeps its value from an earlier iteration on a path where this iteration assigns nothing to it: the text written for one element is the value computed for another")
			}
			return true
		})
	}
	return nil
}

func ruleC04Stale(p *Program, r *Run) {
	pkg := p.PQL
	n := 0
	for _, fd := range AllFuncs(pkg) {
		loops := false
		ast.Inspect(fd.Body, func(x ast.Node) bool {
			switch x.(type) {
			case *ast.ForStmt, *ast.RangeStmt:
				loops = true
			}
			return !loops
		})
		if !loops {
			continue
		}
		fn := FuncName(pkg, fd)
		c := &staleClient{fn: fn}
		e := NewEngine(p, pkg, fd, c)
		e.Run(nil)
		for _, m := range e.Errs {
			r.Fail("C04/stale", fn+" engine", "-", m)
		}
		n++
		if len(e.Sites()) == 0 {
			r.PassNT("C04/stale", fn+" loops", p.Pos(fd.Pos()), "no string variable is carried across the iterations of a loop with source-dependent values")
		}
		e.FlushSites(r)
	}
	r.Floor("C04/stale", 4)
}

// ---- C08/errors-kept: an error a production has accumulated leaves the production with it.
//
// The parser reports what it could not represent by merging errors into a local accumulator (joinErrors) and
// returning it. On every path from such a merge to a return, the accumulator (unless known nil) must be part of
// what is returned - a `return x, nil` behind it accepts the source although tokens were skipped.
type errKeptClient struct {
	BaseClient
	fn string
}

// PreAssign: an accumulator that may hold errors is not replaced by something that may be nil.
func (c *errKeptClient) PreAssign(e *Engine, st *State, lhs, rhs []ast.Expr, stmt ast.Stmt) *State {
	if !e.Reporting() || len(e.Frames()) > 0 || len(lhs) != len(rhs) {
		return nil
	}
	for i, l := range lhs {
		id, ok := ast.Unparen(l).(*ast.Ident)
		if !ok {
			continue
		}
		o := objOf(e.Info, id)
		if o == nil || !isErrorType(o.Type()) || st.Ext("acc:"+e.objKey(o)) != "1" {
			continue
		}
		if f := st.Get(e.objKey(o)); f != nil && f.Nil == 1 {
			continue // nothing accumulated on this path
		}
		// merged with itself: joinErrors(acc, ...)
		self := false
		ast.Inspect(rhs[i], func(n ast.Node) bool {
			if x, ok := n.(*ast.Ident); ok && objOf(e.Info, x) == o {
				self = true
			}
			return !self
		})
		if self {
			continue
		}
		nonNil := knownNonNilError(e, st, rhs[i])
		if call, isCall := ast.Unparen(rhs[i]).(*ast.CallExpr); isCall && !nonNil {
			if f := Callee(e.Info, call); f != nil && fnName(f) == "joinErrors" {
				for _, a := range call.Args {
					if knownNonNilError(e, st, a) {
						nonNil = true
					}
				}
			}
		}
		name := o.Name()
		site := fmt.Sprintf("%s assignment %s = %s keeps the failure", c.fn, name, exprStr(rhs[i]))
		e.Site("C08/errors-kept", site, stmt, nonNil, "the accumulator, which may hold errors, is replaced by a value known to be an error")
		if !nonNil {
			e.Site("C08/errors-kept", site, stmt, false, "the accumulated error "+name+" may hold errors of earlier statements or productions and is replaced by a value that may be nil: everything reported so far is forgotten and the parse succeeds")
		}
	}
	return nil
}

func (c *errKeptClient) PostAssign(e *Engine, st *State, lhs, rhs []ast.Expr, _ ast.Stmt) *State {
	out := st
	for i, l := range lhs {
		id, ok := ast.Unparen(l).(*ast.Ident)
		if !ok || id.Name == "_" {
			continue
		}
		o := objOf(e.Info, id)
		if o == nil || !isErrorType(o.Type()) {
			continue
		}
		k := "acc:" + e.objKey(o)
		merged := false
		if len(rhs) == len(lhs) {
			if call, isCall := ast.Unparen(rhs[i]).(*ast.CallExpr); isCall {
				if f := Callee(e.Info, call); f != nil && fnName(f) == "joinErrors" {
					merged = true
				}
			}
		}
		if merged {
			out = out.WithExt(k, "1")
		} else if out.Ext(k) != "" {
			out = out.WithExt(k, "")
		}
	}
	if out != st {
		return out
	}
	return nil
}

func (c *errKeptClient) Return(e *Engine, st *State, ret *ast.ReturnStmt) {
	if !e.Reporting() || e.Lit != nil || ret == nil || len(e.Frames()) > 0 {
		return
	}
	for k, v := range st.ext {
		if !strings.HasPrefix(k, "acc:") || v != "1" {
			continue
		}
		key := strings.TrimPrefix(k, "acc:")
		if f := st.Get(key); f != nil && f.Nil == 1 {
			continue
		}
		name := key
		if i := strings.Index(name, "#"); i > 0 {
			name = name[:i]
		}
		mentioned := len(ret.Results) == 0 // bare return: named results
		for _, x := range ret.Results {
			ast.Inspect(x, func(n ast.Node) bool {
				if id, ok := n.(*ast.Ident); ok {
					if o := objOf(e.Info, id); o != nil && e.objKey(o) == key {
						mentioned = true
					}
				}
				return true
			})
		}
		site := fmt.Sprintf("%s return #%d keeps %s", c.fn, returnOrdinal(e.Func, ret), name)
		e.Site("C08/errors-kept", site, ret, mentioned, "the accumulated error is part of what is returned")
		if !mentioned {
			e.Site("C08/errors-kept", site, ret, false, fmt.Sprintf("errors were merged into %s on a path to this return, but the return does not carry it: the source is accepted although tokens were skipped or a construct was incomplete", name))
		}
	}
}

func ruleC08ErrorsKept(p *Program, r *Run) {
	pkg := p.Parser
	join := p.FuncDecl(pkg, "joinErrors")
	if join == nil {
		return
	}
	jf := FuncObj(pkg, join)
	for _, fd := range AllFuncs(pkg) {
		if fd == join || !p.callsAny(fd, map[*types.Func]bool{jf: true}) {
			continue
		}
		fn := FuncName(pkg, fd)
		r.Saw(fn)
		c := &errKeptClient{fn: fn}
		e := NewEngine(p, pkg, fd, c)
		e.Run(nil)
		for _, m := range e.Errs {
			r.Fail("C08/errors-kept", fn+" engine", "-", m)
		}
		e.FlushSites(r)
	}
	r.Floor("C08/errors-kept", 20)
}

// ---- C10/source: positions are offsets into the caller's string.
//
// Scan and Parse hand out spans; their callers slice the very string they passed in. The text the scanner walks and
// the source the parser records must therefore be the parameter itself, unmodified: the parameter is never assigned
// again, the scanner's text field and the parser's source field are initialised with it, and every Scan call inside
// Parse scans it. (A prefix that is to be ignored has to be skipped by position, not cut off.)
func ruleC10Source(p *Program, r *Run) {
	pkg := p.Parser
	info := p.Info
	check := func(name string, what func(fd *ast.FuncDecl, param types.Object) (bool, string)) {
		fd := p.FuncDecl(pkg, name)
		if fd == nil || fd.Recv != nil || len(fd.Type.Params.List) == 0 || len(fd.Type.Params.List[0].Names) == 0 {
			return
		}
		fn := FuncName(pkg, fd)
		r.Saw(fn)
		param := info.Defs[fd.Type.Params.List[0].Names[0]]
		ok, why := p.neverReassigned(param), "the source parameter is assigned again: positions would index a different string than the caller's"
		if ok {
			ok, why = what(fd, param)
		}
		r.Check(ok, "C10/source", fn+" works on the caller's string", p.Pos(fd.Pos()), "the parameter itself, never reassigned, is what is scanned and recorded", why)
	}
	isParam := func(x ast.Expr, param types.Object) bool {
		return x != nil && objOf(info, p.Resolve(x)) == param
	}
	check("Scan", func(fd *ast.FuncDecl, param types.Object) (bool, string) {
		n, ok, why := 0, true, ""
		ast.Inspect(fd.Body, func(x ast.Node) bool {
			cl, isLit := x.(*ast.CompositeLit)
			if !isLit || TypeStr(info.TypeOf(cl)) != "parser.scanner" {
				return true
			}
			n++
			var text ast.Expr
			for _, el := range cl.Elts {
				if kv, isKV := el.(*ast.KeyValueExpr); isKV {
					if t := info.TypeOf(kv.Value); t != nil {
						if b, isB := t.Underlying().(*types.Basic); isB && b.Info()&types.IsString != 0 {
							text = kv.Value
						}
					}
				}
			}
			if !isParam(text, param) {
				ok, why = false, "the scanner's text is "+exprStr(text)+", not the string that was passed in: every span would be an offset into a different string than the one the caller slices"
			}
			return true
		})
		if n == 0 {
			return false, "no scanner is created over the source"
		}
		return ok, why
	})
	check("Parse", func(fd *ast.FuncDecl, param types.Object) (bool, string) {
		n, ok, why := 0, true, ""
		scan := FuncObj(pkg, p.MustFunc(pkg, "Scan"))
		ast.Inspect(fd.Body, func(x ast.Node) bool {
			switch v := x.(type) {
			case *ast.CallExpr:
				if Callee(info, v) == scan {
					n++
					if len(v.Args) != 1 || !isParam(v.Args[0], param) {
						ok, why = false, "Parse scans "+exprStr(v.Args[0])+", not the string that was passed in"
					}
				}
			case *ast.CompositeLit:
				if TypeStr(info.TypeOf(v)) == "parser.parser" {
					if s := litField(info, v, "source"); s != nil && !isParam(s, param) {
						ok, why = false, "the parser records "+exprStr(s)+" as its source, not the string that was passed in: error positions and node spans would not fit the caller's text"
					}
				}
			}
			return true
		})
		if n == 0 {
			return false, "Parse does not scan its source"
		}
		return ok, why
	})
	// the compiler: the string handed to the parser is the one the spans are later applied to (implicit column names
	// are slices of it, error positions are computed in it)
	{
		pq := p.PQL
		parse := FuncObj(pkg, p.MustFunc(pkg, "Parse"))
		for _, fd := range AllFuncs(pq) {
			var calls []*ast.CallExpr
			ast.Inspect(fd.Body, func(x ast.Node) bool {
				if call, ok := x.(*ast.CallExpr); ok && Callee(info, call) == parse && len(call.Args) == 1 {
					calls = append(calls, call)
				}
				return true
			})
			if len(calls) == 0 {
				continue
			}
			fn := FuncName(pq, fd)
			r.Saw(fn)
			// the string parameter of the function
			var param types.Object
			for _, f := range fd.Type.Params.List {
				for _, nm := range f.Names {
					if TypeStr(info.TypeOf(f.Type)) == "string" && param == nil {
						param = info.Defs[nm]
					}
				}
			}
			for i, call := range calls {
				key := fmt.Sprintf("%s call #%d of parser.Parse is given the caller's string", fn, i+1)
				ok := param != nil && p.neverReassigned(param) && objOf(info, p.Resolve(call.Args[0])) == param
				// every context and error built here records that same string
				why := "the parser is given " + exprStr(call.Args[0]) + ", not the source parameter itself: the spans it records are offsets into a different string than the one the compiler slices column names from and computes error positions in"
				if ok {
					for _, root := range p.regionOf(pq, fd.Body) {
						ast.Inspect(root, func(x ast.Node) bool {
							cl, isLit := x.(*ast.CompositeLit)
							if !isLit {
								return true
							}
							if src := litField(info, cl, "source"); src != nil && StructOf(info.TypeOf(cl)) != nil {
								if o := objOf(info, p.Resolve(src)); o != param {
									if v, isVar := o.(*types.Var); !isVar || p.FuncAt(v.Pos()) == fd {
										ok = false
										why = "a context or error built by the compiler records " + exprStr(src) + " as its source, not the string that was parsed"
									}
								}
							}
							return true
						})
					}
				}
				r.Check(ok, "C10/source", key, p.Pos(call.Pos()), "the source parameter, never reassigned, is parsed and recorded in every context", why)
			}
		}
	}
	r.Floor("C10/source", 3)
}

// ---- C12/args-once: a writer hands each child of its node to the recursive writers at most once per path.
//
// Writing the same child twice makes the output (and the time) double with every nesting level of that construct:
// a source of a few hundred bytes never finishes compiling. Decided on the path states of every function of the
// compiler that writes SQL: the canonical path of every syntax-tree argument passed to a writing function is
// remembered; passing the same path again on the same path through the function is reported.
type argsOnceClient struct {
	BaseClient
	p       *Program
	g       *grammar
	fn      string
	node    *types.Interface
	reaches map[*types.Func]bool // functions from which the recursive expression writer can be reached
}

func (c *argsOnceClient) LoopHead(e *Engine, st *State, loop ast.Stmt) *State {
	var vars []string
	switch l := loop.(type) {
	case *ast.RangeStmt:
		for _, x := range []ast.Expr{l.Key, l.Value} {
			if x != nil {
				if o := objOf(e.Info, x); o != nil {
					vars = append(vars, e.objKey(o))
				}
			}
		}
	case *ast.ForStmt:
		if as, ok := l.Init.(*ast.AssignStmt); ok {
			for _, x := range as.Lhs {
				if o := objOf(e.Info, x); o != nil {
					vars = append(vars, e.objKey(o))
				}
			}
		}
	}
	out := st
	for k := range st.ext {
		if !strings.HasPrefix(k, "w:") {
			continue
		}
		for _, v := range vars {
			if strings.Contains(k, v) {
				out = out.WithExt(k, "")
			}
		}
	}
	if out != st {
		return out
	}
	return nil
}

func (c *argsOnceClient) PreCall(e *Engine, st *State, call *ast.CallExpr, callee *types.Func) *State {
	if callee == nil || !c.g.emitFns[callee] || !c.reaches[callee] {
		return nil // only writers that can recurse into the expression writer multiply the work
	}
	out := st
	for _, a := range call.Args {
		t := e.Info.TypeOf(a)
		if t == nil || !types.Implements(t, c.node) {
			continue
		}
		k := e.CanonSt(out, a)
		if !k.OK {
			continue
		}
		if out.Ext("w:"+k.Key) == "1" {
			if e.Reporting() {
				e.Site("C12/args-once", fmt.Sprintf("%s writes %s once", c.fn, e.NormExpr(a)), call, false, "the same child of the node ("+exprStr(a)+") is handed to a writer a second time on one path: output and running time double with every nesting level of this construct")
			}
			continue
		}
		if e.Reporting() {
			e.Site("C12/args-once", fmt.Sprintf("%s writes %s once", c.fn, e.NormExpr(a)), call, true, "first time on this path")
		}
		out = out.WithExt("w:"+k.Key, "1")
	}
	if out != st {
		return out
	}
	return nil
}

func (c *argsOnceClient) PostAssign(e *Engine, st *State, lhs, rhs []ast.Expr, _ ast.Stmt) *State {
	out := st
	for _, l := range lhs {
		o := objOf(e.Info, l)
		if o == nil {
			continue
		}
		key := e.objKey(o)
		for k := range st.ext {
			if strings.HasPrefix(k, "w:") && strings.Contains(k, key) {
				out = out.WithExt(k, "")
			}
		}
	}
	if out != st {
		return out
	}
	return nil
}

func ruleC12ArgsOnce(p *Program, r *Run) {
	g := p.Grammar()
	pkg := p.PQL
	node := p.Iface(p.Parser, "Node")
	// the functions that can (transitively) call the recursive expression writer
	we := FuncObj(pkg, p.MustFunc(pkg, "writeExpression"))
	calls := map[*types.Func][]*types.Func{}
	for _, fd := range AllFuncs(pkg) {
		from := FuncObj(pkg, fd)
		ast.Inspect(fd.Body, func(n ast.Node) bool {
			switch v := n.(type) {
			case *ast.CallExpr:
				if f := Callee(p.Info, v); f != nil {
					calls[from] = append(calls[from], f)
				}
			case *ast.Ident:
				// a function value stored in a table (the built-in rewrites) may be called from the dispatcher
				if f, ok := p.Info.Uses[v].(*types.Func); ok && f.Pkg() == pkg.Types {
					calls[from] = append(calls[from], f)
				}
			}
			return true
		})
	}
	reaches := map[*types.Func]bool{we: true}
	for changed := true; changed; {
		changed = false
		for from, tos := range calls {
			if reaches[from] {
				continue
			}
			for _, t := range tos {
				if reaches[t] {
					reaches[from] = true
					changed = true
					break
				}
			}
		}
	}
	for _, fd := range AllFuncs(pkg) {
		fobj := FuncObj(pkg, fd)
		if !g.emitFns[fobj] {
			continue
		}
		fn := FuncName(pkg, fd)
		c := &argsOnceClient{p: p, g: g, fn: fn, node: node, reaches: reaches}
		e := NewEngine(p, pkg, fd, c)
		e.Run(nil)
		for _, m := range e.Errs {
			r.Fail("C12/args-once", fn+" engine", "-", m)
		}
		e.FlushSites(r)
	}
	r.Floor("C12/args-once", 20)
}

// ---- C12/growth: the text substituted for a name does not multiply.
//
// A let value is compiled to SQL text and that text is copied into the output at every use of the name. When the
// value is itself compiled against the scope it is then stored into, it may contain the texts of earlier names any
// number of times, so n let statements of a few bytes each can denote 2^n bytes of SQL: Compile does not return
// for an input of a few hundred bytes. The rule looks at the let case of Compile (and the helpers it was split
// into): the context the value is written with, the map the result is stored into, and whether anything bounds
// the size of what is stored.
func ruleC12Growth(p *Program, r *Run) {
	pkg := p.PQL
	info := pkg.TypesInfo
	compile := p.MustFunc(pkg, "CompileOptions.Compile")
	fn := FuncName(pkg, compile)
	r.Saw(fn)
	letCase := typeCaseOf(info, compile, "*parser.LetStatement")
	if letCase == nil {
		r.PassNT("C12/growth", fn+" let values", p.Pos(compile.Pos()), "no let statements are compiled")
		return
	}
	region := p.regionOf(pkg, letCase)
	ctxT := p.Named(pkg, "exprContext")
	var ctxScope ast.Expr
	var store *ast.AssignStmt
	bounded := false
	for _, root := range region {
		fd := p.FuncAt(root.Pos())
		ast.Inspect(root, func(n ast.Node) bool {
			switch v := n.(type) {
			case *ast.CompositeLit:
				if types.Identical(info.TypeOf(v), ctxT) {
					if m := litField(info, v, "mode"); m != nil && constName(info, m) == "letExprMode" {
						ctxScope = litField(info, v, "scope")
					}
				}
			case *ast.AssignStmt:
				for _, l := range v.Lhs {
					if ix, ok := ast.Unparen(l).(*ast.IndexExpr); ok && fd != nil {
						if isScope, _ := p.scopeProvenance(fd, ix.X, 0); isScope {
							store = v
						}
					}
				}
			case *ast.IfStmt:
				// a test of the size of what was written (sb.Len() > limit, len(text) > limit)
				ast.Inspect(v.Cond, func(m ast.Node) bool {
					if call, ok := m.(*ast.CallExpr); ok {
						if IsBuiltinCall(info, call, "len") {
							if b, ok := info.TypeOf(call.Args[0]).Underlying().(*types.Basic); ok && b.Kind() == types.String {
								bounded = true
							}
						}
						if sel, ok := ast.Unparen(call.Fun).(*ast.SelectorExpr); ok && sel.Sel.Name == "Len" && isBuilder(info, sel.X) {
							bounded = true
						}
					}
					return true
				})
			}
			return true
		})
	}
	key := fn + " let value compiled against the scope it extends"
	switch {
	case store == nil || ctxScope == nil:
		r.PassNT("C12/growth", key, p.Pos(letCase.Pos()), "let values are not stored into the scope they are compiled with")
	case bounded:
		r.Pass("C12/growth", key, p.Pos(store.Pos()), "the size of a let value is tested before it is stored")
	default:
		r.Fail("C12/growth", key, p.Pos(store.Pos()), "the SQL text of a let value is written with the same scope it is then stored into and nothing bounds its size: a value that uses the previous name twice doubles the text (`let x1 = x0 + x0; let x2 = x1 + x1; ...`), so a few hundred bytes of source denote gigabytes of SQL and Compile does not return")
	}
}

// ---- C07/list-order: the lists of a node hold the parsed elements in source order, each once.
//
// Every list-of-nodes field of a syntax-tree node (Operators, Cols, Terms, Props, Args, ...) is only ever given:
// nothing, a literal, an empty make, append(<the list so far>, <elements>), the result of a production (a method of
// the parser), or a local list built the same way. Nothing sorts, reverses, compacts, deletes from or stores into
// the elements of such a list: a tree whose lists are reordered or deduplicated is not the tree of the program.
func ruleC07ListOrder(p *Program, r *Run) {
	pkg := p.Parser
	info := pkg.TypesInfo
	node := p.Iface(pkg, "Node")
	isNodeList := func(t types.Type) bool {
		if t == nil {
			return false
		}
		sl, ok := t.Underlying().(*types.Slice)
		if !ok {
			return false
		}
		el := sl.Elem()
		return types.Implements(el, node) || types.Implements(types.NewPointer(el), node)
	}
	isNodeField := func(x ast.Expr) bool {
		f := selField(info, x)
		if f == nil || !isNodeList(f.Type()) {
			return false
		}
		sel := ast.Unparen(x).(*ast.SelectorExpr)
		bt := info.TypeOf(sel.X)
		if ptr, ok := bt.(*types.Pointer); ok {
			bt = ptr.Elem()
		}
		return types.Implements(types.NewPointer(bt), node) || types.Implements(bt, node)
	}
	var inOrder func(x ast.Expr, depth int) bool
	inOrder = func(x ast.Expr, depth int) bool {
		x = ast.Unparen(x)
		if depth > 6 {
			return false
		}
		switch v := x.(type) {
		case *ast.Ident:
			if isNilIdent(info, v) {
				return true
			}
			// a parameter of a helper (a constructor of the node): what is passed for it at every call
			if args, isParam := p.paramCallArgs(objOf(info, v)); isParam && p.neverReassigned(objOf(info, v)) {
				for _, a := range args {
					if !inOrder(a, depth+1) {
						return false
					}
				}
				return true
			}
			return p.allDefsAre(v, func(d ast.Expr) bool {
				if id, ok := d.(*ast.Ident); ok && objOf(info, id) == objOf(info, v) {
					return false
				}
				return inOrder(d, depth+1)
			})
		case *ast.CompositeLit:
			return true
		case *ast.SelectorExpr:
			return isNodeField(v) // the list so far (of this or another node under construction)
		case *ast.CallExpr:
			if IsBuiltinCall(info, v, "make") {
				if len(v.Args) >= 2 {
					n, ok := constInt(info, v.Args[1])
					return ok && n == 0
				}
				return false
			}
			if IsBuiltinCall(info, v, "append") {
				if len(v.Args) == 0 {
					return false
				}
				base := ast.Unparen(v.Args[0])
				okBase := inOrder(base, depth+1)
				if id, isID := base.(*ast.Ident); isID && !okBase {
					// appending to the local list itself: decided by its other definitions
					okBase = objOf(info, id) != nil
				}
				if !okBase {
					return false
				}
				if v.Ellipsis.IsValid() {
					return inOrder(v.Args[len(v.Args)-1], depth+1)
				}
				return true
			}
			f := Callee(info, v)
			if f == nil {
				return false
			}
			if f.Pkg() != nil && f.Pkg().Path() == "slices" && (f.Name() == "Clip" || f.Name() == "Clone" || f.Name() == "Grow") && len(v.Args) >= 1 {
				return inOrder(v.Args[0], depth+1)
			}
			// a production: a method of the parser that returns the list it parsed
			if sig := f.Type().(*types.Signature); sig.Recv() != nil && strings.HasSuffix(TypeStr(sig.Recv().Type()), "parser.parser") {
				return true
			}
			// an "append" helper of the module: every return gives back its list parameter, as it is or with
			// elements appended (appendOperator(list, op): `if op != nil { return append(list, op) }; return list`)
			fo := f
			if fo.Origin() != nil {
				fo = fo.Origin()
			}
			if decl, dpkg := p.DeclOf(fo); decl != nil && decl.Body != nil && dpkg == pkg && decl.Recv == nil && len(v.Args) >= 1 && len(decl.Type.Params.List) >= 1 && len(decl.Type.Params.List[0].Names) >= 1 {
				lp := info.Defs[decl.Type.Params.List[0].Names[0]]
				if lp != nil && isNodeList(lp.Type()) && p.neverReassignedExceptAppend(lp) {
					good, rets := true, 0
					ast.Inspect(decl.Body, func(m ast.Node) bool {
						ret, isRet := m.(*ast.ReturnStmt)
						if !isRet {
							return true
						}
						rets++
						if len(ret.Results) != 1 {
							good = false
							return true
						}
						res := ast.Unparen(ret.Results[0])
						if objOf(info, res) == lp {
							return true
						}
						if call, isCall := res.(*ast.CallExpr); isCall && IsBuiltinCall(info, call, "append") && len(call.Args) >= 1 && objOf(info, call.Args[0]) == lp && !call.Ellipsis.IsValid() {
							return true
						}
						good = false
						return true
					})
					if good && rets > 0 {
						return inOrder(v.Args[0], depth+1)
					}
				}
			}
		}
		return false
	}
	n := 0
	for _, fd := range AllFuncs(pkg) {
		fn := FuncName(pkg, fd)
		k := 0
		ast.Inspect(fd.Body, func(nd ast.Node) bool {
			switch v := nd.(type) {
			case *ast.AssignStmt:
				for i, l := range v.Lhs {
					l = ast.Unparen(l)
					// X.F[i] = e
					if ix, ok := l.(*ast.IndexExpr); ok && isNodeField(ix.X) {
						n++
						k++
						r.Saw(fn)
						r.Fail("C07/list-order", fmt.Sprintf("%s store #%d into an element of %s", fn, k, exprStr(ix.X)), p.Pos(v.Pos()), "an element of a node list is overwritten: the list no longer holds the parsed elements in source order, each once")
						continue
					}
					if !isNodeField(l) || i >= len(v.Rhs) && len(v.Rhs) != 1 {
						continue
					}
					n++
					k++
					r.Saw(fn)
					key := fmt.Sprintf("%s store #%d to %s", fn, k, exprStr(l))
					var rhs ast.Expr
					if len(v.Rhs) == len(v.Lhs) {
						rhs = v.Rhs[i]
					} else {
						rhs = v.Rhs[0]
					}
					r.Check(inOrder(rhs, 0), "C07/list-order", key, p.Pos(v.Pos()), "the list so far extended by what was just parsed (or the list a production returned)", "the list is replaced by "+exprStr(rhs)+", which is not the list so far extended by the elements just parsed: elements may be reordered, dropped or duplicated relative to the source")
				}
			case *ast.CompositeLit:
				// &CallExpr{Args: args}: a list field initialised in a literal
				st := StructOf(info.TypeOf(v))
				if st == nil || !(types.Implements(types.NewPointer(info.TypeOf(v)), node) || types.Implements(info.TypeOf(v), node)) {
					return true
				}
				for _, el := range v.Elts {
					kv, ok := el.(*ast.KeyValueExpr)
					if !ok {
						continue
					}
					fld, _ := objOf(info, kv.Key).(*types.Var)
					if fld == nil || !isNodeList(fld.Type()) {
						continue
					}
					n++
					k++
					r.Saw(fn)
					r.Check(inOrder(kv.Value, 0), "C07/list-order", fmt.Sprintf("%s literal #%d sets %s", fn, k, fld.Name()), p.Pos(kv.Pos()), "the list a production returned (or one built by appending what was parsed)", "the list field is initialised with "+exprStr(kv.Value)+", which is not a list built by appending the parsed elements in order")
				}
			case *ast.CallExpr:
				f := Callee(info, v)
				if f == nil || f.Pkg() == nil {
					return true
				}
				reorders := false
				switch f.Pkg().Path() {
				case "sort":
					reorders = true
				case "slices":
					switch {
					case strings.HasPrefix(f.Name(), "Sort"), strings.HasPrefix(f.Name(), "Compact"), strings.HasPrefix(f.Name(), "Delete"), f.Name() == "Reverse", f.Name() == "Insert", f.Name() == "Replace":
						reorders = true
					}
				}
				if !reorders {
					return true
				}
				for _, a := range v.Args {
					if isNodeList(info.TypeOf(a)) {
						n++
						k++
						r.Saw(fn)
						r.Fail("C07/list-order", fmt.Sprintf("%s call #%d of %s on %s", fn, k, f.FullName(), exprStr(a)), p.Pos(v.Pos()), "a list of tree nodes is handed to "+f.FullName()+": its elements no longer appear in source order, each once")
					}
				}
			}
			return true
		})
	}
	r.Floor("C07/list-order", 15)
}

// ---- C11/unshared: the parser builds a tree - no node is reachable through two fields.
//
// Every node stored into a node-typed field of a node (by assignment, in a literal, or appended to a node list) is
// one the storing production has just obtained: a literal, the result of a production or a variable holding one, a
// parameter handed in by the caller that parsed it, or the result of a helper all of whose returns are of these
// kinds. A value read out of another node's field (x.Parts[0]) is already in the tree; storing it again makes the
// traversal visit it twice, the first time before its parent.
func ruleC11Unshared(p *Program, r *Run) {
	pkg := p.Parser
	info := pkg.TypesInfo
	node := p.Iface(pkg, "Node")
	isNodeT := func(t types.Type) bool {
		if t == nil {
			return false
		}
		if _, isSlice := t.Underlying().(*types.Slice); isSlice {
			return false
		}
		return types.Implements(t, node)
	}
	isNodeStruct := func(t types.Type) bool {
		if t == nil {
			return false
		}
		if ptr, ok := t.(*types.Pointer); ok {
			t = ptr.Elem()
		}
		return StructOf(t) != nil && (types.Implements(types.NewPointer(t), node) || types.Implements(t, node))
	}
	visiting := map[*ast.FuncDecl]bool{}
	var fresh func(x ast.Expr, fd *ast.FuncDecl, depth int) bool
	// freshResult: the idx-th result of the call is a node its callee has just obtained
	var freshResult func(call *ast.CallExpr, idx, depth int) bool
	freshResult = func(call *ast.CallExpr, idx, depth int) bool {
		f := Callee(info, call)
		if f == nil {
			if sig, ok := info.TypeOf(call.Fun).Underlying().(*types.Signature); ok && sig.Params().Len() >= 1 && strings.HasSuffix(TypeStr(sig.Params().At(0).Type()), "parser.parser") {
				return true
			}
			return false
		}
		decl, dpkg := p.DeclOf(f)
		if sig := f.Type().(*types.Signature); sig.Recv() != nil && strings.HasSuffix(TypeStr(sig.Recv().Type()), "parser.parser") {
			// a production: trusted for its node results when it is one of the reviewed ones, looked into otherwise
			if decl == nil || p.recordedFunc(f) {
				return true
			}
		}
		if decl == nil || decl.Body == nil || dpkg != pkg || visiting[decl] || depth > 6 {
			return false
		}
		visiting[decl] = true
		defer delete(visiting, decl)
		ok, rets := true, 0
		named := namedResults(decl)
		ast.Inspect(decl.Body, func(n ast.Node) bool {
			if _, nested := n.(*ast.FuncLit); nested {
				return false
			}
			ret, isRet := n.(*ast.ReturnStmt)
			if !isRet {
				return true
			}
			rets++
			switch {
			case idx < len(ret.Results):
				if !fresh(ret.Results[idx], decl, depth+1) {
					ok = false
				}
			case len(ret.Results) == 1:
				// return otherProduction(): its idx-th result
				if c2, isCall := ast.Unparen(ret.Results[0]).(*ast.CallExpr); !isCall || !freshResult(c2, idx, depth+1) {
					ok = false
				}
			case len(ret.Results) == 0 && idx < len(named):
				if !fresh(named[idx], decl, depth+1) {
					ok = false
				}
			default:
				ok = false
			}
			return true
		})
		return ok && rets > 0
	}
	fresh = func(x ast.Expr, fd *ast.FuncDecl, depth int) bool {
		x = ast.Unparen(x)
		if depth > 6 {
			return false
		}
		switch v := x.(type) {
		case *ast.Ident:
			if isNilIdent(info, v) {
				return true
			}
			o, _ := objOf(info, v).(*types.Var)
			if o == nil {
				return false
			}
			if fd != nil && paramIndex(info, fd, o) >= 0 {
				return true // handed in by the caller, which obtained it
			}
			if fd != nil && fd.Recv != nil && len(fd.Recv.List) == 1 && len(fd.Recv.List[0].Names) == 1 && info.Defs[fd.Recv.List[0].Names[0]] == types.Object(o) {
				return true // the node a method was called on, wrapped into a new node (id.AsQualified())
			}
			// every definition of the local: a fresh value, or the i-th result of a call whose i-th results are fresh
			ofd := p.FuncAt(o.Pos())
			if ofd == nil {
				return false
			}
			n, good := 0, true
			ast.Inspect(ofd.Body, func(m ast.Node) bool {
				switch a := m.(type) {
				case *ast.AssignStmt:
					for i, l := range a.Lhs {
						if objOf(info, l) != types.Object(o) {
							continue
						}
						n++
						switch {
						case len(a.Rhs) == len(a.Lhs):
							if id, ok := ast.Unparen(a.Rhs[i]).(*ast.Ident); ok && objOf(info, id) == types.Object(o) {
								good = false
							} else if !fresh(a.Rhs[i], fd, depth+1) {
								good = false
							}
						case len(a.Rhs) == 1:
							call, isCall := ast.Unparen(a.Rhs[0]).(*ast.CallExpr)
							if !isCall || !freshResult(call, i, depth+1) {
								good = false
							}
						default:
							good = false
						}
					}
				case *ast.ValueSpec:
					for i, nm := range a.Names {
						if info.Defs[nm] == types.Object(o) && i < len(a.Values) {
							n++
							if !fresh(a.Values[i], fd, depth+1) {
								good = false
							}
						}
					}
				case *ast.UnaryExpr:
					if a.Op == token.AND && objOf(info, a.X) == types.Object(o) {
						good = false
					}
				}
				return true
			})
			return good && n > 0
		case *ast.CompositeLit:
			return true
		case *ast.UnaryExpr:
			if v.Op == token.AND {
				_, isLit := ast.Unparen(v.X).(*ast.CompositeLit)
				return isLit
			}
		case *ast.TypeAssertExpr:
			return fresh(v.X, fd, depth+1)
		case *ast.CallExpr:
			if tv, ok := info.Types[v.Fun]; ok && tv.IsType() && len(v.Args) == 1 {
				return fresh(v.Args[0], fd, depth+1)
			}
			return freshResult(v, 0, depth+1)
		}
		return false
	}
	n := 0
	for _, fd := range AllFuncs(pkg) {
		fn := FuncName(pkg, fd)
		k := 0
		check := func(at ast.Node, what string, val ast.Expr) {
			if !isNodeT(info.TypeOf(val)) {
				return
			}
			n++
			k++
			r.Saw(fn)
			key := fmt.Sprintf("%s node #%d stored %s", fn, k, what)
			r.Check(fresh(val, fd, 0), "C11/unshared", key, p.Pos(at.Pos()), "a node the production has just obtained (literal, production result, parameter)", "the value stored ("+exprStr(val)+") is read out of a node that is already in the tree (or its origin cannot be decided): the same node would be reachable through two fields, so the traversal visits it twice and the tree is not a tree")
		}
		ast.Inspect(fd.Body, func(nd ast.Node) bool {
			switch v := nd.(type) {
			case *ast.AssignStmt:
				if len(v.Lhs) != len(v.Rhs) {
					return true // x.F, err = p.production(): decided by the callee being a production
				}
				for i, l := range v.Lhs {
					sel, ok := ast.Unparen(l).(*ast.SelectorExpr)
					if !ok || selField(info, sel) == nil || !isNodeStruct(info.TypeOf(sel.X)) {
						continue
					}
					// appended elements
					if call, isCall := ast.Unparen(v.Rhs[i]).(*ast.CallExpr); isCall && IsBuiltinCall(info, call, "append") && !call.Ellipsis.IsValid() {
						for _, a := range call.Args[1:] {
							check(v, "into the list "+exprStr(l), a)
						}
						continue
					}
					check(v, "to "+exprStr(l), v.Rhs[i])
				}
			case *ast.CompositeLit:
				if !isNodeStruct(info.TypeOf(v)) {
					return true
				}
				for _, el := range v.Elts {
					kv, ok := el.(*ast.KeyValueExpr)
					if !ok {
						continue
					}
					if inner, isLit := ast.Unparen(kv.Value).(*ast.CompositeLit); isLit {
						// a list literal: its elements
						for _, e2 := range inner.Elts {
							check(kv, "in the literal field "+exprStr(kv.Key), e2)
						}
						continue
					}
					check(kv, "in the literal field "+exprStr(kv.Key), kv.Value)
				}
			}
			return true
		})
	}
	r.Floor("C11/unshared", 20)
}

// ---- C12/errlist: collecting parse errors costs a constant amount of work per error.
//
// joinErrors is called once per production and per error; the list it accumulates is only ever appended to and
// handed to errors.Join. A loop over the list collected so far (to look for duplicates, to sort, to render the
// messages) inside joinErrors or a helper it hands the list to makes the cost of n errors quadratic or worse, and
// rendering a message walks the source: an error-dense input of a few hundred bytes then takes minutes.
func ruleC12ErrList(p *Program, r *Run) {
	pkg := p.Parser
	info := pkg.TypesInfo
	jfd := p.FuncDecl(pkg, "joinErrors")
	if jfd == nil {
		return
	}
	fn := FuncName(pkg, jfd)
	r.Saw(fn)
	isErrList := func(t types.Type) bool {
		sl, ok := t.Underlying().(*types.Slice)
		return ok && TypeStr(sl.Elem()) == "error"
	}
	// the accumulators: []error variables of joinErrors that are appended to, and the parameters of helpers they
	// are passed to
	acc := map[types.Object]bool{}
	regionFns := []*ast.FuncDecl{jfd}
	seen := map[*ast.FuncDecl]bool{jfd: true}
	for i := 0; i < len(regionFns) && i < 8; i++ {
		fd := regionFns[i]
		ast.Inspect(fd.Body, func(n ast.Node) bool {
			switch v := n.(type) {
			case *ast.AssignStmt:
				for j, l := range v.Lhs {
					if j < len(v.Rhs) {
						// errorList = append(errorList, err) / errorList = helper(errorList, err)
						if call, ok := ast.Unparen(v.Rhs[j]).(*ast.CallExpr); ok && len(call.Args) >= 1 {
							if o := objOf(info, l); o != nil && isErrList(o.Type()) && fd == jfd && objOf(info, call.Args[0]) == o {
								acc[o] = true
							}
						}
					}
				}
			}
			return true
		})
		ast.Inspect(fd.Body, func(n ast.Node) bool {
			call, ok := n.(*ast.CallExpr)
			if !ok {
				return true
			}
			decl, dpkg := p.DeclOf(Callee(info, call))
			if decl == nil || decl.Body == nil || dpkg != pkg {
				return true
			}
			k := 0
			for _, f := range decl.Type.Params.List {
				for _, nm := range f.Names {
					if k < len(call.Args) && acc[objOf(info, call.Args[k])] {
						acc[info.Defs[nm]] = true
						if !seen[decl] {
							seen[decl] = true
							regionFns = append(regionFns, decl)
						}
					}
					k++
				}
			}
			return true
		})
	}
	bad := ""
	for _, fd := range regionFns {
		ast.Inspect(fd.Body, func(n ast.Node) bool {
			switch v := n.(type) {
			case *ast.RangeStmt:
				if acc[objOf(info, v.X)] && bad == "" {
					bad = "a loop over the errors collected so far (" + exprStr(v.X) + ") at " + p.Pos(v.Pos())
				}
			case *ast.CallExpr:
				if f := Callee(info, v); f != nil && f.Pkg() != nil && (f.Pkg().Path() == "sort" || f.Pkg().Path() == "slices" && f.Name() != "Clip" && f.Name() != "Grow") {
					for _, a := range v.Args {
						if acc[objOf(info, a)] && bad == "" {
							bad = "the collected errors are handed to " + f.FullName() + " at " + p.Pos(v.Pos())
						}
					}
				}
			}
			return true
		})
	}
	if len(acc) == 0 {
		bad = "no list of errors that is only appended to was found"
	}
	r.Check(bad == "", "C12/errlist", fn+" only appends to the list of errors", p.Pos(jfd.Pos()), "the accumulated list is appended to and joined, never searched", "collecting errors is no longer constant work per error: "+bad+" - with n errors in one source every call walks all earlier ones (and rendering an error's text walks the source), so an error-dense input of a few hundred bytes takes minutes")
	r.Floor("C12/errlist", 1)
}

// ---- C13/all-operators: every operator of a pipeline reaches the SQL writer.
//
// The documented rejections (wrong argument counts, $left/$right outside a join, ...) are made while an operator's
// expressions are written. An operator that the planning loop skips - because it is redundant, say - is never
// written, so a program that breaks a rule inside it compiles. Decided on the path states of splitQueries: every
// iteration of the loop over expr.Operators that goes round again (or leaves the loop normally) has stored the
// operator of that iteration, or something built from it, into a subquery (or handed it to a helper/recursion).
type allOpsClient struct {
	BaseClient
	InlinePure
	fn     string
	loop   ast.Stmt
	opObjs map[types.Object]bool
	tagX   ast.Expr // the operand of the type switch (expr.Operators[i] / the range value)
	seen   int
}

func (c *allOpsClient) mentions(e *Engine, x ast.Node) bool {
	found := false
	ast.Inspect(x, func(n ast.Node) bool {
		if id, ok := n.(*ast.Ident); ok {
			if o := objOf(e.Info, id); o != nil && c.opObjs[o] {
				found = true
			}
		}
		if ex, ok := n.(ast.Expr); ok && c.tagX != nil && sameExpr(e.Info, ex, c.tagX) {
			found = true
		}
		return !found
	})
	return found
}

func (c *allOpsClient) LoopHead(e *Engine, st *State, loop ast.Stmt) *State {
	if loop == c.loop && len(e.Frames()) == 0 {
		return st.WithExt("opstored", "")
	}
	return nil
}

func (c *allOpsClient) PostAssign(e *Engine, st *State, lhs, rhs []ast.Expr, _ ast.Stmt) *State {
	if st.Ext("opstored") == "1" {
		return nil
	}
	for i, l := range lhs {
		switch ast.Unparen(l).(type) {
		case *ast.SelectorExpr, *ast.IndexExpr:
		default:
			continue
		}
		var r ast.Expr
		if len(rhs) == len(lhs) {
			r = rhs[i]
		} else if len(rhs) == 1 {
			r = rhs[0]
		}
		if r != nil && c.mentions(e, r) {
			return st.WithExt("opstored", "1")
		}
	}
	return nil
}

func (c *allOpsClient) PreCall(e *Engine, st *State, call *ast.CallExpr, callee *types.Func) *State {
	if st.Ext("opstored") == "1" || callee == nil || callee.Pkg() == nil || callee.Pkg().Path() != PathPQL {
		return nil
	}
	// the operator (or a part of it) handed to a module function that builds subqueries from it
	sig := callee.Type().(*types.Signature)
	returnsSubq := false
	for i := 0; i < sig.Results().Len(); i++ {
		if strings.Contains(TypeStr(sig.Results().At(i).Type()), "subquery") {
			returnsSubq = true
		}
	}
	if !returnsSubq {
		return nil
	}
	for _, a := range call.Args {
		if c.mentions(e, a) {
			return st.WithExt("opstored", "1")
		}
	}
	return nil
}

func (c *allOpsClient) LoopBack(e *Engine, st *State, loop ast.Stmt) {
	if loop != c.loop || len(e.Frames()) != 0 || !e.Reporting() {
		return
	}
	c.seen++
	ok := st.Ext("opstored") == "1"
	key := c.fn + " every operator is planned"
	e.Site("C13/all-operators", key, loop, ok, "each iteration that goes on has stored the operator (or something built from it) into a subquery")
	if !ok {
		e.Site("C13/all-operators", key, loop, false, "an iteration of the operator loop goes on without storing the operator anywhere: that operator is never written, so a rule broken inside it (a wrong argument count, $left outside a join) is not reported and the program compiles")
	}
}

func ruleC13AllOperators(p *Program, r *Run) {
	pkg := p.PQL
	info := pkg.TypesInfo
	fd := p.MustFunc(pkg, "splitQueries")
	fn := FuncName(pkg, fd)
	r.Saw(fn)
	// the loop over the operators and the type switch on the operator inside it
	var loop ast.Stmt
	var ts *ast.TypeSwitchStmt
	ast.Inspect(fd.Body, func(n ast.Node) bool {
		if loop != nil {
			return false
		}
		var body *ast.BlockStmt
		switch l := n.(type) {
		case *ast.ForStmt:
			body = l.Body
		case *ast.RangeStmt:
			body = l.Body
		default:
			return true
		}
		for _, s := range body.List {
			if t, ok := s.(*ast.TypeSwitchStmt); ok {
				var x ast.Expr
				switch a := t.Assign.(type) {
				case *ast.AssignStmt:
					x = a.Rhs[0].(*ast.TypeAssertExpr).X
				case *ast.ExprStmt:
					x = a.X.(*ast.TypeAssertExpr).X
				}
				if x != nil && TypeStr(info.TypeOf(x)) == "parser.TabularOperator" {
					loop, ts = n.(ast.Stmt), t
				}
			}
		}
		return loop == nil
	})
	if loop == nil {
		r.Fail("C13/all-operators", fn+" operator loop", p.Pos(fd.Pos()), "no loop with a type switch over the pipeline's operators found")
		return
	}
	c := &allOpsClient{fn: fn, loop: loop, opObjs: map[types.Object]bool{}}
	switch a := ts.Assign.(type) {
	case *ast.AssignStmt:
		c.tagX = a.Rhs[0].(*ast.TypeAssertExpr).X
	case *ast.ExprStmt:
		c.tagX = a.X.(*ast.TypeAssertExpr).X
	}
	for _, cl := range ts.Body.List {
		if o := info.Implicits[cl]; o != nil {
			c.opObjs[o] = true
		}
	}
	if id, ok := ast.Unparen(c.tagX).(*ast.Ident); ok {
		if o := objOf(info, id); o != nil {
			c.opObjs[o] = true
		}
	}
	e := NewEngine(p, pkg, fd, c)
	e.Run(nil)
	for _, m := range e.Errs {
		r.Fail("C13/all-operators", fn+" engine", "-", m)
	}
	e.FlushSites(r)
	if c.seen == 0 {
		r.Fail("C13/all-operators", fn+" every operator is planned", p.Pos(loop.Pos()), "the operator loop never goes round on a feasible path")
	}
	r.Floor("C13/all-operators", 1)
}

// ---- C13/values-written: in the clause writer, a name from the source is only quoted directly where it is an
// alias.
//
// Everything in value position (a projected column, a sort key, an operand) goes through the expression writer,
// which substitutes bindings and rejects $left/$right outside a join; an identifier that the clause writer quotes
// itself is neither substituted nor checked. Decided on the derived grammar of (*subquery).write and its helpers:
// every quoted-identifier event is directly preceded, on every path, by a text ending in "AS" (the name given to
// the value just written).
func ruleC13ValuesWritten(p *Program, r *Run) {
	g := p.Grammar()
	pkg := p.PQL
	wfd := p.MustFunc(pkg, "subquery.write")
	fn := FuncName(pkg, wfd)
	r.Saw(fn)
	byID := map[int]*emitEvent{}
	for _, ev := range g.events {
		byID[ev.ID] = ev
	}
	type res struct {
		ev  *emitEvent
		bad string
	}
	seen := map[int]*res{}
	var order []int
	for _, o := range g.occs {
		if o.Ev.Func != wfd || o.Ev.Kind != "Q" {
			continue
		}
		rs := seen[o.Ev.ID]
		if rs == nil {
			rs = &res{ev: o.Ev}
			seen[o.Ev.ID] = rs
			order = append(order, o.Ev.ID)
		}
		prev := byID[o.Prev]
		switch {
		case prev == nil:
			rs.bad = "nothing is written before it"
		case prev.Kind != "T":
			rs.bad = "it follows a " + prev.Kind + " event, not a text"
		default:
			if t := strings.ToUpper(strings.TrimSpace(prev.Text)); !(t == "AS" || strings.HasSuffix(t, " AS")) {
				rs.bad = fmt.Sprintf("it follows the text %q", prev.Text)
			}
		}
	}
	sort.Ints(order)
	for i, id := range order {
		rs := seen[id]
		what := "?"
		if rs.ev.Arg != nil {
			what = exprStr(rs.ev.Arg)
		}
		key := fmt.Sprintf("%s quoted name #%d (%s) is an alias", fn, i+1, what)
		r.Check(rs.bad == "", "C13/values-written", key, p.Pos(rs.ev.Call.Pos()), "directly preceded by AS on every path", "a name from the source is quoted by the clause writer itself where it is not an alias ("+rs.bad+"): a value written this way bypasses the expression writer, so a binding of that name is not substituted and $left/$right is not rejected there")
	}
	r.Floor("C13/values-written", 4)
}

// ---- C04/whole: what is quoted is a name or value of the program as a whole.
//
// The sanitizers turn their argument into exactly one SQL token. That token stands for a PQL name or literal only
// if the argument is that name or literal itself: a string field of a syntax-tree node, a slice of the source by a
// recorded span, the name of a subquery, a constant, or a constant in front of one of these. An argument computed
// from the content (strings.Cut, Split, Trim, case folding, slicing by a searched index) makes the number and
// meaning of the tokens depend on the characters of the name.
func ruleC04Whole(p *Program, r *Run) {
	g := p.Grammar()
	info := p.PQL.TypesInfo
	node := p.Iface(p.Parser, "Node")
	wholeVisiting := map[*ast.FuncDecl]bool{}
	var whole func(x ast.Expr, depth int) (bool, string)
	whole = func(x ast.Expr, depth int) (bool, string) {
		x = ast.Unparen(x)
		if depth > 6 {
			return false, "definition chain too long"
		}
		if _, ok := constString(info, x); ok {
			return true, ""
		}
		switch v := x.(type) {
		case *ast.SelectorExpr:
			f := selField(info, v)
			if f == nil {
				return false, exprStr(x) + " is not a field"
			}
			bt := info.TypeOf(v.X)
			if ptr, ok := bt.(*types.Pointer); ok {
				bt = ptr.Elem()
			}
			if types.Implements(types.NewPointer(bt), node) || types.Implements(bt, node) || strings.HasSuffix(TypeStr(bt), "pql.subquery") {
				return true, ""
			}
			return false, exprStr(x) + " is not a field of a syntax-tree node or subquery"
		case *ast.SliceExpr:
			// source[span.Start:span.End]
			if f := selField(info, v.X); f != nil && fldName(f) == "source" && v.Low != nil && v.High != nil {
				lo, ok1 := ast.Unparen(v.Low).(*ast.SelectorExpr)
				hi, ok2 := ast.Unparen(v.High).(*ast.SelectorExpr)
				if ok1 && ok2 && lo.Sel.Name == "Start" && hi.Sel.Name == "End" && sameExpr(info, lo.X, hi.X) {
					return true, ""
				}
			}
			return false, "the text is cut by " + exprStr(x)
		case *ast.BinaryExpr:
			if v.Op == token.ADD {
				if _, isC := constString(info, v.X); isC {
					return whole(v.Y, depth+1)
				}
			}
			return false, "the text is computed by " + exprStr(x)
		case *ast.Ident:
			o, _ := objOf(info, v).(*types.Var)
			if o == nil {
				return false, exprStr(x) + " is not a variable"
			}
			if fd := p.FuncAt(o.Pos()); fd != nil && paramIndex(info, fd, o) >= 0 {
				// a parameter of a helper: what every caller passes
				fn, _ := info.Defs[fd.Name].(*types.Func)
				idx := paramIndex(info, fd, o)
				n, why := 0, ""
				for _, other := range AllFuncs(p.PQL) {
					ast.Inspect(other.Body, func(m ast.Node) bool {
						if call, ok := m.(*ast.CallExpr); ok && fn != nil && Callee(info, call) == fn && idx < len(call.Args) {
							n++
							if ok2, w := whole(call.Args[idx], depth+1); !ok2 && why == "" {
								why = w
							}
						}
						return true
					})
				}
				if n == 0 {
					return false, "no caller of " + fd.Name.Name + " found"
				}
				return why == "", why
			}
			why := ""
			ok := p.allDefsAre(v, func(d ast.Expr) bool {
				if id, isID := d.(*ast.Ident); isID && objOf(info, id) == types.Object(o) {
					return false
				}
				ok2, w := whole(d, depth+1)
				if !ok2 && why == "" {
					why = w
				}
				return ok2
			})
			if !ok && why == "" {
				why = exprStr(x) + " is assigned something other than a name or value of the program"
			}
			return ok, why
		case *ast.CallExpr:
			f := Callee(info, v)
			if f != nil && fnName(f) == "subqueryName" {
				return true, ""
			}
			// a module helper every return of which is such a name or value
			if decl, dpkg := p.DeclOf(f); decl != nil && decl.Body != nil && dpkg == p.PQL && !wholeVisiting[decl] {
				wholeVisiting[decl] = true
				defer delete(wholeVisiting, decl)
				why, rets := "", 0
				ast.Inspect(decl.Body, func(m ast.Node) bool {
					if _, nested := m.(*ast.FuncLit); nested {
						return false
					}
					if ret, isRet := m.(*ast.ReturnStmt); isRet && len(ret.Results) >= 1 {
						rets++
						if ok2, w := whole(ret.Results[0], depth+1); !ok2 && why == "" {
							why = "a return of " + decl.Name.Name + ": " + w
						}
					}
					return true
				})
				if rets > 0 {
					return why == "", why
				}
			}
			return false, "the text is the result of " + exprStr(v.Fun)
		}
		return false, "the text is computed by " + exprStr(x)
	}
	n := 0
	cnt := map[string]int{}
	for _, ev := range g.events {
		if ev.Kind != "Q" && ev.Kind != "S" || ev.Arg == nil {
			continue
		}
		if nm := declName(ev.Func); nm == "quoteIdentifier" || nm == "quoteSQLString" {
			continue
		}
		n++
		cnt[ev.FnName]++
		r.Saw(ev.FnName)
		ok, why := whole(ev.Arg, 0)
		key := fmt.Sprintf("%s quotes %s (#%d)", ev.FnName, exprStr(ev.Arg), cnt[ev.FnName])
		r.Check(ok, "C04/whole", key, p.Pos(ev.Call.Pos()), "a name or value of the program, quoted as a whole", "what is quoted is not a name or value of the program as written ("+why+"): the characters of the name decide what is quoted and into how many tokens, so the token does not decode to the value written in PQL")
	}
	r.Floor("C04/whole", 10)
}

// ---- C08/consumed: a production that reports success has accounted for the last token it read.
//
// A token read with next() is accounted for when a production is called after it (it introduced what follows), when
// it is given back (prev(), or the position is restored), or when something of it (its span, its value) is stored or
// returned. A success return reached straight after reading a token that is none of these has swallowed it: the
// token is in no node of the tree, yet the parse succeeds - a trailing separator is silently accepted.
type consumedClient struct {
	BaseClient
	InlinePredicates
	fn       string
	next     *types.Func
	nfName   string // full name of isNotFound
	commaKey string // constant key of TokenComma
	byKey    string // constant key of TokenBy
}

// Stmt: what is known now about the token last read and about the production called after a separator.
//   - the token is known to be a comma: it is a separator (remembered beyond the scope of its variable);
//   - the production called after a separator is known to have found nothing: the separator dangles;
//     known to have found something (or failed otherwise): the separator is accounted for;
//   - a dangling separator is accounted for when the next token read is `by` (the one place the grammar allows it).
func (c *consumedClient) Stmt(e *Engine, st *State, _ ast.Stmt) *State {
	out := st
	if tv := st.Ext("ctok"); tv != "" && tv != "_" {
		if f := st.Get(tv + ".Kind"); f != nil && f.HasEq {
			if f.Eq == c.commaKey && st.Ext("ctok:comma") != "1" {
				out = out.WithExt("ctok:comma", "1")
			}
			if f.Eq == c.byKey && st.Ext("csep") != "" {
				out = out.WithExt("csep", "").WithExt("csep:err", "")
			}
		}
	}
	if st.Ext("csep") == "pending" {
		if ek := st.Ext("csep:err"); ek != "" {
			nf := st.Get("call:" + c.nfName + "(" + ek + ")")
			ef := st.Get(ek)
			switch {
			case nf != nil && nf.HasEq && nf.Eq == "true":
				out = out.WithExt("csep", "dangling").WithExt("csep:err", "")
			case nf != nil && nf.HasEq && nf.Eq == "false", ef != nil && ef.Nil == 1:
				out = out.WithExt("csep", "").WithExt("csep:err", "")
			}
		}
	}
	if out != st {
		return out
	}
	return nil
}

func (c *consumedClient) tokVar(st *State) string { return st.Ext("ctok") }

// ScopeEnd: the same bookkeeping as Stmt, before the variables of a block are forgotten.
func (c *consumedClient) ScopeEnd(e *Engine, st *State, _ ast.Node) *State { return c.Stmt(e, st, nil) }

func (c *consumedClient) mentionsTok(e *Engine, st *State, x ast.Node) bool {
	tv := c.tokVar(st)
	if tv == "" || x == nil {
		return false
	}
	found := false
	ast.Inspect(x, func(n ast.Node) bool {
		if id, ok := n.(*ast.Ident); ok {
			if o := objOf(e.Info, id); o != nil && e.objKey(o) == tv {
				found = true
			}
		}
		return !found
	})
	return found
}

func (c *consumedClient) PostAssign(e *Engine, st *State, lhs, rhs []ast.Expr, _ ast.Stmt) *State {
	orig := st
	if len(rhs) == 1 && len(lhs) == 2 {
		if call, ok := ast.Unparen(rhs[0]).(*ast.CallExpr); ok && Callee(e.Info, call) == c.next && len(e.Frames()) == 0 {
			tk, okk := "", ""
			if o := objOf(e.Info, lhs[0]); o != nil {
				tk = e.objKey(o)
			}
			if o := objOf(e.Info, lhs[1]); o != nil {
				okk = e.objKey(o)
			}
			if tk == "" {
				tk = "_"
			}
			return st.WithExt("ctok", tk).WithExt("ctok:ok", okk).WithExt("ctok:at", e.P.Pos(call.Pos())).WithExt("ctok:comma", "")
		}
	}
	// x, err := p.production() right after a separator: whether it found something decides about the separator
	if st.Ext("csep") == "pending" && st.Ext("csep:err") == "" && len(rhs) == 1 && len(lhs) >= 1 {
		if call, ok := ast.Unparen(rhs[0]).(*ast.CallExpr); ok {
			if f := Callee(e.Info, call); f != nil && cursorOf(f) == "parser" {
				if o := objOf(e.Info, lhs[len(lhs)-1]); o != nil && isErrorType(o.Type()) {
					st = st.WithExt("csep:err", e.objKey(o))
					if c.tokVar(st) == "" {
						return st
					}
				}
			}
		}
	}
	// the position is put back to where it was before the separator
	for _, l := range lhs {
		if sel, ok := ast.Unparen(l).(*ast.SelectorExpr); ok && selName(sel) == "pos" && st.Ext("csep") != "" {
			st = st.WithExt("csep", "").WithExt("csep:err", "")
		}
	}
	// something of the token is stored
	if c.tokVar(st) != "" {
		for _, r := range rhs {
			if c.mentionsTok(e, st, r) {
				return st.WithExt("ctok", "")
			}
		}
		// the position is put back
		for _, l := range lhs {
			if sel, ok := ast.Unparen(l).(*ast.SelectorExpr); ok && selName(sel) == "pos" {
				return st.WithExt("ctok", "")
			}
		}
	}
	if st != orig {
		return st
	}
	return nil
}

func (c *consumedClient) Visit(e *Engine, st *State, n ast.Node) *State {
	if cl, ok := n.(*ast.CompositeLit); ok && c.tokVar(st) != "" && c.mentionsTok(e, st, cl) {
		return st.WithExt("ctok", "")
	}
	return nil
}

func (c *consumedClient) PreCall(e *Engine, st *State, call *ast.CallExpr, callee *types.Func) *State {
	if c.tokVar(st) == "" || callee == nil {
		return nil
	}
	if callee == c.next {
		return nil
	}
	if cursorOf(callee) == "parser" {
		// a production or prev(): the token introduced what follows, or is given back
		out := st.WithExt("ctok", "")
		if st.Ext("ctok:comma") == "1" && fnName(callee) != "prev" {
			out = out.WithExt("csep", "pending").WithExt("csep:err", "").WithExt("csep:at", st.Ext("ctok:at")).WithExt("ctok:comma", "")
		}
		return out
	}
	for _, a := range call.Args {
		if c.mentionsTok(e, st, a) {
			return st.WithExt("ctok", "")
		}
	}
	return nil
}

func (c *consumedClient) Return(e *Engine, st *State, ret *ast.ReturnStmt) {
	if !e.Reporting() || e.Lit != nil || ret == nil || len(ret.Results) < 2 {
		return
	}
	last := ret.Results[len(ret.Results)-1]
	if !isNilIdent(e.Info, last) && !e.IsNil(st, last) {
		return // not known to be a success return
	}
	if st.Ext("csep") == "dangling" {
		key := fmt.Sprintf("%s return #%d leaves no separator dangling", c.fn, returnOrdinal(e.Func, ret))
		e.Site("C08/consumed", key, ret, false, "success is reported on a path where a comma was read (at "+st.Ext("csep:at")+"), the production called after it found nothing, and neither the position was put back nor `by` followed: a list ending in a comma is accepted although no node of the tree represents that comma")
		return
	}
	tv := c.tokVar(st)
	key := fmt.Sprintf("%s return #%d has accounted for the last token read", c.fn, returnOrdinal(e.Func, ret))
	if tv == "" {
		e.Site("C08/consumed", key, ret, true, "the last token read was followed by a production, given back, or recorded")
		return
	}
	// nothing was read when next() reported the end of the tokens
	if okk := st.Ext("ctok:ok"); okk != "" {
		if f := st.Get(okk); f != nil && f.HasEq && f.Eq == "false" {
			e.Site("C08/consumed", key, ret, true, "the last read reported the end of the tokens")
			return
		}
	}
	for _, res := range ret.Results {
		if c.mentionsTok(e, st, res) {
			e.Site("C08/consumed", key, ret, true, "the token is returned")
			return
		}
	}
	e.Site("C08/consumed", key, ret, false, "success is reported straight after reading a token (at "+st.Ext("ctok:at")+") that is neither followed by a production, nor given back, nor recorded anywhere: the token is swallowed, so text that no node of the tree represents (a trailing separator, say) is accepted")
}

func ruleC08Consumed(p *Program, r *Run) {
	pkg := p.Parser
	next := FuncObj(pkg, p.MustFunc(pkg, "parser.next"))
	n := 0
	for _, fd := range AllFuncs(pkg) {
		fo := FuncObj(pkg, fd)
		if fo == nil || cursorOf(fo) != "parser" || fo == next {
			continue
		}
		sig := fo.Type().(*types.Signature)
		if sig.Results().Len() < 2 || !isErrorType(sig.Results().At(sig.Results().Len()-1).Type()) {
			continue
		}
		if !p.callsAny(fd, map[*types.Func]bool{next: true}) {
			continue
		}
		n++
		fn := FuncName(pkg, fd)
		r.Saw(fn)
		c := &consumedClient{fn: fn, next: next, nfName: FuncObj(pkg, p.MustFunc(pkg, "isNotFound")).FullName()}
		if k := p.constNamed(pkg.Types.Scope(), "TokenComma"); k != nil {
			c.commaKey = constKey(k.Val())
		}
		if k := p.constNamed(pkg.Types.Scope(), "TokenBy"); k != nil {
			c.byKey = constKey(k.Val())
		}
		e := NewEngine(p, pkg, fd, c)
		e.Run(nil)
		for _, m := range e.Errs {
			r.Fail("C08/consumed", fn+" engine", "-", m)
		}
		e.FlushSites(r)
	}
	r.Floor("C08/consumed", 15)
}

// ---- C06/let-errors: a let statement is rejected only because its value does not compile.
//
// Everything that makes a let value invalid (a column reference, an unknown name, a wrong argument count) is found
// by writing the value in let mode; a let may use every earlier binding, including an earlier binding of its own
// name. The let case of Compile therefore has no rejection of its own: every failure it returns is the error of a
// function that leads into the expression writer. An error constructed in the let case itself is a rule the
// documentation does not have (and that valid programs can run into).
func ruleC06LetErrors(p *Program, r *Run) {
	pkg := p.PQL
	info := pkg.TypesInfo
	compile := p.MustFunc(pkg, "CompileOptions.Compile")
	fn := FuncName(pkg, compile)
	r.Saw(fn)
	letCase := typeCaseOf(info, compile, "*parser.LetStatement")
	if letCase == nil {
		return
	}
	reach := p.reachesWriter()
	// every assignment to the error variable takes it from a call that leads into the expression writer (as any of
	// the call's results)
	propagated := func(x ast.Expr) bool {
		o, _ := objOf(info, x).(*types.Var)
		if o == nil {
			return false
		}
		fd := p.FuncAt(o.Pos())
		if fd == nil {
			return false
		}
		n, good := 0, true
		ast.Inspect(fd.Body, func(m ast.Node) bool {
			as, ok := m.(*ast.AssignStmt)
			if !ok {
				return true
			}
			for i, l := range as.Lhs {
				if objOf(info, l) != types.Object(o) {
					continue
				}
				n++
				var rhs ast.Expr
				if len(as.Rhs) == len(as.Lhs) {
					rhs = as.Rhs[i]
				} else if len(as.Rhs) == 1 {
					rhs = as.Rhs[0]
				}
				call, isCall := ast.Unparen(rhs).(*ast.CallExpr)
				if !isCall {
					good = false
					continue
				}
				if f := Callee(info, call); f == nil || !reach[f] {
					good = false
				}
			}
			return true
		})
		return good && n > 0
	}
	// a guard against a tree the parser never produces: `if stmt.Name == nil || stmt.X == nil { return error }`
	optional := p.optionalNodeFields()
	deadGuard := func(ret *ast.ReturnStmt) bool {
		ifs, ok := p.Parent(p.Parent(ret)).(*ast.IfStmt)
		if !ok || ifs.Init != nil {
			return false
		}
		var nilTests func(c ast.Expr) bool
		nilTests = func(c ast.Expr) bool {
			b, ok := ast.Unparen(c).(*ast.BinaryExpr)
			if !ok {
				return false
			}
			if b.Op == token.LOR {
				return nilTests(b.X) && nilTests(b.Y)
			}
			if b.Op != token.EQL || !isNilIdent(info, b.Y) {
				return false
			}
			sel, ok := ast.Unparen(b.X).(*ast.SelectorExpr)
			if !ok {
				return false
			}
			f := selField(info, sel)
			if f == nil {
				return false
			}
			_, opt := optional[fieldKey(info.TypeOf(sel.X), f)]
			return !opt
		}
		return nilTests(ifs.Cond)
	}
	n := 0
	for _, root := range p.regionOf(pkg, letCase) {
		ast.Inspect(root, func(x ast.Node) bool {
			if _, nested := x.(*ast.FuncLit); nested {
				return false
			}
			ret, ok := x.(*ast.ReturnStmt)
			if !ok || len(ret.Results) == 0 {
				return true
			}
			last := ret.Results[len(ret.Results)-1]
			if t := info.TypeOf(last); t == nil || !(isErrorType(t) || types.Implements(t, errorIface())) || isNilIdent(info, last) {
				return true
			}
			n++
			key := fmt.Sprintf("%s let case failure #%d (%s)", fn, n, exprStr(last))
			if deadGuard(ret) {
				r.PassNT("C06/let-errors", key, p.Pos(ret.Pos()), "a guard against a node field the parser always sets: not reachable after a successful parse")
				return true
			}
			r.Check(propagated(last), "C06/let-errors", key, p.Pos(ret.Pos()), "the error of the function that wrote the let value", "the let case fails with an error of its own ("+exprStr(last)+") instead of the error found while writing the value: a let is rejected by a rule the documentation does not have - e.g. a let that redefines a name in terms of its earlier binding, which is legitimate scoping")
			return true
		})
	}
	r.Floor("C06/let-errors", 1)
}

// ---- C13/modes: the constants of an enumeration are distinct.
//
// The compiler tells a join condition, a let value and an ordinary argument apart by comparing ctx.mode with named
// constants, the lexer and parser tell tokens apart by kind. Two constants of one such type with the same value make
// two cases indistinguishable (a const block split in two restarts iota: joinExprMode becomes the zero value, and
// `$left` is accepted everywhere). Decided for every named integer type declared in the library that has at least two
// package-level constants.
func ruleC13Modes(p *Program, r *Run) {
	n := 0
	for _, pkg := range p.Lib() {
		scope := pkg.Types.Scope()
		byType := map[*types.TypeName][]*types.Const{}
		for _, name := range scope.Names() {
			c, ok := scope.Lookup(name).(*types.Const)
			if !ok {
				continue
			}
			nt, ok := c.Type().(*types.Named)
			if !ok || nt.Obj().Pkg() != pkg.Types {
				continue
			}
			if b, isB := nt.Underlying().(*types.Basic); !isB || b.Info()&types.IsInteger == 0 {
				continue
			}
			byType[nt.Obj()] = append(byType[nt.Obj()], c)
		}
		var tns []*types.TypeName
		for tn := range byType {
			tns = append(tns, tn)
		}
		sort.Slice(tns, func(i, j int) bool { return tns[i].Pos() < tns[j].Pos() })
		for _, tn := range tns {
			cs := byType[tn]
			if len(cs) < 2 {
				continue
			}
			sort.Slice(cs, func(i, j int) bool { return cs[i].Pos() < cs[j].Pos() })
			seen := map[string]*types.Const{}
			var clash []string
			for _, c := range cs {
				k := c.Val().ExactString()
				if prev, dup := seen[k]; dup {
					clash = append(clash, fmt.Sprintf("%s and %s are both %s", objName(prev), objName(c), k))
				} else {
					seen[k] = c
				}
			}
			n++
			key := fmt.Sprintf("%s.%s constants are distinct", pkg.Types.Name(), objName(tn))
			r.Check(len(clash) == 0, "C13/modes", key, p.Pos(tn.Pos()), fmt.Sprintf("%d constants, pairwise different", len(cs)), "two constants of the enumeration have the same value ("+strings.Join(clash, "; ")+"): the cases they name cannot be told apart - a context that is not a join condition compares equal to the join mode, so `$left`/`$right` are accepted there")
		}
	}
	r.Floor("C13/modes", 2)
}

// ---- C03/constants: the identifiers that are not column names are exactly the documented constants.
//
// A bare name after `on` means $left.k == $right.k, and a bare identifier elsewhere names a column (or a binding),
// unless it is one of the constants true, false, null. The table that says so (builtinIdentifiers) must hold
// exactly those three names, each mapped to the SQL keyword of the same meaning; every further row turns a legal
// column name into a constant (`on True` would join on TRUE).
func ruleC03Constants(p *Program, r *Run) {
	pkg := p.PQL
	info := pkg.TypesInfo
	want := map[string]string{"true": "TRUE", "false": "FALSE", "null": "NULL"}
	got := map[string]string{}
	var cl ast.Node
	hasVar := false
	for _, f := range pkg.Syntax {
		for _, d := range f.Decls {
			if gd, ok := d.(*ast.GenDecl); ok && gd.Tok == token.VAR {
				for _, sp := range gd.Specs {
					for _, nm := range sp.(*ast.ValueSpec).Names {
						if nm.Name == "builtinIdentifiers" || objName(info.Defs[nm]) == "builtinIdentifiers" {
							hasVar = true // also under a new name (canonical names of the reviewed tree)
						}
					}
				}
			}
		}
	}
	if hasVar {
		lit, ok := p.PkgVarValue(pkg, "builtinIdentifiers").(*ast.CompositeLit)
		if !ok {
			r.Fail("C03/constants", "pql.builtinIdentifiers table", "-", "the table of built-in constants is not a map literal")
			return
		}
		cl = lit
		for _, el := range lit.Elts {
			if kv, ok := el.(*ast.KeyValueExpr); ok {
				k, ok1 := constString(info, kv.Key)
				v, ok2 := constString(info, kv.Value)
				if ok1 && ok2 {
					got[k] = v
				} else {
					got[exprStr(kv.Key)] = "?"
				}
			}
		}
	} else {
		// the table kept as a function: func(name string) (sql string, ok bool) { switch name { case "true": return "TRUE", true ... } }
		for _, fd := range AllFuncs(pkg) {
			fo := FuncObj(pkg, fd)
			if fo == nil {
				continue
			}
			sig := fo.Type().(*types.Signature)
			if sig.Recv() != nil || sig.Params().Len() != 1 || TypeStr(sig.Params().At(0).Type()) != "string" || sig.Results().Len() != 2 ||
				TypeStr(sig.Results().At(0).Type()) != "string" || TypeStr(sig.Results().At(1).Type()) != "bool" || len(fd.Body.List) != 1 {
				continue
			}
			sw, ok := fd.Body.List[0].(*ast.SwitchStmt)
			if !ok || sw.Tag == nil || len(fd.Type.Params.List) != 1 || len(fd.Type.Params.List[0].Names) != 1 || objOf(info, sw.Tag) != info.Defs[fd.Type.Params.List[0].Names[0]] {
				continue
			}
			okShape, rows := true, map[string]string{}
			for _, cs := range sw.Body.List {
				cc := cs.(*ast.CaseClause)
				if len(cc.Body) != 1 {
					okShape = false
					break
				}
				ret, isRet := cc.Body[0].(*ast.ReturnStmt)
				if !isRet || len(ret.Results) != 2 {
					okShape = false
					break
				}
				if cc.List == nil {
					continue
				}
				v, isS := constString(info, ret.Results[0])
				for _, ce := range cc.List {
					if k, isK := constString(info, ce); isK && isS {
						rows[k] = v
					} else {
						okShape = false
					}
				}
			}
			if _, hasTrue := rows["true"]; okShape && hasTrue {
				got, cl = rows, fd
				break
			}
		}
		if cl == nil {
			r.Fail("C03/constants", "pql.builtinIdentifiers table", "-", "no table of built-in constants found (neither the map builtinIdentifiers nor a function name -> (sql, found) that switches on the name)")
			return
		}
	}
	var names []string
	for k := range want {
		names = append(names, k)
	}
	for k := range got {
		if _, doc := want[k]; !doc {
			names = append(names, k)
		}
	}
	sort.Strings(names)
	for _, k := range names {
		w, doc := want[k]
		g, have := got[k]
		key := fmt.Sprintf("pql.builtinIdentifiers[%q]", k)
		switch {
		case doc && have && strings.EqualFold(strings.TrimSpace(g), w):
			r.Pass("C03/constants", key, p.Pos(cl.Pos()), "the constant "+k+" is written "+w)
		case doc && have:
			r.Fail("C03/constants", key, p.Pos(cl.Pos()), fmt.Sprintf("the constant %s is written %q, documented %s", k, g, w))
		case doc:
			r.Fail("C03/constants", key, p.Pos(cl.Pos()), "the documented constant "+k+" is missing from the table: it would be read as a column name")
		default:
			r.Fail("C03/constants", key, p.Pos(cl.Pos()), fmt.Sprintf("%q is not one of the documented constants (true, false, null) but is in the table: an identifier that is a legal column name is taken for a constant - a bare join key `on %s` is no longer $left.%s == $right.%s, and a column of that name cannot be referred to", k, k, k, k))
		}
	}
	r.Floor("C03/constants", 3)
}

// ---- C12/nil-receiver: a method called on an optional node pointer tolerates nil.
//
// Trees of successful parses contain nil pointers in their optional fields (an unnamed column's Name, a join
// without kind=). The Span methods - and through them Compile's error paths - call methods on such fields without
// testing them, which is fine only because those methods have pointer receivers and start by testing the receiver
// for nil. A method with a value receiver dereferences at the call; one without the test dereferences inside.
func ruleC12NilReceiver(p *Program, r *Run) {
	pkg := p.Parser
	info := pkg.TypesInfo
	optional := p.optionalNodeFields()
	guardsNil := func(decl *ast.FuncDecl) bool {
		if decl == nil || decl.Recv == nil || len(decl.Recv.List) != 1 || len(decl.Recv.List[0].Names) != 1 || decl.Body == nil {
			return false
		}
		if _, isPtr := info.TypeOf(decl.Recv.List[0].Type).(*types.Pointer); !isPtr {
			return false
		}
		recv := info.Defs[decl.Recv.List[0].Names[0]]
		// the receiver is not dereferenced before a statement `if recv == nil { return ... }`
		for _, st := range decl.Body.List {
			if ifs, ok := st.(*ast.IfStmt); ok && ifs.Init == nil {
				found := false
				ast.Inspect(ifs.Cond, func(n ast.Node) bool {
					if b, ok := n.(*ast.BinaryExpr); ok && b.Op == token.EQL && objOf(info, b.X) == recv && isNilIdent(info, b.Y) {
						found = true
					}
					return true
				})
				if found && len(ifs.Body.List) > 0 {
					if _, isRet := ifs.Body.List[len(ifs.Body.List)-1].(*ast.ReturnStmt); isRet {
						return true
					}
				}
			}
			// any use of the receiver's fields before the test
			deref := false
			ast.Inspect(st, func(n ast.Node) bool {
				if sel, ok := n.(*ast.SelectorExpr); ok && objOf(info, sel.X) == recv {
					deref = true
				}
				return true
			})
			if deref {
				return false
			}
		}
		return false
	}
	n := 0
	for _, fd := range AllFuncs(pkg) {
		fn := FuncName(pkg, fd)
		k := 0
		ast.Inspect(fd.Body, func(x ast.Node) bool {
			call, ok := x.(*ast.CallExpr)
			if !ok {
				return true
			}
			sel, ok := ast.Unparen(call.Fun).(*ast.SelectorExpr)
			if !ok {
				return true
			}
			fsel, ok := ast.Unparen(sel.X).(*ast.SelectorExpr)
			if !ok {
				return true
			}
			f := selField(info, fsel)
			if f == nil {
				return true
			}
			if _, isPtr := f.Type().(*types.Pointer); !isPtr {
				return true
			}
			why, opt := optional[fieldKey(info.TypeOf(fsel.X), f)]
			if !opt {
				return true
			}
			callee := Callee(info, call)
			if callee == nil {
				return true
			}
			// under an explicit test of the field?
			guarded := false
			for a := p.Parent(call); a != nil && !guarded; a = p.Parent(a) {
				if ifs, ok := a.(*ast.IfStmt); ok && call.Pos() >= ifs.Body.Pos() && call.End() <= ifs.Body.End() {
					ast.Inspect(ifs.Cond, func(m ast.Node) bool {
						if b, ok := m.(*ast.BinaryExpr); ok && b.Op == token.NEQ && isNilIdent(info, b.Y) && sameExpr(info, b.X, fsel) {
							guarded = true
						}
						return true
					})
				}
				if _, isFn := a.(*ast.FuncDecl); isFn {
					break
				}
			}
			n++
			k++
			r.Saw(fn)
			key := fmt.Sprintf("%s call #%d %s on the optional field %s", fn, k, callee.Name(), exprStr(fsel))
			decl, _ := p.DeclOf(callee)
			ok2 := guarded || guardsNil(decl)
			r.Check(ok2, "C12/nil-receiver", key, p.Pos(call.Pos()), "pointer receiver that returns before touching a nil receiver (or the field is tested first)", "the field can be nil in the tree of a successful parse ("+why+") and "+callee.FullName()+" does not tolerate a nil receiver (value receiver, or no `if recv == nil` before the first use): computing a span - which Compile does on its error paths - panics")
			return true
		})
	}
	if n == 0 {
		r.PassNT("C12/nil-receiver", "parser: no method is called on an optional node field", "-", "nothing to decide")
	}
}

// ---- C02/suffix: a subquery's pending sort and row limit are always written.
//
// The planner attaches ORDER BY terms and a LIMIT to a subquery; the clause writer appends them after whatever the
// subquery's operator writes. Every successful return of (*subquery).write must therefore have asked about both:
// on the path the nil-ness of sub.sort and of sub.take is known, and where sub.take is known non-nil the last thing
// written is its row count. (An early return in front of the suffix drops a LIMIT the planner attached.) The
// placeholder branch for an operator the writer does not know (dead by C05/dead) is exempt.
func ruleC02Suffix(p *Program, r *Run) {
	g := p.Grammar()
	pkg := p.PQL
	info := pkg.TypesInfo
	wfd := p.MustFunc(pkg, "subquery.write")
	fn := FuncName(pkg, wfd)
	r.Saw(fn)
	// the subquery being written: the receiver, or a parameter of that type; its pending sort and limit by field type
	var subObj types.Object
	var fields []*ast.Field
	if wfd.Recv != nil {
		fields = append(fields, wfd.Recv.List...)
	}
	fields = append(fields, wfd.Type.Params.List...)
	for _, f := range fields {
		if strings.HasSuffix(TypeStr(info.TypeOf(f.Type)), "pql.subquery") && len(f.Names) == 1 && subObj == nil {
			subObj = info.Defs[f.Names[0]]
		}
	}
	if subObj == nil {
		r.Fail("C02/suffix", fn+" subquery", p.Pos(wfd.Pos()), "the clause writer has no named receiver or parameter of type *subquery")
		return
	}
	// state keys use the canonical (reviewed) field names, source text the current ones
	sortName, takeName, takeSrc := "", "", ""
	if st := StructOf(subObj.Type()); st != nil {
		for i := 0; i < st.NumFields(); i++ {
			switch TypeStr(st.Field(i).Type()) {
			case "*parser.SortOperator":
				sortName = fldName(st.Field(i))
			case "*parser.TakeOperator":
				takeName = fldName(st.Field(i))
				takeSrc = st.Field(i).Name()
			}
		}
	}
	if sortName == "" || takeName == "" {
		r.Fail("C02/suffix", fn+" subquery fields", p.Pos(wfd.Pos()), "the subquery has no fields of type *SortOperator / *TakeOperator")
		return
	}
	recv := p.ObjKey(subObj)
	byID := map[int]*emitEvent{}
	for _, ev := range g.events {
		byID[ev.ID] = ev
	}
	type agg struct {
		n   int
		bad []string
	}
	res := map[string]*agg{}
	var order []string
	for _, x := range g.exits {
		if x.Ev.Func != wfd || x.Ev.Text == "String()" {
			continue
		}
		// the placeholder for an unknown operator
		if prev := byID[x.Prev]; prev != nil && prev.Kind == "T" && (strings.Contains(prev.Text, "unhandled") || strings.Contains(prev.Text, "unsupported") || strings.Contains(prev.Text, "*/")) {
			continue
		}
		if prev := byID[x.Prev]; prev != nil && prev.Kind == "RAW" && prev.Verb != "" {
			continue // the %T of the placeholder
		}
		key := fmt.Sprintf("%s %s has written the pending sort and limit", fn, x.Ev.Text)
		a := res[key]
		if a == nil {
			a = &agg{}
			res[key] = a
			order = append(order, key)
		}
		a.n++
		sortF, takeF := x.St.Get(recv+"."+sortName), x.St.Get(recv+"."+takeName)
		switch {
		case sortF == nil || sortF.Nil == 0:
			a.bad = append(a.bad, "whether a sort is pending is not known (the ORDER BY part was not reached)")
		case takeF == nil || takeF.Nil == 0:
			a.bad = append(a.bad, "whether a row limit is pending is not known (the LIMIT part was not reached)")
		case takeF.Nil == 2:
			prev := byID[x.Prev]
			if prev == nil || prev.Kind != "HOLE" || prev.Arg == nil || !strings.Contains(exprStr(prev.Arg), "."+takeSrc) {
				a.bad = append(a.bad, "a row limit is pending but the last thing written is not its row count")
			}
		}
	}
	sort.Strings(order)
	for _, key := range order {
		a := res[key]
		sort.Strings(a.bad)
		why := ""
		if len(a.bad) > 0 {
			why = a.bad[0]
		}
		r.Check(len(a.bad) == 0, "C02/suffix", key, p.Pos(wfd.Pos()), fmt.Sprintf("sub.sort and sub.take are decided on every path to this return (%d abstract path states)", a.n), "the clause writer can return successfully without having written a pending ORDER BY / LIMIT: "+why+" - a row limit the planner attached to this subquery would be dropped")
	}
	r.Floor("C02/suffix", 1)
}

// ---- C01/children: an expression writer writes the children of its node, not something it builds on the way.
//
// Every call from an expression writer (a function with an Expr or *CallExpr parameter) to another writer hands over
// the node itself or something reached from it through fields and list elements. A node built on the spot
// (&parser.BinaryExpr{...}) means the construct is rewritten into a different one while it is written - `x in (v)`
// as `x == v`, say - and the rewritten form need not compute the same value (NULL handling, operand order).
func ruleC01Children(p *Program, r *Run) {
	g := p.Grammar()
	type agg struct {
		ev  *emitEvent
		bad string
		n   int
	}
	res := map[int]*agg{}
	var order []int
	for _, o := range g.occs {
		if o.Ev.Kind != "HOLE" || o.XKey == "" || o.Ev.Arg == nil {
			continue
		}
		a := res[o.Ev.ID]
		if a == nil {
			a = &agg{ev: o.Ev}
			res[o.Ev.ID] = a
			order = append(order, o.Ev.ID)
		}
		a.n++
		k := o.ArgKey
		ok := k == o.XKey || strings.HasPrefix(k, o.XKey+".") || strings.HasPrefix(k, o.XKey+"[") ||
			strings.HasPrefix(k, "assert("+o.XKey+",") || strings.Contains(k, "("+o.XKey+")") && strings.HasPrefix(k, "call:")
		if !ok && k != "" {
			// an element of one of the node's lists held in a range variable: its key mentions the node
			ok = strings.Contains(k, o.XKey+".") || strings.Contains(k, "assert("+o.XKey+",")
		}
		if !ok && a.bad == "" {
			a.bad = exprStr(o.Ev.Arg)
		}
	}
	sort.Ints(order)
	cnt := map[string]int{}
	for _, id := range order {
		a := res[id]
		cnt[a.ev.FnName]++
		r.Saw(a.ev.FnName)
		key := fmt.Sprintf("%s hands %s to %s (#%d)", a.ev.FnName, exprStr(a.ev.Arg), a.ev.Callee.Name(), cnt[a.ev.FnName])
		r.Check(a.bad == "", "C01/children", key, p.Pos(a.ev.Call.Pos()), "the node itself or a child of it", "what is handed to the writer ("+a.bad+") is not reached from the node being written: the construct is replaced by another one while it is written, which need not compute the same value on every row")
	}
	r.Floor("C01/children", 20)
}

// ---- C08/range: a sub-parser sees exactly the tokens of its range.
//
// split hands a bracketed range of the parent's tokens to a new parser, and endSplit reports what that parser left
// unread. Both rest on the child's token list being that range: every value stored into a parser's tokens field is
// the result of Scan, a slice of a parser's own tokens (p.tokens[a:b]), or a parameter that every caller binds to
// one of these. A child whose list is emptied or replaced (a depth limit that sets it to nil) makes endSplit see
// "nothing left" although the range was never read: its tokens are dropped without an error.
func ruleC08Range(p *Program, r *Run) {
	pkg := p.Parser
	info := pkg.TypesInfo
	scan := FuncObj(pkg, p.MustFunc(pkg, "Scan"))
	isParserT := func(t types.Type) bool {
		return t != nil && strings.HasSuffix(strings.TrimPrefix(TypeStr(t), "*"), "parser.parser")
	}
	var okVal func(x ast.Expr, fd *ast.FuncDecl, depth int) (bool, string)
	okVal = func(x ast.Expr, fd *ast.FuncDecl, depth int) (bool, string) {
		x = ast.Unparen(x)
		if depth > 4 {
			return false, "definition chain too long"
		}
		switch v := x.(type) {
		case *ast.CallExpr:
			if Callee(info, v) == scan {
				return true, ""
			}
			return false, "the result of " + exprStr(v.Fun)
		case *ast.SliceExpr:
			if sel, ok := ast.Unparen(v.X).(*ast.SelectorExpr); ok && selName(sel) == "tokens" && isParserT(info.TypeOf(sel.X)) {
				return true, ""
			}
			return okVal(v.X, fd, depth+1)
		case *ast.SelectorExpr:
			if selName(v) == "tokens" && isParserT(info.TypeOf(v.X)) {
				return true, ""
			}
		case *ast.Ident:
			if isNilIdent(info, v) {
				return false, "nil"
			}
			o, _ := objOf(info, v).(*types.Var)
			if o == nil {
				return false, exprStr(x)
			}
			if fd != nil {
				if idx := paramIndex(info, fd, o); idx >= 0 {
					fn, _ := info.Defs[fd.Name].(*types.Func)
					n, why := 0, ""
					for _, other := range AllFuncs(pkg) {
						ast.Inspect(other.Body, func(m ast.Node) bool {
							if call, ok := m.(*ast.CallExpr); ok && fn != nil && Callee(info, call) == fn && idx < len(call.Args) {
								n++
								if ok2, w := okVal(call.Args[idx], other, depth+1); !ok2 && why == "" {
									why = w
								}
							}
							return true
						})
					}
					if n == 0 {
						return false, "a parameter of a function that is never called"
					}
					return why == "", why
				}
			}
			why := ""
			ok := p.allDefsAre(v, func(d ast.Expr) bool {
				if id, isID := d.(*ast.Ident); isID && objOf(info, id) == types.Object(o) {
					return false
				}
				ok2, w := okVal(d, fd, depth+1)
				if !ok2 && why == "" {
					why = w
				}
				return ok2
			})
			return ok, why
		}
		return false, exprStr(x)
	}
	n := 0
	for _, fd := range AllFuncs(pkg) {
		fn := FuncName(pkg, fd)
		k := 0
		report := func(at ast.Node, val ast.Expr) {
			n++
			k++
			r.Saw(fn)
			ok, why := okVal(val, fd, 0)
			key := fmt.Sprintf("%s token list #%d given to a parser", fn, k)
			r.Check(ok, "C08/range", key, p.Pos(at.Pos()), "the result of Scan or a slice of a parser's own tokens", "a parser's token list is set to something other than the scanned tokens or a range of the parent's tokens ("+why+"): endSplit then reports nothing left although the range was not read, and the tokens of the range are dropped without an error")
		}
		ast.Inspect(fd.Body, func(nd ast.Node) bool {
			switch v := nd.(type) {
			case *ast.CompositeLit:
				if isParserT(info.TypeOf(v)) {
					if val := litField(info, v, "tokens"); val != nil {
						report(v, val)
					}
				}
			case *ast.AssignStmt:
				for i, l := range v.Lhs {
					if sel, ok := ast.Unparen(l).(*ast.SelectorExpr); ok && selName(sel) == "tokens" && isParserT(info.TypeOf(sel.X)) && i < len(v.Rhs) && len(v.Lhs) == len(v.Rhs) {
						report(v, v.Rhs[i])
					}
				}
			}
			return true
		})
	}
	r.Floor("C08/range", 3)
}

// ---- C10/union-core: the span accumulated by unionSpans is only overwritten while it is unset.
//
// Every per-node Span method is a union of its parts' spans (C10/union checks that all parts are listed); the union
// itself starts from the null span and grows by min/max. The accumulated span may be replaced by the next span -
// rather than widened - only on a path where it is known to be unset: IsValid() of it is known false, or its
// start (or end) is known negative. A weaker test (start > 0) treats a span that starts at offset 0 as unset and
// drops the first token of the source from every span that contains it.
type unionCoreClient struct {
	BaseClient
	fn       string
	acc      types.Object
	isValid  *types.Func
	rangeVal map[types.Object]bool
	seen     int
}

func (c *unionCoreClient) unset(e *Engine, st *State) bool {
	k := e.objKey(c.acc)
	for _, fld := range []string{".Start", ".End"} {
		if f := st.Get(k + fld); f != nil && (f.Hi != nil && *f.Hi < 0 || f.HasEq && strings.HasPrefix(f.Eq, "-")) {
			return true
		}
	}
	for _, key := range st.Keys() {
		if strings.HasPrefix(key, "call:"+c.isValid.FullName()+"("+k+")") {
			if f := st.Get(key); f != nil && f.HasEq && f.Eq == "false" {
				return true
			}
		}
	}
	return false
}

func (c *unionCoreClient) PreAssign(e *Engine, st *State, lhs, rhs []ast.Expr, stmt ast.Stmt) *State {
	if !e.Reporting() || len(lhs) != len(rhs) || len(e.Frames()) > 0 {
		return nil
	}
	inLoop := false
	for a := e.P.Parent(stmt); a != nil; a = e.P.Parent(a) {
		switch a.(type) {
		case *ast.ForStmt, *ast.RangeStmt:
			inLoop = true
		}
	}
	if !inLoop {
		return nil
	}
	for i, l := range lhs {
		l = ast.Unparen(l)
		var field string
		switch v := l.(type) {
		case *ast.Ident:
			if objOf(e.Info, v) != c.acc {
				continue
			}
		case *ast.SelectorExpr:
			if objOf(e.Info, v.X) != c.acc {
				continue
			}
			field = v.Sel.Name
		default:
			continue
		}
		// widened: the new value mentions the accumulated one (min(u.Start, ...), newSpan(min(u.Start, ...), ...))
		widen := false
		var mentions func(x ast.Node, depth int)
		mentions = func(x ast.Node, depth int) {
			ast.Inspect(x, func(n ast.Node) bool {
				if id, ok := n.(*ast.Ident); ok {
					if objOf(e.Info, id) == c.acc {
						widen = true
					} else if depth < 3 {
						// lo := min(result.Start, next.Start): a local computed from the accumulated span
						if d := e.P.DefExpr(id); d != nil && d != ast.Expr(id) {
							mentions(d, depth+1)
						} else {
							// several definitions (computed, then possibly swapped or clamped): any of them
							e.P.allDefsAre(id, func(dx ast.Expr) bool {
								if di, isID := ast.Unparen(dx).(*ast.Ident); isID && objOf(e.Info, di) == objOf(e.Info, id) {
									return false // the variable itself: look at its definitions
								}
								mentions(dx, depth+1)
								return true
							})
						}
					}
				}
				return !widen
			})
		}
		mentions(rhs[i], 0)
		if widen {
			continue
		}
		c.seen++
		what := "the accumulated span"
		if field != "" {
			what = "the accumulated span's " + field
		}
		key := fmt.Sprintf("%s %s = %s replaces %s only while it is unset", c.fn, exprStr(l), exprStr(rhs[i]), what)
		ok := c.unset(e, st)
		e.Site("C10/union-core", key, stmt, ok, "IsValid() of the accumulated span is known false (or its start/end known negative) where it is replaced")
		if !ok {
			e.Site("C10/union-core", key, stmt, false, what+" is overwritten on a path where it is not known to be unset: a span that legitimately starts at offset 0 is taken for unset, so the union loses its first part (the first token of a source is outside the span of the statement that contains it)")
		}
	}
	return nil
}

func ruleC10UnionCore(p *Program, r *Run) {
	pkg := p.Parser
	info := pkg.TypesInfo
	fd := p.FuncDecl(pkg, "unionSpans")
	if fd == nil {
		return
	}
	fn := FuncName(pkg, fd)
	r.Saw(fn)
	// the accumulator: the local Span variable that is returned
	var acc types.Object
	ast.Inspect(fd.Body, func(n ast.Node) bool {
		if ret, ok := n.(*ast.ReturnStmt); ok && len(ret.Results) == 1 {
			if o, isVar := objOf(info, ret.Results[0]).(*types.Var); isVar && TypeStr(o.Type()) == "parser.Span" {
				acc = o
			}
		}
		return true
	})
	if acc == nil {
		r.PassNT("C10/union-core", fn+" accumulator", p.Pos(fd.Pos()), "unionSpans does not accumulate into a local span")
		return
	}
	c := &unionCoreClient{fn: fn, acc: acc, isValid: FuncObj(pkg, p.MustFunc(pkg, "Span.IsValid"))}
	e := NewEngine(p, pkg, fd, c)
	e.Run(nil)
	for _, m := range e.Errs {
		r.Fail("C10/union-core", fn+" engine", "-", m)
	}
	e.FlushSites(r)
	if c.seen == 0 {
		r.PassNT("C10/union-core", fn+" only widens", p.Pos(fd.Pos()), "the accumulated span is never replaced inside the loop")
	}
}

// ---- C07/statements (non-nil): Parse only returns statements that exist.
//
// Every value appended to the list Parse returns is known non-nil where it is appended (an empty piece between two
// semicolons yields no statement, not a nil one): the number and order of statements is that of the non-empty
// pieces, and consumers (Compile's dispatch, Walk) never meet a nil interface.
type nonNilStmtClient struct {
	BaseClient
	InlinePure
	fn     string
	result types.Object
	seen   int
}

func (c *nonNilStmtClient) PreAssign(e *Engine, st *State, lhs, rhs []ast.Expr, stmt ast.Stmt) *State {
	if !e.Reporting() || len(lhs) != len(rhs) || len(e.Frames()) > 0 {
		return nil
	}
	for i, l := range lhs {
		if objOf(e.Info, l) != c.result {
			continue
		}
		call, ok := ast.Unparen(rhs[i]).(*ast.CallExpr)
		if !ok || !IsBuiltinCall(e.Info, call, "append") || len(call.Args) < 2 || call.Ellipsis.IsValid() {
			continue
		}
		for _, a := range call.Args[1:] {
			c.seen++
			key := fmt.Sprintf("%s appends %s to the statements only where it is non-nil", c.fn, exprStr(a))
			ok := e.NonNil(st, a)
			if f := e.valueOf(st, a); f != nil && f.Nil == 2 {
				ok = true
			}
			e.Site("C07/statements", key, stmt, ok, "the appended statement is known non-nil")
			if !ok {
				e.Site("C07/statements", key, stmt, false, "a statement that may be nil is appended to Parse's result: an empty piece (`a;;b`, a trailing `;`) would yield a nil statement, so statements no longer correspond to the non-empty pieces and consumers meet a nil interface")
			}
		}
	}
	return nil
}

func ruleC07NonNilStatements(p *Program, r *Run) {
	pkg := p.Parser
	info := pkg.TypesInfo
	fd := p.MustFunc(pkg, "Parse")
	fn := FuncName(pkg, fd)
	r.Saw(fn)
	var result types.Object
	ast.Inspect(fd.Body, func(n ast.Node) bool {
		if _, nested := n.(*ast.FuncLit); nested {
			return false
		}
		if ret, ok := n.(*ast.ReturnStmt); ok && len(ret.Results) == 2 {
			if o, isVar := objOf(info, ret.Results[0]).(*types.Var); isVar {
				if sl, isSl := o.Type().Underlying().(*types.Slice); isSl && TypeStr(sl.Elem()) == "parser.Statement" {
					result = o
				}
			}
		}
		return true
	})
	if result == nil {
		r.Fail("C07/statements", fn+" result list", p.Pos(fd.Pos()), "Parse does not return a local list of statements")
		return
	}
	c := &nonNilStmtClient{fn: fn, result: result}
	e := NewEngine(p, pkg, fd, c)
	e.Run(nil)
	for _, m := range e.Errs {
		r.Fail("C07/statements", fn+" engine (non-nil statements)", "-", m)
	}
	e.FlushSites(r)
	if c.seen == 0 {
		r.Fail("C07/statements", fn+" appends statements", p.Pos(fd.Pos()), "no statement is ever appended to Parse's result on a feasible path")
	}
}

// neverReassignedExceptAppend: the list variable is only ever assigned `append(itself, ...)`.
func (p *Program) neverReassignedExceptAppend(o types.Object) bool {
	if p.neverReassigned(o) {
		return true
	}
	fd := p.FuncAt(o.Pos())
	if fd == nil {
		return false
	}
	ok := true
	ast.Inspect(fd.Body, func(n ast.Node) bool {
		as, isAs := n.(*ast.AssignStmt)
		if !isAs {
			return true
		}
		for i, l := range as.Lhs {
			if objOf(p.Info, l) != o {
				continue
			}
			if i >= len(as.Rhs) {
				ok = false
				continue
			}
			call, isCall := ast.Unparen(as.Rhs[i]).(*ast.CallExpr)
			if !isCall || !IsBuiltinCall(p.Info, call, "append") || len(call.Args) == 0 || objOf(p.Info, call.Args[0]) != o || call.Ellipsis.IsValid() {
				ok = false
			}
		}
		return true
	})
	return ok
}
