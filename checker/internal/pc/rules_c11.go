package pc

import (
	"fmt"
	"go/ast"
	"go/token"
	"go/types"
	"sort"
	"strings"
)

// walkModel is parser.Walk read as a table.
type walkModel struct {
	p        *Program
	at       map[ast.Expr]ast.Node // pushed expression -> the call that pushes it
	full     map[ast.Expr]bool     // pushed "expression" standing for every element of a slice (helper call)
	fd       *ast.FuncDecl
	stackObj types.Object
	visitObj types.Object
	rootObj  types.Object
	loop     *ast.ForStmt
	sw       *typeSwitchInfo
	caseOf   map[string]*ast.CaseClause // TypeStr -> clause
}

func (p *Program) walkModel() *walkModel {
	pkg := p.Parser
	info := pkg.TypesInfo
	fd := p.MustFunc(pkg, "Walk")
	m := &walkModel{p: p, at: map[ast.Expr]ast.Node{}, full: map[ast.Expr]bool{}, fd: fd, caseOf: map[string]*ast.CaseClause{}}
	params := fd.Type.Params.List
	if len(params) != 2 {
		fatalf("parser.Walk: expected 2 parameters")
	}
	m.rootObj = info.Defs[params[0].Names[0]]
	m.visitObj = info.Defs[params[1].Names[0]]
	node := p.Named(pkg, "Node")
	// The worklist: a local []Node variable.
	ast.Inspect(fd.Body, func(n ast.Node) bool {
		as, ok := n.(*ast.AssignStmt)
		if !ok || as.Tok != token.DEFINE || len(as.Lhs) != 1 || m.stackObj != nil {
			return true
		}
		if sl, ok := info.TypeOf(as.Lhs[0]).(*types.Slice); ok && types.Identical(sl.Elem(), node) {
			m.stackObj = info.Defs[as.Lhs[0].(*ast.Ident)]
		}
		return true
	})
	if m.stackObj == nil {
		fatalf("parser.Walk: no []Node worklist variable found")
	}
	for _, s := range fd.Body.List {
		if fs, ok := s.(*ast.ForStmt); ok {
			m.loop = fs
		}
	}
	if m.loop == nil {
		fatalf("parser.Walk: no worklist loop found")
	}
	sws := findTypeSwitches(info, m.loop.Body, node)
	if len(sws) != 1 {
		fatalf("parser.Walk: expected exactly one type switch over a Node, found %d", len(sws))
	}
	m.sw = sws[0]
	for cc, ts := range m.sw.Types {
		for _, t := range ts {
			if t != nil {
				m.caseOf[TypeStr(t)] = cc
			}
		}
	}
	return m
}

// pushes returns every append(stack, e...) element expression inside n.
func (m *walkModel) pushes(info *types.Info, n ast.Node) []ast.Expr {
	var out []ast.Expr
	ast.Inspect(n, func(x ast.Node) bool {
		call, ok := x.(*ast.CallExpr)
		if !ok || len(call.Args) < 2 || objOf(info, call.Args[0]) != m.stackObj {
			return true
		}
		if IsBuiltinCall(info, call, "append") {
			for _, a := range call.Args[1:] {
				// temporaries are looked through: prop := n.Props[i]; append(stack, prop.Value)
				ra := m.p.resolveDeep(a, 0, m.p.DefExpr)
				m.at[ra] = call
				out = append(out, ra)
			}
			return true
		}
		// stack = pushAll(stack, n.F): a helper that appends every element of its second argument
		if fn := Callee(info, call); fn != nil && len(call.Args) == 2 && m.p.pushAllHelper(fn) {
			ix := &ast.IndexExpr{X: call.Args[1], Lbrack: call.Args[1].End(), Index: &ast.Ident{Name: "_all", NamePos: call.Args[1].End()}}
			if sl, ok := info.TypeOf(call.Args[1]).Underlying().(*types.Slice); ok {
				info.Types[ix] = types.TypeAndValue{Type: sl.Elem()}
			}
			m.at[ix] = call
			m.full[ix] = true
			out = append(out, ix)
		}
		return true
	})
	return out
}

// pushAllHelper: fn(stack, nodes) appends every element of nodes (in some order) to stack and returns it.
func (p *Program) pushAllHelper(fn *types.Func) bool {
	decl, _ := p.DeclOf(fn)
	if decl == nil || decl.Body == nil || decl.Type.Params.NumFields() != 2 || len(decl.Body.List) != 2 {
		return false
	}
	info := p.Info
	var ps []types.Object
	for _, f := range decl.Type.Params.List {
		for _, n := range f.Names {
			ps = append(ps, info.Defs[n])
		}
	}
	if len(ps) != 2 {
		return false
	}
	ret, ok := decl.Body.List[1].(*ast.ReturnStmt)
	if !ok || len(ret.Results) != 1 || objOf(info, ret.Results[0]) != ps[0] {
		return false
	}
	// the loop: all indices (or all elements) of the second parameter
	var body *ast.BlockStmt
	var elem func(e ast.Expr) bool
	switch l := decl.Body.List[0].(type) {
	case *ast.ForStmt:
		init, ok := l.Init.(*ast.AssignStmt)
		if !ok || len(init.Lhs) != 1 {
			return false
		}
		iv := objOf(info, init.Lhs[0])
		paramExpr := &ast.Ident{Name: ps[1].Name()}
		info.Uses[paramExpr] = ps[1]
		if iv == nil || !isCountedLoopOver(info, l, iv, paramExpr) {
			return false
		}
		body = l.Body
		elem = func(e ast.Expr) bool {
			ix, ok := ast.Unparen(e).(*ast.IndexExpr)
			return ok && objOf(info, ix.X) == ps[1] && objOf(info, ix.Index) == iv
		}
	case *ast.RangeStmt:
		if objOf(info, l.X) != ps[1] {
			return false
		}
		body = l.Body
		elem = func(e ast.Expr) bool {
			if l.Value != nil && objOf(info, e) == objOf(info, l.Value) && objOf(info, e) != nil {
				return true
			}
			ix, ok := ast.Unparen(e).(*ast.IndexExpr)
			return ok && objOf(info, ix.X) == ps[1] && l.Key != nil && objOf(info, ix.Index) == objOf(info, l.Key)
		}
	default:
		return false
	}
	if len(body.List) != 1 {
		return false
	}
	as, ok := body.List[0].(*ast.AssignStmt)
	if !ok || len(as.Lhs) != 1 || len(as.Rhs) != 1 || objOf(info, as.Lhs[0]) != ps[0] {
		return false
	}
	call, ok := as.Rhs[0].(*ast.CallExpr)
	return ok && IsBuiltinCall(info, call, "append") && len(call.Args) == 2 && objOf(info, call.Args[0]) == ps[0] && elem(call.Args[1])
}

// site: the syntax node at which a pushed expression is pushed (the pushing call).
func (m *walkModel) site(e ast.Expr) ast.Node {
	if at := m.at[e]; at != nil {
		return at
	}
	return e
}

// dynTypes returns the dynamic types a value of static type t can have when it is pushed.
func (p *Program) dynTypes(t types.Type) []types.Type {
	if iface, ok := t.Underlying().(*types.Interface); ok {
		return p.Implementers(iface)
	}
	return []types.Type{t}
}

func ruleC11(p *Program, r *Run) {
	pkg := p.Parser
	info := pkg.TypesInfo
	m := p.walkModel()
	fn := "parser.Walk"
	r.Saw(fn)
	nodeIface := p.Iface(pkg, "Node")

	// ---- C11/handled: pushed dynamic types ⊆ handled cases.
	r.Floor("C11/handled", 26)
	type origin struct{ what, pos string }
	need := map[string][]origin{}
	addNeed := func(t types.Type, what string, pos token.Pos) {
		for _, d := range p.dynTypes(t) {
			need[TypeStr(d)] = append(need[TypeStr(d)], origin{what, p.Pos(pos)})
		}
	}
	// Roots: any Statement (Walk over a parse) and any Expr (the compiler's use).
	for _, rootIface := range []string{"Statement", "Expr"} {
		for _, d := range p.Implementers(p.Iface(pkg, rootIface)) {
			need[TypeStr(d)] = append(need[TypeStr(d)], origin{"root argument of type " + rootIface, p.Pos(m.fd.Pos())})
		}
	}
	for _, cc := range m.sw.Clauses {
		for _, e := range m.pushes(info, cc) {
			addNeed(info.TypeOf(e), "push of "+exprStr(e), e.Pos())
		}
	}
	var names []string
	for n := range need {
		names = append(names, n)
	}
	sort.Strings(names)
	for _, n := range names {
		o := need[n][0]
		key := fmt.Sprintf("%s dynamic type %s", fn, n)
		if _, ok := m.caseOf[n]; ok {
			r.PassNT("C11/handled", key, o.pos, fmt.Sprintf("has a case; reachable via %s (+%d more)", o.what, len(need[n])-1))
		} else {
			r.Fail("C11/handled", key, o.pos, fmt.Sprintf("%s can reach the worklist (%s) but the type switch has no case for it: the default branch panics", n, o.what))
		}
	}

	// ---- per-case rules.
	r.Floor("C11/complete", 30)
	r.Floor("C11/once", 26)
	skipDocumented := map[string]string{
		"CallExpr.Func":       "documented exception: function-name identifiers are not visited",
		"JoinOperator.Flavor": "documented exception: join-kind identifiers are not visited",
	}
	optional := p.optionalNodeFields()
	var caseNames []string
	for n := range m.caseOf {
		caseNames = append(caseNames, n)
	}
	sort.Strings(caseNames)
	visitCalls := 0
	counted := map[*ast.CaseClause]bool{}
	for _, cn := range caseNames {
		cc := m.caseOf[cn]
		if len(m.sw.Types[cc]) != 1 {
			// several types in one clause: only possible for nodes without children (the clause cannot reach fields)
			var T types.Type
			for _, t := range m.sw.Types[cc] {
				if t != nil && TypeStr(t) == cn {
					T = t
				}
			}
			leaf := T != nil
			if st := StructOf(T); st != nil {
				for i := 0; i < st.NumFields(); i++ {
					f := st.Field(i)
					elem := f.Type()
					if sl, ok := elem.Underlying().(*types.Slice); ok {
						elem = sl.Elem()
					}
					if types.Implements(elem, nodeIface) && skipDocumented[fieldKey(T, f)] == "" {
						leaf = false
					}
				}
			}
			var visits []*ast.CallExpr
			ast.Inspect(cc, func(x ast.Node) bool {
				if call, ok := x.(*ast.CallExpr); ok && objOf(info, call.Fun) == m.visitObj {
					visits = append(visits, call)
				}
				return true
			})
			if !counted[cc] {
				visitCalls += len(visits)
				counted[cc] = true
			}
			okLeaf := leaf && len(visits) == 1 && len(visits[0].Args) == 1 && objOf(info, visits[0].Args[0]) == clauseVar(info, cc) && len(m.pushes(info, cc)) == 0
			r.Check(okLeaf, "C11/once", fn+" case "+cn, p.Pos(cc.Pos()), "shares a clause with other childless node types: visit(n) once, nothing pushed", "case clause lists several types but this one has children (or the clause does not call the visitor exactly once with the node): per-type children cannot be visited from a shared clause")
			continue
		}
		T := m.sw.Types[cc][0]
		nv := clauseVar(info, cc)
		st := StructOf(T)
		if st == nil {
			continue
		}
		// once: exactly one visit call, argument is the clause variable, pushes gated on it.
		var visits []*ast.CallExpr
		ast.Inspect(cc, func(x ast.Node) bool {
			if call, ok := x.(*ast.CallExpr); ok && objOf(info, call.Fun) == m.visitObj {
				visits = append(visits, call)
			}
			return true
		})
		visitCalls += len(visits)
		pushes := m.pushes(info, cc)
		onceKey := fn + " case " + cn
		switch {
		case len(visits) != 1:
			r.Fail("C11/once", onceKey, p.Pos(cc.Pos()), fmt.Sprintf("visitor called %d times in this case (want exactly once)", len(visits)))
		case len(visits[0].Args) != 1 || objOf(info, visits[0].Args[0]) != nv:
			r.Fail("C11/once", onceKey, p.Pos(visits[0].Pos()), "visitor is not called with the node of this case")
		default:
			// every push must be inside `if visit(n) { ... }`
			ok := true
			var gate *ast.IfStmt
			if ifs, isIf := p.Parent(visits[0]).(*ast.IfStmt); isIf && ifs.Cond == ast.Expr(visits[0]) && ifs.Init == nil {
				gate = ifs
			}
			// if !visit(n) { continue }: everything after it in the clause is gated
			var earlyExit *ast.IfStmt
			if un, isNot := p.Parent(visits[0]).(*ast.UnaryExpr); isNot && un.Op == token.NOT {
				if ifs, isIf := p.Parent(un).(*ast.IfStmt); isIf && ifs.Cond == ast.Expr(un) && ifs.Init == nil && ifs.Else == nil && len(ifs.Body.List) > 0 {
					switch last := ifs.Body.List[len(ifs.Body.List)-1].(type) {
					case *ast.BranchStmt:
						if last.Tok == token.CONTINUE && last.Label == nil {
							earlyExit = ifs
						}
					case *ast.ReturnStmt:
						earlyExit = ifs
					}
					// only directly in the clause body (not nested in something that is skipped over)
					if earlyExit != nil {
						direct := false
						for _, bs := range cc.Body {
							if bs == ast.Stmt(earlyExit) {
								direct = true
							}
						}
						if !direct {
							earlyExit = nil
						}
					}
				}
			}
			for _, e := range pushes {
				inside := false
				var site ast.Node = e
				if at := m.at[e]; at != nil {
					site = at
				}
				if earlyExit != nil && site.Pos() > earlyExit.End() {
					inside = true
				}
				if gate != nil {
					p.ancestors(site, cc, func(anc, child ast.Node) bool {
						if anc == ast.Node(gate) && child == ast.Node(gate.Body) {
							inside = true
							return false
						}
						return true
					})
				}
				if !inside {
					ok = false
					r.Fail("C11/once", onceKey+" push "+exprStr(e), p.Pos(e.Pos()), "child pushed without being gated on the visitor's result (skip contract: false must skip the descendants) or before the visitor call")
				}
			}
			if ok {
				how := "visit(n) once; no children"
				if len(pushes) > 0 {
					how = fmt.Sprintf("visit(n) once, %d pushes all inside `if visit(n)`", len(pushes))
				}
				r.PassNT("C11/once", onceKey, p.Pos(visits[0].Pos()), how)
			}
		}

		// complete + nil per node-bearing field.
		for i := 0; i < st.NumFields(); i++ {
			f := st.Field(i)
			ft := f.Type()
			elem := ft
			isSlice := false
			if sl, ok := ft.Underlying().(*types.Slice); ok {
				elem = sl.Elem()
				isSlice = true
			}
			if !types.Implements(elem, nodeIface) {
				continue
			}
			fk := fieldKey(T, f)
			key := fn + " case " + cn + " field " + f.Name()
			if why, ok := skipDocumented[fk]; ok {
				r.Pass("C11/complete", key, p.Pos(cc.Pos()), why)
				continue
			}
			// find pushes of this field
			var fpush []ast.Expr
			for _, e := range pushes {
				base := ast.Unparen(e)
				if isSlice {
					ix, ok := base.(*ast.IndexExpr)
					if !ok {
						continue
					}
					base = ix.X
				}
				if fieldSel(info, base, nv) == f {
					fpush = append(fpush, e)
				}
			}
			if len(fpush) == 0 && isSlice {
				// slice of a node type without its own case: element fields must be pushed instead.
				if _, has := m.caseOf[TypeStr(elem)]; !has {
					est := StructOf(elem)
					allOK := est != nil
					var missing []string
					if est != nil {
						for j := 0; j < est.NumFields(); j++ {
							ef := est.Field(j)
							if !types.Implements(ef.Type(), nodeIface) {
								continue
							}
							found := false
							for _, e := range pushes {
								sel, ok := ast.Unparen(e).(*ast.SelectorExpr)
								if !ok || selField(info, sel) != ef {
									continue
								}
								if ix, ok := ast.Unparen(sel.X).(*ast.IndexExpr); ok && fieldSel(info, ix.X, nv) == f {
									found = true
									// nil rule for element fields
									if optional[fieldKey(elem, ef)] != "" {
										guarded := p.guardedByNonNil(info, m.site(e), cc, sel)
										r.Check(guarded, "C11/nil", key+"[i]."+ef.Name(), p.Pos(e.Pos()), "optional field pushed under `!= nil`", fmt.Sprintf("optional field %s pushed without a nil guard (%s)", fieldKey(elem, ef), optional[fieldKey(elem, ef)]))
									}
								}
							}
							if !found {
								allOK = false
								missing = append(missing, ef.Name())
							}
						}
					}
					r.Check(allOK, "C11/complete", key, p.Pos(cc.Pos()), "element type has no case of its own; every node-bearing element field is pushed", fmt.Sprintf("elements of %s are never pushed and their fields %v are not pushed either: those children are never visited", fk, missing))
					continue
				}
			}
			if len(fpush) == 0 {
				r.Fail("C11/complete", key, p.Pos(cc.Pos()), fmt.Sprintf("node-bearing field %s is never pushed: its subtree is never visited", fk))
				continue
			}
			if len(fpush) > 1 {
				r.Fail("C11/complete", key, p.Pos(fpush[1].Pos()), fmt.Sprintf("field %s is pushed %d times: its subtree would be visited more than once", fk, len(fpush)))
				continue
			}
			if isSlice {
				// pushed inside a loop over all indices of the field (or by a helper that pushes every element)
				ok := m.full[fpush[0]] || p.inFullIndexLoop(info, fpush[0], cc)
				r.Check(ok, "C11/complete", key, p.Pos(fpush[0].Pos()), "every element pushed (loop over all indices)", "slice field is not pushed inside a loop over all of its indices")
			} else {
				r.Pass("C11/complete", key, p.Pos(fpush[0].Pos()), "pushed")
			}
			if why := optional[fk]; why != "" && !isSlice {
				guarded := p.guardedByNonNil(info, m.site(fpush[0]), cc, fpush[0])
				r.Check(guarded, "C11/nil", key, p.Pos(fpush[0].Pos()), "optional field pushed under `!= nil`", fmt.Sprintf("optional field %s is pushed without a nil guard (%s): the visitor receives a nil node or the default branch panics", fk, why))
			}
		}
	}
	r.Floor("C11/nil", 3)
	// no visit call outside the cases
	total := 0
	ast.Inspect(m.fd.Body, func(x ast.Node) bool {
		if call, ok := x.(*ast.CallExpr); ok && objOf(info, call.Fun) == m.visitObj {
			total++
		}
		return true
	})
	r.Check(total == visitCalls, "C11/once", fn+" visitor calls outside cases", p.Pos(m.fd.Pos()), "none", fmt.Sprintf("%d visitor call(s) outside the per-type cases", total-visitCalls))

	// pop discipline: loop condition len(stack) > 0; one pop per iteration; root pushed once.
	ruleC11Pop(p, r, m)

	// default branch must not be silently accepting
	if m.sw.Default != nil {
		panics := false
		ast.Inspect(m.sw.Default, func(x ast.Node) bool {
			if call, ok := x.(*ast.CallExpr); ok && IsBuiltinCall(info, call, "panic") {
				panics = true
			}
			return true
		})
		if panics {
			r.Note("Walk default branch panics; dead for non-nil nodes iff C11/handled holds")
		}
	}

	// ---- C11/use: the compiler's use.
	ruleC11Use(p, r)
}

// inFullIndexLoop: e is `n.F[i]` and sits in `for i := len(n.F)-1; i >= 0; i--` or `for i := range n.F` / `for i := 0; i < len(n.F); i++`.
func (p *Program) inFullIndexLoop(info *types.Info, e ast.Expr, stop ast.Node) bool {
	ix, ok := ast.Unparen(e).(*ast.IndexExpr)
	if !ok {
		// maybe n.F[i].G
		return false
	}
	iobj := objOf(info, ix.Index)
	if iobj == nil {
		return false
	}
	okLoop := false
	p.ancestors(e, stop, func(anc, child ast.Node) bool {
		switch l := anc.(type) {
		case *ast.ForStmt:
			if isCountedLoopOver(info, l, iobj, ix.X) {
				okLoop = true
				return false
			}
		case *ast.RangeStmt:
			if l.Key != nil && objOf(info, l.Key) == iobj && sameExpr(info, l.X, ix.X) {
				okLoop = true
				return false
			}
		}
		return true
	})
	return okLoop
}

// isCountedLoopOver matches the up- and down-counting loops over all indices of slice expression s with index variable i.
func isCountedLoopOver(info *types.Info, l *ast.ForStmt, i types.Object, s ast.Expr) bool {
	init, ok := l.Init.(*ast.AssignStmt)
	if !ok || len(init.Lhs) != len(init.Rhs) {
		return false
	}
	// for i := ...  or  for i, n := 0, len(s)
	var iInit ast.Expr
	extra := map[types.Object]ast.Expr{}
	for k, lh := range init.Lhs {
		if o := objOf(info, lh); o == i {
			iInit = init.Rhs[k]
		} else if o != nil {
			extra[o] = init.Rhs[k]
		}
	}
	if iInit == nil {
		return false
	}
	cond, ok := l.Cond.(*ast.BinaryExpr)
	if !ok || objOf(info, cond.X) != i {
		return false
	}
	post, ok := l.Post.(*ast.IncDecStmt)
	if !ok || objOf(info, post.X) != i {
		return false
	}
	isLen := func(e ast.Expr) bool {
		// the bound may be held in a variable of the init statement, or be a single-assignment temporary
		if o := objOf(info, e); o != nil {
			if d, ok := extra[o]; ok && !writesTo(info, l.Body, o) {
				e = d
			} else if curProgram != nil {
				e = curProgram.DefExpr(e)
			}
		}
		c, ok := ast.Unparen(e).(*ast.CallExpr)
		return ok && IsBuiltinCall(info, c, "len") && len(c.Args) == 1 && sameExpr(info, c.Args[0], s)
	}
	// up: i := 0; i < len(s); i++
	if v, ok := constInt(info, iInit); ok && v == 0 && cond.Op == token.LSS && isLen(cond.Y) && post.Tok == token.INC {
		return true
	}
	// down: i := len(s)-1; i >= 0; i--
	if b, ok := ast.Unparen(iInit).(*ast.BinaryExpr); ok && b.Op == token.SUB && isLen(b.X) {
		if one, ok := constInt(info, b.Y); ok && one == 1 {
			if z, ok := constInt(info, cond.Y); ok && z == 0 && cond.Op == token.GEQ && post.Tok == token.DEC {
				return true
			}
		}
	}
	return false
}

func ruleC11Pop(p *Program, r *Run, m *walkModel) {
	info := p.Parser.TypesInfo
	fn := "parser.Walk"
	// loop condition
	condOK := false
	if b, ok := m.loop.Cond.(*ast.BinaryExpr); ok && b.Op == token.GTR {
		if c, ok := b.X.(*ast.CallExpr); ok && IsBuiltinCall(info, c, "len") && objOf(info, c.Args[0]) == m.stackObj {
			if z, ok := constInt(info, b.Y); ok && z == 0 {
				condOK = true
			}
		}
	}
	r.Check(condOK, "C11/once", fn+" worklist loop condition", p.Pos(m.loop.Pos()), "loops while the worklist is non-empty", "worklist loop condition is not `len(stack) > 0`: nodes may be left unvisited or an empty stack popped")
	// exactly one re-slice stack = stack[:len(stack)-1] at top level of loop body, and the switch tag is the popped element stack[len(stack)-1].
	pops := 0
	var popped types.Object
	for _, s := range m.loop.Body.List {
		as, ok := s.(*ast.AssignStmt)
		if !ok || len(as.Lhs) != 1 || len(as.Rhs) != 1 {
			continue
		}
		if objOf(info, as.Lhs[0]) == m.stackObj {
			if sl, ok := as.Rhs[0].(*ast.SliceExpr); ok && objOf(info, sl.X) == m.stackObj && sl.Low == nil && isLenMinus1(info, p.DefExpr(sl.High), m.stackObj) {
				pops++
			}
			continue
		}
		if ix, ok := as.Rhs[0].(*ast.IndexExpr); ok && objOf(info, ix.X) == m.stackObj && isLenMinus1(info, p.DefExpr(ix.Index), m.stackObj) {
			popped = objOf(info, as.Lhs[0])
		}
	}
	tagOK := popped != nil && objOf(info, m.sw.Tag) == popped
	r.Check(pops == 1 && tagOK, "C11/once", fn+" pop discipline", p.Pos(m.loop.Pos()), "each iteration pops exactly the last element and dispatches on it", fmt.Sprintf("worklist pop discipline broken (pops per iteration=%d, dispatch on popped element=%v)", pops, tagOK))
	// other writes to the stack outside cases: only the initial literal containing the root exactly once.
	rootPush := 0
	ast.Inspect(m.fd.Body, func(x ast.Node) bool {
		if cl, ok := x.(*ast.CompositeLit); ok {
			if sl, ok := info.TypeOf(cl).(*types.Slice); ok && types.Identical(sl.Elem(), p.Named(p.Parser, "Node")) {
				for _, e := range cl.Elts {
					if objOf(info, e) == m.rootObj {
						rootPush++
					}
				}
			}
		}
		return true
	})
	r.Check(rootPush == 1, "C11/once", fn+" root", p.Pos(m.fd.Pos()), "root pushed exactly once", fmt.Sprintf("root node pushed %d times", rootPush))
}

func isLenMinus1(info *types.Info, e ast.Expr, obj types.Object) bool {
	b, ok := ast.Unparen(e).(*ast.BinaryExpr)
	if !ok || b.Op != token.SUB {
		return false
	}
	c, ok := ast.Unparen(b.X).(*ast.CallExpr)
	if !ok || !IsBuiltinCall(info, c, "len") || objOf(info, c.Args[0]) != obj {
		return false
	}
	v, ok := constInt(info, b.Y)
	return ok && v == 1
}

// optionalNodeFields derives the node-typed struct fields that can be nil in a tree the parser returns.
// (i) fields that some production explicitly assigns nil; (ii) reviewed rows.
func (p *Program) optionalNodeFields() map[string]string {
	out := map[string]string{}
	info := p.Parser.TypesInfo
	for _, fd := range AllFuncs(p.Parser) {
		ast.Inspect(fd.Body, func(n ast.Node) bool {
			as, ok := n.(*ast.AssignStmt)
			if !ok {
				return true
			}
			for i, lhs := range as.Lhs {
				if i >= len(as.Rhs) || !isNilIdent(info, as.Rhs[i]) {
					continue
				}
				sel, ok := ast.Unparen(lhs).(*ast.SelectorExpr)
				if !ok {
					continue
				}
				f := selField(info, sel)
				if f == nil {
					continue
				}
				bt := info.TypeOf(sel.X)
				out[fieldKey(bt, f)] = fmt.Sprintf("assigned nil in %s", FuncName(p.Parser, fd))
			}
			return true
		})
	}
	for k, v := range reviewedOptionalFields {
		if _, ok := out[k]; !ok {
			out[k] = v
		}
	}
	return out
}

// reviewedOptionalFields: fields a production leaves unset on a success path.
var reviewedOptionalFields = map[string]string{
	"ProjectColumn.X":      "reviewed: only set when the column is followed by '='",
	"RenderProperty.Value": "reviewed: kept optional, the traversal already guards it",
}

func ruleC11Use(p *Program, r *Run) {
	info := p.PQL.TypesInfo
	walk := FuncObj(p.Parser, p.MustFunc(p.Parser, "Walk"))
	n := 0
	for _, fd := range AllFuncs(p.PQL) {
		ast.Inspect(fd.Body, func(x ast.Node) bool {
			call, ok := x.(*ast.CallExpr)
			if !ok || Callee(info, call) != walk {
				return true
			}
			n++
			fname := FuncName(p.PQL, fd)
			r.Saw(fname)
			key := fname + " call of parser.Walk"
			lit, ok := call.Args[1].(*ast.FuncLit)
			if !ok {
				r.Fail("C11/use", key, p.Pos(call.Pos()), "visitor is not a function literal; cannot decide that it always descends")
				return true
			}
			allTrue := true
			rets := 0
			ast.Inspect(lit.Body, func(y ast.Node) bool {
				if ret, ok := y.(*ast.ReturnStmt); ok {
					rets++
					if len(ret.Results) != 1 {
						allTrue = false
					} else if v := constOf(info, ret.Results[0]); v == nil || v.String() != "true" {
						allTrue = false
					}
				}
				return true
			})
			r.Check(allTrue && rets > 0, "C11/use", key, p.Pos(call.Pos()), "visitor returns true on every path (whole subtree inspected)", "the compiler's visitor can return false: parts of a join condition would be skipped when looking for $left/$right")
			return true
		})
	}
	r.Floor("C11/use", 1)
	_ = strings.TrimSpace
	_ = n
}
