package pc

import (
	"fmt"
	"go/ast"
	"go/token"
	"go/types"
	"strings"
)

// pushAllHelper: fn(stack, nodes) appends every element of nodes (in some order) to stack and returns it.
func (p *Program) pushAllHelper(fn *types.Func) bool {
	ok, _ := p.pushAllHelperG(fn)
	return ok
}

// pushAllHelperG also accepts a helper that skips nil elements (`if nodes[i] != nil { ... }`) and reports that.
func (p *Program) pushAllHelperG(fn *types.Func) (isHelper, skipsNil bool) {
	decl, _ := p.DeclOf(fn)
	if decl == nil || decl.Body == nil || decl.Type.Params.NumFields() != 2 || len(decl.Body.List) != 2 {
		return false, false
	}
	info := p.Info
	var ps []types.Object
	for _, f := range decl.Type.Params.List {
		for _, n := range f.Names {
			ps = append(ps, info.Defs[n])
		}
	}
	if len(ps) != 2 {
		return false, false
	}
	ret, ok := decl.Body.List[1].(*ast.ReturnStmt)
	if !ok || len(ret.Results) != 1 || objOf(info, ret.Results[0]) != ps[0] {
		return false, false
	}
	// the loop: all indices (or all elements) of the second parameter
	var body *ast.BlockStmt
	var elem func(e ast.Expr) bool
	switch l := decl.Body.List[0].(type) {
	case *ast.ForStmt:
		init, ok := l.Init.(*ast.AssignStmt)
		if !ok || len(init.Lhs) != 1 {
			return false, false
		}
		iv := objOf(info, init.Lhs[0])
		paramExpr := &ast.Ident{Name: ps[1].Name()}
		info.Uses[paramExpr] = ps[1]
		shifted := iv != nil && isShiftedLoopOver(info, l, iv, paramExpr, 1)
		if iv == nil || (!isCountedLoopOver(info, l, iv, paramExpr) && !shifted) {
			return false, false
		}
		body = l.Body
		elem = func(e ast.Expr) bool {
			ix, ok := ast.Unparen(e).(*ast.IndexExpr)
			if !ok || objOf(info, ix.X) != ps[1] {
				return false
			}
			if shifted {
				// nodes[i-1] with i running from len(nodes) down to 1 (or from 1 up to len(nodes))
				b, isB := ast.Unparen(ix.Index).(*ast.BinaryExpr)
				if !isB || b.Op != token.SUB || objOf(info, b.X) != iv {
					return false
				}
				k, isC := constInt(info, b.Y)
				return isC && k == 1
			}
			return objOf(info, ix.Index) == iv
		}
	case *ast.RangeStmt:
		if objOf(info, l.X) != ps[1] {
			return false, false
		}
		body = l.Body
		elem = func(e ast.Expr) bool {
			if l.Value != nil && objOf(info, e) == objOf(info, l.Value) && objOf(info, e) != nil {
				return true
			}
			ix, ok := ast.Unparen(e).(*ast.IndexExpr)
			return ok && objOf(info, ix.X) == ps[1] && l.Key != nil && objOf(info, ix.Index) == objOf(info, l.Key)
		}
	default:
		return false, false
	}
	if len(body.List) != 1 {
		return false, false
	}
	stmt := body.List[0]
	// if elem != nil { ... }   /   if c := elem; c != nil { ... }
	if ifs, isIf := stmt.(*ast.IfStmt); isIf && ifs.Else == nil && len(ifs.Body.List) == 1 {
		cond, isBin := ast.Unparen(ifs.Cond).(*ast.BinaryExpr)
		if !isBin || cond.Op != token.NEQ || !isNilIdent(info, cond.Y) {
			return false, false
		}
		tested := cond.X
		inner := elem
		if ifs.Init != nil {
			as, isAs := ifs.Init.(*ast.AssignStmt)
			if !isAs || len(as.Lhs) != 1 || len(as.Rhs) != 1 || !elem(as.Rhs[0]) || objOf(info, as.Lhs[0]) != objOf(info, tested) || objOf(info, tested) == nil {
				return false, false
			}
			tv := objOf(info, tested)
			inner = func(e ast.Expr) bool { return objOf(info, e) == tv || elem(e) }
		} else if !elem(tested) {
			return false, false
		}
		elem = inner
		stmt = ifs.Body.List[0]
		skipsNil = true
	}
	as, ok := stmt.(*ast.AssignStmt)
	if !ok || len(as.Lhs) != 1 || len(as.Rhs) != 1 || objOf(info, as.Lhs[0]) != ps[0] {
		return false, false
	}
	call, ok := as.Rhs[0].(*ast.CallExpr)
	if ok && IsBuiltinCall(info, call, "append") && len(call.Args) == 2 && objOf(info, call.Args[0]) == ps[0] && elem(call.Args[1]) {
		return true, skipsNil
	}
	return false, false
}

// dynTypes returns the dynamic types a value of static type t can have when it is pushed.
func (p *Program) dynTypes(t types.Type) []types.Type {
	if iface, ok := t.Underlying().(*types.Interface); ok {
		return p.Implementers(iface)
	}
	return []types.Type{t}
}

// inFullIndexLoop: e is `n.F[i]` and sits in `for i := len(n.F)-1; i >= 0; i--` or `for i := range n.F` / `for i := 0; i < len(n.F); i++`.
func (p *Program) inFullIndexLoop(info *types.Info, e ast.Expr, stop ast.Node) bool {
	ix, ok := ast.Unparen(e).(*ast.IndexExpr)
	if !ok {
		// maybe n.F[i].G
		return false
	}
	iobj := objOf(info, ix.Index)
	shift := int64(0)
	if b, isB := ast.Unparen(ix.Index).(*ast.BinaryExpr); isB && b.Op == token.SUB {
		// s[i-k] inside a loop whose counter runs k ahead (for i := len(s); i > 0; i-- { ... s[i-1] })
		if k, isC := constInt(info, b.Y); isC && k >= 0 {
			iobj, shift = objOf(info, b.X), k
		}
	}
	if iobj == nil {
		return false
	}
	okLoop := false
	p.ancestors(e, stop, func(anc, child ast.Node) bool {
		switch l := anc.(type) {
		case *ast.ForStmt:
			if shift != 0 {
				if isShiftedLoopOver(info, l, iobj, ix.X, shift) {
					okLoop = true
					return false
				}
				return true
			}
			if isCountedLoopOver(info, l, iobj, ix.X) {
				okLoop = true
				return false
			}
		case *ast.RangeStmt:
			if shift == 0 && l.Key != nil && objOf(info, l.Key) == iobj && sameExpr(info, l.X, ix.X) {
				okLoop = true
				return false
			}
		}
		return true
	})
	return okLoop
}

// isCountedLoopOver matches the up- and down-counting loops over all indices of slice expression s with index variable i.
func isCountedLoopOver(info *types.Info, l *ast.ForStmt, i types.Object, s ast.Expr) bool {
	init, ok := l.Init.(*ast.AssignStmt)
	if !ok || len(init.Lhs) != len(init.Rhs) {
		return false
	}
	// for i := ...  or  for i, n := 0, len(s)
	var iInit ast.Expr
	extra := map[types.Object]ast.Expr{}
	for k, lh := range init.Lhs {
		if o := objOf(info, lh); o == i {
			iInit = init.Rhs[k]
		} else if o != nil {
			extra[o] = init.Rhs[k]
		}
	}
	if iInit == nil {
		return false
	}
	cond, ok := l.Cond.(*ast.BinaryExpr)
	if !ok || objOf(info, cond.X) != i {
		return false
	}
	post, ok := l.Post.(*ast.IncDecStmt)
	if !ok || objOf(info, post.X) != i {
		return false
	}
	isLen := func(e ast.Expr) bool {
		// the bound may be held in a variable of the init statement, or be a single-assignment temporary
		if o := objOf(info, e); o != nil {
			if d, ok := extra[o]; ok && !writesTo(info, l.Body, o) {
				e = d
			} else if curProgram != nil {
				e = curProgram.DefExpr(e)
			}
		}
		c, ok := ast.Unparen(e).(*ast.CallExpr)
		return ok && IsBuiltinCall(info, c, "len") && len(c.Args) == 1 && sameExpr(info, c.Args[0], s)
	}
	// up: i := 0; i < len(s); i++
	if v, ok := constInt(info, iInit); ok && v == 0 && cond.Op == token.LSS && isLen(cond.Y) && post.Tok == token.INC {
		return true
	}
	// down: i := len(s)-1; i >= 0; i--
	if b, ok := ast.Unparen(iInit).(*ast.BinaryExpr); ok && b.Op == token.SUB && isLen(b.X) {
		if one, ok := constInt(info, b.Y); ok && one == 1 {
			if z, ok := constInt(info, cond.Y); ok && z == 0 && cond.Op == token.GEQ && post.Tok == token.DEC {
				return true
			}
		}
	}
	return false
}

// isShiftedLoopOver: the loop runs i over k .. len(s)-1+k, up or down, so that s[i-k] visits every element once
// (for i := len(s); i > 0; i-- / for i := 1; i <= len(s); i++ with k = 1).
func isShiftedLoopOver(info *types.Info, l *ast.ForStmt, i types.Object, s ast.Expr, k int64) bool {
	init, ok := l.Init.(*ast.AssignStmt)
	if !ok || len(init.Lhs) != 1 || len(init.Rhs) != 1 || objOf(info, init.Lhs[0]) != i {
		return false
	}
	cond, ok := l.Cond.(*ast.BinaryExpr)
	if !ok || objOf(info, cond.X) != i {
		return false
	}
	post, ok := l.Post.(*ast.IncDecStmt)
	if !ok || objOf(info, post.X) != i || writesTo(info, l.Body, i) {
		return false
	}
	// len(s) + d
	lenPlus := func(e ast.Expr) (int64, bool) {
		e = ast.Unparen(e)
		d := int64(0)
		if b, isB := e.(*ast.BinaryExpr); isB && (b.Op == token.ADD || b.Op == token.SUB) {
			if c, isC := constInt(info, b.Y); isC {
				if b.Op == token.SUB {
					c = -c
				}
				d, e = c, ast.Unparen(b.X)
			}
		}
		c, isCall := e.(*ast.CallExpr)
		if !isCall || !IsBuiltinCall(info, c, "len") || len(c.Args) != 1 || !sameExpr(info, c.Args[0], s) {
			return 0, false
		}
		return d, true
	}
	// up: i := k; i < len(s)+k (or i <= len(s)+k-1); i++
	if v, isC := constInt(info, init.Rhs[0]); isC && v == k && post.Tok == token.INC {
		if d, isL := lenPlus(cond.Y); isL {
			return (cond.Op == token.LSS && d == k) || (cond.Op == token.LEQ && d == k-1)
		}
		return false
	}
	// down: i := len(s)-1+k; i >= k (or i > k-1); i--
	if d, isL := lenPlus(init.Rhs[0]); isL && d == k-1 && post.Tok == token.DEC {
		if z, isC := constInt(info, cond.Y); isC {
			return (cond.Op == token.GEQ && z == k) || (cond.Op == token.GTR && z == k-1)
		}
	}
	return false
}

func isLenMinus1(info *types.Info, e ast.Expr, obj types.Object) bool {
	b, ok := ast.Unparen(e).(*ast.BinaryExpr)
	if !ok || b.Op != token.SUB {
		return false
	}
	c, ok := ast.Unparen(b.X).(*ast.CallExpr)
	if !ok || !IsBuiltinCall(info, c, "len") || objOf(info, c.Args[0]) != obj {
		return false
	}
	v, ok := constInt(info, b.Y)
	return ok && v == 1
}

// optionalNodeFields derives the node-typed struct fields that can be nil in a tree the parser returns.
// (i) fields that some production explicitly assigns nil; (ii) reviewed rows.
func (p *Program) optionalNodeFields() map[string]string {
	out := map[string]string{}
	info := p.Parser.TypesInfo
	for _, fd := range AllFuncs(p.Parser) {
		ast.Inspect(fd.Body, func(n ast.Node) bool {
			as, ok := n.(*ast.AssignStmt)
			if !ok {
				return true
			}
			for i, lhs := range as.Lhs {
				if i >= len(as.Rhs) || !isNilIdent(info, as.Rhs[i]) {
					continue
				}
				sel, ok := ast.Unparen(lhs).(*ast.SelectorExpr)
				if !ok {
					continue
				}
				f := selField(info, sel)
				if f == nil {
					continue
				}
				bt := info.TypeOf(sel.X)
				out[fieldKey(bt, f)] = fmt.Sprintf("assigned nil in %s", FuncName(p.Parser, fd))
			}
			return true
		})
	}
	// (iii) fields a production leaves out of the literal it builds the node with and never stores afterwards
	node := p.Iface(p.Parser, "Node")
	isNodeRef := func(t types.Type) bool {
		if _, isSlice := t.Underlying().(*types.Slice); isSlice {
			return false
		}
		if _, isPtr := t.(*types.Pointer); !isPtr {
			if _, isIface := t.Underlying().(*types.Interface); !isIface {
				return false
			}
		}
		return types.Implements(t, node)
	}
	for _, fd := range AllFuncs(p.Parser) {
		ast.Inspect(fd.Body, func(n ast.Node) bool {
			cl, ok := n.(*ast.CompositeLit)
			if !ok {
				return true
			}
			lt := info.TypeOf(cl)
			st := StructOf(lt)
			if st == nil || !(types.Implements(types.NewPointer(lt), node) || types.Implements(lt, node)) {
				return true
			}
			set := map[*types.Var]bool{}
			for _, el := range cl.Elts {
				if kv, ok := el.(*ast.KeyValueExpr); ok {
					if f, _ := objOf(info, kv.Key).(*types.Var); f != nil && !isNilIdent(info, kv.Value) {
						set[f] = true
					}
				} else {
					return true // positional literal: every field is given
				}
			}
			// the variable the literal is held in (v := &T{...}, or *v = T{...})
			var holder types.Object
			var par ast.Node = p.Parent(cl)
			if u, ok := par.(*ast.UnaryExpr); ok && u.Op == token.AND {
				par = p.Parent(u)
			}
			if as, ok := par.(*ast.AssignStmt); ok && len(as.Lhs) == len(as.Rhs) {
				for i, rhs := range as.Rhs {
					x := ast.Unparen(rhs)
					if u, ok := x.(*ast.UnaryExpr); ok {
						x = ast.Unparen(u.X)
					}
					if x == ast.Expr(cl) {
						l := ast.Unparen(as.Lhs[i])
						if star, ok := l.(*ast.StarExpr); ok {
							l = ast.Unparen(star.X)
						}
						holder = objOf(info, l)
					}
				}
			}
			// a literal that a constructor hands back (`return &T{...}`): the variables its callers keep it in
			type held struct {
				holder types.Object
				body   ast.Node
				after  token.Pos
			}
			var helds []held
			if holder != nil {
				helds = append(helds, held{holder, fd.Body, cl.Pos()})
			} else if _, isRet := par.(*ast.ReturnStmt); isRet {
				self := FuncObj(p.Parser, fd)
				complete := self != nil
				for _, cfd := range AllFuncs(p.Parser) {
					ast.Inspect(cfd.Body, func(m ast.Node) bool {
						call, isCall := m.(*ast.CallExpr)
						if !isCall || Callee(info, call) != self {
							return true
						}
						as, isAs := p.Parent(call).(*ast.AssignStmt)
						if !isAs || len(as.Lhs) != 1 || len(as.Rhs) != 1 {
							complete = false
							return true
						}
						if o := objOf(info, as.Lhs[0]); o != nil {
							helds = append(helds, held{o, cfd.Body, call.Pos()})
						} else {
							complete = false
						}
						return true
					})
				}
				if !complete {
					helds = nil
				}
			}
			for i := 0; i < st.NumFields(); i++ {
				f := st.Field(i)
				if set[f] || !isNodeRef(f.Type()) {
					continue
				}
				stored := len(helds) > 0
				for _, h := range helds {
					one := false
					ast.Inspect(h.body, func(m ast.Node) bool {
						if as, ok := m.(*ast.AssignStmt); ok && as.Pos() > h.after {
							for _, l := range as.Lhs {
								if sel, ok := ast.Unparen(l).(*ast.SelectorExpr); ok && selField(info, sel) == f && objOf(info, sel.X) == h.holder {
									one = true
								}
							}
						}
						return true
					})
					if !one {
						stored = false
					}
				}
				if !stored {
					k := fieldKey(lt, f)
					if _, dup := out[k]; !dup {
						out[k] = fmt.Sprintf("left unset by a literal in %s", FuncName(p.Parser, fd))
					}
				}
			}
			return true
		})
	}
	for k, v := range reviewedOptionalFields {
		if _, ok := out[k]; !ok {
			out[k] = v
		}
	}
	return out
}

// optionalForWalk: the optional fields, and (iv) the fields of a node that a production can hand back together with
// a nil error before it has stored them - a literal held in a variable, a `return v, nil` further down, and no
// store of v.F on the way that every path to that return passes. The traversal has to expect those empty too,
// whatever the consumers of the tree do about them.
func (p *Program) optionalForWalk() map[string]string {
	out := map[string]string{}
	for k, v := range p.optionalNodeFields() {
		out[k] = v
	}
	info := p.Parser.TypesInfo
	node := p.Iface(p.Parser, "Node")
	for _, fd := range AllFuncs(p.Parser) {
		if fd.Body == nil {
			continue
		}
		ast.Inspect(fd.Body, func(n ast.Node) bool {
			as, ok := n.(*ast.AssignStmt)
			if !ok || len(as.Lhs) != len(as.Rhs) {
				return true
			}
			for i, rhs := range as.Rhs {
				cl := litOf(rhs)
				if cl == nil {
					continue
				}
				lt := info.TypeOf(cl)
				st := StructOf(lt)
				holder := objOf(info, as.Lhs[i])
				if st == nil || holder == nil || !(types.Implements(types.NewPointer(lt), node) || types.Implements(lt, node)) {
					continue
				}
				set := map[*types.Var]bool{}
				positional := false
				for _, el := range cl.Elts {
					if kv, ok := el.(*ast.KeyValueExpr); ok {
						if f, _ := objOf(info, kv.Key).(*types.Var); f != nil && !isNilIdent(info, kv.Value) {
							set[f] = true
						}
					} else {
						positional = true
					}
				}
				if positional {
					continue
				}
				// the successful returns of the holder after the literal
				ast.Inspect(fd.Body, func(m ast.Node) bool {
					if _, isLit := m.(*ast.FuncLit); isLit {
						return false
					}
					ret, isRet := m.(*ast.ReturnStmt)
					if !isRet || ret.Pos() < as.End() || len(ret.Results) < 2 {
						return true
					}
					if !isNilIdent(info, ret.Results[len(ret.Results)-1]) {
						return true
					}
					gives := false
					for _, rx := range ret.Results[:len(ret.Results)-1] {
						if objOf(info, rx) == holder {
							gives = true
						}
					}
					if !gives {
						return true
					}
					for fi := 0; fi < st.NumFields(); fi++ {
						f := st.Field(fi)
						if set[f] || !types.Implements(f.Type(), node) {
							continue
						}
						if _, isSlice := f.Type().Underlying().(*types.Slice); isSlice {
							continue
						}
						k := fieldKey(lt, f)
						if _, have := out[k]; have {
							continue
						}
						if !p.storeOnEveryPath(fd, as, ret, holder, f) {
							out[k] = fmt.Sprintf("%s can return the node without it and without an error (%s)", FuncName(p.Parser, fd), p.Pos(ret.Pos()))
						}
					}
					return true
				})
			}
			return true
		})
	}
	return out
}

// storeOnEveryPath: between the statement `from` and the return `ret` every path passes a store to holder.f - a
// statement that assigns it and stands, before the return, directly in a block that encloses the return.
func (p *Program) storeOnEveryPath(fd *ast.FuncDecl, from ast.Stmt, ret *ast.ReturnStmt, holder types.Object, f *types.Var) bool {
	info := p.Info
	found := false
	ast.Inspect(fd.Body, func(m ast.Node) bool {
		as, ok := m.(*ast.AssignStmt)
		if !ok || found || as.Pos() < from.End() || as.End() > ret.Pos() {
			return !found
		}
		stores := false
		for _, l := range as.Lhs {
			if sel, ok := ast.Unparen(l).(*ast.SelectorExpr); ok && selField(info, sel) == f && objOf(info, sel.X) == holder {
				stores = true
			}
		}
		if !stores {
			return true
		}
		// the statement level of the store: the store itself, or the if/switch whose init clause it is
		var level ast.Node = as
		if par := p.Parent(as); par != nil {
			switch v := par.(type) {
			case *ast.IfStmt:
				if v.Init == ast.Stmt(as) {
					level = v
				}
			case *ast.SwitchStmt:
				if v.Init == ast.Stmt(as) {
					level = v
				}
			}
		}
		container := p.Parent(level)
		switch container.(type) {
		case *ast.BlockStmt, *ast.CaseClause:
		default:
			return true
		}
		// the container encloses the return (or the return sits inside the if whose init stored the field)
		encl := false
		if level != ast.Node(as) && ret.Pos() >= level.Pos() && ret.End() <= level.End() {
			encl = true
		}
		p.ancestors(ret, fd, func(anc, _ ast.Node) bool {
			if anc == container {
				encl = true
			}
			return true
		})
		if container == ast.Node(fd.Body) {
			encl = true
		}
		if encl {
			found = true
		}
		return !found
	})
	return found
}

// reviewedOptionalFields: fields a production leaves unset on a success path.
var reviewedOptionalFields = map[string]string{
	"ProjectColumn.X":      "reviewed: only set when the column is followed by '='",
	"RenderProperty.Value": "reviewed: kept optional, the traversal already guards it",
	"JoinOperator.Flavor":  "reviewed: only set when `kind=` is written (documented as not visited by the traversal)",
}

func ruleC11Use(p *Program, r *Run) {
	info := p.PQL.TypesInfo
	walk := FuncObj(p.Parser, p.MustFunc(p.Parser, "Walk"))
	n := 0
	for _, fd := range AllFuncs(p.PQL) {
		ast.Inspect(fd.Body, func(x ast.Node) bool {
			call, ok := x.(*ast.CallExpr)
			if !ok || Callee(info, call) != walk {
				return true
			}
			n++
			fname := FuncName(p.PQL, fd)
			r.Saw(fname)
			key := fname + " call of parser.Walk"
			// the visitor's code: a function literal (directly or through a local variable), a method value or a
			// named function of the module
			var body *ast.BlockStmt
			switch v := ast.Unparen(p.DefExpr(call.Args[1])).(type) {
			case *ast.FuncLit:
				body = v.Body
			case *ast.Ident:
				if f, isFn := info.Uses[v].(*types.Func); isFn {
					if d, _ := p.DeclOf(f); d != nil {
						body = d.Body
					}
				}
			case *ast.SelectorExpr:
				if sel := info.Selections[v]; sel != nil && sel.Kind() == types.MethodVal {
					if f, isFn := sel.Obj().(*types.Func); isFn {
						if d, _ := p.DeclOf(f); d != nil {
							body = d.Body
						}
					}
				} else if f, isFn := info.Uses[v.Sel].(*types.Func); isFn {
					if d, _ := p.DeclOf(f); d != nil {
						body = d.Body
					}
				}
			}
			if body == nil {
				r.Fail("C11/use", key, p.Pos(call.Pos()), "the visitor's code cannot be found (not a function literal, method value or named function); cannot decide that it always descends")
				return true
			}
			allTrue := true
			rets := 0
			ast.Inspect(body, func(y ast.Node) bool {
				if _, nested := y.(*ast.FuncLit); nested {
					return false
				}
				if ret, ok := y.(*ast.ReturnStmt); ok {
					rets++
					if len(ret.Results) != 1 {
						allTrue = false
					} else if v := constOf(info, ret.Results[0]); v == nil || v.String() != "true" {
						allTrue = false
					}
				}
				return true
			})
			r.Check(allTrue && rets > 0, "C11/use", key, p.Pos(call.Pos()), "visitor returns true on every path (whole subtree inspected)", "the compiler's visitor can return false: parts of a join condition would be skipped when looking for $left/$right")
			return true
		})
	}
	r.Floor("C11/use", 1)
	_ = strings.TrimSpace
	_ = n
}
