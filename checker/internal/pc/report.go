package pc

import (
	"encoding/json"
	"fmt"
	"os"
	"path/filepath"
	"sort"
	"strings"
	"time"
)

// Ob is one obligation enumerated by a rule, with its verdict.
type Ob struct {
	Rule string `json:"rule"`          // e.g. "C11/handled"
	Key  string `json:"key"`           // stable construct key (no line numbers)
	Pos  string `json:"pos"`           // file:line, for humans only
	OK   bool   `json:"ok"`            //
	How  string `json:"how,omitempty"` // discharge rule, or the violation message
	// Nontrivial marks obligations that needed a non-default discharge
	// (a guard fact, a table row, a derived class other than the default).
	Nontrivial bool `json:"nontrivial,omitempty"`
	Known      bool `json:"known,omitempty"`
}

// Run collects the obligations of one property check.
type Run struct {
	Property  string
	Tier      string
	Obs       []Ob
	Counts    map[string]int // measured instance counts per rule
	Floors    map[string]int // hand-confirmed minimum instance counts
	Notes     []string
	FuncsSeen map[string]bool
	start     time.Time
}

func NewRun(property, tier string) *Run {
	return &Run{Property: property, Tier: tier, Counts: map[string]int{}, Floors: map[string]int{}, FuncsSeen: map[string]bool{}, start: time.Now()}
}

func (r *Run) add(o Ob) {
	r.Obs = append(r.Obs, o)
	r.Counts[o.Rule]++
}

// Pass records a discharged obligation.
func (r *Run) Pass(rule, key, pos, how string) {
	r.add(Ob{Rule: rule, Key: key, Pos: pos, OK: true, How: how})
}

// PassNT records a discharged obligation that needed a non-default argument.
func (r *Run) PassNT(rule, key, pos, how string) {
	r.add(Ob{Rule: rule, Key: key, Pos: pos, OK: true, How: how, Nontrivial: true})
}

// Fail records a violated (or undischarged) obligation.
func (r *Run) Fail(rule, key, pos, msg string) {
	r.add(Ob{Rule: rule, Key: key, Pos: pos, OK: false, How: msg, Nontrivial: true})
}

// Check records pass or fail depending on cond.
func (r *Run) Check(cond bool, rule, key, pos, how, msg string) {
	if cond {
		r.PassNT(rule, key, pos, how)
	} else {
		r.Fail(rule, key, pos, msg)
	}
}

// Floor declares the vacuity guard of a rule. n is the instance count confirmed by hand on the reviewed tree;
// the rule must still match at least half of that (and at least one instance): a rule that silently stops
// matching is caught, while a refactoring that merges a few duplicated sites is not an alarm.
func (r *Run) Floor(rule string, n int) {
	f := n / 2
	if f < 1 {
		f = 1
	}
	r.Floors[rule] = f
}

func (r *Run) Note(format string, args ...any) {
	r.Notes = append(r.Notes, fmt.Sprintf(format, args...))
}

func (r *Run) Saw(fn string) { r.FuncsSeen[fn] = true }

// KnownFinding is one entry of /verif/known_findings.json.
type KnownFinding struct {
	Status   string `json:"status"` // "open" or "fixed"
	Property string `json:"property"`
	Rule     string `json:"rule"`
	Key      string `json:"key"`
	What     string `json:"what"`
	Commit   string `json:"commit,omitempty"`
	Input    string `json:"failing_input,omitempty"`
}

type KnownFile struct {
	Comment  string         `json:"comment"`
	Findings []KnownFinding `json:"findings"`
}

func LoadKnown(path string) []KnownFinding {
	b, err := os.ReadFile(path)
	if err != nil {
		if os.IsNotExist(err) {
			return nil
		}
		fatalf("read %s: %v", path, err)
	}
	var kf KnownFile
	if err := json.Unmarshal(b, &kf); err != nil {
		fatalf("parse %s: %v", path, err)
	}
	return kf.Findings
}

// Outcome is the verdict of a run after known findings and floors are applied.
type Outcome struct {
	Violations []Ob
	Known      []Ob
	KnownWhat  map[string]string
	FloorFails []string
}

func (r *Run) Outcome(known []KnownFinding) Outcome {
	out := Outcome{KnownWhat: map[string]string{}}
	open := map[string]KnownFinding{}
	for _, k := range known {
		if k.Status == "open" && k.Property == r.Property {
			open[k.Rule+"\x00"+k.Key] = k
		}
	}
	for i := range r.Obs {
		o := &r.Obs[i]
		if o.OK {
			continue
		}
		if k, ok := open[o.Rule+"\x00"+o.Key]; ok {
			o.Known = true
			out.Known = append(out.Known, *o)
			out.KnownWhat[o.Rule+"\x00"+o.Key] = k.What
			continue
		}
		out.Violations = append(out.Violations, *o)
	}
	var rules []string
	for rule := range r.Floors {
		rules = append(rules, rule)
	}
	sort.Strings(rules)
	for _, rule := range rules {
		if r.Counts[rule] < r.Floors[rule] {
			out.FloorFails = append(out.FloorFails, fmt.Sprintf("rule %s matched %d instances, floor is %d (vacuity guard)", rule, r.Counts[rule], r.Floors[rule]))
		}
	}
	return out
}

// PropertyMeta is the per-property text that goes into evidence files.
type PropertyMeta struct {
	ID          string
	Level       string // "other" or "proof"
	Explanation string
	Assumptions []string
	TrustedBase []string
	Rules       []string
}

// WriteEvidence writes /verif/evidence/<id>.json.
func (r *Run) WriteEvidence(dir string, meta PropertyMeta, out Outcome, seed int, checkerCmd string, extra map[string]any) {
	obligations := len(r.Obs)
	discharged := 0
	nontrivial := map[string]bool{}
	for _, o := range r.Obs {
		if o.OK {
			discharged++
		}
		if o.Nontrivial {
			nontrivial[o.Rule+"|"+o.Key] = true
		}
	}
	// samples: the first obligations of each rule, written out.
	var samples []any
	perRule := map[string]int{}
	for _, o := range r.Obs {
		if perRule[o.Rule] >= 3 {
			continue
		}
		perRule[o.Rule]++
		samples = append(samples, map[string]any{"rule": o.Rule, "construct": o.Key, "pos": o.Pos, "ok": o.OK, "how": o.How})
	}
	if len(samples) == 0 {
		samples = append(samples, "no obligations enumerated")
	}
	var funcs []string
	for f := range r.FuncsSeen {
		funcs = append(funcs, f)
	}
	sort.Strings(funcs)
	tb := meta.TrustedBase
	if tb == nil {
		tb = []string{"go/packages loader", "go/types type checker", "golang.org/x/tools v0.29.0 (go/ssa where used)", "the checker's own rule code under /verif/checker"}
	}
	notes := r.Notes
	if notes == nil {
		notes = []string{}
	}
	cov := map[string]any{
		"explanation":          meta.Explanation,
		"evaluations":          obligations,
		"distinct_nontrivial":  len(nontrivial),
		"rule":                 "one evaluation = one obligation (rule instance on one construct of /repo's current source) enumerated by the static rules listed in 'rules'; non-trivial = needed a guard fact, a table comparison or a derived class to discharge (distinct by rule+construct key)",
		"samples":              samples,
		"obligations":          obligations,
		"discharged":           discharged,
		"checker_cmd":          checkerCmd,
		"trusted_base":         tb,
		"rules":                meta.Rules,
		"rule_instance_counts": r.Counts,
		"rule_instance_floors": r.Floors,
		"functions_analysed":   len(funcs),
		"functions":            funcs,
		"known_findings":       len(out.Known),
		"notes":                notes,
		"exhaustive":           true,
	}
	for k, v := range extra {
		cov[k] = v
	}
	ev := map[string]any{
		"property_id": r.Property,
		"tier":        r.Tier,
		"seed":        seed,
		"level":       meta.Level,
		"coverage":    cov,
		"assumptions": meta.Assumptions,
		"wall_s":      time.Since(r.start).Seconds(),
		"violations":  len(out.Violations),
	}
	b, _ := json.MarshalIndent(ev, "", " ")
	if err := os.MkdirAll(dir, 0o755); err != nil {
		fatalf("mkdir %s: %v", dir, err)
	}
	if err := os.WriteFile(filepath.Join(dir, r.Property+".json"), append(b, '\n'), 0o644); err != nil {
		fatalf("write evidence: %v", err)
	}
}

// WriteReport writes the violation report (the replay path).
func (r *Run) WriteReport(dir string, out Outcome) string {
	if err := os.MkdirAll(dir, 0o755); err != nil {
		fatalf("mkdir %s: %v", dir, err)
	}
	path := filepath.Join(dir, fmt.Sprintf("%s-%s.json", r.Property, r.Tier))
	rep := map[string]any{
		"property":    r.Property,
		"tier":        r.Tier,
		"violations":  out.Violations,
		"floor_fails": out.FloorFails,
		"replay":      "pqlcheck explain " + path,
	}
	b, _ := json.MarshalIndent(rep, "", " ")
	if err := os.WriteFile(path, append(b, '\n'), 0o644); err != nil {
		fatalf("write report: %v", err)
	}
	return path
}

// Summary renders a human-readable table of rule counts.
func (r *Run) Summary() string {
	var rules []string
	for rule := range r.Counts {
		rules = append(rules, rule)
	}
	sort.Strings(rules)
	var sb strings.Builder
	for _, rule := range rules {
		okN := 0
		for _, o := range r.Obs {
			if o.Rule == rule && o.OK {
				okN++
			}
		}
		fmt.Fprintf(&sb, "  %-22s %3d/%-3d discharged", rule, okN, r.Counts[rule])
		if f, ok := r.Floors[rule]; ok {
			fmt.Fprintf(&sb, " (floor %d)", f)
		}
		sb.WriteString("\n")
	}
	return sb.String()
}
