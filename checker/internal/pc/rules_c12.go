package pc

import (
	"fmt"
	"go/ast"
	"go/token"
	"go/types"
	"sort"
	"strconv"
	"strings"

	"golang.org/x/tools/go/packages"
)

// ---- C12/loop: every unbounded loop has a progress witness on every back-edge path.

// cursorKind: "parser" or "scanner" for methods of those types.
func cursorOf(fn *types.Func) string {
	if fn == nil {
		return ""
	}
	r := fn.Type().(*types.Signature).Recv()
	if r == nil {
		return ""
	}
	t := r.Type()
	if p, ok := t.(*types.Pointer); ok {
		t = p.Elem()
	}
	if n, ok := t.(*types.Named); ok && n.Obj().Pkg() != nil && n.Obj().Pkg().Path() == PathParser {
		switch objName(n.Obj()) {
		case "parser", "scanner":
			return objName(n.Obj())
		}
	}
	return ""
}

type loopWorld struct {
	p       *Program
	minCons map[*types.Func]int // summarised minimum net consumption of a successful/any return (0 default)
	errKind string              // constant key of TokenError
}

type loopClient struct {
	BaseClient
	w     *loopWorld
	pkg   *packages.Package
	fd    *ast.FuncDecl
	fn    string
	loops map[ast.Stmt]int // unbounded loops of this function -> ordinal
	// summary mode: collect the net consumption at each return
	retMin     int
	retSeen    bool
	entryClass []bool // optional: the first runes the callers can enter this sub-scanner with (nil: unknown)
	firstRune  string
}

// Inline: small loop-free helpers of the cursor (accept(kind), peek(), isKeyword(...)) are interpreted in place, so
// that what they read counts on the path that read it (a helper that consumes a token only when it matches).
func (c *loopClient) Inline(e *Engine, call *ast.CallExpr, callee *types.Func, decl *ast.FuncDecl) bool {
	if callee.Pkg() == nil || callee.Pkg().Path() != PathParser || !smallBody(decl) {
		return false
	}
	switch fnName(callee) {
	case "next", "prev", "setPos", "split", "splitSemi", "endSplit":
		return false
	}
	if c.w.p.recordedFunc(callee) {
		return false // the productions and helpers of the reviewed tree are summarised
	}
	loops, calls := false, 0
	ast.Inspect(decl.Body, func(n ast.Node) bool {
		switch v := n.(type) {
		case *ast.ForStmt, *ast.RangeStmt:
			loops = true
		case *ast.CallExpr:
			if f := Callee(e.Info, v); f != nil && cursorOf(f) != "" {
				calls++
			}
		}
		return true
	})
	return !loops && calls > 0 && calls <= 4
}

func addInt(s string, d int) string {
	if s == "" || s == "?" {
		return s
	}
	n, _ := strconv.Atoi(s)
	n += d
	if n > 9 {
		n = 9
	}
	if n < -9 {
		n = -9
	}
	return strconv.Itoa(n)
}

func (c *loopClient) bump(st *State, d int) *State {
	for k, v := range st.ext {
		if strings.HasPrefix(k, "prog:") || k == "net" {
			st = st.WithExt(k, addInt(v, d))
		}
	}
	return st
}

func (c *loopClient) LoopHead(e *Engine, st *State, loop ast.Stmt) *State {
	if _, ok := c.loops[loop]; ok {
		return st.WithExt("prog:"+strconv.Itoa(int(loop.Pos())), "0")
	}
	return nil
}

func (c *loopClient) LoopBack(e *Engine, st *State, loop ast.Stmt) {
	ord, ok := c.loops[loop]
	if !ok {
		return
	}
	v := st.Ext("prog:" + strconv.Itoa(int(loop.Pos())))
	n, _ := strconv.Atoi(v)
	key := fmt.Sprintf("%s loop #%d", c.fn, ord)
	okProg := v != "" && v != "?" && n >= 1
	e.Site("C12/loop", key, loop, okProg, "W-consume/W-descend: every path around the loop reads at least one token/rune that it does not give back (the read is known to have succeeded), or replaces a tree node by one of its own children")
	if !okProg {
		e.Site("C12/loop", key, loop, false, "a path leads back to the loop head without a net successful read from the cursor and without descending into a child node: at end of input (or on a token it gives back) the loop never terminates")
	}
}

func (c *loopClient) Return(e *Engine, st *State, ret *ast.ReturnStmt) {
	if e.Lit != nil {
		return
	}
	v := st.Ext("net")
	if v == "" || v == "?" {
		c.retMin, c.retSeen = 0, true
		return
	}
	n, _ := strconv.Atoi(v)
	// a zero-consumption return that the call site's dispatch guard excludes is ignored
	if n <= 0 && c.entryClass != nil && c.firstRune != "" && !c.entryFeasible(e, st) {
		return
	}
	if !c.retSeen || n < c.retMin {
		c.retMin, c.retSeen = n, true
	}
}

// entryFeasible: is there a rune that satisfies the dispatch guard and the facts this path has about the first rune?
func (c *loopClient) entryFeasible(e *Engine, st *State) bool {
	f := st.Get(c.firstRune)
	preds := map[string]*ast.FuncDecl{}
	for _, name := range []string{"isAlpha", "isDigit", "isHexDigit"} {
		if fd := c.w.p.FuncDecl(c.w.p.Parser, name); fd != nil {
			preds[name] = fd
		}
	}
	for r := rune(0); r < runeLimit; r++ {
		// what the callers know about the character they enter with
		if int(r) < len(c.entryClass) && !c.entryClass[r] {
			continue
		}
		// path facts about the first rune
		if f != nil {
			if f.HasEq && f.Eq != strconv.Itoa(int(r)) {
				continue
			}
			if hasStr(f.Ne, strconv.Itoa(int(r))) {
				continue
			}
		}
		okAtoms := true
		for _, key := range st.Keys() {
			af := st.Get(key)
			if af == nil || !af.HasEq {
				continue
			}
			if v, known := runeAtom(c.w.p, key, c.firstRune, r); known && (af.Eq == "true") != v {
				okAtoms = false
			}
		}
		_ = preds
		if okAtoms {
			return true
		}
	}
	return false
}

// evalRuneExpr evaluates a boolean expression over one rune variable.
func evalRuneExpr(p *Program, x ast.Expr, v types.Object, r rune) (bool, bool) {
	return evalBoolExpr(p, x, map[types.Object]int64{v: int64(r)})
}

func (c *loopClient) PostCall(e *Engine, st *State, call *ast.CallExpr, callee *types.Func) *State {
	kind := cursorOf(callee)
	if kind == "" {
		return nil
	}
	switch fnName(callee) {
	case "next":
		return c.bump(st, 1)
	case "prev":
		return c.bump(st, -1)
	case "setPos":
		// setPos(start) / setPos(start + k) with start = the position saved as the function's first statement
		if k, ok := c.entryRelative(e, call.Args[0]); ok {
			for key := range st.ext {
				if key == "net" {
					st = st.WithExt(key, strconv.Itoa(k))
				} else if strings.HasPrefix(key, "prog:") {
					st = st.WithExt(key, "?")
				}
			}
			return st
		}
		// a jump forwards (to the position of something found further on, or to the end of the text) gives nothing
		// back: what was read so far still counts
		if c.forwardJump(e, st, call) {
			return nil
		}
		for k := range st.ext {
			if strings.HasPrefix(k, "prog:") || k == "net" {
				st = st.WithExt(k, "?")
			}
		}
		return st
	case "endSplit":
		return nil
	}
	if m, ok := c.w.minCons[callee]; ok && m > 0 {
		return c.bump(st, m)
	}
	return nil
}

// forwardJump: X.setPos(X.pos + n...) with every n known >= 0, or X.setPos(len(text of X)) while the position
// invariant (pos <= len(text)) holds.
func (c *loopClient) forwardJump(e *Engine, st *State, call *ast.CallExpr) bool {
	info := e.Info
	fs, ok := ast.Unparen(call.Fun).(*ast.SelectorExpr)
	if !ok || len(call.Args) != 1 {
		return false
	}
	recv := fs.X
	arg := ast.Unparen(call.Args[0])
	if lc, ok := arg.(*ast.CallExpr); ok && IsBuiltinCall(info, lc, "len") && len(lc.Args) == 1 && c.w.p.scannerTextOf(lc.Args[0], recv) {
		inv, _ := c.w.p.scannerPosInvariant()
		return inv
	}
	var terms []ast.Expr
	var flat func(x ast.Expr)
	flat = func(x ast.Expr) {
		if b, ok := ast.Unparen(x).(*ast.BinaryExpr); ok && b.Op == token.ADD {
			flat(b.X)
			flat(b.Y)
			return
		}
		terms = append(terms, ast.Unparen(x))
	}
	flat(arg)
	base := 0
	for _, t := range terms {
		if sel, ok := t.(*ast.SelectorExpr); ok && selName(sel) == "pos" && sameExpr(info, sel.X, recv) {
			base++
			continue
		}
		if v, ok := constInt(info, t); ok {
			if v < 0 {
				return false
			}
			continue
		}
		f := e.FactOf(st, t)
		if f == nil || f.Lo == nil || *f.Lo < 0 {
			return false
		}
	}
	return base == 1
}

// entryRelative: x is `start` or `start + k` where start := <cursor>.pos is the first statement of the function.
func (c *loopClient) entryRelative(e *Engine, x ast.Expr, infos ...*types.Info) (int, bool) {
	var info *types.Info
	if len(infos) > 0 {
		info = infos[0]
	} else {
		info = e.Info
	}
	k := 0
	x = ast.Unparen(x)
	if b, ok := x.(*ast.BinaryExpr); ok && b.Op == token.ADD {
		v, ok := constInt(info, b.Y)
		if !ok {
			return 0, false
		}
		k = int(v)
		x = ast.Unparen(b.X)
	}
	o := objOf(info, x)
	if o == nil || len(c.fd.Body.List) == 0 {
		return 0, false
	}
	as, ok := c.fd.Body.List[0].(*ast.AssignStmt)
	if !ok || len(as.Lhs) != 1 || objOf(info, as.Lhs[0]) != o {
		return 0, false
	}
	if f := selField(info, as.Rhs[0]); f == nil || fldName(f) != "pos" {
		return 0, false
	}
	return k, true
}

// PreAssign: `x = <field path of x's own current value>` (x a syntax-tree node) is progress by descent;
// `s = s[k:]` with k >= 1 known (s a string or slice) is progress by shrinking: the length strictly decreases and
// cannot go below zero.
func (c *loopClient) PreAssign(e *Engine, st *State, lhs, rhs []ast.Expr, _ ast.Stmt) *State {
	if len(lhs) != 1 || len(rhs) != 1 {
		return nil
	}
	if sl, ok := ast.Unparen(rhs[0]).(*ast.SliceExpr); ok && sl.High == nil && sl.Max == nil && sl.Low != nil {
		if lo := objOf(e.Info, lhs[0]); lo != nil && lo == objOf(e.Info, sl.X) {
			if v, isC := constInt(e.Info, sl.Low); isC && v >= 1 {
				return c.bump(st, 1)
			}
			if f := e.valueOf(st, sl.Low); f != nil && f.Lo != nil && *f.Lo >= 1 {
				return c.bump(st, 1)
			}
		}
	}
	o := objOf(e.Info, lhs[0])
	if o == nil || !types.Implements(o.Type(), c.w.p.Iface(c.w.p.Parser, "Node")) {
		return nil
	}
	xk := e.objKey(o)
	rk := e.CanonSt(st, rhs[0])
	if !rk.OK {
		return nil
	}
	if strings.HasPrefix(rk.Key, xk+".") || strings.HasPrefix(rk.Key, "assert("+xk+",") && strings.Contains(rk.Key, ").") {
		return c.bump(st, 1)
	}
	return nil
}

func (c *loopClient) PostAssign(e *Engine, st *State, lhs, rhs []ast.Expr, _ ast.Stmt) *State {
	// p.pos = saved: unknown progress
	for _, l := range lhs {
		if sel, ok := ast.Unparen(l).(*ast.SelectorExpr); ok && selName(sel) == "pos" {
			for k := range st.ext {
				if strings.HasPrefix(k, "prog:") || k == "net" {
					st = st.WithExt(k, "?")
				}
			}
			return st
		}
	}
	return nil
}

// SplitAssign: a read at the end of input consumes nothing.
func (c *loopClient) SplitAssign(e *Engine, st *State, lhs, rhs []ast.Expr, _ ast.Stmt) []*State {
	if len(rhs) != 1 || len(lhs) != 2 {
		return nil
	}
	call, ok := ast.Unparen(rhs[0]).(*ast.CallExpr)
	if !ok {
		return nil
	}
	callee := Callee(e.Info, call)
	if cursorOf(callee) == "" || fnName(callee) != "next" {
		return nil
	}
	first := c.firstRune == "" && cursorOf(callee) == "scanner"
	if first {
		if k := e.CanonSt(st, lhs[0]); k.OK {
			c.firstRune = k.Key
		}
	}
	var out []*State
	if id, isID := lhs[1].(*ast.Ident); isID && id.Name != "_" {
		if t := e.AssumeBool(st, id, true); t != nil {
			out = append(out, t)
		}
		if first && c.entryClass != nil {
			return out // the unique caller backs up over a rune it has just read: the first read succeeds
		}
		if f := e.AssumeBool(st, id, false); f != nil {
			out = append(out, c.bump(f, -1))
		}
		return out
	}
	if cursorOf(callee) == "parser" {
		// tok, _ := p.next(): at the end of the range the token has kind TokenError
		if sel := lhs[0]; sel != nil {
			kindSel := &ast.SelectorExpr{X: sel, Sel: ast.NewIdent("Kind")}
			_ = kindSel
			k := e.CanonSt(st, lhs[0])
			if k.OK {
				kk := keyInfo{Key: k.Key + ".Kind", Objs: k.Objs, Fields: k.Fields, Heap: k.Heap, OK: true}
				real := e.update(st, kk, func(f *Fact) { f.Ne = addSorted(f.Ne, c.w.errKind) })
				eof := e.update(st, kk, func(f *Fact) {
					if f.HasEq && f.Eq != c.w.errKind {
						f.Ne = addSorted(f.Ne, c.w.errKind)
					}
					f.HasEq, f.Eq = true, c.w.errKind
				})
				if real != nil {
					out = append(out, real)
				}
				if eof != nil {
					out = append(out, c.bump(eof, -1))
				}
				return out
			}
		}
	}
	return nil
}

// unboundedLoops enumerates the loops of fd and classifies the bounded ones.
func (p *Program) classifyLoops(pkg *packages.Package, fd *ast.FuncDecl, r *Run) map[ast.Stmt]int {
	info := pkg.TypesInfo
	fn := FuncName(pkg, fd)
	out := map[ast.Stmt]int{}
	ord := 0
	ast.Inspect(fd, func(n ast.Node) bool {
		switch l := n.(type) {
		case *ast.RangeStmt:
			ord++
			r.Pass("C12/loop", fmt.Sprintf("%s loop #%d", fn, ord), p.Pos(l.Pos()), "range loop (bounded by the length of its operand)")
		case *ast.ForStmt:
			ord++
			key := fmt.Sprintf("%s loop #%d", fn, ord)
			if bounded, how := countedLoop(info, l); bounded {
				r.Pass("C12/loop", key, p.Pos(l.Pos()), how)
				return true
			}
			if ok, how := shrinkLoop(info, l); ok {
				r.PassNT("C12/loop", key, p.Pos(l.Pos()), how)
				return true
			}
			out[l] = ord
		}
		return true
	})
	return out
}

// countedLoop: for i := a; i < len(e) (or i >= 0); i++ (i--) with no other write to i.
func countedLoop(info *types.Info, l *ast.ForStmt) (bool, string) {
	init, ok := l.Init.(*ast.AssignStmt)
	if !ok || len(init.Lhs) < 1 {
		return false, ""
	}
	cond, ok := l.Cond.(*ast.BinaryExpr)
	if !ok {
		return false, ""
	}
	// the index is one of the variables of the init statement (for i, n := 0, len(s); i < n; i++)
	i := objOf(info, cond.X)
	isInit := false
	for _, lh := range init.Lhs {
		if objOf(info, lh) == i && i != nil {
			isInit = true
		}
	}
	if !isInit {
		return false, ""
	}
	// the bound: not changed inside the loop
	bound := map[types.Object]bool{}
	ast.Inspect(cond.Y, func(n ast.Node) bool {
		if id, ok := n.(*ast.Ident); ok {
			if v, isVar := objOf(info, id).(*types.Var); isVar && !v.IsField() {
				bound[v] = true
			}
		}
		return true
	})
	post, ok := l.Post.(*ast.IncDecStmt)
	if !ok || objOf(info, post.X) != i {
		return false, ""
	}
	up := post.Tok == token.INC && (cond.Op == token.LSS || cond.Op == token.LEQ)
	down := post.Tok == token.DEC && (cond.Op == token.GTR || cond.Op == token.GEQ)
	if !up && !down {
		return false, ""
	}
	written := false
	ast.Inspect(l.Body, func(n ast.Node) bool {
		switch s := n.(type) {
		case *ast.AssignStmt:
			for _, lh := range s.Lhs {
				if o := objOf(info, lh); o == i || (o != nil && bound[o] && len(bound) > 0 && isPlainVar(o)) {
					written = true
				}
			}
		case *ast.IncDecStmt:
			if o := objOf(info, s.X); o == i || (o != nil && bound[o] && isPlainVar(o)) {
				written = true
			}
		}
		return true
	})
	if written {
		return false, ""
	}
	return true, "counted loop (index moves monotonically towards its bound, not written in the body)"
}

// shrinkLoop: `for len(s) > 0 { ... s = s[:len(s)-1] ... }` with no append to s.
func shrinkLoop(info *types.Info, l *ast.ForStmt) (bool, string) {
	if l.Init != nil || l.Post != nil || l.Cond == nil {
		return false, ""
	}
	b, ok := ast.Unparen(l.Cond).(*ast.BinaryExpr)
	if !ok || b.Op != token.GTR {
		return false, ""
	}
	c, ok := ast.Unparen(b.X).(*ast.CallExpr)
	if !ok || !IsBuiltinCall(info, c, "len") {
		return false, ""
	}
	s := objOf(info, c.Args[0])
	if z, ok := constInt(info, b.Y); !ok || z != 0 || s == nil {
		return false, ""
	}
	// first-level statements of the body: one re-slice dropping the last element; no other assignment to s
	// except inside that; (Walk pushes children: handled as worklist below)
	shrinks, grows := 0, 0
	ast.Inspect(l.Body, func(n ast.Node) bool {
		as, ok := n.(*ast.AssignStmt)
		if !ok {
			return true
		}
		for i, lh := range as.Lhs {
			if objOf(info, lh) != s || i >= len(as.Rhs) {
				continue
			}
			if sl, ok := ast.Unparen(as.Rhs[i]).(*ast.SliceExpr); ok && objOf(info, sl.X) == s && sl.Low == nil && isLenMinus1(info, sl.High, s) {
				shrinks++
			} else {
				grows++
			}
		}
		return true
	})
	if shrinks >= 1 && grows == 0 {
		// the shrink must be unconditional in the body (top level)
		for _, st := range l.Body.List {
			if as, ok := st.(*ast.AssignStmt); ok && len(as.Lhs) == 1 && objOf(info, as.Lhs[0]) == s {
				return true, "W-shrink: the loop runs while the slice is non-empty and every iteration drops its last element without appending"
			}
		}
	}
	return false, ""
}

func ruleC12Loops(p *Program, r *Run) {
	w := &loopWorld{p: p, minCons: map[*types.Func]int{}}
	if c, ok := p.Parser.Types.Scope().Lookup("TokenError").(*types.Const); ok {
		w.errKind = constKey(c.Val())
	}
	// summaries of the sub-scanners and productions: minimum net consumption over their returns
	// (a few rounds: summaries feed each other)
	type unit struct {
		pkg *packages.Package
		fd  *ast.FuncDecl
	}
	var units []unit
	for _, pkg := range p.Lib() {
		for _, fd := range AllFuncs(pkg) {
			if p.IsGenerated(pkg, fd.Pos()) {
				continue
			}
			units = append(units, unit{pkg, fd})
		}
	}
	// the characters Scan can enter each sub-scanner with (path facts at the calls, C09's class machinery), for the
	// sub-scanners that are only entered after the character was given back
	classes, backed := p.scanEntryClasses()
	for round := 0; round < 4; round++ {
		changed := false
		for _, u := range units {
			fobj := FuncObj(u.pkg, u.fd)
			if cursorOf(fobj) == "" || fnName(fobj) == "next" || fnName(fobj) == "prev" || fnName(fobj) == "setPos" {
				continue
			}
			c := &loopClient{w: w, pkg: u.pkg, fd: u.fd, fn: FuncName(u.pkg, u.fd), loops: map[ast.Stmt]int{}}
			if cursorOf(fobj) == "scanner" && backed[fnName(fobj)] && classes[fnName(fobj)] != nil {
				c.entryClass = classes[fnName(fobj)]
			}
			e := NewEngine(p, u.pkg, u.fd, c)
			e.quiet++ // summaries only
			e.Run(newState().WithExt("net", "0"))
			if c.retSeen && c.retMin != w.minCons[fobj] {
				w.minCons[fobj] = c.retMin
				changed = true
			}
		}
		if !changed {
			break
		}
	}
	var sums []string
	for f, m := range w.minCons {
		if m > 0 {
			sums = append(sums, fmt.Sprintf("%s>=%d", f.Name(), m))
		}
	}
	sort.Strings(sums)
	r.Note("cursor methods with a summarised minimum net consumption: %s", strings.Join(sums, ", "))

	for _, u := range units {
		loops := p.classifyLoops(u.pkg, u.fd, r)
		if len(loops) == 0 {
			continue
		}
		fn := FuncName(u.pkg, u.fd)
		r.Saw(fn)
		// loops with a dedicated witness
		for l, ord := range loops {
			key := fmt.Sprintf("%s loop #%d", fn, ord)
			if how, ok := reviewedLoop(p, u.pkg, u.fd, l.(*ast.ForStmt)); ok {
				r.PassNT("C12/loop", key, p.Pos(l.Pos()), how)
				delete(loops, l)
			}
		}
		if len(loops) == 0 {
			continue
		}
		c := &loopClient{w: w, pkg: u.pkg, fd: u.fd, fn: fn, loops: loops}
		e := NewEngine(p, u.pkg, u.fd, c)
		e.Run(newState().WithExt("net", "0"))
		for _, m := range e.Errs {
			r.Fail("C12/loop", fn+" engine", "-", m)
		}
		// a loop without any back edge (every path returns or breaks) never reaches LoopBack: it runs at most once
		seen := map[string]bool{}
		for _, s := range e.Sites() {
			seen[s.Key] = true
		}
		e.FlushSites(r)
		for l, ord := range loops {
			key := fmt.Sprintf("%s loop #%d", fn, ord)
			if !seen[key] {
				r.PassNT("C12/loop", key, p.Pos(l.Pos()), "no feasible path leads back to the loop head (every iteration returns or breaks)")
			}
		}
	}
	r.Floor("C12/loop", 60)
}

// reviewedLoop: witnesses other than W-consume, recognised structurally.
func reviewedLoop(p *Program, pkg *packages.Package, fd *ast.FuncDecl, l *ast.ForStmt) (string, bool) {
	info := pkg.TypesInfo
	// W-descend: paren-unwrapping loops (C01/unwrap decides the descent)
	if l.Cond == nil && l.Init == nil && len(l.Body.List) > 0 {
		if as, ok := l.Body.List[0].(*ast.AssignStmt); ok && len(as.Rhs) == 1 {
			if ta, ok := as.Rhs[0].(*ast.TypeAssertExpr); ok && ta.Type != nil && TypeStr(info.TypeOf(ta.Type)) == "*parser.ParenExpr" {
				v, bound := objOf(info, ta.X), objOf(info, as.Lhs[0])
				for _, s := range l.Body.List[1:] {
					if a, ok := s.(*ast.AssignStmt); ok && len(a.Lhs) == 1 && objOf(info, a.Lhs[0]) == v {
						if f := fieldSel(info, a.Rhs[0], bound); f != nil {
							return "W-descend: the loop variable is replaced by a field of the value it just matched (finite tree)", true
						}
					}
				}
				return "", false
			}
		}
	}
	// W-worklist: Walk (pop one, push only children of the popped node: C11/complete + C11/once)
	if fd.Name.Name == "Walk" && pkg == p.Parser {
		if b, ok := ast.Unparen(l.Cond).(*ast.BinaryExpr); ok && b.Op == token.GTR {
			return "W-worklist: one node is popped per iteration and only fields of the popped node are pushed (C11/once, C11/complete); terminates on finite trees", true
		}
	}
	// reviewed: the inner loop of exprBinaryTrail re-reads one token, gives it back and recurses;
	// progress follows from precedence2 > precedence1 >= the callee's minimum (C07/assoc checks exactly these facts)
	if declName(fd) == "exprBinaryTrail" {
		self := FuncObj(pkg, fd)
		hasSelf, inner := false, false
		ast.Inspect(l.Body, func(n ast.Node) bool {
			if call, ok := n.(*ast.CallExpr); ok && Callee(info, call) == self {
				hasSelf = true
			}
			return true
		})
		if _, isFor := p.Parent(p.Parent(l)).(*ast.ForStmt); isFor {
			inner = true
		}
		// "the callee's first token is consumed" also needs the callee to get as far as reading it: nothing may
		// return from the function before its outer loop is entered (a depth or budget check in front of the loop
		// hands control back without a token having been read, and this loop then never ends)
		outer, _ := p.Parent(p.Parent(l)).(*ast.ForStmt)
		early := false
		if outer != nil {
			ast.Inspect(fd.Body, func(n ast.Node) bool {
				if _, nested := n.(*ast.FuncLit); nested {
					return false
				}
				if ret, ok := n.(*ast.ReturnStmt); ok && ret.Pos() < outer.Pos() {
					early = true
				}
				return true
			})
		}
		if early {
			return "", false
		}
		if hasSelf && inner {
			// the arithmetic argument needs exactly the guard facts C07/assoc establishes at the recursive call
			tmp := NewRun("C07", "quick")
			ruleC07Assoc(p, tmp)
			for _, o := range tmp.Obs {
				if !o.OK && strings.Contains(o.Key, "recursive call for the right operand") {
					return "", false
				}
			}
			return "reviewed: each iteration makes a recursive call that is taken only when the next operator binds tighter than the current one, so the callee's first token passes its precedence guard and is consumed (guard facts checked by C07/assoc)", true
		}
	}
	return "", false
}

// ---- C12/cursor: the parser cursor only moves backwards by undoing its own reads.

type cursorClient struct {
	BaseClient
	InlinePredicates
	fn      string
	errKind string
	// needs: methods that cut a sub-parser out before reading anything themselves - their callers have to
	// call them with the cursor within the tokens
	needs     map[*types.Func]string
	self      *types.Func
	quietPass bool // a pass that only computes needs
}

// Inline: besides predicates, small look-ahead helpers of the parser that only read and give back tokens
// (accept(kind): `tok, _ := p.next(); if tok.Kind != kind { p.prev(); return tok, false }; return tok, true`) are
// read where they are called.
func (c *cursorClient) Inline(e *Engine, call *ast.CallExpr, callee *types.Func, decl *ast.FuncDecl) bool {
	if c.InlinePredicates.Inline(e, call, callee, decl) {
		return true
	}
	if cursorOf(callee) != "parser" || !smallBody(decl) || fnName(callee) == "next" || fnName(callee) == "prev" || isSplitter(e.P, callee) {
		return false
	}
	simple := true
	ast.Inspect(decl.Body, func(n ast.Node) bool {
		switch v := n.(type) {
		case *ast.ForStmt, *ast.RangeStmt:
			simple = false
		case *ast.CallExpr:
			if f := Callee(e.Info, v); cursorOf(f) == "parser" && fnName(f) != "next" && fnName(f) != "prev" {
				simple = false
			}
		}
		return simple
	})
	return simple
}

// SplitAssign: `tok, ok := x.next()` continues as (a token was read) or (the end of the range was reported, after
// which the cursor lies beyond the tokens).
func (c *cursorClient) SplitAssign(e *Engine, st *State, lhs, rhs []ast.Expr, _ ast.Stmt) []*State {
	if len(rhs) != 1 || len(lhs) != 2 {
		return nil
	}
	call, ok := ast.Unparen(rhs[0]).(*ast.CallExpr)
	if !ok {
		return nil
	}
	callee := Callee(e.Info, call)
	if cursorOf(callee) != "parser" || fnName(callee) != "next" {
		return nil
	}
	sel, ok := ast.Unparen(call.Fun).(*ast.SelectorExpr)
	if !ok {
		return nil
	}
	rk := e.CanonSt(st, sel.X)
	if !rk.OK {
		return nil
	}
	var out []*State
	if id, isID := lhs[1].(*ast.Ident); isID && id.Name != "_" {
		if t := e.AssumeBool(st, id, true); t != nil {
			out = append(out, t.WithExt("inrange:"+rk.Key, "1"))
		}
		if f := e.AssumeBool(st, id, false); f != nil {
			out = append(out, f.WithExt("inrange:"+rk.Key, "0"))
		}
		return out
	}
	if c.errKind == "" {
		return nil
	}
	k := e.CanonSt(st, lhs[0])
	if !k.OK {
		return nil
	}
	kk := keyInfo{Key: k.Key + ".Kind", Objs: k.Objs, Fields: k.Fields, Heap: k.Heap, OK: true}
	if real := e.update(st, kk, func(f *Fact) { f.Ne = addSorted(f.Ne, c.errKind) }); real != nil {
		out = append(out, real.WithExt("inrange:"+rk.Key, "1"))
	}
	// (an error token of the source has the same kind as the end marker: the cursor is then still in range, which
	// is the harmless direction - this branch only ever makes the rule stricter)
	if eof := e.update(st, kk, func(f *Fact) {
		if f.HasEq && f.Eq != c.errKind {
			f.Ne = addSorted(f.Ne, c.errKind)
		}
		f.HasEq, f.Eq = true, c.errKind
	}); eof != nil {
		out = append(out, eof.WithExt("inrange:"+rk.Key, "0"))
	}
	return out
}

// PostAssign: a parser that has just been made stands at the first token of its range.
func (c *cursorClient) PostAssign(e *Engine, st *State, lhs, rhs []ast.Expr, _ ast.Stmt) *State {
	if len(lhs) != len(rhs) {
		return nil
	}
	out := st
	for i, r := range rhs {
		x := ast.Unparen(r)
		if u, ok := x.(*ast.UnaryExpr); ok && u.Op == token.AND {
			x = ast.Unparen(u.X)
		}
		cl, ok := x.(*ast.CompositeLit)
		if !ok || !strings.HasSuffix(TypeStr(e.Info.TypeOf(cl)), "parser.parser") {
			continue
		}
		zero := true
		for _, el := range cl.Elts {
			kv, isKV := el.(*ast.KeyValueExpr)
			if !isKV {
				zero = false
				continue
			}
			if f, _ := objOf(e.Info, kv.Key).(*types.Var); f != nil && fldName(f) == "pos" {
				if v, isC := constInt(e.Info, kv.Value); !isC || v != 0 {
					zero = false
				}
			}
		}
		if k := e.CanonSt(out, lhs[i]); k.OK && zero {
			out = out.WithExt("inrange:"+k.Key, "1")
		}
	}
	if out != st {
		return out
	}
	return nil
}

func (c *cursorClient) PostCall(e *Engine, st *State, call *ast.CallExpr, callee *types.Func) *State {
	if cursorOf(callee) != "parser" {
		return nil
	}
	if _, inPlace := e.inlined[call]; inPlace {
		return nil // a helper read in place (accept(kind)): its own reads and give-backs are what counts
	}
	sel, ok := ast.Unparen(call.Fun).(*ast.SelectorExpr)
	if !ok {
		return nil
	}
	k := e.CanonSt(st, sel.X)
	if !k.OK {
		return nil
	}
	switch fnName(callee) {
	case "next":
		return st.WithExt("lastop:"+k.Key, "next").WithExt("inrange:"+k.Key, "")
	case "prev":
		return st.WithExt("lastop:"+k.Key, "prev")
	default:
		return st.WithExt("lastop:"+k.Key, "other").WithExt("inrange:"+k.Key, "")
	}
}

func (c *cursorClient) PreCall(e *Engine, st *State, call *ast.CallExpr, callee *types.Func) *State {
	if cursorOf(callee) == "parser" && isSplitter(e.P, callee) {
		// a sub-parser is cut out of the tokens from the cursor on: the cursor must lie within them. Once next()
		// has reported the end the cursor is one past the end, and slicing from there panics.
		sel, ok := ast.Unparen(call.Fun).(*ast.SelectorExpr)
		if !ok {
			return nil
		}
		k := e.CanonSt(st, sel.X)
		n, idx := 0, 0
		ast.Inspect(e.Func.Body, func(x ast.Node) bool {
			if cc, ok := x.(*ast.CallExpr); ok {
				if f := Callee(e.Info, cc); cursorOf(f) == "parser" && isSplitter(e.P, f) {
					n++
					if cc == call {
						idx = n
					}
				}
			}
			return true
		})
		val := ""
		if k.OK {
			val = st.Ext("inrange:" + k.Key)
		}
		in := val == "1"
		if val == "entry" {
			// nothing was read since the method was entered: the callers answer for it
			if c.needs[c.self] == "" {
				c.needs[c.self] = fmt.Sprintf("%s at %s", callee.Name(), e.P.Pos(call.Pos()))
			}
			in = true
		}
		if c.quietPass {
			return nil
		}
		key := fmt.Sprintf("%s %s() #%d starts within the tokens", c.fn, callee.Name(), idx)
		how := "the most recent cursor operation before the cut is a read that is known to have returned a token (or the parser has just been created)"
		if val == "entry" {
			how = "nothing is read between the entry of the method and the cut: every call of the method is checked to be made with the cursor within the tokens"
		}
		e.Site("C12/cursor", key, call, in, how)
		if !in {
			e.Site("C12/cursor", key, call, false, "the sub-parser is cut out on a path where the cursor is not known to lie within the tokens (no successful next() directly before, or a production ran in between that may have reached the end): after the end was reported the position is one past the tokens and the slice panics")
		}
		return nil
	}
	if cursorOf(callee) == "parser" && c.needs[callee] != "" {
		sel, ok := ast.Unparen(call.Fun).(*ast.SelectorExpr)
		if !ok {
			return nil
		}
		k := e.CanonSt(st, sel.X)
		val := ""
		if k.OK {
			val = st.Ext("inrange:" + k.Key)
		}
		in := val == "1"
		if val == "entry" {
			if c.needs[c.self] == "" {
				c.needs[c.self] = fmt.Sprintf("%s (which starts with %s) at %s", callee.Name(), c.needs[callee], e.P.Pos(call.Pos()))
			}
			in = true
		}
		if c.quietPass {
			return nil
		}
		key := fmt.Sprintf("%s calls %s with the cursor within the tokens", c.fn, callee.Name())
		e.Site("C12/cursor", key, call, in, "the method cuts a sub-parser out before it reads anything ("+c.needs[callee]+"); the call follows a read that is known to have returned a token")
		if !in {
			e.Site("C12/cursor", key, call, false, "the method cuts a sub-parser out before it reads anything ("+c.needs[callee]+") and is called on a path where the cursor is not known to lie within the tokens: after the end was reported the position is one past the tokens and the slice panics")
		}
		return nil
	}
	if cursorOf(callee) != "parser" || fnName(callee) != "prev" {
		return nil
	}
	if c.quietPass {
		return nil
	}
	sel := ast.Unparen(call.Fun).(*ast.SelectorExpr)
	k := e.CanonSt(st, sel.X)
	n := 0
	idx := 0
	ast.Inspect(e.Func.Body, func(x ast.Node) bool {
		if cc, ok := x.(*ast.CallExpr); ok {
			if f := Callee(e.Info, cc); cursorOf(f) == "parser" && fnName(f) == "prev" {
				n++
				if cc == call {
					idx = n
				}
			}
		}
		return true
	})
	ok := k.OK && st.Ext("lastop:"+k.Key) == "next"
	key := fmt.Sprintf("%s prev() #%d", c.fn, idx)
	e.Site("C12/cursor", key, call, ok, "gives back exactly the token read by the immediately preceding next() of this function")
	if !ok {
		e.Site("C12/cursor", key, call, false, "prev() without an immediately preceding next() on the same cursor in this function: the cursor could move before the production's start, so callers' progress arguments (and termination) no longer hold")
	}
	return nil
}

func ruleC12Cursor(p *Program, r *Run) {
	pkg := p.Parser
	info := pkg.TypesInfo
	errKind := ""
	if k, ok := pkg.Types.Scope().Lookup("TokenError").(*types.Const); ok {
		errKind = constKey(k.Val())
	}
	needs := map[*types.Func]string{}
	var units []*ast.FuncDecl
	for _, fd := range AllFuncs(pkg) {
		uses := false
		ast.Inspect(fd.Body, func(n ast.Node) bool {
			if call, ok := n.(*ast.CallExpr); ok {
				if f := Callee(info, call); cursorOf(f) == "parser" && fnName(f) != "next" {
					uses = true // gives a token back, cuts a sub-parser out, or calls a method that may
				}
			}
			return true
		})
		if uses {
			units = append(units, fd)
		}
	}
	runCursor := func(fd *ast.FuncDecl, quiet bool) *Engine {
		c := &cursorClient{fn: FuncName(pkg, fd), errKind: errKind, needs: needs, self: FuncObj(pkg, fd), quietPass: quiet}
		e := NewEngine(p, pkg, fd, c)
		init := newState()
		if fd.Recv != nil && len(fd.Recv.List[0].Names) == 1 && cursorOf(c.self) == "parser" {
			if k := e.Canon(fd.Recv.List[0].Names[0]); k.OK {
				init = init.WithExt("inrange:"+k.Key, "entry")
			}
		}
		e.Run(init)
		return e
	}
	// which methods rely on their callers (a few rounds: the need is handed up the call chain)
	for round := 0; round < 6; round++ {
		before := len(needs)
		for _, fd := range units {
			usesSplit := false
			ast.Inspect(fd.Body, func(n ast.Node) bool {
				if call, ok := n.(*ast.CallExpr); ok {
					if f := Callee(info, call); isSplitter(p, f) || needs[f] != "" {
						usesSplit = true
					}
				}
				return true
			})
			if usesSplit {
				runCursor(fd, true)
			}
		}
		if len(needs) == before {
			break
		}
	}
	for _, fd := range units {
		relevant := false
		ast.Inspect(fd.Body, func(n ast.Node) bool {
			if call, ok := n.(*ast.CallExpr); ok {
				if f := Callee(info, call); cursorOf(f) == "parser" && (fnName(f) == "prev" || isSplitter(p, f) || needs[f] != "") {
					relevant = true
				}
			}
			return true
		})
		if !relevant {
			continue
		}
		fn := FuncName(pkg, fd)
		r.Saw(fn)
		e := runCursor(fd, false)
		for _, m := range e.Errs {
			r.Fail("C12/cursor", fn+" engine", "-", m)
		}
		e.FlushSites(r)
	}
	// every store to parser.pos outside next/prev restores a position saved earlier in the same function
	for _, fd := range AllFuncs(pkg) {
		if fd.Recv == nil || recvTypeName(fd.Recv.List[0].Type) != "parser" || declName(fd) == "next" || declName(fd) == "prev" {
			continue
		}
		ast.Inspect(fd.Body, func(n ast.Node) bool {
			as, ok := n.(*ast.AssignStmt)
			if !ok {
				return true
			}
			for i, l := range as.Lhs {
				f := selField(info, l)
				if f == nil || fldName(f) != "pos" || !strings.HasSuffix(TypeStr(info.TypeOf(ast.Unparen(l).(*ast.SelectorExpr).X)), "parser.parser") {
					continue
				}
				fn := FuncName(pkg, fd)
				key := fmt.Sprintf("%s store to the cursor position", fn)
				saved := false
				if i < len(as.Rhs) {
					if o := objOf(info, as.Rhs[i]); o != nil {
						ast.Inspect(fd.Body, func(m ast.Node) bool {
							if d, ok := m.(*ast.AssignStmt); ok && len(d.Lhs) == 1 && len(d.Rhs) == 1 && objOf(info, d.Lhs[0]) == o && d.Pos() < as.Pos() {
								if ff := selField(info, d.Rhs[0]); ff != nil && fldName(ff) == "pos" {
									saved = true
								}
							}
							return true
						})
					}
				}
				if !saved && i < len(as.Rhs) {
					// a saved position plus something known not to be negative, or the end of the tokens: decided on
					// the path facts at the store
					pc := &posStoreClient{at: as, idx: i, fd: fd}
					pe := NewEngine(p, pkg, fd, pc)
					pe.Run(nil)
					saved = pc.seen > 0 && pc.bad == 0 && len(pe.Errs) == 0
				}
				r.Check(saved, "C12/cursor", key, p.Pos(as.Pos()), "restores a position saved earlier in the same production (never before the production's start), moves forward from it, or jumps to the end of the tokens", "the cursor position is set to a value that was not saved from the cursor in this production")
			}
			return true
		})
	}
	r.Floor("C12/cursor", 25)
}

// posStoreClient decides one store `x.pos = rhs`: rhs is `saved + n` with saved := x.pos taken earlier in the
// function and n known >= 0 on every path, or `len(x.tokens) + c` (the state after reading past the end).
type posStoreClient struct {
	BaseClient
	at        *ast.AssignStmt
	idx       int
	fd        *ast.FuncDecl
	seen, bad int
}

func (c *posStoreClient) PreAssign(e *Engine, st *State, lhs, rhs []ast.Expr, stmt ast.Stmt) *State {
	if stmt != ast.Stmt(c.at) || !e.Reporting() || c.idx >= len(rhs) {
		return nil
	}
	c.seen++
	info := e.Info
	isSaved := func(x ast.Expr) bool {
		o := objOf(info, x)
		if o == nil {
			return false
		}
		found := false
		ast.Inspect(c.fd.Body, func(m ast.Node) bool {
			if d, ok := m.(*ast.AssignStmt); ok && len(d.Lhs) == 1 && len(d.Rhs) == 1 && objOf(info, d.Lhs[0]) == o && d.Pos() < c.at.Pos() {
				if ff := selField(info, d.Rhs[0]); ff != nil && fldName(ff) == "pos" {
					found = true
				}
			}
			return true
		})
		return found && e.P.neverReassigned(o)
	}
	nonNeg := func(x ast.Expr) bool {
		if v, ok := constInt(info, x); ok {
			return v >= 0
		}
		f := e.FactOf(st, x)
		return f != nil && f.Lo != nil && *f.Lo >= 0
	}
	ok := false
	if b, isBin := ast.Unparen(rhs[c.idx]).(*ast.BinaryExpr); isBin && b.Op == token.ADD {
		switch {
		case isSaved(b.X) && nonNeg(b.Y), isSaved(b.Y) && nonNeg(b.X):
			ok = true
		default:
			// len(x.tokens) + c
			if call, isCall := ast.Unparen(b.X).(*ast.CallExpr); isCall && IsBuiltinCall(info, call, "len") && len(call.Args) == 1 {
				if f := selField(info, call.Args[0]); f != nil && fldName(f) == "tokens" {
					if v, isC := constInt(info, b.Y); isC && v >= 0 && v <= 1 {
						ok = true
					}
				}
			}
		}
	}
	if !ok {
		c.bad++
	}
	return nil
}

// ---- C12/recursion: every cycle of the call graph makes progress.

func ruleC12Recursion(p *Program, r *Run) {
	type node struct {
		pkg *packages.Package
		fd  *ast.FuncDecl
	}
	nodes := map[*types.Func]node{}
	for _, pkg := range p.Lib() {
		for _, fd := range AllFuncs(pkg) {
			nodes[FuncObj(pkg, fd)] = node{pkg, fd}
		}
	}
	sums := p.Summaries()
	nodeIface := p.Iface(p.Parser, "Node")
	type edge struct {
		to   *types.Func
		kind string // "descend", "subparser", "same", "consumed"
		pos  token.Pos
		what string
	}
	edges := map[*types.Func][]edge{}
	for fn, nd := range nodes {
		info := nd.pkg.TypesInfo
		// node-typed parameters of the caller
		params := map[types.Object]bool{}
		if nd.fd.Recv != nil {
			for _, n := range nd.fd.Recv.List[0].Names {
				params[info.Defs[n]] = true
			}
		}
		for _, f := range nd.fd.Type.Params.List {
			for _, n := range f.Names {
				params[info.Defs[n]] = true
			}
		}
		// sub-parsers: locals assigned from split()/splitSemi()
		subs := map[types.Object]bool{}
		ast.Inspect(nd.fd.Body, func(n ast.Node) bool {
			if as, ok := n.(*ast.AssignStmt); ok && len(as.Lhs) == 1 && len(as.Rhs) == 1 && isSplitCall(info, as.Rhs[0]) != nil {
				subs[objOf(info, as.Lhs[0])] = true
			}
			return true
		})
		classify := func(call *ast.CallExpr) string {
			// receiver is a sub-parser
			if sel, ok := ast.Unparen(call.Fun).(*ast.SelectorExpr); ok {
				if subs[objOf(info, sel.X)] {
					return "subparser"
				}
			}
			desc, same := false, false
			for _, a := range call.Args {
				t := info.TypeOf(a)
				if t == nil || !types.Implements(t, nodeIface) {
					continue // only syntax-tree nodes carry the recursion measure
				}
				a = ast.Unparen(a)
				switch v := a.(type) {
				case *ast.Ident:
					if params[objOf(info, v)] {
						same = true
					} else {
						// a local: bound from a field/element of a parameter (range value, type-switch clause var)?
						if localDescends(p, info, nd.fd, objOf(info, v), params) {
							desc = true
						} else {
							same = true
						}
					}
				case *ast.SelectorExpr, *ast.IndexExpr:
					desc = true
				case *ast.CallExpr:
					desc = true // e.g. col.Name.AsQualified(), buildJoinCondition(op.Conditions): built from parts
				default:
					same = true
				}
			}
			if desc && !same {
				return "descend"
			}
			return "same"
		}
		ast.Inspect(nd.fd.Body, func(n ast.Node) bool {
			call, ok := n.(*ast.CallExpr)
			if !ok {
				return true
			}
			var targets []*types.Func
			if callee := Callee(info, call); callee != nil {
				if _, in := nodes[callee]; in {
					targets = []*types.Func{callee}
				} else if o := callee.Origin(); o != nil {
					if _, in := nodes[o]; in {
						targets = []*types.Func{o}
					}
				}
			} else if fld := selField(info, call.Fun); fld != nil {
				targets = sums.CalleesOfField(fld)
			}
			for _, t := range targets {
				edges[fn] = append(edges[fn], edge{to: t, kind: classify(call), pos: call.Pos(), what: exprStr(call.Fun)})
			}
			return true
		})
	}
	// the self call of exprBinaryTrail on the same cursor happens after its own first token was consumed
	for fn, es := range edges {
		if fnName(fn) != "exprBinaryTrail" {
			continue
		}
		for i := range es {
			if es[i].to == fn && es[i].kind == "same" {
				es[i].kind = "consumed"
			}
		}
	}
	// SCCs (Tarjan)
	index := map[*types.Func]int{}
	low := map[*types.Func]int{}
	on := map[*types.Func]bool{}
	var stack []*types.Func
	var sccs [][]*types.Func
	idx := 0
	var fns []*types.Func
	for fn := range nodes {
		fns = append(fns, fn)
	}
	sort.Slice(fns, func(i, j int) bool { return fns[i].FullName() < fns[j].FullName() })
	var strong func(v *types.Func)
	strong = func(v *types.Func) {
		index[v], low[v] = idx, idx
		idx++
		stack = append(stack, v)
		on[v] = true
		for _, e := range edges[v] {
			if _, seen := index[e.to]; !seen {
				strong(e.to)
				if low[e.to] < low[v] {
					low[v] = low[e.to]
				}
			} else if on[e.to] && index[e.to] < low[v] {
				low[v] = index[e.to]
			}
		}
		if low[v] == index[v] {
			var comp []*types.Func
			for {
				w := stack[len(stack)-1]
				stack = stack[:len(stack)-1]
				on[w] = false
				comp = append(comp, w)
				if w == v {
					break
				}
			}
			sccs = append(sccs, comp)
		}
	}
	for _, fn := range fns {
		if _, seen := index[fn]; !seen {
			strong(fn)
		}
	}
	n := 0
	for _, comp := range sccs {
		in := map[*types.Func]bool{}
		for _, f := range comp {
			in[f] = true
		}
		cyclic := len(comp) > 1
		for _, e := range edges[comp[0]] {
			if e.to == comp[0] {
				cyclic = true
			}
		}
		if !cyclic {
			continue
		}
		n++
		var names []string
		for _, f := range comp {
			names = append(names, f.Name())
			nd := nodes[f]
			r.Saw(FuncName(nd.pkg, nd.fd))
		}
		sort.Strings(names)
		// the subgraph of "same" edges inside the component must be acyclic
		color := map[*types.Func]int{}
		var cyc []string
		var dfs func(v *types.Func, path []string) bool
		dfs = func(v *types.Func, path []string) bool {
			color[v] = 1
			for _, e := range edges[v] {
				if !in[e.to] || e.kind != "same" {
					continue
				}
				step := fmt.Sprintf("%s -> %s (%s at %s)", v.Name(), e.to.Name(), e.what, p.Pos(e.pos))
				if color[e.to] == 1 {
					cyc = append(append([]string{}, path...), step)
					return true
				}
				if color[e.to] == 0 && dfs(e.to, append(path, step)) {
					return true
				}
			}
			color[v] = 2
			return false
		}
		bad := false
		for _, f := range comp {
			if color[f] == 0 && dfs(f, nil) {
				bad = true
				break
			}
		}
		counts := map[string]int{}
		for _, f := range comp {
			for _, e := range edges[f] {
				if in[e.to] {
					counts[e.kind]++
				}
			}
		}
		key := "recursive component {" + strings.Join(names, ", ") + "}"
		r.Check(!bad, "C12/recursion", key, p.Pos(nodes[comp[0]].fd.Pos()), fmt.Sprintf("every cycle contains a call that descends into a child node, runs on a sub-parser over a smaller range, or follows a consumed token (edges: %v)", counts), "a cycle of calls passes the same node on the same cursor all the way round: "+strings.Join(cyc, "; ")+" - unbounded recursion")
	}
	r.Floor("C12/recursion", 3)
}

func isNodeIface(t types.Type) bool {
	n, ok := t.(*types.Named)
	if !ok || n.Obj().Pkg() == nil || n.Obj().Pkg().Path() != PathParser {
		return false
	}
	_, isI := n.Underlying().(*types.Interface)
	return isI
}

// localDescends: the local variable v is bound from a field or element of a parameter
// (range value over x.F, `y := x.F`, type-switch clause variable of a field, unwrap loops assign x = p.X).
func localDescends(p *Program, info *types.Info, fd *ast.FuncDecl, v types.Object, params map[types.Object]bool) bool {
	if v == nil {
		return false
	}
	desc := false
	ast.Inspect(fd.Body, func(n ast.Node) bool {
		switch s := n.(type) {
		case *ast.RangeStmt:
			if s.Value != nil && objOf(info, s.Value) == v {
				desc = true
			}
		case *ast.AssignStmt:
			for i, l := range s.Lhs {
				if objOf(info, l) != v || i >= len(s.Rhs) {
					continue
				}
				switch ast.Unparen(s.Rhs[i]).(type) {
				case *ast.SelectorExpr, *ast.IndexExpr:
					desc = true
				}
			}
		case *ast.CaseClause:
			if info.Implicits[s] == v {
				// clause variable of a type switch: same node as the switch tag
				if ts, ok := p.Parent(p.Parent(s)).(*ast.TypeSwitchStmt); ok {
					tag := typeSwitchOf(info, ts).Tag
					if _, isSel := ast.Unparen(tag).(*ast.SelectorExpr); isSel {
						desc = true
					}
				}
			}
		}
		return true
	})
	return desc
}

// isPlainVar: an integer variable (a bound held in a local), as opposed to a slice whose elements may be assigned.
func isPlainVar(o types.Object) bool {
	b, ok := o.Type().Underlying().(*types.Basic)
	return ok && b.Info()&types.IsInteger != 0
}

// isSplitter: a parser method that cuts a sub-parser out of the remaining tokens (returns a parser).
func isSplitter(p *Program, f *types.Func) bool {
	if f == nil || cursorOf(f) != "parser" {
		return false
	}
	res := f.Type().(*types.Signature).Results()
	if res.Len() != 1 || !strings.HasSuffix(TypeStr(res.At(0).Type()), "parser.parser") {
		return false
	}
	// it advances the cursor over what it cuts out (a constructor that only builds the sub-parser from positions
	// it is given is not one)
	w, ok := p.Summaries().Writes[f]
	if !ok && f.Origin() != nil {
		w, ok = p.Summaries().Writes[f.Origin()]
	}
	if !ok {
		return false
	}
	if w.All {
		return true
	}
	for fld := range w.Fields {
		if fldName(fld) == "pos" {
			return true
		}
	}
	return false
}
