package pc

import (
	"golang.org/x/tools/go/ssa"
	"golang.org/x/tools/go/ssa/ssautil"
)

type ssaProgram struct {
	Prog *ssa.Program
	Pkgs map[string]*ssa.Package
}

// SSA builds (once) the SSA form of the whole program.
func (p *Program) SSA() *ssaProgram {
	if p.ssa != nil {
		return p.ssa
	}
	// the SSA builder needs each package's own type information (initialisation order is per package)
	for _, pkg := range p.All {
		pkg.TypesInfo = p.origInfo[pkg]
	}
	prog, pkgs := ssautil.AllPackages(p.All, ssa.InstantiateGenerics)
	prog.Build()
	for _, pkg := range p.All {
		pkg.TypesInfo = p.Info
	}
	sp := &ssaProgram{Prog: prog, Pkgs: map[string]*ssa.Package{}}
	for i, pkg := range p.All {
		if pkgs[i] == nil {
			fatalf("no SSA package for %s", pkg.PkgPath)
		}
		sp.Pkgs[pkg.PkgPath] = pkgs[i]
	}
	p.ssa = sp
	return sp
}
