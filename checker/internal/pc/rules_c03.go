package pc

import (
	"fmt"
	"go/ast"
	"go/token"
	"go/types"
	"sort"
	"strings"
)

// ---- C03: joins.

var docJoinKinds = map[string]string{"inner": "JOIN", "innerunique": "JOIN", "leftouter": "LEFT JOIN"}

func ruleC03(p *Program, r *Run) {
	pkg := p.PQL
	info := pkg.TypesInfo
	sq := p.MustFunc(pkg, "splitQueries")
	fn := FuncName(pkg, sq)
	r.Saw(fn)
	joinCase := typeCaseOf(info, sq, "*parser.JoinOperator")
	if joinCase == nil {
		r.Fail("C03/kinds", fn+" case *parser.JoinOperator", p.Pos(sq.Pos()), "no case for join operators")
		return
	}
	// the code that handles a join: the case clause and the bodies of the helpers it was split into (functions
	// called from it, transitively, that are not among the functions recorded for the reviewed tree)
	regions := []ast.Node{joinCase}
	regionFn := map[*ast.FuncDecl]bool{sq: true}
	recorded := map[string]bool{}
	for _, a := range anchorPrints {
		recorded[a.Pkg+"|"+a.Recv+"|"+a.Name] = true
	}
	for i := 0; i < len(regions) && i < 8; i++ {
		ast.Inspect(regions[i], func(n ast.Node) bool {
			call, ok := n.(*ast.CallExpr)
			if !ok {
				return true
			}
			f := Callee(info, call)
			decl, dpkg := p.DeclOf(f)
			if decl == nil || dpkg != pkg || regionFn[decl] {
				return true
			}
			if recorded[pkg.PkgPath+"|"+recvName(f)+"|"+fnName(f)] {
				return true
			}
			regionFn[decl] = true
			regions = append(regions, decl.Body)
			return true
		})
	}
	inspectRegion := func(f func(ast.Node) bool) {
		for _, root := range regions {
			ast.Inspect(root, f)
		}
	}
	inRegion := func(n ast.Node) bool {
		for _, root := range regions {
			if n.Pos() >= root.Pos() && n.End() <= root.End() {
				return true
			}
		}
		return false
	}

	_ = inRegion

	// ---- kinds: parser table
	parserKinds, jt := p.parserJoinKinds()
	var all []string
	for k := range docJoinKinds {
		all = append(all, k)
	}
	for k := range parserKinds {
		if _, ok := docJoinKinds[k]; !ok {
			all = append(all, k)
		}
	}
	sort.Strings(all)
	for _, k := range all {
		_, doc := docJoinKinds[k]
		r.Check(doc && parserKinds[k], "C03/kinds", fmt.Sprintf("parser.joinTypes has %q", k), p.Pos(jt.Pos()), "documented join kind accepted by the parser", fmt.Sprintf("join kind %q: accepted by parser=%v, documented=%v", k, parserKinds[k], doc))
	}

	// the flavor variable: the local string of the join case that takes the operator's kind= name (X.Flavor.Name)
	var flavor types.Object
	accessorDefault := "" // the kind an accessor returns for a join without kind=
	var flavorSw ast.Node = joinCase
	inspectRegion(func(n ast.Node) bool {
		as, ok := n.(*ast.AssignStmt)
		if !ok || len(as.Lhs) != 1 || len(as.Rhs) != 1 || flavor != nil {
			return true
		}
		isKindName := func(x ast.Expr) bool {
			sel, ok := ast.Unparen(x).(*ast.SelectorExpr)
			if !ok || sel.Sel.Name != "Name" {
				return false
			}
			f := selField(info, sel.X)
			return f != nil && f.Name() == "Flavor"
		}
		if !isKindName(as.Rhs[0]) {
			// an accessor: a module function that returns X.Flavor.Name, or a constant when there is no kind=
			call, isCall := ast.Unparen(as.Rhs[0]).(*ast.CallExpr)
			if !isCall {
				return true
			}
			decl, _ := p.DeclOf(Callee(info, call))
			if decl == nil || decl.Body == nil {
				return true
			}
			names, consts := 0, map[string]bool{}
			other := false
			ast.Inspect(decl.Body, func(m ast.Node) bool {
				if _, nested := m.(*ast.FuncLit); nested {
					return false
				}
				if ret, ok := m.(*ast.ReturnStmt); ok && len(ret.Results) == 1 {
					if isKindName(ret.Results[0]) {
						names++
					} else if cs, ok := constString(info, ret.Results[0]); ok {
						consts[cs] = true
					} else {
						other = true
					}
				}
				return true
			})
			if names == 0 || other || len(consts) > 1 {
				return true
			}
			for cs := range consts {
				accessorDefault = cs
			}
		}
		if o := objOf(info, as.Lhs[0]); o != nil {
			if b, ok := o.Type().Underlying().(*types.Basic); ok && b.Kind() == types.String {
				flavor = o
			}
		}
		return true
	})
	if flavor == nil {
		r.Fail("C03/kinds", fn+" join kind dispatch", p.Pos(joinCase.Pos()), "no variable in the join case takes the operator's kind (op.Flavor.Name)")
		return
	}
	fk := p.ObjKey(flavor)
	// default kind: the constant the variable is declared with
	defKind := ""
	inspectRegion(func(n ast.Node) bool {
		switch v := n.(type) {
		case *ast.AssignStmt:
			if len(v.Lhs) == 1 && objOf(info, v.Lhs[0]) == flavor && v.Tok == token.DEFINE {
				defKind, _ = constString(info, v.Rhs[0])
			}
		case *ast.ValueSpec:
			if len(v.Names) == 1 && info.Defs[v.Names[0]] == flavor && len(v.Values) == 1 {
				defKind, _ = constString(info, v.Values[0])
			}
		}
		return true
	})
	if defKind == "" {
		defKind = accessorDefault
	}
	r.Check(defKind == "innerunique", "C03/kinds", fn+" default join kind", p.Pos(joinCase.Pos()), "a join without kind= is innerunique", fmt.Sprintf("the default join kind is %q, documented: innerunique", defKind))

	// ---- what is written for each kind (derived grammar, path facts)
	g := p.Grammar()
	kindsAt := func(o *eventOcc) (eq string, known bool) {
		key := fk
		if a := o.St.Get("val:" + fk); a != nil && a.Alias != nil {
			key = a.Alias.Key // the variable currently denotes another path (flavorName = op.Flavor.Name)
		}
		f := o.St.Get(key)
		if f != nil && f.HasEq {
			return strings.Trim(f.Eq, `"`), true
		}
		return "", false
	}
	joinWord := map[string]map[string]bool{} // kind -> join texts written
	distinctKinds := map[string]bool{}
	leftDepthOK := true
	leftDepthWhy := ""
	for _, o := range g.occs {
		if !regionFn[o.Ev.Func] {
			continue
		}
		switch o.Ev.Kind {
		case "T":
			txt := strings.TrimSpace(o.Ev.Text)
			up := strings.ToUpper(txt)
			if strings.Contains(up, "DISTINCT") {
				k, known := kindsAt(o)
				if !known {
					k = "?"
				}
				distinctKinds[k] = true
			}
			if up == "JOIN" || up == "LEFT JOIN" {
				k, known := kindsAt(o)
				if !known {
					k = "?"
				}
				if joinWord[k] == nil {
					joinWord[k] = map[string]bool{}
				}
				joinWord[k][up] = true
			}
		case "Q", "HOLE":
			// the left source sits inside the DISTINCT parentheses exactly for innerunique
			if o.Prev == -1 || (o.Prev >= 0 && strings.Contains(strings.ToUpper(g.events[o.Prev].Text), "DISTINCT")) {
				k, known := kindsAt(o)
				in := o.Depth[0] == 1
				if known && (k == "innerunique") != in {
					leftDepthOK = false
					leftDepthWhy = fmt.Sprintf("for kind %q the left source is written at parenthesis depth %d", k, o.Depth[0])
				}
			}
		}
	}
	r.Check(len(distinctKinds) == 1 && distinctKinds["innerunique"], "C03/kinds", fn+" DISTINCT only for innerunique", p.Pos(joinCase.Pos()), "SELECT DISTINCT on the left side is written exactly under flavor == \"innerunique\"", fmt.Sprintf("duplicate left rows are removed for join kinds %v; documented: only for innerunique (the default)", keysOf(distinctKinds)))
	r.Check(leftDepthOK, "C03/kinds", fn+" left source inside the DISTINCT subselect iff innerunique", p.Pos(joinCase.Pos()), "path facts: depth 1 iff innerunique", leftDepthWhy)
	for _, k := range []string{"inner", "innerunique", "leftouter"} {
		got := joinWord[k]
		ok := len(got) == 1 && got[docJoinKinds[k]]
		r.Check(ok, "C03/kinds", fmt.Sprintf("%s kind %q is written as %s", fn, k, docJoinKinds[k]), p.Pos(flavorSw.Pos()), "path facts at the JOIN keyword", fmt.Sprintf("join kind %q is written as %v, documented %s", k, keysOf(got), docJoinKinds[k]))
	}
	if got := joinWord["?"]; len(got) > 0 {
		r.Fail("C03/kinds", fn+" JOIN keyword without a known kind", p.Pos(flavorSw.Pos()), fmt.Sprintf("%v is written on a path where the join kind is not determined", keysOf(got)))
	}
	r.Floor("C03/kinds", 12)

	// ---- sides: which subqueries the join reads (path states, rules_c03b.go)
	ruleC03Sides(p, r, sq)

	// ---- rewrite of bare names and AND-ing
	ruleC03Rewrite(p, r)

	// ---- gate: the ON expression is written in join mode; plain equality only between the two sides
	we := p.MustFunc(pkg, "writeExpression")
	hjt := FuncObj(pkg, p.MustFunc(pkg, "hasJoinTerms"))
	var pairs [][2]types.Object // (left flag, right flag) per call
	for _, root := range p.regionOf(pkg, we.Body) {
		ast.Inspect(root, func(n ast.Node) bool {
			if as, ok := n.(*ast.AssignStmt); ok && len(as.Lhs) == 2 && len(as.Rhs) == 1 {
				if call, ok := as.Rhs[0].(*ast.CallExpr); ok && Callee(info, call) == hjt {
					pairs = append(pairs, [2]types.Object{objOf(info, as.Lhs[0]), objOf(info, as.Lhs[1])})
				}
			}
			return true
		})
	}
	x := g.xParamOf(we)
	eqC, _ := p.Parser.Types.Scope().Lookup("TokenEq").(*types.Const)
	bare := 0
	okGate := true
	for _, o := range g.occs {
		if o.Ev.Func != we || o.Ev.Kind != "T" || strings.TrimSpace(o.Ev.Text) != "=" || o.Depth != [3]int{} {
			continue
		}
		f := o.St.Get(p.ObjKey(x) + ".Op")
		if f == nil || !f.HasEq || eqC == nil || f.Eq != constKey(eqC.Val()) {
			continue
		}
		bare++
		anyTrue := func(idx int) bool {
			for _, pr := range pairs {
				if ff := o.St.Get(p.ObjKey(pr[idx])); ff != nil && ff.HasEq && ff.Eq == "true" {
					return true
				}
			}
			return false
		}
		if len(pairs) != 2 || !anyTrue(0) || !anyTrue(1) {
			okGate = false
		}
	}
	r.Check(bare > 0 && okGate, "C03/gate", "pql.writeExpression plain `=` in a join condition", p.Pos(we.Pos()), "the coalesce-free equality is written only when one operand mentions $left and one mentions $right (path facts on both hasJoinTerms results)", "a plain `=` (without the NULL-safe wrapper) can be written for a comparison that is not between the left and the right side")
	// the ON hole uses a context in join mode
	onOK := false
	inspectRegion(func(n ast.Node) bool {
		call, ok := n.(*ast.CallExpr)
		if !ok || len(call.Args) != 3 {
			return true
		}
		if f := Callee(info, call); f == nil || fnName(f) != "writeExpression" {
			return true
		}
		ctxObj := objOf(info, call.Args[0])
		inspectRegion(func(m ast.Node) bool {
			if as, ok := m.(*ast.AssignStmt); ok && len(as.Lhs) == 1 && objOf(info, as.Lhs[0]) == ctxObj {
				if lit := litOf(p.Constructed(as.Rhs[0])); lit != nil {
					if md := litField(info, lit, "mode"); md != nil && constName(info, p.Resolve(md)) == "joinExprMode" {
						onOK = true
					}
				}
			}
			return true
		})
		return true
	})
	r.Check(onOK, "C03/gate", fn+" ON condition written in join mode", p.Pos(joinCase.Pos()), "$left/$right resolve to the two sides only here", "the ON condition is not written with mode joinExprMode: $left/$right would be rejected or not resolved")
	r.Floor("C03/gate", 2)
}

func ruleC03Rewrite(p *Program, r *Run) {
	pkg := p.PQL
	info := pkg.TypesInfo
	rw := p.MustFunc(pkg, "rewriteSimpleJoinCondition")
	fn := FuncName(pkg, rw)
	r.Saw(fn)
	// Every path through the function either returns its argument unchanged - and then the argument is known not to
	// be a bare column name - or returns `$left.k == $right.k` built from the argument's only part, and then the
	// argument is known to be an unquoted, unqualified identifier that is not a built-in constant.
	rc := &rewriteClient{p: p, fn: fn, param: info.Defs[rw.Type.Params.List[0].Names[0]]}
	e := NewEngine(p, pkg, rw, rc)
	e.Run(nil)
	for _, m := range e.Errs {
		r.Fail("C03/rewrite", fn+" engine", "-", m)
	}
	e.FlushSites(r)
	r.Check(rc.rewrites > 0, "C03/rewrite", fn+" equality", p.Pos(rw.Pos()), "a bare column name is rewritten into a comparison on some path", "a bare column name is not rewritten into a comparison")
	r.Check(rc.unchanged > 0, "C03/rewrite", fn+" other conditions pass through", p.Pos(rw.Pos()), "some path returns the condition unchanged", "no path returns the condition unchanged")

	bj := p.MustFunc(pkg, "buildJoinCondition")
	r.Saw(FuncName(pkg, bj))
	var andLit *ast.CompositeLit
	ast.Inspect(bj.Body, func(n ast.Node) bool {
		if cl, ok := n.(*ast.CompositeLit); ok && TypeStr(info.TypeOf(cl)) == "parser.BinaryExpr" && andLit == nil {
			andLit = cl
		}
		return true
	})
	okAnd, okAll := false, false
	rwObj := FuncObj(pkg, rw)
	condsObj := info.Defs[bj.Type.Params.List[0].Names[0]]
	isRewriteOf := func(x ast.Expr, want func(arg ast.Expr) bool) bool {
		call, ok := p.Resolve(x).(*ast.CallExpr)
		return ok && Callee(info, call) == rwObj && len(call.Args) == 1 && want(p.Resolve(call.Args[0]))
	}
	if andLit != nil {
		op := litField(info, andLit, "Op")
		xv, yv := litField(info, andLit, "X"), litField(info, andLit, "Y")
		var loop *ast.RangeStmt
		p.ancestors(andLit, bj, func(anc, _ ast.Node) bool {
			if rs, ok := anc.(*ast.RangeStmt); ok && loop == nil {
				loop = rs
			}
			return true
		})
		if op != nil && constName(info, op) == "TokenAnd" && xv != nil && yv != nil && loop != nil {
			acc := objOf(info, xv)
			// the element of the current iteration: the range value, or conds[key]
			isElem := func(a ast.Expr) bool {
				if loop.Value != nil && objOf(info, a) != nil && objOf(info, a) == objOf(info, loop.Value) {
					return true
				}
				if ix, ok := a.(*ast.IndexExpr); ok && loop.Key != nil && objOf(info, ix.Index) == objOf(info, loop.Key) && sameExpr(info, ix.X, loop.X) {
					return true
				}
				return false
			}
			// acc = &BinaryExpr{X: acc, Op: and, Y: rewrite(elem)}
			if as, ok := p.Parent(p.Parent(andLit)).(*ast.AssignStmt); ok && len(as.Lhs) == 1 && acc != nil && objOf(info, as.Lhs[0]) == acc && isRewriteOf(yv, isElem) {
				okAnd = true
			}
			// every condition takes part: either conds[0] seeds the fold and the loop ranges over conds[1:], or the
			// loop ranges over all of conds and its first iteration seeds the fold with the rewritten element
			if sl, ok := ast.Unparen(loop.X).(*ast.SliceExpr); ok && sl.High == nil && objOf(info, sl.X) == condsObj {
				if lo, ok := constInt(info, sl.Low); ok && lo == 1 {
					ast.Inspect(bj.Body, func(n ast.Node) bool {
						as, ok := n.(*ast.AssignStmt)
						if !ok || as.End() > loop.Pos() || len(as.Lhs) != 1 || len(as.Rhs) != 1 || objOf(info, as.Lhs[0]) != acc {
							return true
						}
						if isRewriteOf(as.Rhs[0], func(a ast.Expr) bool {
							ix, ok := a.(*ast.IndexExpr)
							if !ok || objOf(info, ix.X) != condsObj {
								return false
							}
							v, ok := constInt(info, ix.Index)
							return ok && v == 0
						}) {
							okAll = true
						}
						return true
					})
				}
			} else if objOf(info, loop.X) == condsObj && loop.Key != nil {
				// if key == 0 { acc = rewrite(elem); continue }
				for _, st := range loop.Body.List {
					ifs, ok := st.(*ast.IfStmt)
					if !ok || ifs.Else != nil || ifs.Pos() > andLit.Pos() {
						continue
					}
					b, ok := ast.Unparen(ifs.Cond).(*ast.BinaryExpr)
					if !ok || b.Op != token.EQL || objOf(info, b.X) != objOf(info, loop.Key) {
						continue
					}
					if v, ok := constInt(info, b.Y); !ok || v != 0 {
						continue
					}
					seeded, skips := false, false
					for _, bs := range ifs.Body.List {
						if as, ok := bs.(*ast.AssignStmt); ok && len(as.Lhs) == 1 && len(as.Rhs) == 1 && objOf(info, as.Lhs[0]) == acc && isRewriteOf(as.Rhs[0], isElem) {
							seeded = true
						}
						if br, ok := bs.(*ast.BranchStmt); ok && br.Tok == token.CONTINUE && br.Label == nil {
							skips = true
						}
					}
					if seeded && skips {
						okAll = true
					}
				}
			}
			// and the accumulated value is what is returned
			if last, ok := bj.Body.List[len(bj.Body.List)-1].(*ast.ReturnStmt); !ok || len(last.Results) != 1 || objOf(info, last.Results[0]) != acc {
				okAnd = false
			}
		}
	}
	r.Check(okAnd, "C03/rewrite", FuncName(pkg, bj)+" conditions are AND-ed", p.Pos(bj.Pos()), "left fold with TokenAnd over the rewritten conditions, and the fold is what is returned", "several join conditions are not combined with `and` (left fold over all of them, each rewritten)")
	r.Check(okAll, "C03/rewrite", FuncName(pkg, bj)+" uses every condition", p.Pos(bj.Pos()), "the first condition seeds the fold, the loop covers all the others", "not every join condition takes part in the ON expression")
	r.Floor("C03/rewrite", 5)
}

// rewriteClient decides C03/rewrite on the path states of rewriteSimpleJoinCondition.
type rewriteClient struct {
	BaseClient
	InlinePure
	p         *Program
	fn        string
	param     types.Object
	rewrites  int
	unchanged int
}

func (c *rewriteClient) Return(e *Engine, st *State, ret *ast.ReturnStmt) {
	if !e.Reporting() || e.Lit != nil || ret == nil || len(ret.Results) != 1 {
		return
	}
	info := e.Info
	pk := e.objKey(c.param)
	idk := "assert(" + pk + ",*parser.QualifiedIdent)"
	get := func(k string) *Fact { return st.Get(k) }
	// what is known about the argument on this path
	isQI := false
	if f := get(pk); f != nil && len(f.TyIn) == 1 && f.TyIn[0] == "*parser.QualifiedIdent" {
		isQI = true
	}
	notQI := false
	if f := get(pk); f != nil && (hasStr(f.TyOut, "*parser.QualifiedIdent") || f.Nil == 1 || (f.TyIn != nil && !hasStr(f.TyIn, "*parser.QualifiedIdent"))) {
		notQI = true
	}
	one, notOne := false, false
	if f := get("len(" + idk + ".Parts)"); f != nil {
		one = f.HasEq && f.Eq == "1"
		notOne = hasStr(f.Ne, "1") || (f.Lo != nil && *f.Lo > 1) || (f.Hi != nil && *f.Hi < 1)
	}
	unq, quoted := false, false
	if f := get(idk + ".Parts[0].Quoted"); f != nil && f.HasEq {
		unq, quoted = f.Eq == "false", f.Eq == "true"
	}
	notBuiltin, builtin := false, false
	if f := get("G:pql.builtinIdentifiers[" + idk + ".Parts[0].Name]"); f != nil {
		notBuiltin = f.HasEq && f.Eq == `""`
		builtin = hasStr(f.Ne, `""`)
	}
	// the table may be a switch: then the name is known to be (or to differ from all of) true / false / null
	if f := get(idk + ".Parts[0].Name"); f != nil {
		if f.HasEq && (f.Eq == `"true"` || f.Eq == `"false"` || f.Eq == `"null"`) {
			builtin = true
		}
		if hasStr(f.Ne, `"true"`) && hasStr(f.Ne, `"false"`) && hasStr(f.Ne, `"null"`) {
			notBuiltin = true
		}
	}
	key := fmt.Sprintf("%s return #%d", c.fn, returnOrdinal(e.Func, ret))
	res := e.ResolveExpr(ret.Results[0])
	if objOf(info, res) == c.param {
		c.unchanged++
		// a nil identifier node, or a nil only part, is not a bare column name either
		nilID := false
		if f := get(idk); f != nil && f.Nil == 1 {
			nilID = true
		}
		if f := get(idk + ".Parts[0]"); f != nil && f.Nil == 1 {
			nilID = true
		}
		ok := notQI || nilID || notOne || quoted || builtin
		e.Site("C03/rewrite", key, ret, ok, "the condition is returned unchanged and is known not to be a bare column name here")
		if !ok {
			e.Site("C03/rewrite", key, ret, false, "the condition is returned unchanged on a path where it may be an unquoted, unqualified, non-constant identifier: `on k` would not mean $left.k == $right.k")
		}
		return
	}
	c.rewrites++
	guard := isQI && one && unq && notBuiltin
	var why []string
	if !guard {
		why = append(why, fmt.Sprintf("the result is built on a path where the condition is not known to be a bare column name (identifier=%v, one part=%v, unquoted=%v, not a built-in constant=%v): other conditions must be left unchanged", isQI, one, unq, notBuiltin))
	}
	lit := litOf(c.p.Constructed(res))
	if lit == nil || TypeStr(info.TypeOf(lit)) != "parser.BinaryExpr" {
		e.Site("C03/rewrite", key, ret, false, "the rewritten condition is not a comparison literal")
		return
	}
	if op := litField(info, lit, "Op"); op == nil || constName(info, op) != "TokenEq" {
		why = append(why, "the rewritten condition does not use ==")
	}
	side := func(field, alias string) bool {
		v := litField(info, lit, field)
		if v == nil {
			return false
		}
		ql := litOf(c.p.Constructed(v))
		if ql == nil {
			return false
		}
		parts := litField(info, ql, "Parts")
		if parts == nil {
			return false
		}
		pl, ok := ast.Unparen(c.p.Constructed(parts)).(*ast.CompositeLit)
		if !ok || len(pl.Elts) != 2 {
			return false
		}
		first := litOf(c.p.Constructed(pl.Elts[0]))
		if first == nil {
			return false
		}
		name := litField(info, first, "Name")
		if name == nil || constName(info, c.p.Resolve(name)) != alias {
			return false
		}
		if q := litField(info, first, "Quoted"); q != nil {
			if v := constOf(info, q); v == nil || v.String() != "false" {
				return false
			}
		}
		// the second part is the argument's own single part (or a copy of it that keeps name and Quoted flag)
		second := c.p.Resolve(pl.Elts[1])
		if orig := c.p.identCopyOf(second); orig != nil {
			second = c.p.Resolve(orig)
		}
		k := e.CanonSt(st, second)
		return k.OK && k.Key == idk+".Parts[0]"
	}
	if !side("X", "leftJoinTableAlias") || !side("Y", "rightJoinTableAlias") {
		why = append(why, "the rewritten comparison is not `$left.k == $right.k` with the condition's own column on both sides")
	}
	e.Site("C03/rewrite", key, ret, len(why) == 0, "bare name k becomes $left.k == $right.k (same column node on both sides), only under: identifier, one part, unquoted, not true/false/null")
	if len(why) > 0 {
		e.Site("C03/rewrite", key, ret, false, strings.Join(why, "; "))
	}
}

// parserJoinKinds: the join kinds the parser's table accepts (a map keyed by name, or a list of names).
func (p *Program) parserJoinKinds() (map[string]bool, *ast.CompositeLit) {
	jt := p.PkgVarValue(p.Parser, "joinTypes").(*ast.CompositeLit)
	parserKinds := map[string]bool{}
	for _, el := range jt.Elts {
		if kv, ok := el.(*ast.KeyValueExpr); ok {
			if s, ok := constString(p.Parser.TypesInfo, kv.Key); ok {
				parserKinds[s] = true
			}
		} else if s, ok := constString(p.Parser.TypesInfo, el); ok {
			parserKinds[s] = true // the table kept as a list of names
		}
	}
	return parserKinds, jt
}

// identCopyOf: x is a call of a module function that returns a copy of the identifier it is given - every return
// is nil or an Ident literal with Name and Quoted taken from the parameter. Returns the argument.
func (p *Program) identCopyOf(x ast.Expr) ast.Expr {
	call, ok := ast.Unparen(x).(*ast.CallExpr)
	if !ok || len(call.Args) != 1 {
		return nil
	}
	f := Callee(p.Info, call)
	decl, _ := p.DeclOf(f)
	if decl == nil || decl.Body == nil || decl.Recv != nil || len(decl.Type.Params.List) != 1 || len(decl.Type.Params.List[0].Names) != 1 {
		return nil
	}
	po := p.Info.Defs[decl.Type.Params.List[0].Names[0]]
	if po == nil || strings.TrimPrefix(TypeStr(po.Type()), "*") != "parser.Ident" || !p.neverReassigned(po) {
		return nil
	}
	good, lits := true, 0
	ast.Inspect(decl.Body, func(n ast.Node) bool {
		ret, isRet := n.(*ast.ReturnStmt)
		if !isRet {
			return true
		}
		if len(ret.Results) != 1 {
			good = false
			return true
		}
		res := ast.Unparen(ret.Results[0])
		if isNilIdent(p.Info, res) || objOf(p.Info, res) == po {
			return true
		}
		lit := litOf(res)
		if lit == nil || strings.TrimPrefix(TypeStr(p.Info.TypeOf(lit)), "*") != "parser.Ident" {
			good = false
			return true
		}
		lits++
		from := func(field string) bool {
			v := litField(p.Info, lit, field)
			sel, isSel := ast.Unparen(v).(*ast.SelectorExpr)
			return v != nil && isSel && sel.Sel.Name == field && objOf(p.Info, sel.X) == po
		}
		if !from("Name") || !from("Quoted") {
			good = false
		}
		return true
	})
	if !good || lits == 0 {
		return nil
	}
	return call.Args[0]
}
