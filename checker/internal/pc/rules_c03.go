package pc

import (
	"fmt"
	"go/ast"
	"go/token"
	"go/types"
	"sort"
	"strings"
)

// ---- C03: joins.

var docJoinKinds = map[string]string{"inner": "JOIN", "innerunique": "JOIN", "leftouter": "LEFT JOIN"}

func ruleC03(p *Program, r *Run) {
	pkg := p.PQL
	info := pkg.TypesInfo
	sq := p.MustFunc(pkg, "splitQueries")
	fn := FuncName(pkg, sq)
	r.Saw(fn)
	joinCase := typeCaseOf(info, sq, "*parser.JoinOperator")
	if joinCase == nil {
		r.Fail("C03/kinds", fn+" case *parser.JoinOperator", p.Pos(sq.Pos()), "no case for join operators")
		return
	}

	// ---- kinds: parser table
	jt := p.PkgVarValue(p.Parser, "joinTypes").(*ast.CompositeLit)
	parserKinds := map[string]bool{}
	for _, el := range jt.Elts {
		if kv, ok := el.(*ast.KeyValueExpr); ok {
			if s, ok := constString(p.Parser.TypesInfo, kv.Key); ok {
				parserKinds[s] = true
			}
		}
	}
	var all []string
	for k := range docJoinKinds {
		all = append(all, k)
	}
	for k := range parserKinds {
		if _, ok := docJoinKinds[k]; !ok {
			all = append(all, k)
		}
	}
	sort.Strings(all)
	for _, k := range all {
		_, doc := docJoinKinds[k]
		r.Check(doc && parserKinds[k], "C03/kinds", fmt.Sprintf("parser.joinTypes has %q", k), p.Pos(jt.Pos()), "documented join kind accepted by the parser", fmt.Sprintf("join kind %q: accepted by parser=%v, documented=%v", k, parserKinds[k], doc))
	}

	// the flavor variable: the string-typed switch tag in the join case
	var flavor types.Object
	var flavorSw *ast.SwitchStmt
	ast.Inspect(joinCase, func(n ast.Node) bool {
		if sw, ok := n.(*ast.SwitchStmt); ok && sw.Tag != nil && flavor == nil {
			if o := objOf(info, sw.Tag); o != nil {
				if b, ok := o.Type().Underlying().(*types.Basic); ok && b.Kind() == types.String {
					flavor, flavorSw = o, sw
				}
			}
		}
		return true
	})
	if flavor == nil {
		r.Fail("C03/kinds", fn+" join kind dispatch", p.Pos(joinCase.Pos()), "no switch over the join kind found in the join case")
		return
	}
	fk := p.ObjKey(flavor)
	// default kind
	defKind := ""
	ast.Inspect(joinCase, func(n ast.Node) bool {
		if as, ok := n.(*ast.AssignStmt); ok && len(as.Lhs) == 1 && objOf(info, as.Lhs[0]) == flavor && as.Tok == token.DEFINE {
			defKind, _ = constString(info, as.Rhs[0])
		}
		return true
	})
	r.Check(defKind == "innerunique", "C03/kinds", fn+" default join kind", p.Pos(joinCase.Pos()), "a join without kind= is innerunique", fmt.Sprintf("the default join kind is %q, documented: innerunique", defKind))
	// a non-default kind comes from op.Flavor.Name
	// dispatch cases
	swKinds := map[string]bool{}
	dfltErr := false
	for _, c := range flavorSw.Body.List {
		cc := c.(*ast.CaseClause)
		if cc.List == nil {
			for _, s := range cc.Body {
				if ret, ok := s.(*ast.ReturnStmt); ok && len(ret.Results) == 2 && !isNilIdent(info, ret.Results[1]) {
					dfltErr = true
				}
			}
			continue
		}
		for _, e := range cc.List {
			if s, ok := constString(info, e); ok {
				swKinds[s] = true
			}
		}
	}
	for k := range docJoinKinds {
		r.Check(swKinds[k], "C03/kinds", fmt.Sprintf("%s translates join kind %q", fn, k), p.Pos(flavorSw.Pos()), "has a case", fmt.Sprintf("join kind %q is accepted by the parser but the compiler has no case for it", k))
	}
	r.Check(dfltErr, "C03/kinds", fn+" unknown join kind is an error", p.Pos(flavorSw.Pos()), "default case returns an error", "an unknown join kind does not fail compilation")

	// ---- what is written for each kind (derived grammar, path facts)
	g := p.Grammar()
	kindsAt := func(o *eventOcc) (eq string, known bool) {
		key := fk
		if a := o.St.Get("val:" + fk); a != nil && a.Alias != nil {
			key = a.Alias.Key // the variable currently denotes another path (flavorName = op.Flavor.Name)
		}
		f := o.St.Get(key)
		if f != nil && f.HasEq {
			return strings.Trim(f.Eq, `"`), true
		}
		return "", false
	}
	joinWord := map[string]map[string]bool{} // kind -> join texts written
	distinctKinds := map[string]bool{}
	leftDepthOK := true
	leftDepthWhy := ""
	for _, o := range g.occs {
		if o.Ev.Func != sq {
			continue
		}
		switch o.Ev.Kind {
		case "T":
			txt := strings.TrimSpace(o.Ev.Text)
			up := strings.ToUpper(txt)
			if strings.Contains(up, "DISTINCT") {
				k, known := kindsAt(o)
				if !known {
					k = "?"
				}
				distinctKinds[k] = true
			}
			if up == "JOIN" || up == "LEFT JOIN" {
				k, known := kindsAt(o)
				if !known {
					k = "?"
				}
				if joinWord[k] == nil {
					joinWord[k] = map[string]bool{}
				}
				joinWord[k][up] = true
			}
		case "Q", "HOLE":
			// the left source sits inside the DISTINCT parentheses exactly for innerunique
			if o.Prev == -1 || (o.Prev >= 0 && strings.Contains(strings.ToUpper(g.events[o.Prev].Text), "DISTINCT")) {
				k, known := kindsAt(o)
				in := o.Depth[0] == 1
				if known && (k == "innerunique") != in {
					leftDepthOK = false
					leftDepthWhy = fmt.Sprintf("for kind %q the left source is written at parenthesis depth %d", k, o.Depth[0])
				}
			}
		}
	}
	r.Check(len(distinctKinds) == 1 && distinctKinds["innerunique"], "C03/kinds", fn+" DISTINCT only for innerunique", p.Pos(joinCase.Pos()), "SELECT DISTINCT on the left side is written exactly under flavor == \"innerunique\"", fmt.Sprintf("duplicate left rows are removed for join kinds %v; documented: only for innerunique (the default)", keysOf(distinctKinds)))
	r.Check(leftDepthOK, "C03/kinds", fn+" left source inside the DISTINCT subselect iff innerunique", p.Pos(joinCase.Pos()), "path facts: depth 1 iff innerunique", leftDepthWhy)
	for _, k := range []string{"inner", "innerunique", "leftouter"} {
		got := joinWord[k]
		ok := len(got) == 1 && got[docJoinKinds[k]]
		r.Check(ok, "C03/kinds", fmt.Sprintf("%s kind %q is written as %s", fn, k, docJoinKinds[k]), p.Pos(flavorSw.Pos()), "path facts at the JOIN keyword", fmt.Sprintf("join kind %q is written as %v, documented %s", k, keysOf(got), docJoinKinds[k]))
	}
	if got := joinWord["?"]; len(got) > 0 {
		r.Fail("C03/kinds", fn+" JOIN keyword without a known kind", p.Pos(flavorSw.Pos()), fmt.Sprintf("%v is written on a path where the join kind is not determined", keysOf(got)))
	}
	r.Floor("C03/kinds", 12)

	// ---- leftindex: the left side is the pipeline so far, the right side the result of the recursion
	var leftDef, recCall, rightDef ast.Node
	var leftVar types.Object
	self := FuncObj(pkg, sq)
	ast.Inspect(joinCase, func(n ast.Node) bool {
		as, ok := n.(*ast.AssignStmt)
		if !ok || len(as.Rhs) != 1 {
			return true
		}
		if call, ok := as.Rhs[0].(*ast.CallExpr); ok && Callee(info, call) == self {
			recCall = as
			return true
		}
		// x := len(dst) - 1
		if b, ok := ast.Unparen(as.Rhs[0]).(*ast.BinaryExpr); ok && b.Op == token.SUB && as.Tok == token.DEFINE && leftDef == nil {
			if c, ok := ast.Unparen(b.X).(*ast.CallExpr); ok && IsBuiltinCall(info, c, "len") {
				if one, ok := constInt(info, b.Y); ok && one == 1 {
					leftDef = as
					leftVar = objOf(info, as.Lhs[0])
				}
			}
		}
		// lastSubquery = dst[len(dst)-1]
		if ix, ok := ast.Unparen(as.Rhs[0]).(*ast.IndexExpr); ok && recCall != nil && rightDef == nil {
			if b, ok := ast.Unparen(ix.Index).(*ast.BinaryExpr); ok && b.Op == token.SUB {
				if c, ok := ast.Unparen(b.X).(*ast.CallExpr); ok && IsBuiltinCall(info, c, "len") && sameExpr(info, c.Args[0], ix.X) {
					rightDef = as
				}
			}
		}
		return true
	})
	okLeft := leftDef != nil && recCall != nil && leftDef.Pos() < recCall.Pos()
	if okLeft {
		// never reassigned
		ast.Inspect(joinCase, func(n ast.Node) bool {
			if as, ok := n.(*ast.AssignStmt); ok && as != leftDef {
				for _, l := range as.Lhs {
					if objOf(info, l) == leftVar {
						okLeft = false
					}
				}
			}
			return true
		})
	}
	r.Check(okLeft, "C03/sides", fn+" left side index is taken before the right-hand pipeline is compiled", p.Pos(joinCase.Pos()), "index of the last subquery so far is saved before the recursive call and not changed afterwards", "the index of the left side is not fixed before the right-hand pipeline is compiled: the join would read its left input from a subquery of the right-hand side")
	r.Check(rightDef != nil && recCall != nil && rightDef.Pos() > recCall.Pos(), "C03/sides", fn+" right side is the last subquery of the recursion", p.Pos(joinCase.Pos()), "right input = last subquery appended by compiling the parenthesised pipeline", "the right input of the join is not the last subquery produced for the parenthesised pipeline")
	// the recursion compiles op.Right into the same dst
	okRec := false
	if recCall != nil {
		call := recCall.(*ast.AssignStmt).Rhs[0].(*ast.CallExpr)
		last := call.Args[len(call.Args)-1]
		if f := selField(info, last); f != nil && f.Name() == "Right" {
			okRec = true
		}
	}
	r.Check(okRec, "C03/sides", fn+" compiles the parenthesised pipeline as a query of its own", p.Pos(joinCase.Pos()), "recursive call on op.Right", "the right-hand side is not compiled by a recursive call on op.Right")
	// which names are written on each side
	var leftQ, rightQ string
	for _, ev := range g.events {
		if ev.Func != sq || ev.Kind != "Q" {
			continue
		}
		if ev.Call.Pos() > joinCase.Pos() && ev.Call.End() < joinCase.End() {
			if leftQ == "" {
				leftQ = exprStr(ev.Arg)
			} else {
				rightQ = exprStr(ev.Arg)
			}
		}
	}
	okNames := false
	if leftVar != nil {
		okNames = strings.Contains(leftQ, "["+leftVar.Name()+"]") && rightDef != nil && strings.HasPrefix(rightQ, exprStr(rightDef.(*ast.AssignStmt).Lhs[0])+".")
	}
	r.Check(okNames, "C03/sides", fn+" names written for the two sides", p.Pos(joinCase.Pos()), fmt.Sprintf("left: %s, right: %s", leftQ, rightQ), fmt.Sprintf("the join reads %s as its left and %s as its right input; expected the saved left index and the recursion's last subquery", leftQ, rightQ))
	// which source is written for the left side is decided by comparing the saved index with the entry length of dst
	var startVar types.Object
	if len(sq.Body.List) > 0 {
		if as, ok := sq.Body.List[0].(*ast.AssignStmt); ok && len(as.Lhs) == 1 && len(as.Rhs) == 1 {
			if call, ok := as.Rhs[0].(*ast.CallExpr); ok && IsBuiltinCall(info, call, "len") && objOf(info, call.Args[0]) == info.Defs[sq.Type.Params.List[0].Names[0]] {
				startVar = objOf(info, as.Lhs[0])
			}
		}
	}
	okGuard, sawPrev, sawSource := startVar != nil && leftVar != nil, false, false
	if okGuard {
		lk, sk := p.ObjKey(leftVar), p.ObjKey(startVar)
		rel := func(o *eventOcc) (known, prevSide bool) {
			if f := o.St.Get("(" + sk + " <= " + lk + ")"); f != nil && f.HasEq {
				return true, f.Eq == "true"
			}
			if f := o.St.Get("(" + lk + " < " + sk + ")"); f != nil && f.HasEq {
				return true, f.Eq == "false"
			}
			return false, false
		}
		for _, o := range g.occs {
			if o.Ev.Func != sq || o.Ev.Call.Pos() < joinCase.Pos() || o.Ev.Call.End() > joinCase.End() {
				continue
			}
			switch {
			case o.Ev.Kind == "Q" && strings.Contains(exprStr(o.Ev.Arg), "["+leftVar.Name()+"]"):
				sawPrev = true
				if known, prev := rel(o); !known || !prev {
					okGuard = false
				}
			case o.Ev.Kind == "HOLE" && o.Ev.Callee != nil && o.Ev.Callee.Name() == "dataSourceSQL":
				sawSource = true
				if known, prev := rel(o); !known || prev {
					okGuard = false
				}
			}
		}
	}
	r.Check(okGuard && sawPrev && sawSource, "C03/sides", fn+" left side: previous subquery iff this pipeline already produced one", p.Pos(joinCase.Pos()), "path facts: the previous subquery is read exactly when saved index >= len(dst) at entry; otherwise the pipeline's own table", "the choice between `the previous subquery` and `the pipeline's table` as left input is not decided by comparing the saved index with the number of subqueries that existed when this pipeline started: a join at the start of a parenthesised right-hand pipeline would read the outer pipeline's subquery")
	r.Floor("C03/sides", 5)

	// ---- rewrite of bare names and AND-ing
	ruleC03Rewrite(p, r)

	// ---- gate: the ON expression is written in join mode; plain equality only between the two sides
	we := p.MustFunc(pkg, "writeExpression")
	hjt := FuncObj(pkg, p.MustFunc(pkg, "hasJoinTerms"))
	var pairs [][2]types.Object // (left flag, right flag) per call
	ast.Inspect(we.Body, func(n ast.Node) bool {
		if as, ok := n.(*ast.AssignStmt); ok && len(as.Lhs) == 2 && len(as.Rhs) == 1 {
			if call, ok := as.Rhs[0].(*ast.CallExpr); ok && Callee(info, call) == hjt {
				pairs = append(pairs, [2]types.Object{objOf(info, as.Lhs[0]), objOf(info, as.Lhs[1])})
			}
		}
		return true
	})
	x := g.xParamOf(we)
	eqC, _ := p.Parser.Types.Scope().Lookup("TokenEq").(*types.Const)
	bare := 0
	okGate := true
	for _, o := range g.occs {
		if o.Ev.Func != we || o.Ev.Kind != "T" || strings.TrimSpace(o.Ev.Text) != "=" || o.Depth != [3]int{} {
			continue
		}
		f := o.St.Get(p.ObjKey(x) + ".Op")
		if f == nil || !f.HasEq || eqC == nil || f.Eq != constKey(eqC.Val()) {
			continue
		}
		bare++
		anyTrue := func(idx int) bool {
			for _, pr := range pairs {
				if ff := o.St.Get(p.ObjKey(pr[idx])); ff != nil && ff.HasEq && ff.Eq == "true" {
					return true
				}
			}
			return false
		}
		if len(pairs) != 2 || !anyTrue(0) || !anyTrue(1) {
			okGate = false
		}
	}
	r.Check(bare > 0 && okGate, "C03/gate", "pql.writeExpression plain `=` in a join condition", p.Pos(we.Pos()), "the coalesce-free equality is written only when one operand mentions $left and one mentions $right (path facts on both hasJoinTerms results)", "a plain `=` (without the NULL-safe wrapper) can be written for a comparison that is not between the left and the right side")
	// the ON hole uses a context in join mode
	onOK := false
	ast.Inspect(joinCase, func(n ast.Node) bool {
		call, ok := n.(*ast.CallExpr)
		if !ok || len(call.Args) != 3 {
			return true
		}
		if f := Callee(info, call); f == nil || f.Name() != "writeExpression" {
			return true
		}
		ctxObj := objOf(info, call.Args[0])
		ast.Inspect(joinCase, func(m ast.Node) bool {
			if as, ok := m.(*ast.AssignStmt); ok && len(as.Lhs) == 1 && objOf(info, as.Lhs[0]) == ctxObj {
				if lit := litOf(as.Rhs[0]); lit != nil {
					if md := litField(info, lit, "mode"); md != nil && constName(info, md) == "joinExprMode" {
						onOK = true
					}
				}
			}
			return true
		})
		return true
	})
	r.Check(onOK, "C03/gate", fn+" ON condition written in join mode", p.Pos(joinCase.Pos()), "$left/$right resolve to the two sides only here", "the ON condition is not written with mode joinExprMode: $left/$right would be rejected or not resolved")
	r.Floor("C03/gate", 2)
}

func ruleC03Rewrite(p *Program, r *Run) {
	pkg := p.PQL
	info := pkg.TypesInfo
	rw := p.MustFunc(pkg, "rewriteSimpleJoinCondition")
	fn := FuncName(pkg, rw)
	r.Saw(fn)
	var lit *ast.CompositeLit
	ast.Inspect(rw.Body, func(n ast.Node) bool {
		if cl, ok := n.(*ast.CompositeLit); ok && TypeStr(info.TypeOf(cl)) == "parser.BinaryExpr" && lit == nil {
			lit = cl
		}
		return true
	})
	if lit == nil {
		r.Fail("C03/rewrite", fn+" equality", p.Pos(rw.Pos()), "a bare column name is not rewritten into a comparison")
		return
	}
	op := litField(info, lit, "Op")
	r.Check(op != nil && constName(info, op) == "TokenEq", "C03/rewrite", fn+" operator", p.Pos(lit.Pos()), "bare name k means $left.k == $right.k", "the rewritten condition does not use ==")
	side := func(field, alias string) (bool, ast.Expr) {
		v := litField(info, lit, field)
		if v == nil {
			return false, nil
		}
		ql := litOf(v)
		if ql == nil {
			return false, nil
		}
		parts := litField(info, ql, "Parts")
		pl, ok := ast.Unparen(parts).(*ast.CompositeLit)
		if !ok || len(pl.Elts) != 2 {
			return false, nil
		}
		first, ok := pl.Elts[0].(*ast.CompositeLit)
		if !ok {
			return false, nil
		}
		name := litField(info, first, "Name")
		if name == nil || constName(info, name) != alias {
			return false, nil
		}
		if q := litField(info, first, "Quoted"); q != nil {
			return false, nil
		}
		return true, pl.Elts[1]
	}
	okL, colL := side("X", "leftJoinTableAlias")
	okR, colR := side("Y", "rightJoinTableAlias")
	r.Check(okL && okR && colL != nil && colR != nil && sameExpr(info, colL, colR), "C03/rewrite", fn+" sides", p.Pos(lit.Pos()), "X = $left.<name>, Y = $right.<same name>", "the rewritten comparison is not `$left.k == $right.k` with the same column on both sides")
	// it applies only to an unquoted, unqualified, non-constant identifier: read the early-return guard
	guardOK := false
	ast.Inspect(rw.Body, func(n ast.Node) bool {
		ifs, ok := n.(*ast.IfStmt)
		if !ok {
			return true
		}
		ds := disjuncts(ifs.Cond)
		var seen []string
		for _, d := range ds {
			s := exprStr(d)
			switch {
			case strings.HasPrefix(s, "!"):
				seen = append(seen, "notident")
			case strings.Contains(s, "len(") && strings.Contains(s, "!= 1"):
				seen = append(seen, "qualified")
			case strings.HasSuffix(s, ".Quoted"):
				seen = append(seen, "quoted")
			case strings.Contains(s, "builtinIdentifiers"):
				seen = append(seen, "builtin")
			}
		}
		sort.Strings(seen)
		if strings.Join(seen, ",") == "builtin,notident,qualified,quoted" {
			if len(ifs.Body.List) == 1 {
				if ret, ok := ifs.Body.List[0].(*ast.ReturnStmt); ok && len(ret.Results) == 1 && objOf(info, ret.Results[0]) == info.Defs[rw.Type.Params.List[0].Names[0]] {
					guardOK = true
				}
			}
		}
		return true
	})
	r.Check(guardOK, "C03/rewrite", fn+" applies to bare column names only", p.Pos(rw.Pos()), "anything that is not an unquoted, unqualified, non-constant identifier is left unchanged", "the guard that leaves other conditions (qualified, quoted, true/false/null, non-identifiers) unchanged is missing or different")

	bj := p.MustFunc(pkg, "buildJoinCondition")
	r.Saw(FuncName(pkg, bj))
	var andLit *ast.CompositeLit
	ast.Inspect(bj.Body, func(n ast.Node) bool {
		if cl, ok := n.(*ast.CompositeLit); ok && TypeStr(info.TypeOf(cl)) == "parser.BinaryExpr" && andLit == nil {
			andLit = cl
		}
		return true
	})
	okAnd := false
	if andLit != nil {
		op := litField(info, andLit, "Op")
		xv, yv := litField(info, andLit, "X"), litField(info, andLit, "Y")
		if op != nil && constName(info, op) == "TokenAnd" && xv != nil && yv != nil {
			// x = &BinaryExpr{X: x, Op: and, Y: rewrite(y)} inside a loop over the remaining conditions
			if yc, ok := ast.Unparen(yv).(*ast.CallExpr); ok && Callee(info, yc) == FuncObj(pkg, rw) {
				if as, ok := p.Parent(p.Parent(andLit)).(*ast.AssignStmt); ok && len(as.Lhs) == 1 && objOf(info, as.Lhs[0]) == objOf(info, xv) {
					okAnd = true
				}
			}
		}
	}
	r.Check(okAnd, "C03/rewrite", FuncName(pkg, bj)+" conditions are AND-ed", p.Pos(bj.Pos()), "left fold with TokenAnd over the rewritten conditions", "several join conditions are not combined with `and` (left fold over all of them, each rewritten)")
	// every condition is used: first one seeds the fold, the loop ranges over the rest
	okAll := false
	ast.Inspect(bj.Body, func(n ast.Node) bool {
		if rs, ok := n.(*ast.RangeStmt); ok {
			if sl, ok := ast.Unparen(rs.X).(*ast.SliceExpr); ok && sl.High == nil {
				if lo, ok := constInt(info, sl.Low); ok && lo == 1 {
					okAll = true
				}
			}
		}
		return true
	})
	r.Check(okAll, "C03/rewrite", FuncName(pkg, bj)+" uses every condition", p.Pos(bj.Pos()), "conds[0] seeds the fold, the loop ranges over conds[1:]", "not every join condition takes part in the ON expression")
	r.Floor("C03/rewrite", 5)
}
