package pc

import (
	"fmt"
	"go/ast"
	"go/token"
	"go/types"
	"sort"
	"strings"

	"golang.org/x/tools/go/packages"
)

// ---- C10: source positions.

func (p *Program) spanType() types.Type { return p.Named(p.Parser, "Span") }

// astStructs: the named struct types of package parser that have a Span() method (AST nodes).
func (p *Program) spanMethods() map[*types.Named]*ast.FuncDecl {
	out := map[*types.Named]*ast.FuncDecl{}
	for _, fd := range AllFuncs(p.Parser) {
		if fd.Name.Name != "Span" || fd.Recv == nil {
			continue
		}
		name := recvTypeName(fd.Recv.List[0].Type)
		if name == "Span" {
			continue
		}
		out[p.Named(p.Parser, name)] = fd
	}
	return out
}

func ruleC10Union(p *Program, r *Run) {
	pkg := p.Parser
	info := pkg.TypesInfo
	nodeIface := p.Iface(pkg, "Node")
	spanT := p.spanType()
	methods := p.spanMethods()
	var names []*types.Named
	for n := range methods {
		names = append(names, n)
	}
	sort.Slice(names, func(i, j int) bool { return names[i].Obj().Name() < names[j].Obj().Name() })
	for _, named := range names {
		fd := methods[named]
		st, ok := named.Underlying().(*types.Struct)
		if !ok {
			continue
		}
		fn := FuncName(pkg, fd)
		r.Saw(fn)
		var recv types.Object
		if len(fd.Recv.List[0].Names) == 1 {
			recv = info.Defs[fd.Recv.List[0].Names[0]]
		}
		used := map[*types.Var]bool{}
		// fields referenced anywhere except in a bare nil test of the field itself
		ast.Inspect(fd.Body, func(n ast.Node) bool {
			if b, ok := n.(*ast.BinaryExpr); ok && (b.Op == token.EQL || b.Op == token.NEQ) {
				if _, _, isNil := nilCompare(info, b); isNil {
					return false
				}
			}
			if sel, ok := n.(*ast.SelectorExpr); ok {
				if f := fieldSel(info, sel, recv); f != nil {
					used[f] = true
				}
			}
			return true
		})
		for i := 0; i < st.NumFields(); i++ {
			f := st.Field(i)
			ft := f.Type()
			elem := ft
			if sl, ok := ft.Underlying().(*types.Slice); ok {
				elem = sl.Elem()
			}
			bearing := types.Identical(ft, spanT) || types.Implements(elem, nodeIface)
			if !bearing {
				continue
			}
			key := fmt.Sprintf("%s includes field %s", fn, f.Name())
			r.Check(used[f], "C10/union", key, p.Pos(fd.Pos()), "span-bearing field is part of the union", fmt.Sprintf("span-bearing field %s.%s is not part of the node's Span(): the node's extent would not contain that part", named.Obj().Name(), f.Name()))
		}
	}
	r.Floor("C10/union", 90)
}

// classifyResult: the idx-th result of a call of a module function, from the function's return statements.
func (sc *spanClassifier) classifyResult(call *ast.CallExpr, idx int) (string, string) {
	fn := Callee(sc.info, call)
	decl, pkg := sc.p.DeclOf(fn)
	if decl == nil || sc.depth > 3 {
		return "unknown", "result of " + exprStr(call.Fun)
	}
	sub := &spanClassifier{p: sc.p, pkg: pkg, info: sc.info, fd: decl, depth: sc.depth + 1}
	named := namedResults(decl)
	worst, hows := "token", []string{}
	merge := func(k, h string) {
		hows = append(hows, h)
		switch {
		case k == "unknown":
			worst = "unknown"
		case k == "null" && worst != "unknown":
			worst = "null"
		case k == "copy" && worst == "token":
			worst = "copy"
		}
	}
	seen := false
	bareNamed := false
	ast.Inspect(decl.Body, func(n ast.Node) bool {
		switch v := n.(type) {
		case *ast.FuncLit:
			return false
		case *ast.ReturnStmt:
			seen = true
			switch {
			case len(v.Results) == 0 && idx < len(named):
				bareNamed = true
			case idx < len(v.Results):
				merge(sub.classify(v.Results[idx]))
			default:
				merge("unknown", "a return forwarding another call")
			}
		}
		return true
	})
	if bareNamed {
		merge(sub.classify(named[idx]))
	}
	if !seen {
		return "unknown", "result of " + exprStr(call.Fun)
	}
	return worst, "result #" + fmt.Sprint(idx) + " of " + fn.Name() + " = {" + strings.Join(hows, " | ") + "}"
}

// classifyParam: a Span parameter is what the call sites pass (all of them, direct calls only).
func (sc *spanClassifier) classifyParam(idx int) (string, string, bool) {
	fn := FuncObj(sc.p.PkgOf(sc.fd.Pos()), sc.fd)
	if fn == nil || !sc.p.onlyCalledDirectly(fn) || sc.depth > 3 {
		return "", "", false
	}
	worst, hows := "token", []string{}
	n := 0
	for _, pkg := range sc.p.All {
		for _, caller := range AllFuncs(pkg) {
			ast.Inspect(caller.Body, func(x ast.Node) bool {
				call, ok := x.(*ast.CallExpr)
				if !ok || Callee(sc.info, call) != fn || idx >= len(call.Args) {
					return true
				}
				n++
				sub := &spanClassifier{p: sc.p, pkg: pkg, info: sc.info, fd: caller, depth: sc.depth + 1}
				k, h := sub.classify(call.Args[idx])
				hows = append(hows, h)
				switch {
				case k == "unknown":
					worst = "unknown"
				case k == "null" && worst != "unknown":
					worst = "null"
				case k == "copy" && worst == "token":
					worst = "copy"
				}
				return true
			})
		}
	}
	if n == 0 {
		return "", "", false
	}
	return worst, strings.Join(hows, " | "), true
}

// spanClass classifies a Span-valued expression.
type spanClassifier struct {
	p     *Program
	pkg   *packages.Package
	info  *types.Info
	fd    *ast.FuncDecl // enclosing function, for resolving local span variables
	depth int
}

func (sc *spanClassifier) isTokenSpan(e ast.Expr) bool {
	sel, ok := ast.Unparen(e).(*ast.SelectorExpr)
	if !ok || sel.Sel.Name != "Span" {
		return false
	}
	return TypeStr(sc.info.TypeOf(sel.X)) == "parser.Token"
}

func (sc *spanClassifier) calleeName(e ast.Expr) string {
	call, ok := ast.Unparen(e).(*ast.CallExpr)
	if !ok {
		return ""
	}
	if f := Callee(sc.info, call); f != nil {
		return fnName(f)
	}
	return ""
}

// classify returns a description and whether the value is token-derived (valid by construction), "null", or unknown.
func (sc *spanClassifier) classify(e ast.Expr) (kind, how string) {
	e = ast.Unparen(e)
	switch {
	case sc.isTokenSpan(e):
		return "token", "span of a token"
	case sc.calleeName(e) == "nullSpan":
		return "null", "nullSpan()"
	case sc.calleeName(e) == "indexSpan":
		call := e.(*ast.CallExpr)
		if c, ok := ast.Unparen(call.Args[0]).(*ast.CallExpr); ok && IsBuiltinCall(sc.info, c, "len") {
			if sel, ok := ast.Unparen(c.Args[0]).(*ast.SelectorExpr); ok && selName(sel) == "source" {
				return "token", "indexSpan(len(source)): end of input"
			}
		}
		return "unknown", "indexSpan of " + exprStr(call.Args[0])
	case sc.calleeName(e) == "newSpan":
		call := e.(*ast.CallExpr)
		a, okA := ast.Unparen(call.Args[0]).(*ast.SelectorExpr)
		b, okB := ast.Unparen(call.Args[1]).(*ast.SelectorExpr)
		if okA && okB && a.Sel.Name == "Start" && b.Sel.Name == "End" && sc.isTokenSpan(a.X) && sc.isTokenSpan(b.X) {
			return "token", "newSpan(tokenA.Span.Start, tokenB.Span.End)"
		}
		return "unknown", "newSpan with bounds that are not Start/End of token spans: " + exprStr(e)
	}
	// a local span variable: every definition must classify
	if id, ok := e.(*ast.Ident); ok && sc.fd != nil && sc.depth < 3 {
		if o, isVar := objOf(sc.info, id).(*types.Var); isVar && types.Identical(o.Type(), sc.p.spanType()) {
			var defs []ast.Expr
			type viaCall struct {
				call *ast.CallExpr
				idx  int
			}
			var calls []viaCall
			ast.Inspect(sc.fd.Body, func(n ast.Node) bool {
				if as, ok := n.(*ast.AssignStmt); ok {
					for i, l := range as.Lhs {
						if objOf(sc.info, l) != types.Object(o) {
							continue
						}
						if len(as.Lhs) == len(as.Rhs) {
							defs = append(defs, as.Rhs[i])
						} else if len(as.Rhs) == 1 {
							// a, sp, b := f(): the i-th result of a module function
							if call, ok := ast.Unparen(as.Rhs[0]).(*ast.CallExpr); ok {
								calls = append(calls, viaCall{call, i})
							} else {
								defs = append(defs, as.Rhs[0]) // not classifiable
							}
						}
					}
				}
				return true
			})
			// a parameter: whatever is passed at every call site; a named result: its assignments (above)
			if idx := paramIndex(sc.info, sc.fd, o); idx >= 0 && len(defs) == 0 && len(calls) == 0 {
				if k, h, ok := sc.classifyParam(idx); ok {
					return k, "parameter " + id.Name + " = {" + h + "}"
				}
			}
			if len(defs) > 0 || len(calls) > 0 {
				worst, hows := "token", []string{}
				sc.depth++
				merge := func(k, h string) {
					hows = append(hows, h)
					switch {
					case k == "unknown":
						worst = "unknown"
					case k == "null" && worst != "unknown":
						worst = "null"
					case k == "copy" && worst == "token":
						worst = "copy"
					}
				}
				for _, vc := range calls {
					merge(sc.classifyResult(vc.call, vc.idx))
				}
				for _, d := range defs {
					k, h := sc.classify(d)
					merge(k, h)
				}
				sc.depth--
				return worst, "local variable " + id.Name + " = {" + strings.Join(hows, " | ") + "}"
			}
		}
	}
	// copy of a span field of a node, or a node's Span()
	if sel, ok := e.(*ast.SelectorExpr); ok {
		if f := selField(sc.info, sel); f != nil && types.Identical(f.Type(), sc.p.spanType()) && isModuleType(sc.info.TypeOf(sel.X)) {
			return "copy", "copy of the recorded span " + exprStr(e)
		}
	}
	if call, ok := e.(*ast.CallExpr); ok {
		if f := Callee(sc.info, call); f != nil && f.Name() == "Span" && f.Type().(*types.Signature).Recv() != nil {
			return "copy", "Span() of a node"
		}
	}
	if cl, ok := e.(*ast.CompositeLit); ok && types.Identical(sc.info.TypeOf(cl), sc.p.spanType()) {
		// Span{Start: a.End, End: b.Start} between two recorded spans
		okAll := len(cl.Elts) == 2
		for _, el := range cl.Elts {
			kv, isKV := el.(*ast.KeyValueExpr)
			if !isKV {
				okAll = false
				continue
			}
			sel, isSel := ast.Unparen(kv.Value).(*ast.SelectorExpr)
			if !isSel || (sel.Sel.Name != "Start" && sel.Sel.Name != "End") {
				okAll = false
				continue
			}
			if k, _ := sc.classify(sel.X); k == "unknown" {
				okAll = false
			}
		}
		if okAll {
			return "copy", "span between two recorded spans"
		}
	}
	return "unknown", "span expression " + exprStr(e) + " is not a token span, nullSpan(), a union of token bounds or a copy of a recorded span"
}

func ruleC10Recorded(p *Program, r *Run) {
	spanT := p.spanType()
	methods := p.spanMethods()
	isNodeStruct := func(t types.Type) bool {
		if pt, ok := t.(*types.Pointer); ok {
			t = pt.Elem()
		}
		n, ok := t.(*types.Named)
		if !ok {
			return false
		}
		_, has := methods[n]
		return has
	}
	for _, pkg := range p.Lib() {
		info := pkg.TypesInfo
		sc := &spanClassifier{p: p, pkg: pkg, info: info}
		for _, fd := range AllFuncs(pkg) {
			fn := FuncName(pkg, fd)
			n := 0
			sc.fd = fd
			record := func(target string, val ast.Expr, pos token.Pos) {
				n++
				r.Saw(fn)
				kind, how := sc.classify(val)
				key := fmt.Sprintf("%s span #%d recorded into %s", fn, n, target)
				r.Check(kind != "unknown", "C10/recorded", key, p.Pos(pos), how, how+": a recorded position would not start and end on token boundaries")
			}
			ast.Inspect(fd.Body, func(x ast.Node) bool {
				switch v := x.(type) {
				case *ast.CompositeLit:
					t := info.TypeOf(v)
					if !isNodeStruct(t) {
						return true
					}
					for _, el := range v.Elts {
						kv, ok := el.(*ast.KeyValueExpr)
						if !ok {
							continue
						}
						id, ok := kv.Key.(*ast.Ident)
						if !ok {
							continue
						}
						f, _ := info.Uses[id].(*types.Var)
						if f == nil || !types.Identical(f.Type(), spanT) {
							continue
						}
						record(fieldKey(t, f), kv.Value, kv.Pos())
					}
				case *ast.AssignStmt:
					for i, l := range v.Lhs {
						sel, ok := ast.Unparen(l).(*ast.SelectorExpr)
						if !ok || i >= len(v.Rhs) {
							continue
						}
						f := selField(info, sel)
						if f == nil || !types.Identical(f.Type(), spanT) || !isNodeStruct(info.TypeOf(sel.X)) {
							continue
						}
						record(fieldKey(info.TypeOf(sel.X), f), v.Rhs[i], v.Pos())
					}
				}
				return true
			})
		}
	}
	r.Floor("C10/recorded", 80)
	ruleC10Initialised(p, r, isNodeStruct)
}

// ruleC10Initialised: a Span field that a production leaves out of the node literal is the zero span [0,0), which
// IsValid() accepts as a real position at the start of the source. Every Span field must be given in the literal
// (a token span or nullSpan()) or be assigned in the same production.
func ruleC10Initialised(p *Program, r *Run, isNodeStruct func(types.Type) bool) {
	pkg := p.Parser
	info := pkg.TypesInfo
	spanT := p.spanType()
	for _, fd := range AllFuncs(pkg) {
		if p.isLexerFunc(fd) || p.IsGenerated(pkg, fd.Pos()) {
			continue // the parser proper: everything in the package that is not part of the lexer
		}
		fn := FuncName(pkg, fd)
		n := 0
		ast.Inspect(fd.Body, func(x ast.Node) bool {
			cl, ok := x.(*ast.CompositeLit)
			if !ok || !isNodeStruct(info.TypeOf(cl)) {
				return true
			}
			st := StructOf(info.TypeOf(cl))
			given := map[string]bool{}
			for _, el := range cl.Elts {
				if kv, ok := el.(*ast.KeyValueExpr); ok {
					if id, ok := kv.Key.(*ast.Ident); ok {
						given[id.Name] = true
					}
				}
			}
			// the variable the literal is bound to
			var bound types.Object
			par := p.Parent(cl)
			if u, ok := par.(*ast.UnaryExpr); ok {
				par = p.Parent(u)
			}
			if as, ok := par.(*ast.AssignStmt); ok && len(as.Lhs) == 1 {
				bound = objOf(info, as.Lhs[0])
			}
			n++
			var missing, late []string
			for i := 0; i < st.NumFields(); i++ {
				f := st.Field(i)
				if !types.Identical(f.Type(), spanT) || given[f.Name()] {
					continue
				}
				assigned := false
				if bound != nil {
					ast.Inspect(fd.Body, func(y ast.Node) bool {
						if as, ok := y.(*ast.AssignStmt); ok {
							for _, l := range as.Lhs {
								if fieldSel(info, l, bound) == f {
									assigned = true
								}
							}
						}
						return true
					})
				}
				if !assigned {
					missing = append(missing, f.Name())
					continue
				}
				// assigned somewhere is not enough: every return that hands the node back as a success (`return v, nil`) is
				// reached only past a store of the field (after a failed parse [0,0) still lies inside the source)
				if bas, isAs := par.(*ast.AssignStmt); isAs {
					ast.Inspect(fd.Body, func(y ast.Node) bool {
						if _, isLit := y.(*ast.FuncLit); isLit {
							return false
						}
						ret, isRet := y.(*ast.ReturnStmt)
						if !isRet || ret.Pos() < bas.End() || len(ret.Results) < 2 || !isNilIdent(info, ret.Results[len(ret.Results)-1]) {
							return true // (judged for returns that report success: `return node, nil`)
						}
						gives := false
						for _, rx := range ret.Results {
							if objOf(info, rx) == bound {
								gives = true
							}
						}
						if gives && !p.storeOnEveryPath(fd, bas, ret, bound, f) {
							late = append(late, fmt.Sprintf("%s (return at %s)", f.Name(), p.Pos(ret.Pos())))
						}
						return true
					})
				}
			}
			if len(late) > 0 && len(missing) == 0 {
				key := fmt.Sprintf("%s %s literal #%d: span fields initialised before every return", fn, TypeStr(info.TypeOf(cl)), n)
				r.Check(false, "C10/initialised", key, p.Pos(cl.Pos()), "", fmt.Sprintf("span field(s) %v are left out of the literal and assigned only further down: a return of the node before that assignment hands back [0,0) for them, which counts as a valid position at the start of the source, so the node's extent reaches back to offset 0", late))
			}
			key := fmt.Sprintf("%s %s literal #%d: every span field initialised", fn, TypeStr(info.TypeOf(cl)), n)
			r.Check(len(missing) == 0, "C10/initialised", key, p.Pos(cl.Pos()), "each Span field is set in the literal (token span or nullSpan()) or assigned in this production", fmt.Sprintf("span field(s) %v are neither set in the literal nor assigned in this production: they stay [0,0), which counts as a valid position at the start of the source, so the node's extent reaches back to offset 0", missing))
			return true
		})
	}
	r.Floor("C10/initialised", 25)
}

func ruleC10Errors(p *Program, r *Run) {
	// parseError literals: span never null (Error() slices source[:span.Start] unguarded)
	pkg := p.Parser
	info := pkg.TypesInfo
	sc := &spanClassifier{p: p, pkg: pkg, info: info}
	peT := p.Named(pkg, "parseError")
	n := 0
	for _, fd := range AllFuncs(pkg) {
		fn := FuncName(pkg, fd)
		sc.fd = fd
		ast.Inspect(fd.Body, func(x ast.Node) bool {
			cl, ok := x.(*ast.CompositeLit)
			if !ok || !types.Identical(info.TypeOf(cl), peT) {
				return true
			}
			n++
			r.Saw(fn)
			key := fmt.Sprintf("%s parseError #%d", fn, n)
			sp := litField(info, cl, "span")
			if sp == nil {
				r.Fail("C10/errors", key, p.Pos(cl.Pos()), "parseError without a span: the zero span would put every such error at 1:1")
				return true
			}
			kind, how := sc.classify(sp)
			// the span of another parseError is a token span by this very rule (induction over the construction sites)
			if sel, ok := ast.Unparen(p.Resolve(sp)).(*ast.SelectorExpr); ok && kind != "token" {
				if f := selField(info, sel); f != nil && fldName(f) == "span" {
					if t := info.TypeOf(sel.X); t != nil && (TypeStr(t) == "*parser.parseError" || TypeStr(t) == "parser.parseError") {
						kind, how = "token", "span copied from another parseError (token span by this rule)"
					}
				}
			}
			r.Check(kind == "token", "C10/errors", key, p.Pos(cl.Pos()), how, fmt.Sprintf("a parse error is positioned with %s; (*parseError).Error slices source[:span.Start] without a validity check, so only token spans (or end of input) are safe", how))
			return true
		})
	}
	r.Floor("C10/errors", 30)

	// Error methods that slice by a span must be guarded by IsValid unless their spans are token-only (parseError).
	for _, pk := range p.Lib() {
		for _, fd := range AllFuncs(pk) {
			if fd.Name.Name != "Error" || fd.Recv == nil {
				continue
			}
			recvName := recvTypeName(fd.Recv.List[0].Type)
			usesSpan := false
			ast.Inspect(fd.Body, func(x ast.Node) bool {
				if sel, ok := x.(*ast.SelectorExpr); ok && sel.Sel.Name == "Start" {
					usesSpan = true
				}
				return true
			})
			if !usesSpan {
				continue
			}
			fn := FuncName(pk, fd)
			r.Saw(fn)
			if recvName == "parseError" {
				r.Pass("C10/errors", fn+" uses the span unguarded", p.Pos(fd.Pos()), "every parseError construction site records a token span (checked above)")
				continue
			}
			// every use of the span's offsets happens on a path where span.IsValid() is known to hold
			gc := &spanGuardClient{}
			eng := NewEngine(p, pk, fd, gc)
			eng.Run(nil)
			guarded := gc.uses > 0 && gc.unguarded == 0 && len(eng.Errs) == 0
			r.Check(guarded, "C10/errors", fn+" guards the span with IsValid()", p.Pos(fd.Pos()), "invalid spans are not used for line/column computation", "an error type whose span may be invalid (-1) computes line:column from it without an IsValid() guard: source[:-1] panics")
		}
	}
}

// C10/slices: slicing the source text by span fields.
func ruleC10Slices(p *Program, r *Run) {
	n := 0
	for _, pkg := range p.Lib() {
		info := pkg.TypesInfo
		for _, fd := range AllFuncs(pkg) {
			fn := FuncName(pkg, fd)
			ast.Inspect(fd.Body, func(x ast.Node) bool {
				sl, ok := x.(*ast.SliceExpr)
				if !ok {
					return true
				}
				mentionsSpan := func(e ast.Expr) *ast.SelectorExpr {
					sel, ok := ast.Unparen(e).(*ast.SelectorExpr)
					if !ok || (sel.Sel.Name != "Start" && sel.Sel.Name != "End") {
						return nil
					}
					if !types.Identical(info.TypeOf(sel.X), p.spanType()) {
						return nil
					}
					return sel
				}
				lo, hi := sl.Low, sl.High
				var ls, hs *ast.SelectorExpr
				if lo != nil {
					ls = mentionsSpan(lo)
				}
				if hi != nil {
					hs = mentionsSpan(hi)
				}
				if ls == nil {
					return true // cuts that merely end at a token (SplitStatements) are C15's business
				}
				n++
				r.Saw(fn)
				key := fmt.Sprintf("%s slice %s", fn, exprStr(sl))
				ok2 := ls != nil && hs != nil && ls.Sel.Name == "Start" && hs.Sel.Name == "End" && sameExpr(info, ls.X, hs.X)
				why := "text[span.Start:span.End] of one span value"
				if ok2 {
					// the span must come from Span() of a node / a token span, or be guarded by IsValid in this function
					guarded := false
					ast.Inspect(fd.Body, func(y ast.Node) bool {
						if call, ok := y.(*ast.CallExpr); ok {
							if f := Callee(info, call); f != nil && f.Name() == "IsValid" {
								guarded = true
							}
						}
						return true
					})
					src := ""
					if o := objOf(info, ls.X); o != nil {
						ast.Inspect(fd.Body, func(y ast.Node) bool {
							if as, ok := y.(*ast.AssignStmt); ok && len(as.Lhs) == 1 && len(as.Rhs) == 1 && objOf(info, as.Lhs[0]) == o && as.Pos() < sl.Pos() {
								if call, ok := as.Rhs[0].(*ast.CallExpr); ok {
									if f := Callee(info, call); f != nil && f.Name() == "Span" {
										src = "Span() of a node"
									}
								}
							}
							return true
						})
					}
					if !guarded && src == "" {
						ok2 = false
						why = "the span used for slicing is neither obtained from a node's Span() nor checked with IsValid()"
					} else if guarded {
						why += ", guarded by IsValid()"
					} else {
						why += ", obtained from " + src
					}
				} else {
					why = "the source is sliced with bounds that are not the Start and End of one and the same span"
				}
				r.Check(ok2, "C10/slices", key, p.Pos(sl.Pos()), why, why+": the extracted text would not be the node's text (or the slice can be out of range)")
				return true
			})
		}
	}
	r.Floor("C10/slices", 4)
	_ = strings.TrimSpace
}

// spanGuardClient: offsets of a span (.Start/.End) are read only where IsValid() of that span is known to be true.
type spanGuardClient struct {
	BaseClient
	uses      int
	unguarded int
}

func (c *spanGuardClient) Visit(e *Engine, st *State, n ast.Node) *State {
	sel, ok := n.(*ast.SelectorExpr)
	if !ok || (sel.Sel.Name != "Start" && sel.Sel.Name != "End") || TypeStr(e.Info.TypeOf(sel.X)) != "parser.Span" {
		return nil
	}
	if !e.Reporting() {
		return nil
	}
	c.uses++
	k := e.CanonSt(st, sel.X)
	ok2 := false
	if k.OK {
		for _, key := range st.Keys() {
			if strings.HasPrefix(key, "call:") && strings.HasSuffix(key, ".IsValid("+k.Key+")") {
				if f := st.Get(key); f != nil && f.HasEq && f.Eq == "true" {
					ok2 = true
				}
			}
		}
	}
	if !ok2 {
		c.unguarded++
	}
	return nil
}
