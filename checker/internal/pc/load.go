// Package pc is the pql static checker: loader, fact engine, rules.
package pc

import (
	"fmt"
	"go/ast"
	"go/token"
	"go/types"
	"os"
	"path/filepath"
	"sort"
	"strings"

	"golang.org/x/tools/go/packages"
)

const (
	PathPQL    = "github.com/runreveal/pql"
	PathParser = "github.com/runreveal/pql/parser"
	PathMain   = "github.com/runreveal/pql/cmd/pql"
)

// Program is the loaded, type-checked module under analysis.
type Program struct {
	closureDecls map[*ast.FuncLit]*ast.FuncDecl
	closureFuncs map[*ast.FuncLit]*types.Func
	fieldInit    map[types.Object]types.Object
	reachWriter  map[*types.Func]bool
	fresh        map[*types.Func]bool
	callOnly     map[*ast.FuncLit]types.Object
	globalInits  map[*types.Var]ast.Expr
	privAlloc    map[types.Object]bool
	normElem     bool
	scopeRoots   map[types.Object]bool // C06: the maps that are used as the scope
	binOpDone    bool
	binOpVals    map[string]string
	binOpPos     token.Pos
	binOpFn      *types.Func
	scanPosDone  bool
	scanPosOK    bool
	scanPosWhy   string
	walkChecked  bool
	walkWhy      string
	entryClasses map[string][]bool
	entryBacked  map[string]bool
	constTables  map[*types.Var][]*ast.KeyValueExpr
	recorded     map[string]bool // functions of the reviewed tree (anchors_gen.go), by package|receiver|name
	Dir          string
	Fset         *token.FileSet
	All          []*packages.Package // the three module packages, sorted by path
	PQL          *packages.Package
	Parser       *packages.Package
	Main         *packages.Package

	Info           *types.Info // merged type information of the three packages
	parents        map[ast.Node]ast.Node
	origInfo       map[*packages.Package]*types.Info
	defs           map[types.Object]*defInfo
	globalsWritten map[*types.Var]bool
	fieldIdxStored map[*types.Var]bool
	quiet          map[*ast.FuncDecl]bool
	canonName      map[*types.Func]string // renamed anchor -> the name the rules know it by
	renamed        map[string]*types.Func // pkg|recv|name of a recorded function -> the function that took its place
	RenameNotes    []string
	canonFull      map[*types.Func]string // renamed anchor -> its FuncName on the reviewed tree
	canonType      map[*types.TypeName]string
	canonField     map[*types.Var]string
	canonObj       map[types.Object]string
	lexer          map[*ast.FuncDecl]bool
	reach          map[*types.Func]bool
	funcOf         map[*ast.FuncDecl]*packages.Package
	ssa            *ssaProgram
	sums           *Summaries
	gram           *grammar
	strips         map[*types.Func]bool
}

// CheckerError is a failure of the checker itself (exit 2), not a verdict.
type CheckerError struct{ Msg string }

func (e *CheckerError) Error() string { return e.Msg }

func fatalf(format string, args ...any) {
	panic(&CheckerError{fmt.Sprintf(format, args...)})
}

// Load loads ./... of the module in dir (non-test files), type-checked from source.
func Load(dir string) *Program {
	os.Unsetenv("GOWORK")
	env := append(os.Environ(), "GOFLAGS=-mod=mod", "GOPROXY=off", "GOSUMDB=off", "GOTOOLCHAIN=local", "GOWORK=off")
	cfg := &packages.Config{
		Mode:  packages.LoadAllSyntax,
		Dir:   dir,
		Tests: false,
		Env:   env,
	}
	pkgs, err := packages.Load(cfg, "./...")
	if err != nil {
		fatalf("load %s: %v", dir, err)
	}
	p := &Program{Dir: dir}
	for _, pkg := range pkgs {
		if len(pkg.Errors) > 0 {
			var msgs []string
			for _, e := range pkg.Errors {
				msgs = append(msgs, e.Error())
			}
			fatalf("package %s does not type-check: %s", pkg.PkgPath, strings.Join(msgs, "; "))
		}
		if pkg.IllTyped {
			fatalf("package %s is ill-typed", pkg.PkgPath)
		}
		switch pkg.PkgPath {
		case PathPQL:
			p.PQL = pkg
		case PathParser:
			p.Parser = pkg
		case PathMain:
			p.Main = pkg
		default:
			fatalf("unexpected package %s in module (the rules cover exactly 3 packages; a new package must be reviewed)", pkg.PkgPath)
		}
		p.All = append(p.All, pkg)
		p.Fset = pkg.Fset
	}
	if p.PQL == nil || p.Parser == nil || p.Main == nil {
		fatalf("expected packages %s, %s, %s; loaded %d packages", PathPQL, PathParser, PathMain, len(pkgs))
	}
	sort.Slice(p.All, func(i, j int) bool { return p.All[i].PkgPath < p.All[j].PkgPath })
	// One type-information view for the whole module: syntax nodes are unique across packages, so the maps can be
	// merged. This lets the engine interpret a callee of another package in place (helper inlining).
	merged := &types.Info{
		Types: map[ast.Expr]types.TypeAndValue{}, Defs: map[*ast.Ident]types.Object{}, Uses: map[*ast.Ident]types.Object{},
		Implicits: map[ast.Node]types.Object{}, Selections: map[*ast.SelectorExpr]*types.Selection{},
		Scopes: map[ast.Node]*types.Scope{}, Instances: map[*ast.Ident]types.Instance{}, FileVersions: map[*ast.File]string{},
	}
	for _, pkg := range p.All {
		ti := pkg.TypesInfo
		for k, v := range ti.Types {
			merged.Types[k] = v
		}
		for k, v := range ti.Defs {
			merged.Defs[k] = v
		}
		for k, v := range ti.Uses {
			merged.Uses[k] = v
		}
		for k, v := range ti.Implicits {
			merged.Implicits[k] = v
		}
		for k, v := range ti.Selections {
			merged.Selections[k] = v
		}
		for k, v := range ti.Scopes {
			merged.Scopes[k] = v
		}
		for k, v := range ti.Instances {
			merged.Instances[k] = v
		}
		for k, v := range ti.FileVersions {
			merged.FileVersions[k] = v
		}
	}
	p.origInfo = map[*packages.Package]*types.Info{}
	for _, pkg := range p.All {
		p.origInfo[pkg] = pkg.TypesInfo
		pkg.TypesInfo = merged
	}
	p.Info = merged
	curProgram = p
	p.resolveRenames()
	p.parents = map[ast.Node]ast.Node{}
	p.funcOf = map[*ast.FuncDecl]*packages.Package{}
	for _, pkg := range p.All {
		for _, f := range pkg.Syntax {
			var stack []ast.Node
			ast.Inspect(f, func(n ast.Node) bool {
				if n == nil {
					stack = stack[:len(stack)-1]
					return true
				}
				if len(stack) > 0 {
					p.parents[n] = stack[len(stack)-1]
				}
				stack = append(stack, n)
				if fd, ok := n.(*ast.FuncDecl); ok {
					p.funcOf[fd] = pkg
				}
				return true
			})
		}
	}
	return p
}

// DeclOf returns the declaration (with body) and package of a module function, or nil.
func (p *Program) DeclOf(fn *types.Func) (*ast.FuncDecl, *packages.Package) {
	if fn == nil {
		return nil, nil
	}
	s := p.Summaries()
	fd := s.decls[fn]
	if fd == nil {
		fd = s.decls[fn.Origin()]
		fn = fn.Origin()
	}
	if fd == nil {
		return nil, nil
	}
	return fd, s.declPkg[fn]
}

// Lib returns the two library packages (pql, parser).
func (p *Program) Lib() []*packages.Package { return []*packages.Package{p.PQL, p.Parser} }

func (p *Program) Parent(n ast.Node) ast.Node { return p.parents[n] }

// Pos renders a position relative to the module root.
func (p *Program) Pos(pos token.Pos) string {
	if !pos.IsValid() {
		return "-"
	}
	ps := p.Fset.Position(pos)
	rel, err := filepath.Rel(p.Dir, ps.Filename)
	if err != nil {
		rel = ps.Filename
	}
	return fmt.Sprintf("%s:%d", rel, ps.Line)
}

// IsGenerated reports whether the file containing pos carries a "Code generated" header.
func (p *Program) IsGenerated(pkg *packages.Package, pos token.Pos) bool {
	for _, f := range pkg.Syntax {
		if f.Pos() <= pos && pos <= f.End() {
			return ast.IsGenerated(f)
		}
	}
	return false
}

// FuncDecl finds the declaration of a package-level function or a method ("T.m").
func (p *Program) FuncDecl(pkg *packages.Package, name string) *ast.FuncDecl {
	if fd := p.funcDeclByName(pkg, name); fd != nil {
		return fd
	}
	// a recorded function that now goes by another name
	recv, meth := "", name
	if i := strings.Index(name, "."); i >= 0 {
		recv, meth = name[:i], name[i+1:]
	}
	if fn := p.renamed[pkg.PkgPath+"|"+pkg.Types.Name()+"."+recv+"|"+meth]; fn != nil && recv != "" {
		if fd, _ := p.DeclOf(fn); fd != nil {
			return fd
		}
	}
	if fn := p.renamed[pkg.PkgPath+"||"+meth]; fn != nil && recv == "" {
		if fd, _ := p.DeclOf(fn); fd != nil {
			return fd
		}
	}
	return nil
}

func (p *Program) funcDeclByName(pkg *packages.Package, name string) *ast.FuncDecl {
	recv, meth := "", name
	if i := strings.Index(name, "."); i >= 0 {
		recv, meth = name[:i], name[i+1:]
	}
	for _, f := range pkg.Syntax {
		for _, d := range f.Decls {
			fd, ok := d.(*ast.FuncDecl)
			if !ok || fd.Name.Name != meth {
				continue
			}
			if recv == "" {
				if fd.Recv == nil {
					return fd
				}
				continue
			}
			if fd.Recv == nil || len(fd.Recv.List) != 1 {
				continue
			}
			if recvTypeName(fd.Recv.List[0].Type) == recv {
				return fd
			}
		}
	}
	return nil
}

// MustFunc is FuncDecl that fails the checker run if the anchor is gone.
func (p *Program) MustFunc(pkg *packages.Package, name string) *ast.FuncDecl {
	fd := p.FuncDecl(pkg, name)
	if fd == nil || fd.Body == nil {
		fatalf("anchor not found: function %s.%s", pkg.PkgPath, name)
	}
	return fd
}

func recvTypeName(e ast.Expr) string {
	for {
		switch t := e.(type) {
		case *ast.StarExpr:
			e = t.X
		case *ast.ParenExpr:
			e = t.X
		case *ast.IndexExpr:
			e = t.X
		case *ast.Ident:
			if curProgram != nil {
				if o := curProgram.Info.Uses[t]; o != nil {
					return objName(o)
				}
			}
			return t.Name
		default:
			return ""
		}
	}
}

// FuncObj returns the types.Func of a declaration.
func FuncObj(pkg *packages.Package, fd *ast.FuncDecl) *types.Func {
	f, _ := pkg.TypesInfo.Defs[fd.Name].(*types.Func)
	return f
}

// FuncName renders "pkg.Func" or "pkg.(*T).m" for a declaration.
func FuncName(pkg *packages.Package, fd *ast.FuncDecl) string {
	if curProgram != nil && curProgram.canonFull != nil {
		if fn, ok := curProgram.Info.Defs[fd.Name].(*types.Func); ok {
			if full := curProgram.canonFull[fn]; full != "" {
				return full
			}
		}
	}
	short := pkg.Types.Name()
	if fd.Recv != nil && len(fd.Recv.List) == 1 {
		r := recvTypeName(fd.Recv.List[0].Type)
		if _, ok := fd.Recv.List[0].Type.(*ast.StarExpr); ok {
			return fmt.Sprintf("%s.(*%s).%s", short, r, declName(fd))
		}
		return fmt.Sprintf("%s.%s.%s", short, r, declName(fd))
	}
	return short + "." + declName(fd)
}

// AllFuncs lists the function declarations (with bodies) of pkg in source order.
func AllFuncs(pkg *packages.Package) []*ast.FuncDecl {
	var out []*ast.FuncDecl
	for _, f := range pkg.Syntax {
		for _, d := range f.Decls {
			if fd, ok := d.(*ast.FuncDecl); ok && fd.Body != nil {
				out = append(out, fd)
			}
		}
	}
	return out
}

// Named looks up a package-level named type.
func (p *Program) Named(pkg *packages.Package, name string) *types.Named {
	var obj types.Object = pkg.Types.Scope().Lookup(name)
	if _, isT := obj.(*types.TypeName); !isT {
		if tn := p.typeNamed(pkg, name); tn != nil {
			obj = tn
		}
	}
	if obj == nil {
		fatalf("anchor not found: type %s.%s", pkg.PkgPath, name)
	}
	tn, ok := obj.(*types.TypeName)
	if !ok {
		fatalf("anchor %s.%s is not a type", pkg.PkgPath, name)
	}
	n, ok := tn.Type().(*types.Named)
	if !ok {
		fatalf("anchor %s.%s is not a named type", pkg.PkgPath, name)
	}
	return n
}

// Iface returns the underlying interface of a named interface type.
func (p *Program) Iface(pkg *packages.Package, name string) *types.Interface {
	n := p.Named(pkg, name)
	i, ok := n.Underlying().(*types.Interface)
	if !ok {
		fatalf("anchor %s.%s is not an interface", pkg.PkgPath, name)
	}
	return i
}

// PkgVar looks up a package-level variable.
func (p *Program) PkgVar(pkg *packages.Package, name string) *types.Var {
	v, ok := pkg.Types.Scope().Lookup(name).(*types.Var)
	if !ok {
		for o, n := range p.canonObj {
			if vv, isVar := o.(*types.Var); isVar && n == name && o.Pkg() == pkg.Types {
				return vv
			}
		}
	}
	if !ok {
		fatalf("anchor not found: var %s.%s", pkg.PkgPath, name)
	}
	return v
}

// PkgVarValue returns the initialiser expression of a package-level var.
func (p *Program) PkgVarValue(pkg *packages.Package, name string) ast.Expr {
	for _, f := range pkg.Syntax {
		for _, d := range f.Decls {
			gd, ok := d.(*ast.GenDecl)
			if !ok || gd.Tok != token.VAR {
				continue
			}
			for _, s := range gd.Specs {
				vs := s.(*ast.ValueSpec)
				for i, n := range vs.Names {
					if (n.Name == name || objName(p.Info.Defs[n]) == name) && i < len(vs.Values) {
						return vs.Values[i]
					}
				}
			}
		}
	}
	fatalf("anchor not found: initialiser of var %s.%s", pkg.PkgPath, name)
	return nil
}

// Implementers lists the pointer-to-struct (or named) types declared in the parser
// package whose method set satisfies iface, sorted by name.
func (p *Program) Implementers(iface *types.Interface) []types.Type {
	var out []types.Type
	scope := p.Parser.Types.Scope()
	for _, name := range scope.Names() {
		tn, ok := scope.Lookup(name).(*types.TypeName)
		if !ok || tn.IsAlias() {
			continue
		}
		named, ok := tn.Type().(*types.Named)
		if !ok {
			continue
		}
		if _, isIface := named.Underlying().(*types.Interface); isIface {
			continue
		}
		if named.TypeParams().Len() > 0 {
			continue
		}
		if types.Implements(named, iface) {
			out = append(out, named)
		} else if ptr := types.NewPointer(named); types.Implements(ptr, iface) {
			out = append(out, ptr)
		}
	}
	return out
}

// TypeStr renders a type with short package qualifiers ("*parser.Ident").
func TypeStr(t types.Type) string {
	s := types.TypeString(t, func(p *types.Package) string { return p.Name() })
	// renamed unexported types are shown under their recorded names
	for i := 0; i+1 < len(typeRenameList); i += 2 {
		s = replaceWord(s, typeRenameList[i], typeRenameList[i+1])
	}
	return s
}

// replaceWord replaces occurrences of old that are not part of a longer identifier.
func replaceWord(s, old, new string) string {
	if !strings.Contains(s, old) {
		return s
	}
	var sb strings.Builder
	for {
		i := strings.Index(s, old)
		if i < 0 {
			sb.WriteString(s)
			return sb.String()
		}
		end := i + len(old)
		before := i == 0 || !isIdentByte(s[i-1])
		after := end == len(s) || !isIdentByte(s[end])
		sb.WriteString(s[:i])
		if before && after {
			sb.WriteString(new)
		} else {
			sb.WriteString(old)
		}
		s = s[end:]
	}
}

func isIdentByte(b byte) bool {
	return b == '_' || b == '.' && false || '0' <= b && b <= '9' || 'a' <= b && b <= 'z' || 'A' <= b && b <= 'Z'
}

// Field returns the struct field named name of named type (or pointer to it).
func StructOf(t types.Type) *types.Struct {
	if t == nil {
		return nil
	}
	if p, ok := t.Underlying().(*types.Pointer); ok {
		t = p.Elem()
	}
	s, _ := t.Underlying().(*types.Struct)
	return s
}

// EnclosingFunc returns the FuncDecl containing n.
func (p *Program) EnclosingFunc(n ast.Node) *ast.FuncDecl {
	for n != nil {
		if fd, ok := n.(*ast.FuncDecl); ok {
			return fd
		}
		n = p.parents[n]
	}
	return nil
}

// FuncAt returns the function declaration whose extent contains pos.
func (p *Program) FuncAt(pos token.Pos) *ast.FuncDecl {
	for _, pkg := range p.All {
		for _, f := range pkg.Syntax {
			if f.Pos() > pos || pos > f.End() {
				continue
			}
			for _, d := range f.Decls {
				if fd, ok := d.(*ast.FuncDecl); ok && fd.Pos() <= pos && pos <= fd.End() {
					return fd
				}
			}
		}
	}
	return nil
}

// PkgOf returns the module package whose syntax contains pos.
func (p *Program) PkgOf(pos token.Pos) *packages.Package {
	for _, pkg := range p.All {
		for _, f := range pkg.Syntax {
			if f.Pos() <= pos && pos <= f.End() {
				return pkg
			}
		}
	}
	return nil
}

// Callee resolves the static callee of a call (function or method), or nil.
func Callee(info *types.Info, call *ast.CallExpr) *types.Func {
	fun := ast.Unparen(call.Fun)
	switch f := fun.(type) {
	case *ast.Ident:
		if fn, ok := info.Uses[f].(*types.Func); ok {
			return fn
		}
	case *ast.SelectorExpr:
		if sel, ok := info.Selections[f]; ok {
			if fn, ok := sel.Obj().(*types.Func); ok {
				return fn
			}
			return nil
		}
		if fn, ok := info.Uses[f.Sel].(*types.Func); ok {
			return fn
		}
	case *ast.IndexExpr: // generic instantiation f[T](...)
		if id, ok := ast.Unparen(f.X).(*ast.Ident); ok {
			if fn, ok := info.Uses[id].(*types.Func); ok {
				return fn
			}
		}
	}
	return nil
}

// IsBuiltinCall reports whether call invokes the named builtin.
func IsBuiltinCall(info *types.Info, call *ast.CallExpr, name string) bool {
	id, ok := ast.Unparen(call.Fun).(*ast.Ident)
	if !ok {
		return false
	}
	b, ok := info.Uses[id].(*types.Builtin)
	return ok && b.Name() == name
}

// FullName is pkgpath.Name or (recv).Name of a function object.
func FullName(fn *types.Func) string {
	if fn == nil {
		return ""
	}
	return fn.FullName()
}
