package pc

import (
	"fmt"
	"go/ast"
	"go/constant"
	"go/token"
	"go/types"
	"sort"
	"strings"
)

// ---- C07: the parser builds the documented tree (tables and call shapes).

// precedenceTable reads operatorPrecedence's switch: kind name -> precedence; def = default value.
func (p *Program) precedenceTable() (tbl map[string]int64, def int64, pos token.Pos) {
	pkg := p.Parser
	info := pkg.TypesInfo
	fd := p.MustFunc(pkg, "operatorPrecedence")
	tbl = map[string]int64{}
	def = -1 << 30
	found := false
	ast.Inspect(fd.Body, func(n ast.Node) bool {
		sw, ok := n.(*ast.SwitchStmt)
		if !ok || sw.Tag == nil {
			return true
		}
		found = true
		for _, c := range sw.Body.List {
			cc := c.(*ast.CaseClause)
			var val int64
			okRet := false
			for _, s := range cc.Body {
				if ret, ok := s.(*ast.ReturnStmt); ok && len(ret.Results) == 1 {
					if v, ok := constInt(info, ret.Results[0]); ok {
						val, okRet = v, true
					}
				}
			}
			if !okRet {
				fatalf("operatorPrecedence: a case does not return a constant (%s)", p.Pos(cc.Pos()))
			}
			if cc.List == nil {
				def = val
				continue
			}
			for _, e := range cc.List {
				name := constName(info, e)
				if name == "" {
					fatalf("operatorPrecedence: non-constant case at %s", p.Pos(e.Pos()))
				}
				tbl[name] = val
			}
		}
		return false
	})
	if !found {
		fatalf("anchor not found: switch in operatorPrecedence")
	}
	// a trailing `return -1` instead of a default clause
	if def == -1<<30 {
		if ret, ok := fd.Body.List[len(fd.Body.List)-1].(*ast.ReturnStmt); ok && len(ret.Results) == 1 {
			if v, ok := constInt(info, ret.Results[0]); ok {
				def = v
			}
		}
	}
	return tbl, def, fd.Pos()
}

var docPrecLevels = [][]string{
	{"TokenOr"},
	{"TokenAnd"},
	{"TokenEq", "TokenNE", "TokenLT", "TokenLE", "TokenGT", "TokenGE", "TokenCaseInsensitiveEq", "TokenCaseInsensitiveNE", "TokenIn"},
	{"TokenPlus", "TokenMinus"},
	{"TokenStar", "TokenSlash", "TokenMod"},
}

func ruleC07Prec(p *Program, r *Run) {
	tbl, def, pos := p.precedenceTable()
	r.Saw("parser.operatorPrecedence")
	ps := p.Pos(pos)
	r.Check(def < 0, "C07/prec", "parser.operatorPrecedence default", ps, "every other token kind is not a binary operator (negative)", fmt.Sprintf("the default precedence is %d (not negative): arbitrary tokens would be parsed as binary operators", def))
	documented := map[string]bool{}
	for li, level := range docPrecLevels {
		for _, k := range level {
			documented[k] = true
			v, ok := tbl[k]
			key := "parser.operatorPrecedence " + k
			if !ok || v < 0 {
				r.Fail("C07/prec", key, ps, k+" has no non-negative precedence: the operator would not be parsed as a binary operator")
				continue
			}
			bad := ""
			if v != tbl[level[0]] {
				bad = fmt.Sprintf("%s (%d) and %s (%d) are documented to bind equally", k, v, level[0], tbl[level[0]])
			}
			if li > 0 {
				if prev, ok := tbl[docPrecLevels[li-1][0]]; ok && !(prev < v) {
					bad = fmt.Sprintf("%s (%d) must bind tighter than %s (%d)", k, v, docPrecLevels[li-1][0], prev)
				}
			}
			r.Check(bad == "", "C07/prec", key, ps, fmt.Sprintf("level %d of or < and < comparisons < + - < * / %%", li), bad)
		}
	}
	var extra []string
	for k, v := range tbl {
		if !documented[k] && v >= 0 {
			extra = append(extra, k)
		}
	}
	sort.Strings(extra)
	r.Check(len(extra) == 0, "C07/prec", "parser.operatorPrecedence only documented operators", ps, "no other token kind has a precedence", fmt.Sprintf("token kinds %v have a binary-operator precedence but are not documented binary operators (the compiler has no translation for them)", extra))
	// every binary operator kind is produced by the lexer (C09 tables)
	produced := map[string]bool{}
	for _, k := range docOneChar {
		produced[k] = true
	}
	for _, fam := range docTwoChar {
		for _, k := range fam {
			produced[k] = true
		}
	}
	for _, k := range docKeywords {
		produced[k] = true
	}
	for _, level := range docPrecLevels {
		for _, k := range level {
			r.Check(produced[k], "C07/kinds", "parser.operatorPrecedence "+k+" is a lexer token", ps, "documented lexer token (its production is checked by C09/tables)", k+" is never produced by the lexer")
		}
	}
	r.Floor("C07/prec", 16)
}

// ---- C07/assoc: precedence climbing shape, with path facts.

type assocClient struct {
	BaseClient
	p        *Program
	fn       string
	self     *types.Func
	precFn   *types.Func
	minParam types.Object
	xParam   types.Object
	binT     types.Type
	inT      types.Type
	recCalls int
	inConts  int // iterations that built an InExpr and went on with the operator loop
	inBad    string
}

// LoopBack: an iteration of the operator loop that built an `in` test goes on with that test as the left operand.
func (c *assocClient) LoopBack(e *Engine, st *State, loop ast.Stmt) {
	fs, ok := loop.(*ast.ForStmt)
	if !ok || e.P.Parent(e.P.Parent(fs)) != ast.Node(e.Func) || st.Ext("sawIn") != "1" || !e.Reporting() {
		return
	}
	c.inConts++
	f := st.GetVar(e.objKey(c.xParam))
	if f == nil || len(f.TyIn) != 1 || f.TyIn[0] != "*parser.InExpr" {
		c.inBad = "an iteration that parsed `x in (...)` continues the operator loop while the accumulated expression is not (known to be) the InExpr just built"
	}
}

// precVarOf: returns the key of a variable assigned from operatorPrecedence(...), recorded in ext.
func (c *assocClient) PostAssign(e *Engine, st *State, lhs, rhs []ast.Expr, _ ast.Stmt) *State {
	if len(lhs) == 1 && len(rhs) == 1 {
		if call, ok := ast.Unparen(rhs[0]).(*ast.CallExpr); ok && Callee(e.Info, call) == c.precFn {
			if k := e.CanonSt(st, lhs[0]); k.OK {
				// first one in the loop body is the current operator, the second the look-ahead
				if st.Ext("prec1") == "" {
					return st.WithExt("prec1", k.Key)
				}
				return st.WithExt("prec2", k.Key)
			}
		}
	}
	return nil
}

func (c *assocClient) LoopHead(e *Engine, st *State, loop ast.Stmt) *State {
	// entering the outer loop body starts a new operator
	if fs, ok := loop.(*ast.ForStmt); ok && e.P.Parent(e.P.Parent(fs)) == ast.Node(e.Func) {
		return st.WithExt("prec1", "").WithExt("prec2", "").WithExt("sawIn", "")
	}
	return st.WithExt("prec2", "")
}

func (c *assocClient) PreCall(e *Engine, st *State, call *ast.CallExpr, callee *types.Func) *State {
	if callee != c.self {
		return nil
	}
	c.recCalls++
	key := c.fn + " recursive call for the right operand"
	p1 := st.Ext("prec1")
	// (a) the minimum precedence passed down is prec1 + c, c >= 1
	okMin := false
	if b, ok := ast.Unparen(call.Args[1]).(*ast.BinaryExpr); ok && b.Op == token.ADD {
		if k := e.CanonSt(st, b.X); k.OK && k.Key == p1 && p1 != "" {
			if v, ok := constInt(e.Info, b.Y); ok && v >= 1 {
				okMin = true
			}
		}
	}
	e.Site("C07/assoc", key+": minimum", call, okMin, "right operand parsed with minimum precedence = current + 1 (left associativity among equals)")
	if !okMin {
		e.Site("C07/assoc", key+": minimum", call, false, "the right operand is not parsed with a minimum precedence strictly above the current operator's: operators of equal precedence would group to the right (a - b - c = a - (b - c))")
	}
	// (b) it is only taken when the look-ahead operator binds strictly tighter
	p2 := st.Ext("prec2")
	okGt := false
	// the precedence of the look-ahead token: a variable assigned from operatorPrecedence(...) or the call itself
	isPrec := func(k string) bool {
		return (p2 != "" && k == p2) || (strings.HasPrefix(k, "call:"+c.precFn.FullName()+"(") && k != p1)
	}
	if p1 != "" {
		for _, k := range st.Keys() {
			f := st.Get(k)
			if f == nil || !f.HasEq {
				continue
			}
			if strings.HasPrefix(k, "("+p1+" < ") && strings.HasSuffix(k, ")") && f.Eq == "true" && isPrec(k[len("("+p1+" < "):len(k)-1]) {
				okGt = true
			}
			if strings.HasSuffix(k, " <= "+p1+")") && strings.HasPrefix(k, "(") && f.Eq == "false" && isPrec(k[1:len(k)-len(" <= "+p1+")")]) {
				okGt = true
			}
		}
	}
	e.Site("C07/assoc", key+": guard", call, okGt, "taken only when the next operator binds strictly tighter than the current one")
	if !okGt {
		e.Site("C07/assoc", key+": guard", call, false, "the right operand is extended although the next operator is not known to bind strictly tighter than the current one: precedence/associativity of the tree would be wrong")
	}
	return nil
}

func (c *assocClient) Visit(e *Engine, st *State, n ast.Node) *State {
	cl, ok := n.(*ast.CompositeLit)
	if !ok {
		return nil
	}
	t := e.Info.TypeOf(cl)
	switch {
	case types.Identical(t, c.binT):
		key := c.fn + " BinaryExpr construction"
		// guard facts at the construction: prec1 >= 0 and prec1 >= minPrecedence
		p1 := st.Ext("prec1")
		okNonNeg, okMin := false, false
		if f := st.Get(p1); f != nil && f.Lo != nil && *f.Lo >= 0 {
			okNonNeg = true
		}
		mk := e.objKey(c.minParam)
		if f := st.Get("(" + p1 + " < " + mk + ")"); f != nil && f.HasEq && f.Eq == "false" {
			okMin = true
		}
		if f := st.Get("(" + mk + " <= " + p1 + ")"); f != nil && f.HasEq && f.Eq == "true" {
			okMin = true
		}
		ok := okNonNeg && okMin
		e.Site("C07/assoc", key+": operator admitted", cl, ok, "built only for a token with precedence >= 0 and >= the minimum of this level")
		if !ok {
			e.Site("C07/assoc", key+": operator admitted", cl, false, "a BinaryExpr can be built for a token whose precedence is negative or below this level's minimum (or the bound is not exactly `>= min`): grouping by precedence would be wrong")
		}
		// shape: X is the accumulated left operand, Op is the current operator's kind
		xv := litField(e.Info, cl, "X")
		okX := xv != nil && objOf(e.Info, xv) == c.xParam
		e.Site("C07/assoc", key+": left operand", cl, okX, "left operand is everything parsed so far at this level (left associativity)")
		if !okX {
			e.Site("C07/assoc", key+": left operand", cl, false, "the left operand of the new BinaryExpr is not the expression accumulated so far")
		}
	case types.Identical(t, c.inT):
		xv := litField(e.Info, cl, "X")
		okX := xv != nil && objOf(e.Info, xv) == c.xParam
		key := fmt.Sprintf("%s InExpr construction #%d: left operand", c.fn, c.ordinalLit(e, cl))
		e.Site("C07/in", key, cl, okX, "`x in (...)` takes everything parsed so far at this level as its left operand")
		if !okX {
			e.Site("C07/in", key, cl, false, "the left operand of `in` is not the expression accumulated so far")
		}
		return st.WithExt("sawIn", "1")
	}
	return nil
}

func (c *assocClient) ordinalLit(e *Engine, lit *ast.CompositeLit) int {
	n, idx := 0, 0
	ast.Inspect(e.Func.Body, func(x ast.Node) bool {
		if cl, ok := x.(*ast.CompositeLit); ok && types.Identical(e.Info.TypeOf(cl), c.inT) {
			n++
			if cl == lit {
				idx = n
			}
		}
		return true
	})
	return idx
}

func ruleC07Assoc(p *Program, r *Run) {
	pkg := p.Parser
	info := pkg.TypesInfo
	fd := p.MustFunc(pkg, "parser.exprBinaryTrail")
	fn := FuncName(pkg, fd)
	r.Saw(fn)
	c := &assocClient{p: p, fn: fn, self: FuncObj(pkg, fd), precFn: FuncObj(pkg, p.MustFunc(pkg, "operatorPrecedence")),
		binT: p.Named(pkg, "BinaryExpr"), inT: p.Named(pkg, "InExpr")}
	params := fd.Type.Params.List
	if len(params) != 2 {
		fatalf("exprBinaryTrail: expected (x Expr, minPrecedence int)")
	}
	c.xParam = info.Defs[params[0].Names[0]]
	c.minParam = info.Defs[params[1].Names[0]]
	e := NewEngine(p, pkg, fd, c)
	e.Run(nil)
	for _, m := range e.Errs {
		r.Fail("C07/assoc", fn+" engine", "-", m)
	}
	e.FlushSites(r)
	r.Check(c.recCalls > 0, "C07/assoc", fn+" climbs", p.Pos(fd.Pos()), "higher-precedence operators are resolved by a recursive call", "no recursive call: operators are folded strictly left to right, ignoring precedence")
	r.Floor("C07/assoc", 5)

	// the successful `in` branch continues the loop with the InExpr as the new left operand (path facts at the loop's back edge)
	okCont := c.inConts > 0 && c.inBad == ""
	r.Check(okCont, "C07/in", fn+" `in` continues the operator loop", p.Pos(fd.Pos()), "after `x in (...)` the loop continues with the InExpr as left operand: any following operator applies to the whole test", "after a complete `x in (...)` the operator loop is not continued with the InExpr as the new left operand: `a in (1) and b` would lose or misplace the following operator")
	r.Floor("C07/in", 3)

	// expr: starts at minimum precedence 0 (admits `or`)
	ex := p.MustFunc(pkg, "parser.expr")
	okZero := false
	ast.Inspect(ex.Body, func(n ast.Node) bool {
		if call, ok := n.(*ast.CallExpr); ok && Callee(info, call) == c.self && len(call.Args) == 2 {
			if v, ok := constInt(info, call.Args[1]); ok {
				tbl, _, _ := p.precedenceTable()
				lowest := int64(1 << 30)
				for _, pv := range tbl {
					if pv >= 0 && pv < lowest {
						lowest = pv
					}
				}
				okZero = v <= lowest
			}
		}
		return true
	})
	r.Check(okZero, "C07/assoc", FuncName(pkg, ex)+" admits every operator", p.Pos(ex.Pos()), "a full expression is parsed with the lowest precedence as minimum", "a full expression is parsed with a minimum precedence above the weakest operator: `a or b` would stop after a")
}

// ---- C07/sign, C07/synonyms, C07/sortdefaults.

func ruleC07Shapes(p *Program, r *Run) {
	pkg := p.Parser
	info := pkg.TypesInfo
	// sign: operand parsed by primaryExpr
	un := p.MustFunc(pkg, "parser.unaryExpr")
	r.Saw(FuncName(pkg, un))
	primary := FuncObj(pkg, p.MustFunc(pkg, "parser.primaryExpr"))
	// Decided on the path facts at the place the UnaryExpr is built: which token kinds the sign can have there, that
	// the node records the kind of the token just read, and which production parsed the operand.
	sc := &signClient{p: p, kinds: map[string]bool{}, next: FuncObj(pkg, p.MustFunc(pkg, "parser.next"))}
	se := NewEngine(p, pkg, un, sc)
	se.Run(nil)
	for _, m := range se.Errs {
		r.Fail("C07/sign", "parser.(*parser).unaryExpr engine", "-", m)
	}
	if sc.lits == 0 {
		r.Fail("C07/sign", "parser.(*parser).unaryExpr sign case", p.Pos(un.Pos()), "no UnaryExpr is built by unaryExpr")
	} else {
		r.Check(sc.kinds["TokenPlus"] && sc.kinds["TokenMinus"] && len(sc.kinds) == 2, "C07/sign", "parser.(*parser).unaryExpr sign tokens", p.Pos(un.Pos()), "exactly + and - are prefix signs (token kinds possible where the UnaryExpr is built)", fmt.Sprintf("a UnaryExpr is built for token kinds %v, documented: + and -", keysOf(sc.kinds)))
		r.Check(sc.operand == primary && !sc.operandBad, "C07/sign", "parser.(*parser).unaryExpr sign operand", p.Pos(un.Pos()), "operand of a sign is a primary expression (binds tighter than any binary operator, looser than indexing and calls)", fmt.Sprintf("the operand of a sign is parsed by %v, not by primaryExpr: `-a * b` or `- -a` would group differently from the documented grammar", sc.operand))
		r.Check(sc.keepsOp, "C07/sign", "parser.(*parser).unaryExpr keeps the sign", p.Pos(un.Pos()), "UnaryExpr.Op is the kind of the token read as the sign", "the UnaryExpr does not record the sign token's kind")
	}
	_ = info
	r.Floor("C07/sign", 3)

	// synonyms and operator table
	te := p.MustFunc(pkg, "parser.tabularExpr")
	r.Saw(FuncName(pkg, te))
	wantOp := map[string]string{
		"count": "CountOperator", "where": "WhereOperator", "filter": "WhereOperator", "sort": "SortOperator", "order": "SortOperator",
		"take": "TakeOperator", "limit": "TakeOperator", "top": "TopOperator", "project": "ProjectOperator", "extend": "ExtendOperator",
		"summarize": "SummarizeOperator", "join": "JoinOperator", "as": "AsOperator", "render": "RenderOperator",
	}
	got := map[string]string{}
	clauseOf := map[string]*ast.CaseClause{}
	appended := map[*ast.CaseClause]bool{}
	ast.Inspect(te.Body, func(n ast.Node) bool {
		cc, ok := n.(*ast.CaseClause)
		if !ok || cc.List == nil {
			return true
		}
		var keys []string
		for _, e := range cc.List {
			if s, ok := constString(info, e); ok {
				keys = append(keys, s)
			}
		}
		if len(keys) == 0 {
			return true
		}
		resT := ""
		var resObj types.Object
		ast.Inspect(cc, func(m ast.Node) bool {
			if as, ok := m.(*ast.AssignStmt); ok && len(as.Rhs) == 1 {
				if call, ok := as.Rhs[0].(*ast.CallExpr); ok {
					if f := Callee(info, call); f != nil && f.Type().(*types.Signature).Results().Len() == 2 {
						resT = strings.TrimPrefix(TypeStr(f.Type().(*types.Signature).Results().At(0).Type()), "*parser.")
						resObj = objOf(info, as.Lhs[0])
					}
				}
			}
			if call, ok := m.(*ast.CallExpr); ok && IsBuiltinCall(info, call, "append") && len(call.Args) == 2 && resObj != nil && objOf(info, call.Args[1]) == resObj {
				if f := selField(info, call.Args[0]); f != nil && f.Name() == "Operators" {
					appended[cc] = true
				}
			}
			return true
		})
		for _, k := range keys {
			got[k] = resT
			clauseOf[k] = cc
		}
		return true
	})
	var kws []string
	for k := range wantOp {
		kws = append(kws, k)
	}
	sort.Strings(kws)
	for _, k := range kws {
		key := fmt.Sprintf("parser.(*parser).tabularExpr keyword %q", k)
		ok := got[k] == wantOp[k] && appended[clauseOf[k]]
		msg := fmt.Sprintf("keyword %q builds %q (documented %s) and appends it to the pipeline=%v", k, got[k], wantOp[k], appended[clauseOf[k]])
		r.Check(ok, "C07/synonyms", key, p.Pos(te.Pos()), "keyword builds "+wantOp[k]+" and appends it", msg)
	}
	for _, pair := range [][2]string{{"where", "filter"}, {"sort", "order"}, {"take", "limit"}} {
		same := clauseOf[pair[0]] != nil && clauseOf[pair[0]] == clauseOf[pair[1]]
		r.Check(same, "C07/synonyms", fmt.Sprintf("parser.(*parser).tabularExpr %s/%s share one production", pair[0], pair[1]), p.Pos(te.Pos()), "synonyms are handled by the same case clause", fmt.Sprintf("%q and %q are not handled by the same case clause: the synonyms may diverge", pair[0], pair[1]))
	}
	r.Floor("C07/synonyms", 17)

	ruleSortDefaults(p, r, "C07/sortdefaults")
}

// ruleSortDefaults: the parser's sort-term defaults and the compiler's rendering of them.
func ruleSortDefaults(p *Program, r *Run, rule string) {
	pkg := p.Parser
	info := pkg.TypesInfo
	st := p.MustFunc(pkg, "parser.sortTerm")
	r.Saw(FuncName(pkg, st))
	type setting struct{ field, val string }
	got := map[string][]setting{}
	ast.Inspect(st.Body, func(n ast.Node) bool {
		as, ok := n.(*ast.AssignStmt)
		if !ok || len(as.Lhs) != 1 || len(as.Rhs) != 1 {
			return true
		}
		f := selField(info, as.Lhs[0])
		if f == nil || (f.Name() != "Asc" && f.Name() != "NullsFirst") {
			return true
		}
		v := constOf(info, as.Rhs[0])
		if v == nil || v.Kind() != constant.Bool {
			got["?"] = append(got["?"], setting{f.Name(), "non-constant"})
			return true
		}
		// innermost case clause with a string constant
		word := "?"
		p.ancestors(as, st, func(anc, _ ast.Node) bool {
			cc, ok := anc.(*ast.CaseClause)
			if !ok {
				return true
			}
			for _, e := range cc.List {
				ast.Inspect(e, func(m ast.Node) bool {
					if ex, ok := m.(ast.Expr); ok {
						if s, ok := constString(info, ex); ok && word == "?" {
							word = s
						}
					}
					return true
				})
			}
			return word == "?"
		})
		got[word] = append(got[word], setting{f.Name(), v.String()})
		return true
	})
	want := map[string][]setting{
		"asc":   {{"Asc", "true"}, {"NullsFirst", "true"}},
		"desc":  {{"Asc", "false"}, {"NullsFirst", "false"}},
		"first": {{"NullsFirst", "true"}},
		"last":  {{"NullsFirst", "false"}},
	}
	norm := func(l []setting) string {
		var ss []string
		for _, s := range l {
			ss = append(ss, s.field+"="+s.val)
		}
		sort.Strings(ss)
		return strings.Join(ss, ",")
	}
	for _, w := range []string{"asc", "desc", "first", "last"} {
		r.Check(norm(got[w]) == norm(want[w]), rule, fmt.Sprintf("parser.(*parser).sortTerm keyword %q", w), p.Pos(st.Pos()), "sets "+norm(want[w]), fmt.Sprintf("keyword %q sets {%s}, documented {%s}", w, norm(got[w]), norm(want[w])))
	}
	for w := range got {
		if _, ok := want[w]; !ok {
			r.Fail(rule, fmt.Sprintf("parser.(*parser).sortTerm setting under %q", w), p.Pos(st.Pos()), fmt.Sprintf("sort flags are set under an undocumented keyword/condition %q: {%s}", w, norm(got[w])))
		}
	}
	// default: the SortTerm literal leaves both flags false
	okDef := true
	ast.Inspect(st.Body, func(n ast.Node) bool {
		if cl, ok := n.(*ast.CompositeLit); ok && TypeStr(info.TypeOf(cl)) == "parser.SortTerm" {
			for _, f := range []string{"Asc", "NullsFirst"} {
				if v := litField(info, cl, f); v != nil {
					if c := constOf(info, v); c == nil || c.String() != "false" {
						okDef = false
					}
				}
			}
		}
		return true
	})
	r.Check(okDef, rule, "parser.(*parser).sortTerm default", p.Pos(st.Pos()), "a bare sort term is descending with nulls last", "a sort term without keywords does not default to descending / nulls last")

	// compiler side: Asc -> ASC / DESC, NullsFirst -> NULLS FIRST / NULLS LAST
	wr := p.MustFunc(p.PQL, "subquery.write")
	pinfo := p.PQL.TypesInfo
	r.Saw(FuncName(p.PQL, wr))
	_ = pinfo
	g := p.Grammar()
	// decided on the derived grammar: wherever one of the four words is written, the path facts say which value the
	// term's flag has - whatever the shape of the code that picks the word (if/else, a variable, a helper)
	check := func(field, thenWord, elseWord string) {
		seen := map[string]bool{}
		ok := true
		why := ""
		for _, o := range g.occs {
			if o.Ev.Kind != "T" {
				continue
			}
			word := strings.ToUpper(strings.TrimSpace(o.Ev.Text))
			if word != thenWord && word != elseWord {
				continue
			}
			// the flag of the term being written
			val, known := "", false
			for _, k := range o.St.Keys() {
				if strings.HasSuffix(k, "."+field) && !strings.HasPrefix(k, "val:") {
					if f := o.St.Get(k); f != nil && f.HasEq {
						if known && val != f.Eq {
							known = false
							break
						}
						val, known = f.Eq, true
					}
				}
			}
			seen[word] = true
			want := "false"
			if word == thenWord {
				want = "true"
			}
			if !known || val != want {
				ok = false
				why = fmt.Sprintf("%q is written at %s where %s is %s", word, p.Pos(o.Ev.Call.Pos()), field, map[bool]string{true: val, false: "not determined"}[known])
			}
		}
		if !seen[thenWord] || !seen[elseWord] {
			ok = false
			why = fmt.Sprintf("words written: %v", keysOf(seen))
		}
		r.Check(ok, rule, fmt.Sprintf("pql.(*subquery).write renders %s", field), p.Pos(wr.Pos()), fmt.Sprintf("%s -> %q, otherwise %q (path facts at every place either word is written)", field, thenWord, elseWord), fmt.Sprintf("the ORDER BY writer does not render %s as %q / %q: %s", field, thenWord, elseWord, why))
	}
	check("Asc", "ASC", "DESC")
	check("NullsFirst", "NULLS FIRST", "NULLS LAST")
	r.Floor(rule, 7)
}

// ---- C07/statements: Parse looks at every statement; its loop ends only when the tokens are exhausted.
func ruleC07Statements(p *Program, r *Run) {
	pkg := p.Parser
	info := pkg.TypesInfo
	fd := p.MustFunc(pkg, "Parse")
	fn := FuncName(pkg, fd)
	r.Saw(fn)
	next := FuncObj(pkg, p.MustFunc(pkg, "parser.next"))
	var loop *ast.ForStmt
	for _, s := range fd.Body.List {
		if fs, ok := s.(*ast.ForStmt); ok {
			loop = fs
		}
	}
	if loop == nil {
		r.Fail("C07/statements", fn+" statement loop", p.Pos(fd.Pos()), "no statement loop found in Parse")
		return
	}
	var bad []string
	exits := 0
	var walk func(n ast.Node, depth int)
	walk = func(n ast.Node, depth int) {
		ast.Inspect(n, func(x ast.Node) bool {
			switch v := x.(type) {
			case *ast.FuncLit:
				return false
			case *ast.ForStmt, *ast.RangeStmt, *ast.SwitchStmt, *ast.TypeSwitchStmt:
				if x != ast.Node(loop.Body) {
					// breaks inside nested breakable statements do not leave the statement loop unless labelled
					ast.Inspect(x, func(y ast.Node) bool {
						if b, ok := y.(*ast.BranchStmt); ok && b.Tok == token.BREAK && b.Label != nil {
							bad = append(bad, "labelled break at "+p.Pos(b.Pos()))
						}
						if _, ok := y.(*ast.ReturnStmt); ok {
							bad = append(bad, "return inside the loop at "+p.Pos(y.Pos()))
						}
						return true
					})
					return false
				}
			case *ast.ReturnStmt:
				bad = append(bad, "return inside the loop at "+p.Pos(v.Pos()))
			case *ast.BranchStmt:
				if v.Tok != token.BREAK {
					return true
				}
				exits++
				// must be the body of `if _, ok := p.next(); !ok { break }`
				okExit := false
				if blk, ok := p.Parent(v).(*ast.BlockStmt); ok && len(blk.List) == 1 {
					if ifs, ok := p.Parent(blk).(*ast.IfStmt); ok && ifs.Body == blk {
						if as, ok := ifs.Init.(*ast.AssignStmt); ok && len(as.Lhs) == 2 && len(as.Rhs) == 1 {
							if call, ok := as.Rhs[0].(*ast.CallExpr); ok && Callee(info, call) == next {
								if un, ok := ast.Unparen(ifs.Cond).(*ast.UnaryExpr); ok && un.Op == token.NOT && objOf(info, un.X) == objOf(info, as.Lhs[1]) {
									okExit = true
								}
							}
						}
					}
				}
				if !okExit {
					bad = append(bad, "break at "+p.Pos(v.Pos())+" that is not `if _, ok := p.next(); !ok`")
				}
			}
			return true
		})
	}
	walk(loop.Body, 0)
	r.Check(len(bad) == 0 && exits >= 1 && loop.Cond == nil, "C07/statements", fn+" statement loop ends only at the end of the tokens", p.Pos(loop.Pos()), "the only exit is `next()` reporting the end of the token stream: empty statements are skipped, every other one is parsed", "Parse's statement loop can end before the token stream is exhausted ("+strings.Join(bad, "; ")+"): statements after that point are dropped without an error")
	r.Floor("C07/statements", 1)
}

// ---- C07/keeps: whatever a sub-production parsed ends up in the tree.
// For every call of a parser production whose first result is a syntax-tree node, that result is stored into a field
// (or appended to a slice field) of the node being built, placed in a node literal, or returned.
func ruleC07Keeps(p *Program, r *Run) {
	pkg := p.Parser
	info := pkg.TypesInfo
	nodeIface := p.Iface(pkg, "Node")
	isNodeVal := func(t types.Type) bool {
		if sl, ok := t.Underlying().(*types.Slice); ok {
			t = sl.Elem()
		}
		return types.Implements(t, nodeIface)
	}
	n := 0
	for _, fd := range AllFuncs(pkg) {
		if fd.Recv == nil || recvTypeName(fd.Recv.List[0].Type) != "parser" {
			if !(fd.Name.Name == "Parse" && fd.Recv == nil) {
				continue
			}
		}
		fn := FuncName(pkg, fd)
		ast.Inspect(fd.Body, func(x ast.Node) bool {
			as, ok := x.(*ast.AssignStmt)
			if !ok || len(as.Rhs) != 1 || len(as.Lhs) < 1 {
				return true
			}
			call, ok := as.Rhs[0].(*ast.CallExpr)
			if !ok {
				return true
			}
			callee := Callee(info, call)
			isProd := callee != nil && cursorOf(callee) == "parser" && callee.Name() != "next" && callee.Name() != "split" && callee.Name() != "splitSemi"
			isFirst := callee != nil && (callee.Name() == "firstParse" || (callee.Origin() != nil && callee.Origin().Name() == "firstParse"))
			if !isProd && !isFirst {
				return true
			}
			var t types.Type
			if sig, ok := info.TypeOf(call.Fun).(*types.Signature); ok && sig.Results().Len() >= 1 {
				t = sig.Results().At(0).Type()
			}
			if t == nil || !isNodeVal(t) {
				return true
			}
			n++
			if id, isID := as.Lhs[0].(*ast.Ident); isID && id.Name == "_" {
				r.Saw(fn)
				r.Fail("C07/keeps", fmt.Sprintf("%s result #%d of %s", fn, n, exprStr(call.Fun)), p.Pos(as.Pos()), "the node parsed by "+exprStr(call.Fun)+" is assigned to _: that part of the source is parsed and then dropped")
				return true
			}
			r.Saw(fn)
			key := fmt.Sprintf("%s result #%d of %s", fn, n, exprStr(call.Fun))
			// stored straight into a field?
			if _, isSel := ast.Unparen(as.Lhs[0]).(*ast.SelectorExpr); isSel {
				r.Pass("C07/keeps", key, p.Pos(as.Pos()), "stored directly into a field of the node being built")
				return true
			}
			v := objOf(info, as.Lhs[0])
			if v == nil {
				r.Fail("C07/keeps", key, p.Pos(as.Pos()), "the parsed node is discarded")
				return true
			}
			kept := false
			scope := ast.Node(fd.Body)
			ast.Inspect(scope, func(y ast.Node) bool {
				switch u := y.(type) {
				case *ast.KeyValueExpr:
					if objOf(info, u.Value) == v {
						kept = true
					}
				case *ast.CompositeLit:
					for _, el := range u.Elts {
						if objOf(info, el) == v {
							kept = true
						}
					}
				case *ast.CallExpr:
					if IsBuiltinCall(info, u, "append") {
						for _, a := range u.Args[1:] {
							if objOf(info, a) == v {
								kept = true
							}
						}
					} else if sel, ok := ast.Unparen(u.Fun).(*ast.SelectorExpr); ok && objOf(info, sel.X) == v && isNodeVal(info.TypeOf(u)) {
						kept = true // wrapped into another node (id.AsQualified())
					} else if f := Callee(info, u); f != nil && cursorOf(f) == "parser" {
						for _, a := range u.Args {
							if objOf(info, a) == v {
								kept = true // handed on to another production (exprBinaryTrail(x, ...))
							}
						}
					}
				case *ast.AssignStmt:
					for i, l := range u.Lhs {
						if _, isSel := ast.Unparen(l).(*ast.SelectorExpr); isSel && i < len(u.Rhs) && objOf(info, u.Rhs[i]) == v {
							kept = true
						}
					}
				case *ast.ReturnStmt:
					for _, res := range u.Results {
						if objOf(info, res) == v {
							kept = true
						}
					}
				}
				return true
			})
			r.Check(kept, "C07/keeps", key, p.Pos(as.Pos()), "the parsed node is placed in the tree (field, slice element, node literal) or returned", "the node parsed by "+exprStr(call.Fun)+" is never stored in the tree or returned: that part of the source is parsed and then dropped")
			return true
		})
	}
	r.Floor("C07/keeps", 25)
}

// signClient observes the construction of UnaryExpr nodes in unaryExpr.
type signClient struct {
	BaseClient
	p          *Program
	next       *types.Func
	kinds      map[string]bool
	lits       int
	keepsOp    bool
	operand    *types.Func
	operandBad bool
}

func (c *signClient) PostAssign(e *Engine, st *State, lhs, rhs []ast.Expr, _ ast.Stmt) *State {
	if len(rhs) != 1 || len(lhs) < 1 {
		return nil
	}
	call, ok := ast.Unparen(rhs[0]).(*ast.CallExpr)
	if !ok {
		return nil
	}
	f := Callee(e.Info, call)
	if f == nil {
		return nil
	}
	o := objOf(e.Info, lhs[0])
	if o == nil {
		return nil
	}
	if f == c.next {
		return st.WithExt("sign:tok", e.objKey(o))
	}
	// a production result: remember which one the variable holds
	if f.Pkg() != nil && f.Pkg().Path() == PathParser && f.Type().(*types.Signature).Recv() != nil {
		return st.WithExt("prod:"+e.objKey(o), f.Name())
	}
	return nil
}

func (c *signClient) Visit(e *Engine, st *State, n ast.Node) *State {
	cl, ok := n.(*ast.CompositeLit)
	if !ok || TypeStr(e.Info.TypeOf(cl)) != "parser.UnaryExpr" || !e.Reporting() {
		return nil
	}
	c.lits++
	op := litField(e.Info, cl, "Op")
	if op != nil {
		if name := constName(e.Info, op); name != "" {
			c.kinds[name] = true
		} else if f := e.FactOf(st, op); f != nil && f.HasEq {
			c.kinds[c.p.constNameByValue(c.p.Parser, "TokenKind", f.Eq)] = true
		} else {
			c.kinds["?"+exprStr(op)] = true
		}
		// the recorded kind is that of the token read last
		if k := e.CanonSt(st, op); k.OK && st.Ext("sign:tok") != "" {
			tk := st.Ext("sign:tok")
			if a := st.Get("val:" + tk); a != nil && a.Alias != nil {
				tk = a.Alias.Key
			}
			if k.Key == tk+".Kind" {
				c.keepsOp = true
			}
		}
	}
	if x := litField(e.Info, cl, "X"); x != nil {
		var callee *types.Func
		if call, ok := ast.Unparen(x).(*ast.CallExpr); ok {
			callee = Callee(e.Info, call)
		} else if o := objOf(e.Info, x); o != nil {
			if name := st.Ext("prod:" + e.objKey(o)); name != "" {
				if fd := c.p.FuncDecl(c.p.Parser, "parser."+name); fd != nil {
					callee = FuncObj(c.p.Parser, fd)
				}
			}
		}
		if c.operand != nil && callee != c.operand {
			c.operandBad = true
		}
		if callee == nil {
			c.operandBad = true
		}
		c.operand = callee
	}
	return nil
}
