package pc

import (
	"fmt"
	"go/ast"
	"go/token"
	"go/types"
	"os"
	"sort"
	"strings"
)

// ---- C07: the parser builds the documented tree (tables and call shapes).

// precedenceTable reads operatorPrecedence's switch: kind name -> precedence; def = default value.
func (p *Program) precedenceTable() (tbl map[string]int64, def int64, pos token.Pos) {
	pkg := p.Parser
	info := pkg.TypesInfo
	fd := p.MustFunc(pkg, "operatorPrecedence")
	tbl = map[string]int64{}
	def = -1 << 30
	found := false
	ast.Inspect(fd.Body, func(n ast.Node) bool {
		sw, ok := n.(*ast.SwitchStmt)
		if !ok || sw.Tag == nil {
			return true
		}
		found = true
		for _, c := range sw.Body.List {
			cc := c.(*ast.CaseClause)
			var val int64
			okRet := false
			for _, s := range cc.Body {
				if ret, ok := s.(*ast.ReturnStmt); ok && len(ret.Results) == 1 {
					if v, ok := constInt(info, ret.Results[0]); ok {
						val, okRet = v, true
					}
				}
			}
			if !okRet {
				fatalf("operatorPrecedence: a case does not return a constant (%s)", p.Pos(cc.Pos()))
			}
			if cc.List == nil {
				def = val
				continue
			}
			for _, e := range cc.List {
				name := constName(info, e)
				if name == "" {
					fatalf("operatorPrecedence: non-constant case at %s", p.Pos(e.Pos()))
				}
				tbl[name] = val
			}
		}
		return false
	})
	if !found {
		fatalf("anchor not found: switch in operatorPrecedence")
	}
	// a trailing `return -1` instead of a default clause
	if def == -1<<30 {
		if ret, ok := fd.Body.List[len(fd.Body.List)-1].(*ast.ReturnStmt); ok && len(ret.Results) == 1 {
			if v, ok := constInt(info, ret.Results[0]); ok {
				def = v
			}
		}
	}
	return tbl, def, fd.Pos()
}

var docPrecLevels = [][]string{
	{"TokenOr"},
	{"TokenAnd"},
	{"TokenEq", "TokenNE", "TokenLT", "TokenLE", "TokenGT", "TokenGE", "TokenCaseInsensitiveEq", "TokenCaseInsensitiveNE", "TokenIn"},
	{"TokenPlus", "TokenMinus"},
	{"TokenStar", "TokenSlash", "TokenMod"},
}

func ruleC07Prec(p *Program, r *Run) {
	tbl, def, pos := p.precedenceTable()
	r.Saw("parser.operatorPrecedence")
	ps := p.Pos(pos)
	r.Check(def < 0, "C07/prec", "parser.operatorPrecedence default", ps, "every other token kind is not a binary operator (negative)", fmt.Sprintf("the default precedence is %d (not negative): arbitrary tokens would be parsed as binary operators", def))
	documented := map[string]bool{}
	for li, level := range docPrecLevels {
		for _, k := range level {
			documented[k] = true
			v, ok := tbl[k]
			key := "parser.operatorPrecedence " + k
			if !ok || v < 0 {
				r.Fail("C07/prec", key, ps, k+" has no non-negative precedence: the operator would not be parsed as a binary operator")
				continue
			}
			bad := ""
			if v != tbl[level[0]] {
				bad = fmt.Sprintf("%s (%d) and %s (%d) are documented to bind equally", k, v, level[0], tbl[level[0]])
			}
			if li > 0 {
				if prev, ok := tbl[docPrecLevels[li-1][0]]; ok && !(prev < v) {
					bad = fmt.Sprintf("%s (%d) must bind tighter than %s (%d)", k, v, docPrecLevels[li-1][0], prev)
				}
			}
			r.Check(bad == "", "C07/prec", key, ps, fmt.Sprintf("level %d of or < and < comparisons < + - < * / %%", li), bad)
		}
	}
	var extra []string
	for k, v := range tbl {
		if !documented[k] && v >= 0 {
			extra = append(extra, k)
		}
	}
	sort.Strings(extra)
	r.Check(len(extra) == 0, "C07/prec", "parser.operatorPrecedence only documented operators", ps, "no other token kind has a precedence", fmt.Sprintf("token kinds %v have a binary-operator precedence but are not documented binary operators (the compiler has no translation for them)", extra))
	// every binary operator kind is produced by the lexer (C09 tables)
	produced := map[string]bool{}
	for _, k := range docOneChar {
		produced[k] = true
	}
	for _, fam := range docTwoChar {
		for _, k := range fam {
			produced[k] = true
		}
	}
	for _, k := range docKeywords {
		produced[k] = true
	}
	for _, level := range docPrecLevels {
		for _, k := range level {
			r.Check(produced[k], "C07/kinds", "parser.operatorPrecedence "+k+" is a lexer token", ps, "documented lexer token (its production is checked by C09/tables)", k+" is never produced by the lexer")
		}
	}
	r.Floor("C07/prec", 16)
}

// ---- C07/assoc: precedence climbing shape, with path facts.

type assocClient struct {
	BaseClient
	InlinePredicates
	p        *Program
	fn       string
	self     *types.Func
	precFn   *types.Func
	minParam types.Object
	xParam   types.Object
	binT     types.Type
	inT      types.Type
	recCalls int
	inConts  int // iterations that built an InExpr and went on with the operator loop
	inBad    string
}

// Inline: predicates, and helpers of the operator loop that build the InExpr / BinaryExpr nodes.
func (c *assocClient) Inline(e *Engine, call *ast.CallExpr, callee *types.Func, decl *ast.FuncDecl) bool {
	if c.InlinePredicates.Inline(e, call, callee, decl) {
		return true
	}
	if callee == c.self || callee.Pkg() == nil || callee.Pkg().Path() != PathParser || !smallBody(decl) {
		return false
	}
	builds := false
	ast.Inspect(decl.Body, func(n ast.Node) bool {
		if cl, ok := n.(*ast.CompositeLit); ok {
			if t := e.Info.TypeOf(cl); t != nil && (types.Identical(t, c.inT) || types.Identical(t, c.binT)) {
				builds = true
			}
		}
		return !builds
	})
	return builds
}

// LoopBack: an iteration of the operator loop that built an `in` test goes on with that test as the left operand.
func (c *assocClient) LoopBack(e *Engine, st *State, loop ast.Stmt) {
	fs, ok := loop.(*ast.ForStmt)
	if !ok || e.P.Parent(e.P.Parent(fs)) != ast.Node(e.Func) || st.Ext("sawIn") != "1" || !e.Reporting() {
		return
	}
	c.inConts++
	f := st.GetVar(e.objKey(c.xParam))
	if f == nil || len(f.TyIn) != 1 || f.TyIn[0] != "*parser.InExpr" {
		c.inBad = "an iteration that parsed `x in (...)` continues the operator loop while the accumulated expression is not (known to be) the InExpr just built"
	}
}

// precVarOf: returns the key of a variable assigned from operatorPrecedence(...), recorded in ext.
func (c *assocClient) PostAssign(e *Engine, st *State, lhs, rhs []ast.Expr, _ ast.Stmt) *State {
	if len(lhs) == 1 && len(rhs) == 1 {
		if call, ok := ast.Unparen(rhs[0]).(*ast.CallExpr); ok && Callee(e.Info, call) == c.precFn {
			if k := e.CanonSt(st, lhs[0]); k.OK {
				// first one in the loop body is the current operator, the second the look-ahead
				if st.Ext("prec1") == "" {
					return st.WithExt("prec1", k.Key)
				}
				return st.WithExt("prec2", k.Key)
			}
		}
	}
	return nil
}

func (c *assocClient) LoopHead(e *Engine, st *State, loop ast.Stmt) *State {
	// entering the outer loop body starts a new operator
	if fs, ok := loop.(*ast.ForStmt); ok && e.P.Parent(e.P.Parent(fs)) == ast.Node(e.Func) {
		return st.WithExt("prec1", "").WithExt("prec2", "").WithExt("sawIn", "")
	}
	return st.WithExt("prec2", "")
}

func (c *assocClient) PreCall(e *Engine, st *State, call *ast.CallExpr, callee *types.Func) *State {
	if callee != c.self {
		return nil
	}
	c.recCalls++
	key := c.fn + " recursive call for the right operand"
	p1 := st.Ext("prec1")
	// (a) the minimum precedence passed down is prec1 + c, c >= 1
	okMin := false
	if b, ok := ast.Unparen(call.Args[1]).(*ast.BinaryExpr); ok && b.Op == token.ADD {
		if k := e.CanonSt(st, b.X); k.OK && k.Key == p1 && p1 != "" {
			if v, ok := constInt(e.Info, b.Y); ok && v >= 1 {
				okMin = true
			}
		}
	}
	e.Site("C07/assoc", key+": minimum", call, okMin, "right operand parsed with minimum precedence = current + 1 (left associativity among equals)")
	if !okMin {
		e.Site("C07/assoc", key+": minimum", call, false, "the right operand is not parsed with a minimum precedence strictly above the current operator's: operators of equal precedence would group to the right (a - b - c = a - (b - c))")
	}
	// (b) it is only taken when the look-ahead operator binds strictly tighter
	p2 := st.Ext("prec2")
	okGt := false
	// the precedence of the look-ahead token: a variable assigned from operatorPrecedence(...) or the call itself
	isPrec := func(k string) bool {
		return (p2 != "" && k == p2) || (strings.HasPrefix(k, "call:"+c.precFn.FullName()+"(") && k != p1)
	}
	if p1 != "" {
		for _, k := range st.Keys() {
			f := st.Get(k)
			if f == nil || !f.HasEq {
				continue
			}
			if strings.HasPrefix(k, "("+p1+" < ") && strings.HasSuffix(k, ")") && f.Eq == "true" && isPrec(k[len("("+p1+" < "):len(k)-1]) {
				okGt = true
			}
			if strings.HasSuffix(k, " <= "+p1+")") && strings.HasPrefix(k, "(") && f.Eq == "false" && isPrec(k[1:len(k)-len(" <= "+p1+")")]) {
				okGt = true
			}
		}
	}
	e.Site("C07/assoc", key+": guard", call, okGt, "taken only when the next operator binds strictly tighter than the current one")
	if !okGt {
		e.Site("C07/assoc", key+": guard", call, false, "the right operand is extended although the next operator is not known to bind strictly tighter than the current one: precedence/associativity of the tree would be wrong")
	}
	return nil
}

func (c *assocClient) Visit(e *Engine, st *State, n ast.Node) *State {
	cl, ok := n.(*ast.CompositeLit)
	if !ok {
		return nil
	}
	t := e.Info.TypeOf(cl)
	switch {
	case types.Identical(t, c.binT):
		key := c.fn + " BinaryExpr construction"
		// guard facts at the construction: prec1 >= 0 and prec1 >= minPrecedence
		p1 := st.Ext("prec1")
		okNonNeg, okMin := false, false
		if f := st.Get(p1); f != nil && f.Lo != nil && *f.Lo >= 0 {
			okNonNeg = true
		}
		mk := e.objKey(c.minParam)
		if f := st.Get("(" + p1 + " < " + mk + ")"); f != nil && f.HasEq && f.Eq == "false" {
			okMin = true
		}
		if f := st.Get("(" + mk + " <= " + p1 + ")"); f != nil && f.HasEq && f.Eq == "true" {
			okMin = true
		}
		// the minimum is a known number on this path (a negative minimum normalised to 0): the bound on the
		// precedence says the same
		if fm, fp := st.Get(mk), st.Get(p1); fm != nil && fp != nil && fp.Lo != nil {
			if fm.HasEq {
				if m, isInt := parseInt(fm.Eq); isInt && *fp.Lo >= m {
					okMin = true
				}
			} else if fm.Hi != nil && *fp.Lo >= *fm.Hi {
				okMin = true
			}
		}
		ok := okNonNeg && okMin
		e.Site("C07/assoc", key+": operator admitted", cl, ok, "built only for a token with precedence >= 0 and >= the minimum of this level")
		if !ok {
			e.Site("C07/assoc", key+": operator admitted", cl, false, "a BinaryExpr can be built for a token whose precedence is negative or below this level's minimum (or the bound is not exactly `>= min`): grouping by precedence would be wrong")
		}
		// shape: X is the accumulated left operand, Op is the current operator's kind
		xv := litField(e.Info, cl, "X")
		okX := xv != nil && objOf(e.Info, e.ResolveExpr(xv)) == c.xParam
		e.Site("C07/assoc", key+": left operand", cl, okX, "left operand is everything parsed so far at this level (left associativity)")
		if !okX {
			e.Site("C07/assoc", key+": left operand", cl, false, "the left operand of the new BinaryExpr is not the expression accumulated so far")
		}
	case types.Identical(t, c.inT):
		xv := litField(e.Info, cl, "X")
		okX := xv != nil && objOf(e.Info, e.ResolveExpr(xv)) == c.xParam
		key := fmt.Sprintf("%s InExpr construction #%d: left operand", c.fn, c.ordinalLit(e, cl))
		e.Site("C07/in", key, cl, okX, "`x in (...)` takes everything parsed so far at this level as its left operand")
		if !okX {
			e.Site("C07/in", key, cl, false, "the left operand of `in` is not the expression accumulated so far")
		}
		return st.WithExt("sawIn", "1")
	}
	return nil
}

func (c *assocClient) ordinalLit(e *Engine, lit *ast.CompositeLit) int {
	n, idx := 0, 0
	ast.Inspect(e.CurFunc().Body, func(x ast.Node) bool {
		if cl, ok := x.(*ast.CompositeLit); ok && types.Identical(e.Info.TypeOf(cl), c.inT) {
			n++
			if cl == lit {
				idx = n
			}
		}
		return true
	})
	return idx
}

func ruleC07Assoc(p *Program, r *Run) {
	pkg := p.Parser
	info := pkg.TypesInfo
	fd := p.MustFunc(pkg, "parser.exprBinaryTrail")
	fn := FuncName(pkg, fd)
	r.Saw(fn)
	c := &assocClient{p: p, fn: fn, self: FuncObj(pkg, fd), precFn: FuncObj(pkg, p.MustFunc(pkg, "operatorPrecedence")),
		binT: p.Named(pkg, "BinaryExpr"), inT: p.Named(pkg, "InExpr")}
	params := fd.Type.Params.List
	if len(params) != 2 {
		fatalf("exprBinaryTrail: expected (x Expr, minPrecedence int)")
	}
	c.xParam = info.Defs[params[0].Names[0]]
	c.minParam = info.Defs[params[1].Names[0]]
	e := NewEngine(p, pkg, fd, c)
	e.Run(nil)
	for _, m := range e.Errs {
		r.Fail("C07/assoc", fn+" engine", "-", m)
	}
	e.FlushSites(r)
	r.Check(c.recCalls > 0, "C07/assoc", fn+" climbs", p.Pos(fd.Pos()), "higher-precedence operators are resolved by a recursive call", "no recursive call: operators are folded strictly left to right, ignoring precedence")
	r.Floor("C07/assoc", 5)

	// the successful `in` branch continues the loop with the InExpr as the new left operand (path facts at the loop's back edge)
	okCont := c.inConts > 0 && c.inBad == ""
	r.Check(okCont, "C07/in", fn+" `in` continues the operator loop", p.Pos(fd.Pos()), "after `x in (...)` the loop continues with the InExpr as left operand: any following operator applies to the whole test", "after a complete `x in (...)` the operator loop is not continued with the InExpr as the new left operand: `a in (1) and b` would lose or misplace the following operator")
	r.Floor("C07/in", 3)

	// expr: starts at minimum precedence 0 (admits `or`)
	ex := p.MustFunc(pkg, "parser.expr")
	okZero := false
	ast.Inspect(ex.Body, func(n ast.Node) bool {
		if call, ok := n.(*ast.CallExpr); ok && Callee(info, call) == c.self && len(call.Args) == 2 {
			if v, ok := constInt(info, call.Args[1]); ok {
				tbl, _, _ := p.precedenceTable()
				lowest := int64(1 << 30)
				for _, pv := range tbl {
					if pv >= 0 && pv < lowest {
						lowest = pv
					}
				}
				okZero = v <= lowest
			}
		}
		return true
	})
	r.Check(okZero, "C07/assoc", FuncName(pkg, ex)+" admits every operator", p.Pos(ex.Pos()), "a full expression is parsed with the lowest precedence as minimum", "a full expression is parsed with a minimum precedence above the weakest operator: `a or b` would stop after a")
}

// ---- C07/sign, C07/synonyms, C07/sortdefaults.

func ruleC07Shapes(p *Program, r *Run) {
	pkg := p.Parser
	info := pkg.TypesInfo
	// sign: operand parsed by primaryExpr
	un := p.MustFunc(pkg, "parser.unaryExpr")
	r.Saw(FuncName(pkg, un))
	primary := FuncObj(pkg, p.MustFunc(pkg, "parser.primaryExpr"))
	// Decided on the path facts at the place the UnaryExpr is built: which token kinds the sign can have there, that
	// the node records the kind of the token just read, and which production parsed the operand.
	sc := &signClient{p: p, kinds: map[string]bool{}, next: FuncObj(pkg, p.MustFunc(pkg, "parser.next"))}
	se := NewEngine(p, pkg, un, sc)
	se.Run(nil)
	for _, m := range se.Errs {
		r.Fail("C07/sign", "parser.(*parser).unaryExpr engine", "-", m)
	}
	if sc.lits == 0 {
		r.Fail("C07/sign", "parser.(*parser).unaryExpr sign case", p.Pos(un.Pos()), "no UnaryExpr is built by unaryExpr")
	} else {
		r.Check(sc.kinds["TokenPlus"] && sc.kinds["TokenMinus"] && len(sc.kinds) == 2, "C07/sign", "parser.(*parser).unaryExpr sign tokens", p.Pos(un.Pos()), "exactly + and - are prefix signs (token kinds possible where the UnaryExpr is built)", fmt.Sprintf("a UnaryExpr is built for token kinds %v, documented: + and -", keysOf(sc.kinds)))
		r.Check(sc.operand == primary && !sc.operandBad, "C07/sign", "parser.(*parser).unaryExpr sign operand", p.Pos(un.Pos()), "operand of a sign is a primary expression (binds tighter than any binary operator, looser than indexing and calls)", fmt.Sprintf("the operand of a sign is parsed by %v, not by primaryExpr: `-a * b` or `- -a` would group differently from the documented grammar", sc.operand))
		// a sign changes nothing about what may follow it: the operand of a sign and an operand without a sign are
		// parsed by the same production (whatever it is called today)
		{
			callees := map[*types.Func]bool{}
			var names []string
			ast.Inspect(un.Body, func(n ast.Node) bool {
				call, ok := n.(*ast.CallExpr)
				if !ok {
					return true
				}
				f := Callee(info, call)
				if f == nil || cursorOf(f) != "parser" || f == FuncObj(pkg, un) {
					return true
				}
				sig := f.Type().(*types.Signature)
				if sig.Results().Len() != 2 || !types.Identical(sig.Results().At(0).Type(), p.Named(pkg, "Expr")) {
					return true
				}
				if !callees[f] {
					callees[f] = true
					names = append(names, f.Name())
				}
				return true
			})
			sort.Strings(names)
			r.Check(len(callees) <= 1, "C07/sign", "parser.(*parser).unaryExpr one operand production", p.Pos(un.Pos()), "signed and unsigned operands are parsed by the same production",
				fmt.Sprintf("unaryExpr parses its operand with different productions depending on the sign (%s): what may follow an operand - indexing, a call - would be accepted without a sign and rejected (or grouped differently) with one", strings.Join(names, ", ")))
		}
		r.Check(sc.keepsOp, "C07/sign", "parser.(*parser).unaryExpr keeps the sign", p.Pos(un.Pos()), "UnaryExpr.Op is the kind of the token read as the sign", "the UnaryExpr does not record the sign token's kind")
	}
	_ = info
	r.Floor("C07/sign", 3)

	// synonyms and operator table
	te := p.MustFunc(pkg, "parser.tabularExpr")
	r.Saw(FuncName(pkg, te))
	wantOp := map[string]string{
		"count": "CountOperator", "where": "WhereOperator", "filter": "WhereOperator", "sort": "SortOperator", "order": "SortOperator",
		"take": "TakeOperator", "limit": "TakeOperator", "top": "TopOperator", "project": "ProjectOperator", "extend": "ExtendOperator",
		"summarize": "SummarizeOperator", "join": "JoinOperator", "as": "AsOperator", "render": "RenderOperator",
	}
	// Decided on path facts, whatever the dispatch looks like (a switch in place, a dispatcher function, helpers):
	// the result of an operator production is tagged with the production's name; where a value is appended to the
	// pipeline, its tag says which production built it and the fact on the keyword token says for which keyword.
	syn := &synClient{p: p, got: map[string]map[string]bool{}}
	se2 := NewEngine(p, pkg, te, syn)
	se2.Run(nil)
	for _, m := range se2.Errs {
		r.Fail("C07/synonyms", "parser.(*parser).tabularExpr engine", "-", m)
	}
	got := map[string]string{}
	prodOf := map[string]string{}
	for k, ps := range syn.got {
		var names []string
		for n := range ps {
			names = append(names, n)
		}
		sort.Strings(names)
		prodOf[k] = strings.Join(names, ",")
		if len(names) == 1 && strings.HasPrefix(names[0], "type:") {
			got[k] = strings.TrimPrefix(names[0], "type:*parser.")
		} else if len(names) == 1 {
			if fd := p.FuncDecl(pkg, "parser."+names[0]); fd != nil {
				got[k] = strings.TrimPrefix(TypeStr(FuncObj(pkg, fd).Type().(*types.Signature).Results().At(0).Type()), "*parser.")
			}
		} else {
			got[k] = "one of " + prodOf[k]
		}
	}
	// a dispatch through a table of productions (keyword -> parser method, possibly wrapped by an adapter): the
	// table is read instead, provided the pipeline is extended with what the looked-up production returns
	determined := 0
	for k := range got {
		if _, doc := wantOp[k]; doc {
			determined++
		}
	}
	if determined == 0 {
		if tbl := p.productionTable(wantOp); tbl != nil {
			appends := false
			for _, root := range p.regionOf(pkg, te.Body) {
				ast.Inspect(root, func(n ast.Node) bool {
					if as, ok := n.(*ast.AssignStmt); ok && len(as.Lhs) == 1 && len(as.Rhs) == 1 {
						if f := selField(info, as.Lhs[0]); f != nil && fldName(f) == "Operators" {
							if call, isCall := ast.Unparen(as.Rhs[0]).(*ast.CallExpr); isCall && IsBuiltinCall(info, call, "append") {
								appends = true
							}
						}
					}
					return true
				})
			}
			if appends {
				got, prodOf = map[string]string{}, map[string]string{}
				syn.got = map[string]map[string]bool{}
				for k, f := range tbl {
					prodOf[k] = fnName(f)
					got[k] = strings.TrimPrefix(TypeStr(f.Type().(*types.Signature).Results().At(0).Type()), "*parser.")
					syn.got[k] = map[string]bool{fnName(f): true}
				}
			}
		}
	}
	var kws []string
	for k := range wantOp {
		kws = append(kws, k)
	}
	sort.Strings(kws)
	for _, k := range kws {
		key := fmt.Sprintf("parser.(*parser).tabularExpr keyword %q", k)
		ok := got[k] == wantOp[k]
		msg := fmt.Sprintf("for keyword %q the pipeline is extended with %q (documented %s)", k, got[k], wantOp[k])
		r.Check(ok, "C07/synonyms", key, p.Pos(te.Pos()), "keyword builds "+wantOp[k]+" and appends it", msg)
	}
	var extra []string
	for k := range syn.got {
		if _, doc := wantOp[k]; !doc {
			extra = append(extra, k)
		}
	}
	sort.Strings(extra)
	for _, k := range extra {
		r.Fail("C07/synonyms", fmt.Sprintf("parser.(*parser).tabularExpr keyword %q", k), p.Pos(te.Pos()), fmt.Sprintf("the pipeline is extended (with %s) for a keyword that is not a documented operator name (\"?\" = on a path where the keyword is not determined)", prodOf[k]))
	}
	for _, pair := range [][2]string{{"where", "filter"}, {"sort", "order"}, {"take", "limit"}} {
		same := prodOf[pair[0]] != "" && prodOf[pair[0]] == prodOf[pair[1]]
		r.Check(same, "C07/synonyms", fmt.Sprintf("parser.(*parser).tabularExpr %s/%s share one production", pair[0], pair[1]), p.Pos(te.Pos()), "synonyms are parsed by the same production", fmt.Sprintf("%q is parsed by %s and %q by %s: the synonyms may diverge", pair[0], prodOf[pair[0]], pair[1], prodOf[pair[1]]))
	}
	r.Floor("C07/synonyms", 17)

	ruleSortDefaults(p, r, "C07/sortdefaults")
}

// ruleSortDefaults: the parser's sort-term defaults and the compiler's rendering of them.
func ruleSortDefaults(p *Program, r *Run, rule string) {
	pkg := p.Parser
	info := pkg.TypesInfo
	st := p.MustFunc(pkg, "parser.sortTerm")
	r.Saw(FuncName(pkg, st))
	// Decided on the path facts at every successful return of sortTerm: the keywords read on the path (facts on the
	// tokens' text, remembered while they hold) determine what the two flags must be.
	tc := &sortTermClient{p: p, seen: map[string]int{}, bad: map[string]string{}}
	te2 := NewEngine(p, pkg, st, tc)
	te2.Run(nil)
	for _, m := range te2.Errs {
		r.Fail(rule, "parser.(*parser).sortTerm engine", "-", m)
	}
	doc := map[string]string{
		"asc":   "Asc=true, NullsFirst=true unless `nulls last`",
		"desc":  "Asc=false, NullsFirst=false unless `nulls first`",
		"first": "NullsFirst=true",
		"last":  "NullsFirst=false",
	}
	for _, w := range []string{"asc", "desc", "first", "last"} {
		why := tc.bad[w]
		if tc.seen[w] == 0 && why == "" {
			why = "no successful return of sortTerm is reached with the keyword read"
		}
		r.Check(why == "", rule, fmt.Sprintf("parser.(*parser).sortTerm keyword %q", w), p.Pos(st.Pos()), "sets "+doc[w]+fmt.Sprintf(" (all %d returning path states with the keyword)", tc.seen[w]), fmt.Sprintf("keyword %q: %s; documented: %s", w, why, doc[w]))
	}
	if why := tc.bad[""]; why != "" {
		r.Fail(rule, "parser.(*parser).sortTerm without keywords", p.Pos(st.Pos()), why)
	}
	// default: the SortTerm literal leaves both flags false
	okDef := true
	ast.Inspect(st.Body, func(n ast.Node) bool {
		if cl, ok := n.(*ast.CompositeLit); ok && TypeStr(info.TypeOf(cl)) == "parser.SortTerm" {
			for _, f := range []string{"Asc", "NullsFirst"} {
				if v := litField(info, cl, f); v != nil {
					if c := constOf(info, v); c == nil || c.String() != "false" {
						okDef = false
					}
				}
			}
		}
		return true
	})
	r.Check(okDef, rule, "parser.(*parser).sortTerm default", p.Pos(st.Pos()), "a bare sort term is descending with nulls last", "a sort term without keywords does not default to descending / nulls last")

	// compiler side: Asc -> ASC / DESC, NullsFirst -> NULLS FIRST / NULLS LAST
	wr := p.MustFunc(p.PQL, "subquery.write")
	pinfo := p.PQL.TypesInfo
	r.Saw(FuncName(p.PQL, wr))
	_ = pinfo
	g := p.Grammar()
	// decided on the derived grammar: wherever one of the four words is written, the path facts say which value the
	// term's flag has - whatever the shape of the code that picks the word (if/else, a variable, a helper)
	check := func(field, thenWord, elseWord string) {
		seen := map[string]bool{}
		ok := true
		why := ""
		for _, o := range g.occs {
			if o.Ev.Kind != "T" {
				continue
			}
			// (a text may carry several of the words at once: " ASC NULLS FIRST" from a helper that returns both)
			word := ""
			fields := strings.Fields(strings.ToUpper(o.Ev.Text))
			for _, w := range []string{thenWord, elseWord} {
				ws := strings.Fields(w)
				for i := 0; i+len(ws) <= len(fields); i++ {
					if strings.Join(fields[i:i+len(ws)], " ") == w {
						word = w
					}
				}
			}
			if word == "" {
				continue
			}
			// the flag of the term being written
			val, known := "", false
			for _, k := range o.St.Keys() {
				if strings.HasSuffix(k, "."+field) && !strings.HasPrefix(k, "val:") {
					if f := o.St.Get(k); f != nil && f.HasEq {
						if known && val != f.Eq {
							known = false
							break
						}
						val, known = f.Eq, true
					}
				}
			}
			if os.Getenv("PQL_DEBUG_SORT") != "" {
				var ks []string
				for _, k := range o.St.Keys() {
					if strings.HasSuffix(k, "."+field) {
						ks = append(ks, k+"="+fmt.Sprint(o.St.Get(k).Eq))
					}
				}
				fmt.Fprintf(os.Stderr, "SORT field=%s text=%q word=%s keys=%v\n", field, o.Ev.Text, word, ks)
			}
			seen[word] = true
			want := "false"
			if word == thenWord {
				want = "true"
			}
			if !known || val != want {
				ok = false
				why = fmt.Sprintf("%q is written at %s where %s is %s", word, p.Pos(o.Ev.Call.Pos()), field, map[bool]string{true: val, false: "not determined"}[known])
			}
		}
		if !seen[thenWord] || !seen[elseWord] {
			ok = false
			why = fmt.Sprintf("words written: %v", keysOf(seen))
		}
		r.Check(ok, rule, fmt.Sprintf("pql.(*subquery).write renders %s", field), p.Pos(wr.Pos()), fmt.Sprintf("%s -> %q, otherwise %q (path facts at every place either word is written)", field, thenWord, elseWord), fmt.Sprintf("the ORDER BY writer does not render %s as %q / %q: %s", field, thenWord, elseWord, why))
	}
	check("Asc", "ASC", "DESC")
	check("NullsFirst", "NULLS FIRST", "NULLS LAST")
	r.Floor(rule, 7)
}

// ---- C07/statements: Parse looks at every statement; its loop ends only when the tokens are exhausted.
func ruleC07Statements(p *Program, r *Run) {
	pkg := p.Parser
	info := pkg.TypesInfo
	fd := p.MustFunc(pkg, "Parse")
	fn := FuncName(pkg, fd)
	r.Saw(fn)
	next := FuncObj(pkg, p.MustFunc(pkg, "parser.next"))
	var loop *ast.ForStmt
	for _, s := range fd.Body.List {
		if fs, ok := s.(*ast.ForStmt); ok {
			loop = fs
		}
	}
	if loop == nil {
		r.Fail("C07/statements", fn+" statement loop", p.Pos(fd.Pos()), "no statement loop found in Parse")
		return
	}
	// Decided on the path facts of every state that leaves the loop: the most recent next() of Parse's own parser
	// reported the end of the tokens (whatever form the loop takes: break under !ok, a loop condition, ...).
	sc2 := &stmtLoopClient{p: p, loop: loop, next: next}
	if len(fd.Body.List) > 0 {
		// Parse's own parser: the variable next() is called on inside the loop but outside sub-parsers
		ast.Inspect(loop, func(n ast.Node) bool {
			if call, ok := n.(*ast.CallExpr); ok && Callee(info, call) == next {
				if sel, ok := ast.Unparen(call.Fun).(*ast.SelectorExpr); ok {
					if o := objOf(info, sel.X); o != nil && (o.Pos() < loop.Pos() || o.Pos() >= loop.End()) {
						sc2.parser = o
					}
				}
			}
			return true
		})
	}
	se3 := NewEngine(p, pkg, fd, sc2)
	se3.Run(nil)
	bad := sc2.bad
	for _, m := range se3.Errs {
		bad = append(bad, m)
	}
	r.Check(len(bad) == 0 && sc2.exits >= 1 && sc2.parser != nil, "C07/statements", fn+" statement loop ends only at the end of the tokens", p.Pos(loop.Pos()), "every state leaving the loop knows that next() just reported the end of the token stream: empty statements are skipped, every other one is parsed", "Parse's statement loop can end before the token stream is exhausted ("+strings.Join(bad, "; ")+"): statements after that point are dropped without an error")
	r.Floor("C07/statements", 1)
}

// ---- C07/keeps: whatever a sub-production parsed ends up in the tree.
// For every call of a parser production whose first result is a syntax-tree node, that result is stored into a field
// (or appended to a slice field) of the node being built, placed in a node literal, or returned.
func ruleC07Keeps(p *Program, r *Run) {
	pkg := p.Parser
	info := pkg.TypesInfo
	nodeIface := p.Iface(pkg, "Node")
	isNodeVal := func(t types.Type) bool {
		if sl, ok := t.Underlying().(*types.Slice); ok {
			t = sl.Elem()
		}
		return types.Implements(t, nodeIface)
	}
	n := 0
	for _, fd := range AllFuncs(pkg) {
		if fd.Recv == nil || recvTypeName(fd.Recv.List[0].Type) != "parser" {
			if !(fd.Name.Name == "Parse" && fd.Recv == nil) {
				continue
			}
		}
		fn := FuncName(pkg, fd)
		ast.Inspect(fd.Body, func(x ast.Node) bool {
			as, ok := x.(*ast.AssignStmt)
			if !ok || len(as.Rhs) != 1 || len(as.Lhs) < 1 {
				return true
			}
			call, ok := as.Rhs[0].(*ast.CallExpr)
			if !ok {
				return true
			}
			callee := Callee(info, call)
			isProd := callee != nil && cursorOf(callee) == "parser" && fnName(callee) != "next" && fnName(callee) != "split" && fnName(callee) != "splitSemi"
			isFirst := callee != nil && (fnName(callee) == "firstParse" || (callee.Origin() != nil && fnName(callee.Origin()) == "firstParse"))
			if !isProd && !isFirst {
				return true
			}
			var t types.Type
			if sig, ok := info.TypeOf(call.Fun).(*types.Signature); ok && sig.Results().Len() >= 1 {
				t = sig.Results().At(0).Type()
			}
			if t == nil || !isNodeVal(t) {
				return true
			}
			n++
			if id, isID := as.Lhs[0].(*ast.Ident); isID && id.Name == "_" {
				r.Saw(fn)
				r.Fail("C07/keeps", fmt.Sprintf("%s result #%d of %s", fn, n, exprStr(call.Fun)), p.Pos(as.Pos()), "the node parsed by "+exprStr(call.Fun)+" is assigned to _: that part of the source is parsed and then dropped")
				return true
			}
			r.Saw(fn)
			key := fmt.Sprintf("%s result #%d of %s", fn, n, exprStr(call.Fun))
			// stored straight into a field?
			if _, isSel := ast.Unparen(as.Lhs[0]).(*ast.SelectorExpr); isSel {
				r.Pass("C07/keeps", key, p.Pos(as.Pos()), "stored directly into a field of the node being built")
				return true
			}
			v := objOf(info, as.Lhs[0])
			if v == nil {
				r.Fail("C07/keeps", key, p.Pos(as.Pos()), "the parsed node is discarded")
				return true
			}
			kept := false
			scope := ast.Node(fd.Body)
			// handed to a helper (a constructor of the node, a generic "append if not nil") that keeps it
			var keptByCallee func(u *ast.CallExpr, v types.Object, depth int) bool
			keptByCallee = func(u *ast.CallExpr, v types.Object, depth int) bool {
				f := Callee(info, u)
				if f == nil || depth > 2 {
					return false
				}
				if f.Origin() != nil {
					f = f.Origin()
				}
				decl, dpkg := p.DeclOf(f)
				if decl == nil || decl.Body == nil || dpkg != pkg {
					return false
				}
				idx := 0
				for _, fl := range decl.Type.Params.List {
					for _, nm := range fl.Names {
						if idx < len(u.Args) && objOf(info, u.Args[idx]) == v {
							po := info.Defs[nm]
							found := false
							ast.Inspect(decl.Body, func(z ast.Node) bool {
								switch w := z.(type) {
								case *ast.KeyValueExpr:
									if objOf(info, w.Value) == po {
										found = true
									}
								case *ast.CallExpr:
									if IsBuiltinCall(info, w, "append") {
										for _, a := range w.Args[1:] {
											if objOf(info, a) == po {
												found = true
											}
										}
									} else if keptByCallee(w, po, depth+1) {
										found = true
									}
								case *ast.AssignStmt:
									for i, l := range w.Lhs {
										if i < len(w.Rhs) && objOf(info, w.Rhs[i]) == po {
											switch ast.Unparen(l).(type) {
											case *ast.SelectorExpr, *ast.IndexExpr:
												found = true
											}
										}
									}
								case *ast.ReturnStmt:
									for _, res := range w.Results {
										if objOf(info, res) == po {
											found = true
										}
									}
								}
								return !found
							})
							if found {
								return true
							}
						}
						idx++
					}
				}
				return false
			}
			ast.Inspect(scope, func(y ast.Node) bool {
				switch u := y.(type) {
				case *ast.KeyValueExpr:
					if objOf(info, u.Value) == v {
						kept = true
					}
				case *ast.CompositeLit:
					for _, el := range u.Elts {
						if objOf(info, el) == v {
							kept = true
						}
					}
				case *ast.CallExpr:
					if IsBuiltinCall(info, u, "append") {
						for _, a := range u.Args[1:] {
							if objOf(info, a) == v {
								kept = true
							}
						}
					} else if sel, ok := ast.Unparen(u.Fun).(*ast.SelectorExpr); ok && objOf(info, sel.X) == v && isNodeVal(info.TypeOf(u)) {
						kept = true // wrapped into another node (id.AsQualified())
					} else if f := Callee(info, u); f != nil && cursorOf(f) == "parser" {
						for _, a := range u.Args {
							if objOf(info, a) == v {
								kept = true // handed on to another production (exprBinaryTrail(x, ...))
							}
						}
					} else if keptByCallee(u, v, 0) {
						kept = true
					}
				case *ast.AssignStmt:
					for i, l := range u.Lhs {
						if i >= len(u.Rhs) || objOf(info, u.Rhs[i]) != v {
							continue
						}
						switch ast.Unparen(l).(type) {
						case *ast.SelectorExpr, *ast.IndexExpr:
							kept = true // a field, or an element of the list being built (result[0] = first)
						}
					}
				case *ast.ReturnStmt:
					for _, res := range u.Results {
						if objOf(info, res) == v {
							kept = true
						}
					}
				}
				return true
			})
			// ... and it is the node itself that is kept, not a part of it: the variable is never replaced by a child
			// of its own value (looking through parentheses would leave their tokens outside every node's span)
			descentReported := false
			var rootOf func(x ast.Expr, depth int) (types.Object, bool)
			rootOf = func(x ast.Expr, depth int) (types.Object, bool) {
				descended := false
				for depth < 8 {
					switch u := ast.Unparen(x).(type) {
					case *ast.SelectorExpr:
						if selField(info, u) == nil {
							return nil, false
						}
						x, descended = u.X, true
						continue
					case *ast.IndexExpr:
						x, descended = u.X, true
						continue
					case *ast.TypeAssertExpr:
						x = u.X
						continue
					case *ast.StarExpr:
						x = u.X
						continue
					case *ast.Ident:
						o := objOf(info, u)
						if o == v {
							return o, descended
						}
						// what the variable was defined as (also `paren, ok := x.(*ParenExpr)`)
						var def ast.Expr
						ndefs := 0
						ast.Inspect(scope, func(z ast.Node) bool {
							if as2, ok := z.(*ast.AssignStmt); ok {
								for j, l2 := range as2.Lhs {
									if objOf(info, l2) != o || o == nil {
										continue
									}
									ndefs++
									switch {
									case len(as2.Lhs) == len(as2.Rhs):
										def = as2.Rhs[j]
									case len(as2.Rhs) == 1 && j == 0:
										if ta, isTA := ast.Unparen(as2.Rhs[0]).(*ast.TypeAssertExpr); isTA {
											def = ta
										}
									}
								}
							}
							return true
						})
						if ndefs == 1 && def != nil {
							ro, desc := rootOf(def, depth+1)
							return ro, desc || descended
						}
						return o, descended
					}
					break
				}
				return nil, false
			}
			ast.Inspect(scope, func(y ast.Node) bool {
				u, ok := y.(*ast.AssignStmt)
				if !ok || u.Tok != token.ASSIGN {
					return true
				}
				for i, l := range u.Lhs {
					if i >= len(u.Rhs) || objOf(info, l) != v {
						continue
					}
					if ro, desc := rootOf(u.Rhs[i], 0); ro == v && desc {
						descentReported = true
						r.Fail("C07/keeps", key+" is kept whole", p.Pos(u.Pos()), "the variable holding the node parsed by "+exprStr(call.Fun)+" is replaced by a part of that node ("+exprStr(u.Rhs[i])+"): the tokens of the enclosing node (e.g. its parentheses) were consumed but belong to no node of the tree, and lie outside every recorded span")
					}
				}
				return true
			})
			r.Check(kept || descentReported, "C07/keeps", key, p.Pos(as.Pos()), "the parsed node is placed in the tree (field, slice element, node literal) or returned", "the node parsed by "+exprStr(call.Fun)+" is never stored in the tree or returned: that part of the source is parsed and then dropped")
			return true
		})
	}
	r.Floor("C07/keeps", 25)
}

// signClient observes the construction of UnaryExpr nodes in unaryExpr.
type signClient struct {
	BaseClient
	InlinePredicates
	p          *Program
	next       *types.Func
	kinds      map[string]bool
	lits       int
	keepsOp    bool
	operand    *types.Func
	operandBad bool
}

func (c *signClient) PostAssign(e *Engine, st *State, lhs, rhs []ast.Expr, _ ast.Stmt) *State {
	if len(rhs) != 1 || len(lhs) < 1 {
		return nil
	}
	call, ok := ast.Unparen(rhs[0]).(*ast.CallExpr)
	if !ok {
		return nil
	}
	f := Callee(e.Info, call)
	if f == nil {
		return nil
	}
	o := objOf(e.Info, lhs[0])
	if o == nil {
		return nil
	}
	if f == c.next {
		return st.WithExt("sign:tok", e.objKey(o))
	}
	// a production result: remember which one the variable holds
	if f.Pkg() != nil && f.Pkg().Path() == PathParser && f.Type().(*types.Signature).Recv() != nil {
		return st.WithExt("prod:"+e.objKey(o), f.Name())
	}
	return nil
}

func (c *signClient) Visit(e *Engine, st *State, n ast.Node) *State {
	cl, ok := n.(*ast.CompositeLit)
	if !ok || TypeStr(e.Info.TypeOf(cl)) != "parser.UnaryExpr" || !e.Reporting() {
		return nil
	}
	c.lits++
	op := litField(e.Info, cl, "Op")
	if op != nil {
		if name := constName(e.Info, op); name != "" {
			c.kinds[name] = true
		} else if f := e.FactOf(st, op); f != nil && f.HasEq {
			c.kinds[c.p.constNameByValue(c.p.Parser, "TokenKind", f.Eq)] = true
		} else {
			c.kinds["?"+exprStr(op)] = true
		}
		// the recorded kind is that of the token read last
		if k := e.CanonSt(st, op); k.OK && st.Ext("sign:tok") != "" {
			tk := st.Ext("sign:tok")
			if a := st.Get("val:" + tk); a != nil && a.Alias != nil {
				tk = a.Alias.Key
			}
			if k.Key == tk+".Kind" {
				c.keepsOp = true
			}
		}
	}
	if x := litField(e.Info, cl, "X"); x != nil {
		var callee *types.Func
		if call, ok := ast.Unparen(x).(*ast.CallExpr); ok {
			callee = Callee(e.Info, call)
		} else if o := objOf(e.Info, x); o != nil {
			if name := st.Ext("prod:" + e.objKey(o)); name != "" {
				if fd := c.p.FuncDecl(c.p.Parser, "parser."+name); fd != nil {
					callee = FuncObj(c.p.Parser, fd)
				}
			}
		}
		if c.operand != nil && callee != c.operand {
			c.operandBad = true
		}
		if callee == nil {
			c.operandBad = true
		}
		c.operand = callee
	}
	return nil
}

// synClient: which production's result is appended to the pipeline under which operator keyword.
type synClient struct {
	BaseClient
	p   *Program
	got map[string]map[string]bool // keyword -> productions whose result is appended while the keyword is that
}

// productions: parser methods returning (a pointer to) a tabular operator and an error.
func (c *synClient) production(fn *types.Func) bool {
	if fn == nil || fn.Pkg() == nil || fn.Pkg().Path() != PathParser {
		return false
	}
	sig := fn.Type().(*types.Signature)
	if sig.Recv() == nil || sig.Results().Len() != 2 {
		return false
	}
	t := sig.Results().At(0).Type()
	if _, isPtr := t.(*types.Pointer); !isPtr {
		return false
	}
	return types.Implements(t, c.p.Iface(c.p.Parser, "TabularOperator"))
}

// Inline: everything small on the way from the keyword to the append, except the productions themselves.
func (c *synClient) Inline(e *Engine, call *ast.CallExpr, callee *types.Func, decl *ast.FuncDecl) bool {
	if c.production(callee) || !smallBody(decl) || callee.Pkg() == nil || callee.Pkg().Path() != PathParser {
		return false
	}
	// dispatchers and pass-through helpers: something that hands on a tabular operator as such
	sig := callee.Type().(*types.Signature)
	for i := 0; i < sig.Results().Len(); i++ {
		t := sig.Results().At(i).Type()
		if TypeStr(t) == "parser.TabularOperator" {
			return true
		}
		if tp, ok := t.(*types.TypeParam); ok && types.Implements(tp, c.p.Iface(c.p.Parser, "TabularOperator")) {
			return true
		}
		// ... or hands back the pipeline it was given, possibly extended
		if TypeStr(t) == "[]parser.TabularOperator" {
			return true
		}
	}
	return false
}

func (c *synClient) PostCall(e *Engine, st *State, call *ast.CallExpr, callee *types.Func) *State {
	if !c.production(callee) {
		return nil
	}
	ids := e.CallResults(call)
	if len(ids) != 2 {
		return nil
	}
	// the first result: unknown value, tagged with where it came from
	k := e.CanonSt(st, ids[0])
	if !k.OK {
		return nil
	}
	if n := e.update(st.killObj(e.Info.Defs[ids[0]]), k, func(f *Fact) { f.Tags = []string{"prod:" + callee.Name()} }); n != nil {
		return n
	}
	return nil
}

// PreCall: an append to a list of tabular operators inside a helper interpreted in place
// (appendOperator(expr.Operators, op)) extends the pipeline like an append written in tabularExpr itself.
func (c *synClient) PreCall(e *Engine, st *State, call *ast.CallExpr, callee *types.Func) *State {
	if callee != nil || !e.Reporting() || len(e.Frames()) == 0 || !IsBuiltinCall(e.Info, call, "append") || len(call.Args) != 2 {
		return nil
	}
	if TypeStr(e.Info.TypeOf(call.Args[0])) != "[]parser.TabularOperator" {
		return nil
	}
	c.record(e, st, call)
	return nil
}

func (c *synClient) PreAssign(e *Engine, st *State, lhs, rhs []ast.Expr, _ ast.Stmt) *State {
	if len(lhs) != 1 || len(rhs) != 1 || !e.Reporting() {
		return nil
	}
	if f := selField(e.Info, lhs[0]); f == nil || f.Name() != "Operators" {
		return nil
	}
	call, ok := ast.Unparen(rhs[0]).(*ast.CallExpr)
	if !ok || !IsBuiltinCall(e.Info, call, "append") || len(call.Args) != 2 {
		return nil
	}
	c.record(e, st, call)
	return nil
}

// record: the pipeline is extended by the second argument of this append.
func (c *synClient) record(e *Engine, st *State, call *ast.CallExpr) {
	prod := "?" + exprStr(call.Args[1])
	f := e.FactOf(st, call.Args[1])
	if f == nil {
		f = e.valueOf(st, call.Args[1])
	}
	if f != nil {
		// a node built in place (the production was inlined by hand): its type stands for the production
		if len(f.TyIn) == 1 {
			prod = "type:" + f.TyIn[0]
		}
		for _, t := range f.Tags {
			if strings.HasPrefix(t, "prod:") {
				prod = strings.TrimPrefix(t, "prod:")
			}
		}
	}
	// the operator keyword on this path: the value of a token whose text is known
	kw := ""
	for _, k := range st.Keys() {
		if strings.HasSuffix(k, ".Value") && !strings.HasPrefix(k, "val:") {
			if f := st.Get(k); f != nil && f.HasEq && strings.HasPrefix(f.Eq, `"`) {
				kw = strings.Trim(f.Eq, `"`)
			}
		}
	}
	if kw == "" {
		kw = "?"
	}
	if c.got[kw] == nil {
		c.got[kw] = map[string]bool{}
	}
	c.got[kw][prod] = true
}

// stmtLoopClient: the statement loop of Parse is only left when next() reported the end of the tokens.
type stmtLoopClient struct {
	BaseClient
	InlinePredicates
	p      *Program
	loop   *ast.ForStmt
	next   *types.Func
	parser types.Object
	exits  int
	bad    []string
}

func (c *stmtLoopClient) PostAssign(e *Engine, st *State, lhs, rhs []ast.Expr, _ ast.Stmt) *State {
	if len(rhs) != 1 || len(lhs) != 2 {
		return nil
	}
	call, ok := ast.Unparen(rhs[0]).(*ast.CallExpr)
	if !ok || Callee(e.Info, call) != c.next {
		return nil
	}
	sel, ok := ast.Unparen(call.Fun).(*ast.SelectorExpr)
	if !ok || objOf(e.Info, sel.X) != c.parser {
		return nil
	}
	if o := objOf(e.Info, lhs[1]); o != nil {
		return st.WithExt("stok", e.objKey(o))
	}
	return st.WithExt("stok", "ignored")
}

func (c *stmtLoopClient) note(s string) {
	for _, b := range c.bad {
		if b == s {
			return
		}
	}
	c.bad = append(c.bad, s)
}

func (c *stmtLoopClient) ScopeEnd(e *Engine, st *State, n ast.Node) *State {
	if n != ast.Node(c.loop) || !e.Reporting() {
		return nil
	}
	c.exits++
	k := st.Ext("stok")
	switch k {
	case "":
		c.note("the loop is left on a path without any next() on Parse's own parser")
	case "ignored":
		c.note("the loop is left after a next() whose ok result was discarded")
	default:
		if f := st.GetVar(k); f == nil || !f.HasEq || f.Eq != "false" {
			c.note("the loop is left on a path where the most recent next() is not known to have reported the end of the tokens")
		}
	}
	return nil
}

func (c *stmtLoopClient) Return(e *Engine, st *State, ret *ast.ReturnStmt) {
	if ret != nil && e.Lit == nil && ret.Pos() >= c.loop.Pos() && ret.End() <= c.loop.End() {
		c.note("return inside the loop at " + e.P.Pos(ret.Pos()))
	}
}

// sortTermClient: flags of the SortTerm at the successful returns of sortTerm, against the keywords read.
type sortTermClient struct {
	BaseClient
	InlinePredicates
	p    *Program
	seen map[string]int
	bad  map[string]string
}

var sortKeywords = []string{"asc", "desc", "nulls", "first", "last"}

// Inline: besides predicates, helpers that are handed the term to fill in (sortDirection(term), sortNulls(term))
// are read where they are called.
func (c *sortTermClient) Inline(e *Engine, call *ast.CallExpr, callee *types.Func, decl *ast.FuncDecl) bool {
	if c.InlinePredicates.Inline(e, call, callee, decl) {
		return true
	}
	if callee == nil || !smallBody(decl) {
		return false
	}
	sig := callee.Type().(*types.Signature)
	for i := 0; i < sig.Params().Len(); i++ {
		if pt, ok := sig.Params().At(i).Type().(*types.Pointer); ok {
			if n, isN := pt.Elem().(*types.Named); isN && objName(n.Obj()) == "SortTerm" {
				return true
			}
		}
	}
	return false
}

// Stmt: remember which keywords the tokens read so far are known to be.
func (c *sortTermClient) Stmt(e *Engine, st *State, _ ast.Stmt) *State {
	var out *State
	for _, k := range st.Keys() {
		if !strings.HasSuffix(k, ".Value") || strings.HasPrefix(k, "val:") {
			continue
		}
		f := st.Get(k)
		if f == nil || !f.HasEq {
			continue
		}
		w := strings.Trim(f.Eq, `"`)
		for _, kw := range sortKeywords {
			if w == kw && st.Ext("kw:"+kw) != "1" {
				if out == nil {
					out = st
				}
				out = out.WithExt("kw:"+kw, "1")
			}
		}
	}
	return out
}

func (c *sortTermClient) Return(e *Engine, st *State, ret *ast.ReturnStmt) {
	if !e.Reporting() || e.Lit != nil || ret == nil || len(ret.Results) != 2 {
		return
	}
	if !isNilIdent(e.Info, ret.Results[1]) {
		if !e.IsNil(st, ret.Results[1]) {
			return // error return
		}
	}
	if s2 := c.Stmt(e, st, nil); s2 != nil {
		st = s2
	}
	has := func(kw string) bool { return st.Ext("kw:"+kw) == "1" }
	flag := func(name string) (bool, bool) {
		k := e.CanonSt(st, ret.Results[0])
		if !k.OK {
			return false, false
		}
		f := st.Get(k.Key + "." + name)
		if f == nil {
			return false, true // never assigned: the literal's zero value (checked separately)
		}
		if !f.HasEq {
			return false, false
		}
		return f.Eq == "true", true
	}
	asc, okA := flag("Asc")
	nf, okN := flag("NullsFirst")
	wantAsc := has("asc")
	wantNF := wantAsc
	if has("first") {
		wantNF = true
	}
	if has("last") {
		wantNF = false
	}
	var kws []string
	for _, kw := range []string{"asc", "desc", "first", "last"} {
		if has(kw) {
			kws = append(kws, kw)
			c.seen[kw]++
		}
	}
	why := ""
	switch {
	case !okA || !okN:
		why = "the flags are not determined at the return at " + e.P.Pos(ret.Pos())
	case asc != wantAsc || nf != wantNF:
		why = fmt.Sprintf("a term written with %v is returned (at %s) with Asc=%v, NullsFirst=%v; documented Asc=%v, NullsFirst=%v", kws, e.P.Pos(ret.Pos()), asc, nf, wantAsc, wantNF)
	case has("asc") && has("desc"), has("first") && has("last"):
		why = fmt.Sprintf("contradictory keywords %v are accepted on one path (return at %s)", kws, e.P.Pos(ret.Pos()))
	}
	if why != "" {
		if len(kws) == 0 {
			c.bad[""] = why
		}
		for _, kw := range kws {
			c.bad[kw] = why
		}
	}
}

// productionTable: a map literal of the parser package whose keys are operator keywords and whose values name (a
// wrapper around) the production for each: keyword -> production.
func (p *Program) productionTable(doc map[string]string) map[string]*types.Func {
	info := p.Info
	var best map[string]*types.Func
	for _, f := range p.Parser.Syntax {
		ast.Inspect(f, func(n ast.Node) bool {
			cl, ok := n.(*ast.CompositeLit)
			if !ok {
				return true
			}
			if _, isMap := info.TypeOf(cl).Underlying().(*types.Map); !isMap {
				return true
			}
			tbl := map[string]*types.Func{}
			hits := 0
			for _, el := range cl.Elts {
				kv, ok := el.(*ast.KeyValueExpr)
				if !ok {
					return true
				}
				k, isS := constString(info, kv.Key)
				if !isS {
					return true
				}
				var fn *types.Func
				ast.Inspect(kv.Value, func(m ast.Node) bool {
					switch v := m.(type) {
					case *ast.SelectorExpr:
						if sel, has := info.Selections[v]; has {
							if f, isF := sel.Obj().(*types.Func); isF && f.Pkg() == p.Parser.Types && fn == nil {
								fn = f
							}
						}
					case *ast.Ident:
						if f, isF := info.Uses[v].(*types.Func); isF && f.Pkg() == p.Parser.Types && fn == nil {
							if sig := f.Type().(*types.Signature); sig.Results().Len() >= 1 && strings.HasPrefix(TypeStr(sig.Results().At(0).Type()), "*parser.") {
								fn = f
							}
						}
					}
					return true
				})
				if fn != nil {
					tbl[k] = fn
				}
				if _, isDoc := doc[k]; isDoc {
					hits++
				}
			}
			if hits >= 10 && (best == nil || len(tbl) > len(best)) {
				best = tbl
			}
			return true
		})
	}
	return best
}
