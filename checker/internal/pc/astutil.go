package pc

import (
	"go/ast"
	"go/constant"
	"go/token"
	"go/types"
	"strings"

	"golang.org/x/tools/go/packages"
)

// objOf returns the object an identifier expression denotes (use or def), or nil.
func objOf(info *types.Info, e ast.Expr) types.Object {
	id, ok := ast.Unparen(e).(*ast.Ident)
	if !ok {
		return nil
	}
	if o := info.Uses[id]; o != nil {
		return o
	}
	return info.Defs[id]
}

// fieldSel matches `base.F` where base is an identifier denoting obj; returns the field.
func fieldSel(info *types.Info, e ast.Expr, obj types.Object) *types.Var {
	sel, ok := ast.Unparen(e).(*ast.SelectorExpr)
	if !ok {
		return nil
	}
	if objOf(info, sel.X) != obj || obj == nil {
		return nil
	}
	s, ok := info.Selections[sel]
	if !ok || s.Kind() != types.FieldVal {
		return nil
	}
	v, _ := s.Obj().(*types.Var)
	return v
}

// selField returns the field selected by a selector expression (any base), or nil.
func selField(info *types.Info, e ast.Expr) *types.Var {
	sel, ok := ast.Unparen(e).(*ast.SelectorExpr)
	if !ok {
		return nil
	}
	s, ok := info.Selections[sel]
	if !ok || s.Kind() != types.FieldVal {
		return nil
	}
	v, _ := s.Obj().(*types.Var)
	return v
}

// constOf returns the constant value of e, if any.
func constOf(info *types.Info, e ast.Expr) constant.Value {
	if tv, ok := info.Types[e]; ok {
		return tv.Value
	}
	return nil
}

// constString returns the constant string value of e.
func constString(info *types.Info, e ast.Expr) (string, bool) {
	v := constOf(info, e)
	if v == nil || v.Kind() != constant.String {
		return "", false
	}
	return constant.StringVal(v), true
}

// constInt returns the constant integer value of e.
func constInt(info *types.Info, e ast.Expr) (int64, bool) {
	v := constOf(info, e)
	if v == nil {
		return 0, false
	}
	v = constant.ToInt(v)
	if v.Kind() != constant.Int {
		return 0, false
	}
	n, ok := constant.Int64Val(v)
	return n, ok
}

// constName returns the name of the package-level constant an expression denotes
// (e.g. "TokenEq" for parser.TokenEq), or "".
func constName(info *types.Info, e ast.Expr) string {
	switch x := ast.Unparen(e).(type) {
	case *ast.Ident:
		if c, ok := info.Uses[x].(*types.Const); ok {
			return objName(c)
		}
	case *ast.SelectorExpr:
		if c, ok := info.Uses[x.Sel].(*types.Const); ok {
			return objName(c)
		}
	}
	return ""
}

// conjuncts splits a condition on && (through parentheses).
func conjuncts(e ast.Expr) []ast.Expr {
	e = ast.Unparen(e)
	if b, ok := e.(*ast.BinaryExpr); ok && b.Op == token.LAND {
		return append(conjuncts(b.X), conjuncts(b.Y)...)
	}
	return []ast.Expr{e}
}

// disjuncts splits a condition on || (through parentheses).
func disjuncts(e ast.Expr) []ast.Expr {
	e = ast.Unparen(e)
	if b, ok := e.(*ast.BinaryExpr); ok && b.Op == token.LOR {
		return append(disjuncts(b.X), disjuncts(b.Y)...)
	}
	return []ast.Expr{e}
}

// isNilIdent reports whether e is the predeclared nil.
func isNilIdent(info *types.Info, e ast.Expr) bool {
	id, ok := ast.Unparen(e).(*ast.Ident)
	if !ok {
		return false
	}
	_, isNil := info.Uses[id].(*types.Nil)
	return isNil
}

// nilCompare matches `x != nil` / `x == nil` (either operand order) and returns x and whether it is the != form.
func nilCompare(info *types.Info, e ast.Expr) (x ast.Expr, notNil bool, ok bool) {
	b, isBin := ast.Unparen(e).(*ast.BinaryExpr)
	if !isBin || (b.Op != token.NEQ && b.Op != token.EQL) {
		return nil, false, false
	}
	switch {
	case isNilIdent(info, b.Y):
		return b.X, b.Op == token.NEQ, true
	case isNilIdent(info, b.X):
		return b.Y, b.Op == token.NEQ, true
	}
	return nil, false, false
}

// exprStr renders an expression compactly.
func exprStr(e ast.Expr) string { return types.ExprString(e) }

// sameExpr compares two expressions structurally with identifiers compared by object.
func sameExpr(info *types.Info, a, b ast.Expr) bool {
	a, b = ast.Unparen(a), ast.Unparen(b)
	switch x := a.(type) {
	case *ast.Ident:
		y, ok := b.(*ast.Ident)
		if !ok {
			return false
		}
		ox, oy := objOf(info, x), objOf(info, y)
		if ox == nil || oy == nil {
			return x.Name == y.Name
		}
		return ox == oy
	case *ast.SelectorExpr:
		y, ok := b.(*ast.SelectorExpr)
		return ok && x.Sel.Name == y.Sel.Name && sameExpr(info, x.X, y.X)
	case *ast.IndexExpr:
		y, ok := b.(*ast.IndexExpr)
		return ok && sameExpr(info, x.X, y.X) && sameExpr(info, x.Index, y.Index)
	case *ast.CallExpr:
		y, ok := b.(*ast.CallExpr)
		if !ok || len(x.Args) != len(y.Args) || !sameExpr(info, x.Fun, y.Fun) {
			return false
		}
		for i := range x.Args {
			if !sameExpr(info, x.Args[i], y.Args[i]) {
				return false
			}
		}
		return true
	case *ast.BasicLit:
		y, ok := b.(*ast.BasicLit)
		return ok && x.Kind == y.Kind && x.Value == y.Value
	case *ast.BinaryExpr:
		y, ok := b.(*ast.BinaryExpr)
		return ok && x.Op == y.Op && sameExpr(info, x.X, y.X) && sameExpr(info, x.Y, y.Y)
	case *ast.UnaryExpr:
		y, ok := b.(*ast.UnaryExpr)
		return ok && x.Op == y.Op && sameExpr(info, x.X, y.X)
	case *ast.StarExpr:
		y, ok := b.(*ast.StarExpr)
		return ok && sameExpr(info, x.X, y.X)
	}
	return false
}

// enclosing walks up the parent chain from n until stop (exclusive) and calls f on each ancestor;
// child is the node through which the ancestor was reached.
func (p *Program) ancestors(n ast.Node, stop ast.Node, f func(anc, child ast.Node) bool) {
	child := n
	for anc := p.parents[n]; anc != nil && anc != stop; anc = p.parents[anc] {
		if !f(anc, child) {
			return
		}
		child = anc
	}
}

// guardedByNonNil reports whether node n lies in the then-branch of an if whose condition
// has the conjunct `<expr> != nil` where expr is structurally want; search stops at stop.
func (p *Program) guardedByNonNil(info *types.Info, n ast.Node, stop ast.Node, want ast.Expr) bool {
	found := false
	p.ancestors(n, stop, func(anc, child ast.Node) bool {
		ifs, ok := anc.(*ast.IfStmt)
		if !ok || child != ast.Node(ifs.Body) {
			return true
		}
		for _, c := range conjuncts(ifs.Cond) {
			if x, notNil, ok := nilCompare(info, c); ok && notNil {
				// temporaries are looked through on both sides (prop := n.Props[i]; if prop.Value != nil)
				if sameExpr(info, x, want) || sameExpr(info, p.resolveDeep(x, 0, p.DefExpr), p.resolveDeep(want, 0, p.DefExpr)) {
					found = true
					return false
				}
			}
		}
		return true
	})
	return found
}

// typeSwitchInfo describes a `switch v := x.(type)` statement.
type typeSwitchInfo struct {
	Stmt    *ast.TypeSwitchStmt
	Tag     ast.Expr                         // x
	Clauses []*ast.CaseClause                //
	Types   map[*ast.CaseClause][]types.Type // nil entry inside slice = `case nil`
	Default *ast.CaseClause
}

func typeSwitchOf(info *types.Info, ts *ast.TypeSwitchStmt) *typeSwitchInfo {
	out := &typeSwitchInfo{Stmt: ts, Types: map[*ast.CaseClause][]types.Type{}}
	switch a := ts.Assign.(type) {
	case *ast.AssignStmt:
		out.Tag = a.Rhs[0].(*ast.TypeAssertExpr).X
	case *ast.ExprStmt:
		out.Tag = a.X.(*ast.TypeAssertExpr).X
	}
	for _, s := range ts.Body.List {
		cc := s.(*ast.CaseClause)
		out.Clauses = append(out.Clauses, cc)
		if cc.List == nil {
			out.Default = cc
			continue
		}
		for _, e := range cc.List {
			if isNilIdent(info, e) {
				out.Types[cc] = append(out.Types[cc], nil)
				continue
			}
			out.Types[cc] = append(out.Types[cc], info.TypeOf(e))
		}
	}
	return out
}

// clauseVar returns the implicit object bound in a type-switch clause (`switch v := ...`).
func clauseVar(info *types.Info, cc *ast.CaseClause) types.Object { return info.Implicits[cc] }

// findTypeSwitches returns the type switches directly or indirectly inside body whose tag has static type want (nil = any).
func findTypeSwitches(info *types.Info, body ast.Node, want types.Type) []*typeSwitchInfo {
	var out []*typeSwitchInfo
	ast.Inspect(body, func(n ast.Node) bool {
		if _, ok := n.(*ast.FuncLit); ok {
			return false
		}
		ts, ok := n.(*ast.TypeSwitchStmt)
		if !ok {
			return true
		}
		tsi := typeSwitchOf(info, ts)
		if want == nil || types.Identical(info.TypeOf(tsi.Tag), want) {
			out = append(out, tsi)
		}
		return true
	})
	return out
}

// typeIn reports whether t is identical to a member of set.
func typeIn(t types.Type, set []types.Type) bool {
	for _, s := range set {
		if s != nil && t != nil && types.Identical(s, t) {
			return true
		}
		if s == nil && t == nil {
			return true
		}
	}
	return false
}

// shortPos is used in keys: function-relative description only, never lines.
func fieldKey(t types.Type, f *types.Var) string {
	n := strings.TrimPrefix(TypeStr(t), "*")
	if i := strings.LastIndex(n, "."); i >= 0 {
		n = n[i+1:]
	}
	return n + "." + f.Name()
}

// isModuleType reports whether t (or its pointee) is a named type declared in one of the module packages.
func isModuleType(t types.Type) bool {
	if p, ok := t.(*types.Pointer); ok {
		t = p.Elem()
	}
	n, ok := t.(*types.Named)
	if !ok || n.Obj().Pkg() == nil {
		return false
	}
	return strings.HasPrefix(n.Obj().Pkg().Path(), PathPQL)
}

// pkgInfo is a tiny helper to carry a package around.
type pkgInfo = packages.Package

// constNameByValue: the name of the constant of the named type typ (in pkg) whose value renders as val.
func (p *Program) constNameByValue(pkg *packages.Package, typ string, val string) string {
	scope := pkg.Types.Scope()
	for _, name := range scope.Names() {
		if c, ok := scope.Lookup(name).(*types.Const); ok {
			if n, ok := c.Type().(*types.Named); ok && n.Obj().Name() == typ && constKey(c.Val()) == val {
				return name
			}
		}
	}
	return ""
}

// isLexerFunc: fd belongs to the lexer - it mentions the scanner type (receiver, parameter, local), or it is an
// unexported helper that only lexer functions call. (Decided from the code, not from the file a function lives in.)
func (p *Program) isLexerFunc(fd *ast.FuncDecl) bool {
	if p.lexer == nil {
		p.lexer = map[*ast.FuncDecl]bool{}
		pkg := p.Parser
		scannerT := p.Named(pkg, "scanner")
		mentions := func(fd *ast.FuncDecl) bool {
			found := false
			ast.Inspect(fd, func(n ast.Node) bool {
				if id, ok := n.(*ast.Ident); ok {
					if tn, ok := p.Info.Uses[id].(*types.TypeName); ok && tn == scannerT.Obj() {
						found = true
					}
				}
				return !found
			})
			return found
		}
		for _, f := range AllFuncs(pkg) {
			if mentions(f) {
				p.lexer[f] = true
			}
		}
		// helpers called only by lexer functions
		for changed := true; changed; {
			changed = false
			for _, f := range AllFuncs(pkg) {
				if p.lexer[f] {
					continue
				}
				fn := FuncObj(pkg, f)
				if fn == nil || fn.Exported() {
					continue
				}
				callers, all := 0, true
				for _, g := range AllFuncs(pkg) {
					ast.Inspect(g.Body, func(n ast.Node) bool {
						if call, ok := n.(*ast.CallExpr); ok && Callee(p.Info, call) == fn {
							callers++
							if !p.lexer[g] {
								all = false
							}
						}
						return true
					})
				}
				if callers > 0 && all {
					p.lexer[f] = true
					changed = true
				}
			}
		}
	}
	return p.lexer[fd]
}

// reachableFromAPI: module functions reachable from the entry points the properties speak about (Scan,
// SplitStatements, Parse, Walk, Compile and CompileOptions.Compile, plus main for the command). Calls are followed
// statically; a function used as a value is reachable; a call through an interface reaches every module method of
// that name. A new exported helper that nothing of this calls (MustCompile) is outside the properties' scope.
func (p *Program) reachableFromAPI() map[*types.Func]bool {
	if p.reach != nil {
		return p.reach
	}
	p.reach = map[*types.Func]bool{}
	methodsByName := map[string][]*types.Func{}
	decl := map[*types.Func]*ast.FuncDecl{}
	for _, pkg := range p.All {
		for _, fd := range AllFuncs(pkg) {
			fn := FuncObj(pkg, fd)
			if fn == nil {
				continue
			}
			decl[fn] = fd
			if fn.Type().(*types.Signature).Recv() != nil {
				methodsByName[fn.Name()] = append(methodsByName[fn.Name()], fn)
			}
		}
	}
	var work []*types.Func
	add := func(fn *types.Func) {
		if fn == nil {
			return
		}
		if o := fn.Origin(); o != nil {
			fn = o
		}
		if decl[fn] != nil && !p.reach[fn] {
			p.reach[fn] = true
			work = append(work, fn)
		}
	}
	for _, e := range []struct {
		pkg  *packages.Package
		name string
	}{{p.Parser, "Scan"}, {p.Parser, "SplitStatements"}, {p.Parser, "Parse"}, {p.Parser, "Walk"}, {p.PQL, "Compile"}, {p.PQL, "CompileOptions.Compile"}, {p.Main, "main"}} {
		if fd := p.FuncDecl(e.pkg, e.name); fd != nil {
			add(FuncObj(e.pkg, fd))
		}
	}
	// methods the callers of the API invoke on what it returns (Span, Error, String, accessors of literals, ...)
	for _, pkg := range p.Lib() {
		for _, fd := range AllFuncs(pkg) {
			if fn := FuncObj(pkg, fd); fn != nil && fn.Exported() && fn.Type().(*types.Signature).Recv() != nil {
				add(fn)
			}
		}
	}
	for len(work) > 0 {
		fn := work[len(work)-1]
		work = work[:len(work)-1]
		ast.Inspect(decl[fn].Body, func(n ast.Node) bool {
			switch x := n.(type) {
			case *ast.Ident:
				if f, ok := p.Info.Uses[x].(*types.Func); ok {
					add(f)
				}
			case *ast.SelectorExpr:
				if s, ok := p.Info.Selections[x]; ok {
					if f, ok := s.Obj().(*types.Func); ok {
						if _, isIface := s.Recv().Underlying().(*types.Interface); isIface {
							for _, m := range methodsByName[f.Name()] {
								add(m)
							}
						} else {
							add(f)
						}
					}
				} else if f, ok := p.Info.Uses[x.Sel].(*types.Func); ok {
					add(f)
				}
			}
			return true
		})
	}
	return p.reach
}

// allDefsAre: every assignment to the local variable named by x (anywhere in its function) assigns an expression
// accepted by ok; a declaration without a value (zero value) is allowed. Also true when x itself is accepted.
func (p *Program) allDefsAre(x ast.Expr, ok func(ast.Expr) bool) bool {
	x = ast.Unparen(x)
	if ok(x) {
		return true
	}
	o := objOf(p.Info, x)
	v, isVar := o.(*types.Var)
	if !isVar || v.IsField() || (v.Pkg() != nil && v.Parent() == v.Pkg().Scope()) {
		return false
	}
	fd := p.FuncAt(v.Pos())
	if fd == nil || paramIndex(p.Info, fd, v) >= 0 {
		return false
	}
	n, good := 0, true
	ast.Inspect(fd.Body, func(nd ast.Node) bool {
		switch s := nd.(type) {
		case *ast.AssignStmt:
			for i, l := range s.Lhs {
				if objOf(p.Info, l) != o {
					continue
				}
				switch {
				case len(s.Lhs) == len(s.Rhs):
					if !ok(ast.Unparen(s.Rhs[i])) {
						good = false
					}
				case len(s.Rhs) == 1 && i == 0:
					// v, err := f(...): the predicate is asked about the call (its first result)
					if _, isCall := ast.Unparen(s.Rhs[0]).(*ast.CallExpr); !isCall || !ok(ast.Unparen(s.Rhs[0])) {
						good = false
					}
				default:
					good = false
				}
				n++
			}
		case *ast.ValueSpec:
			for i, nm := range s.Names {
				if p.Info.Defs[nm] != o {
					continue
				}
				if i < len(s.Values) {
					if !ok(ast.Unparen(s.Values[i])) {
						good = false
					}
					n++
				}
			}
		case *ast.UnaryExpr:
			if s.Op == token.AND && objOf(p.Info, s.X) == o {
				good = false
			}
		}
		return true
	})
	return good && n > 0
}
