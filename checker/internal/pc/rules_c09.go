package pc

import (
	"fmt"
	"go/ast"
	"go/constant"
	"go/token"
	"go/types"
	"sort"
	"strconv"
	"strings"
)

// ---- C09/backup: typestate of the scanner's one-rune back-up.

type backupClient struct {
	BaseClient
	p        *Program
	next     *types.Func
	prev     *types.Func
	scannerT *types.Named
	fn       string
	// table extraction (Scan only)
	tokenT   *types.Named
	literals []tokenSite
}

type tokenSite struct {
	lit    *ast.CompositeLit
	kind   string
	first  []string // characters of the enclosing dispatch clause (from `c == 'x'` disjuncts)
	second secondInfo
	backed bool // scanner was backed up (or the look-ahead failed) in this state
}

type secondInfo struct {
	looked  bool     // a look-ahead next() happened inside the clause
	okTrue  bool     // its ok result is known true
	okFalse bool     //
	eq      string   // known value of the look-ahead rune ("" unknown)
	ne      []string // excluded values
}

func (c *backupClient) recvKey(e *Engine, call *ast.CallExpr) (string, bool) {
	sel, ok := ast.Unparen(call.Fun).(*ast.SelectorExpr)
	if !ok {
		return "", false
	}
	k := e.Canon(sel.X)
	if !k.OK {
		return "?", true
	}
	return strings.TrimPrefix(k.Key, "&"), true
}

func (c *backupClient) isScannerMethod(fn *types.Func) bool {
	if fn == nil {
		return false
	}
	sig := fn.Type().(*types.Signature)
	if sig.Recv() == nil {
		return false
	}
	t := sig.Recv().Type()
	if p, ok := t.(*types.Pointer); ok {
		t = p.Elem()
	}
	return types.Identical(t, c.scannerT)
}

func (c *backupClient) PreCall(e *Engine, st *State, call *ast.CallExpr, callee *types.Func) *State {
	if callee != c.prev {
		return nil
	}
	rk, _ := c.recvKey(e, call)
	key := fmt.Sprintf("%s prev() #%d", c.fn, c.ordinal(e, call))
	last := st.Ext("lastnext:" + rk)
	switch {
	case last == "":
		e.Site("C09/backup", key, call, false, "prev() with no preceding next() on this path: the saved position is stale, an already consumed rune would be read again")
	case strings.HasPrefix(last, "after:"):
		e.Site("C09/backup", key, call, false, "prev() after "+strings.TrimPrefix(last, "after:")+" without a fresh next(): the saved position is stale")
	case last == "ignored":
		e.Site("C09/backup", key, call, false, "prev() after a next() whose ok result was discarded: at end of input the back-up re-reads a consumed rune")
	default:
		f := st.Get(last)
		if f != nil && f.HasEq && f.Eq == "true" {
			e.Site("C09/backup", key, call, true, "most recent next() on this path returned ok")
		} else {
			e.Site("C09/backup", key, call, false, "prev() is reachable when the most recent next() failed (end of input): it re-reads the previous rune, shifting token boundaries (and can livelock the scan loop)")
		}
	}
	return nil
}

func (c *backupClient) ordinal(e *Engine, call *ast.CallExpr) int {
	n, idx := 0, 0
	ast.Inspect(e.Func.Body, func(x ast.Node) bool {
		if cc, ok := x.(*ast.CallExpr); ok && Callee(e.Info, cc) == c.prev {
			n++
			if cc == call {
				idx = n
			}
		}
		return true
	})
	return idx
}

func (c *backupClient) PostCall(e *Engine, st *State, call *ast.CallExpr, callee *types.Func) *State {
	if !c.isScannerMethod(callee) {
		return nil
	}
	rk, _ := c.recvKey(e, call)
	switch callee {
	case c.next:
		st = st.WithExt("lastnext:"+rk, "ignored")
		st = st.WithExt("lastnextval:"+rk, "")
		return st.WithExt("lastnextpos:"+rk, strconv.Itoa(int(call.Pos())))
	case c.prev:
		return st.WithExt("lastnext:"+rk, "after:prev()")
	default:
		return st.WithExt("lastnext:"+rk, "after:"+callee.Name()+"()")
	}
}

func (c *backupClient) PostAssign(e *Engine, st *State, lhs, rhs []ast.Expr, _ ast.Stmt) *State {
	if len(rhs) != 1 || len(lhs) != 2 {
		return nil
	}
	call, ok := ast.Unparen(rhs[0]).(*ast.CallExpr)
	if !ok || Callee(e.Info, call) != c.next {
		return nil
	}
	rk, _ := c.recvKey(e, call)
	if id, ok := lhs[1].(*ast.Ident); ok && id.Name != "_" {
		if k := e.Canon(id); k.OK {
			st = st.WithExt("lastnext:"+rk, k.Key)
		}
	}
	if id, ok := lhs[0].(*ast.Ident); ok && id.Name != "_" {
		if k := e.Canon(id); k.OK {
			st = st.WithExt("lastnextval:"+rk, k.Key)
		}
	}
	return st
}

// Visit records Token literals with the path facts (used by C09/tables for Scan).
func (c *backupClient) Visit(e *Engine, st *State, n ast.Node) *State {
	cl, ok := n.(*ast.CompositeLit)
	if !ok || c.tokenT == nil || !e.Reporting() || !types.Identical(e.Info.TypeOf(cl), c.tokenT) {
		return nil
	}
	kindE := litField(e.Info, cl, "Kind")
	if kindE == nil {
		return nil
	}
	site := tokenSite{lit: cl, kind: constName(e.Info, kindE)}
	// enclosing dispatch clause
	var clause *ast.CaseClause
	e.P.ancestors(cl, e.Func, func(anc, _ ast.Node) bool {
		if cc, ok := anc.(*ast.CaseClause); ok {
			clause = cc // keep the outermost
		}
		return true
	})
	if clause != nil {
		for _, ce := range clause.List {
			for _, d := range disjuncts(ce) {
				if b, ok := d.(*ast.BinaryExpr); ok && b.Op == token.EQL {
					if v := constOf(e.Info, b.Y); v != nil && v.Kind() == constant.Int {
						n, _ := constant.Int64Val(v)
						site.first = append(site.first, string(rune(n)))
					}
				}
			}
		}
	}
	// look-ahead facts: only if the most recent next() call lies inside the clause
	for k, v := range st.ext {
		if !strings.HasPrefix(k, "lastnextpos:") || clause == nil {
			continue
		}
		rk := strings.TrimPrefix(k, "lastnextpos:")
		pos, _ := strconv.Atoi(v)
		if token.Pos(pos) < clause.Pos() || token.Pos(pos) >= clause.End() {
			continue
		}
		site.second.looked = true
		last := st.Ext("lastnext:" + rk)
		if f := st.Get(last); f != nil && f.HasEq {
			site.second.okTrue = f.Eq == "true"
			site.second.okFalse = f.Eq == "false"
		}
		if strings.HasPrefix(last, "after:prev") {
			site.backed = true
			// the ok variable is still known through the remembered key
			if okKey := st.Ext("lastok:" + rk); okKey != "" {
				if f := st.Get(okKey); f != nil && f.HasEq {
					site.second.okTrue = f.Eq == "true"
					site.second.okFalse = f.Eq == "false"
				}
			}
		}
		if vk := st.Ext("lastnextval:" + rk); vk != "" {
			if f := st.Get(vk); f != nil {
				if f.HasEq {
					site.second.eq = f.Eq
				}
				site.second.ne = append(site.second.ne, f.Ne...)
			}
		}
	}
	c.literals = append(c.literals, site)
	return nil
}

// remember the ok variable across prev() so that the table rule can still see it
func (c *backupClient) Stmt(e *Engine, st *State, s ast.Stmt) *State {
	for k, v := range st.ext {
		if strings.HasPrefix(k, "lastnext:") && !strings.HasPrefix(v, "after:") && v != "ignored" {
			rk := strings.TrimPrefix(k, "lastnext:")
			if st.Ext("lastok:"+rk) != v {
				st = st.WithExt("lastok:"+rk, v)
			}
		}
	}
	return st
}

func ruleC09Backup(p *Program, r *Run) {
	pkg := p.Parser
	scannerT := p.Named(pkg, "scanner")
	next := FuncObj(pkg, p.MustFunc(pkg, "scanner.next"))
	prev := FuncObj(pkg, p.MustFunc(pkg, "scanner.prev"))
	var scanSites []tokenSite
	for _, fd := range AllFuncs(pkg) {
		uses := false
		ast.Inspect(fd.Body, func(n ast.Node) bool {
			if call, ok := n.(*ast.CallExpr); ok {
				if cal := Callee(pkg.TypesInfo, call); cal == next || cal == prev {
					uses = true
				}
			}
			return true
		})
		if !uses {
			continue
		}
		fn := FuncName(pkg, fd)
		r.Saw(fn)
		c := &backupClient{p: p, next: next, prev: prev, scannerT: scannerT, fn: fn}
		if fd.Name.Name == "Scan" && fd.Recv == nil {
			c.tokenT = p.Named(pkg, "Token")
		}
		e := NewEngine(p, pkg, fd, c)
		e.Run(nil)
		for _, m := range e.Errs {
			r.Fail("C09/backup", fn+" engine", "-", m)
		}
		e.FlushSites(r)
		if c.tokenT != nil {
			scanSites = c.literals
		}
	}
	r.Floor("C09/backup", 20)
	ruleC09Dispatch(p, r, scanSites)
}

// ---- C09/tables: the dispatch of Scan against the documented token table.

var docOneChar = map[string]string{
	",": "TokenComma", "|": "TokenPipe", "(": "TokenLParen", ")": "TokenRParen", "[": "TokenLBracket", "]": "TokenRBracket",
	"+": "TokenPlus", "-": "TokenMinus", "*": "TokenStar", "%": "TokenMod", ";": "TokenSemi",
}

// first char -> (second char -> kind); "" = no second char taken.
var docTwoChar = map[string]map[string]string{
	"=": {"=": "TokenEq", "~": "TokenCaseInsensitiveEq", "": "TokenAssign"},
	"!": {"=": "TokenNE", "~": "TokenCaseInsensitiveNE"},
	"<": {"=": "TokenLE", "": "TokenLT"},
	">": {"=": "TokenGE", "": "TokenGT"},
	"/": {"": "TokenSlash"}, // "//" starts a comment
}

var docKeywords = map[string]string{"and": "TokenAnd", "or": "TokenOr", "in": "TokenIn", "by": "TokenBy"}

func runeKey(s string) string { return strconv.Itoa(int([]rune(s)[0])) }

func ruleC09Dispatch(p *Program, r *Run, sites []tokenSite) {
	pkg := p.Parser
	info := pkg.TypesInfo
	fn := "parser.Scan"
	type agg struct {
		pos    token.Pos
		states []tokenSite
	}
	byLit := map[*ast.CompositeLit]*agg{}
	var order []*ast.CompositeLit
	for _, s := range sites {
		a := byLit[s.lit]
		if a == nil {
			a = &agg{pos: s.lit.Pos()}
			byLit[s.lit] = a
			order = append(order, s.lit)
		}
		a.states = append(a.states, s)
	}
	covered := map[string]bool{}
	for _, lit := range order {
		a := byLit[lit]
		s0 := a.states[0]
		if len(s0.first) != 1 {
			r.Fail("C09/tables", fmt.Sprintf("%s token literal %s", fn, s0.kind), p.Pos(a.pos), fmt.Sprintf("token literal is not under a single-character dispatch clause (chars %q); cannot relate it to the documented table", s0.first))
			continue
		}
		ch := s0.first[0]
		key := fmt.Sprintf("%s dispatch %q -> %s", fn, ch, s0.kind)
		if want, ok := docOneChar[ch]; ok {
			okAll := s0.kind == want
			for _, s := range a.states {
				if s.second.looked {
					okAll = false
				}
			}
			covered[ch] = covered[ch] || okAll
			r.Check(okAll, "C09/tables", key, p.Pos(a.pos), "one-character token, no look-ahead", fmt.Sprintf("character %q must yield %s without consuming anything else (documented token table)", ch, want))
			continue
		}
		fam, ok := docTwoChar[ch]
		if !ok {
			r.Fail("C09/tables", key, p.Pos(a.pos), fmt.Sprintf("character %q is not in the documented operator table", ch))
			continue
		}
		// classify the literal by what every state knows about the look-ahead
		var longer []string
		for c2 := range fam {
			if c2 != "" {
				longer = append(longer, c2)
			}
		}
		if ch == "/" {
			longer = append(longer, "/")
		}
		sort.Strings(longer)
		verdict := ""
		second := "?"
		for i, s := range a.states {
			var this string
			switch {
			case !s.second.looked:
				this = "?"
			case s.second.okTrue && s.second.eq != "":
				n, _ := strconv.Atoi(s.second.eq)
				this = string(rune(n))
			default:
				// no second character taken: either the look-ahead failed, or it excludes every longer token and was backed up
				excl := true
				for _, l := range longer {
					if !hasStr(s.second.ne, runeKey(l)) {
						excl = false
					}
				}
				switch {
				case s.second.okFalse:
					this = ""
				case excl && s.backed:
					this = ""
				case excl && !s.backed:
					this = ""
					verdict = fmt.Sprintf("after %q the look-ahead rune is not given back (prev() missing on a path where next() succeeded): the following character is swallowed", ch)
				default:
					this = "?"
				}
			}
			if i == 0 {
				second = this
			} else if second != this {
				second = "?"
			}
		}
		if second == "?" {
			r.Fail("C09/tables", key, p.Pos(a.pos), fmt.Sprintf("cannot determine from the path facts which second character (of %q or none) leads to this token", longer))
			continue
		}
		want, ok := fam[second]
		if !ok {
			r.Fail("C09/tables", key, p.Pos(a.pos), fmt.Sprintf("lexeme %q is not a documented token", ch+second))
			continue
		}
		covered[ch+second] = covered[ch+second] || (s0.kind == want && verdict == "")
		if verdict == "" && s0.kind != want {
			verdict = fmt.Sprintf("lexeme %q must yield %s (documented token table), the code yields %s", ch+second, want, s0.kind)
		}
		r.Check(verdict == "", "C09/tables", fmt.Sprintf("%s dispatch %q -> %s", fn, ch+second, s0.kind), p.Pos(a.pos), "longest-match dispatch agrees with the documented table; look-ahead given back", verdict)
	}
	// every documented entry is produced somewhere
	var all []string
	for ch := range docOneChar {
		all = append(all, ch)
	}
	for ch, fam := range docTwoChar {
		for c2 := range fam {
			all = append(all, ch+c2)
		}
	}
	sort.Strings(all)
	for _, lex := range all {
		r.Check(covered[lex], "C09/tables", fmt.Sprintf("%s produces %q", fn, lex), p.Pos(p.MustFunc(pkg, "Scan").Pos()), "documented token is produced by a matching dispatch path", fmt.Sprintf("no dispatch path of Scan produces the documented token for %q with the documented kind", lex))
	}
	r.Floor("C09/tables", 40)

	// sub-scanner dispatch classes
	scan := p.MustFunc(pkg, "Scan")
	wantClass := map[string]string{
		"ident":       "isAlpha(c)|c==$|c==_",
		"numberOrDot": "c==.|isDigit(c)",
		"string":      "c==\"|c=='",
		"quotedIdent": "c==`",
	}
	gotClass := map[string]string{}
	ast.Inspect(scan.Body, func(n ast.Node) bool {
		cc, ok := n.(*ast.CaseClause)
		if !ok || len(cc.List) != 1 {
			return true
		}
		var callee string
		for _, s := range cc.Body {
			ast.Inspect(s, func(m ast.Node) bool {
				if call, ok := m.(*ast.CallExpr); ok {
					if fnc := Callee(info, call); fnc != nil && fnc.Type().(*types.Signature).Recv() != nil && fnc.Name() != "prev" && fnc.Name() != "next" {
						if _, want := wantClass[fnc.Name()]; want {
							callee = fnc.Name()
						}
					}
				}
				return true
			})
		}
		if callee == "" {
			return true
		}
		var atoms []string
		for _, d := range disjuncts(cc.List[0]) {
			switch x := d.(type) {
			case *ast.CallExpr:
				if f := Callee(info, x); f != nil {
					atoms = append(atoms, f.Name()+"(c)")
				}
			case *ast.BinaryExpr:
				if v := constOf(info, x.Y); v != nil && x.Op == token.EQL {
					n, _ := constant.Int64Val(v)
					atoms = append(atoms, "c=="+string(rune(n)))
				}
			default:
				atoms = append(atoms, "?"+exprStr(d))
			}
		}
		sort.Strings(atoms)
		gotClass[callee] = strings.Join(atoms, "|")
		return true
	})
	for _, name := range []string{"ident", "numberOrDot", "quotedIdent", "string"} {
		ws := strings.Split(wantClass[name], "|")
		sort.Strings(ws)
		wantClass[name] = strings.Join(ws, "|")
		r.Check(gotClass[name] == wantClass[name], "C09/classes", fmt.Sprintf("%s first-character class of %s", fn, name), p.Pos(scan.Pos()), "dispatch class "+wantClass[name], fmt.Sprintf("sub-scanner %s is entered for first characters {%s}, documented {%s}", name, gotClass[name], wantClass[name]))
	}
	// character predicates evaluated over the first 0x250 code points
	preds := map[string]func(c rune) bool{
		"isAlpha":    func(c rune) bool { return 'a' <= c && c <= 'z' || 'A' <= c && c <= 'Z' },
		"isDigit":    func(c rune) bool { return '0' <= c && c <= '9' },
		"isHexDigit": func(c rune) bool { return '0' <= c && c <= '9' || 'a' <= c && c <= 'f' || 'A' <= c && c <= 'F' },
	}
	for _, name := range []string{"isAlpha", "isDigit", "isHexDigit"} {
		fd := p.MustFunc(pkg, name)
		bad := ""
		for c := rune(0); c < 0x250 && bad == ""; c++ {
			got, ok := evalRunePred(p, fd, c, 0)
			if !ok {
				bad = "predicate body is not a pure boolean expression over its argument"
			} else if got != preds[name](c) {
				bad = fmt.Sprintf("%s(%q) is %v, documented class says %v", name, c, got, preds[name](c))
			}
		}
		r.Check(bad == "", "C09/classes", "parser."+name+" character class", p.Pos(fd.Pos()), "agrees with the documented class on U+0000..U+024F (symbolic evaluation of the predicate expression)", bad)
	}
	// identifier continuation class in ident(): !(isAlpha(c) || isDigit(c) || c == '_')
	r.Floor("C09/classes", 7)

	// keywords
	kw := p.PkgVarValue(pkg, "keywords").(*ast.CompositeLit)
	got := map[string]string{}
	for _, el := range kw.Elts {
		kv := el.(*ast.KeyValueExpr)
		k, _ := constString(info, kv.Key)
		got[k] = constName(info, kv.Value)
	}
	var kws []string
	for k := range docKeywords {
		kws = append(kws, k)
	}
	for k := range got {
		if _, ok := docKeywords[k]; !ok {
			kws = append(kws, k)
		}
	}
	sort.Strings(kws)
	for _, k := range kws {
		r.Check(got[k] == docKeywords[k] && got[k] != "", "C09/keywords", fmt.Sprintf("parser.keywords[%q]", k), p.Pos(kw.Pos()), "keyword maps to "+docKeywords[k], fmt.Sprintf("keyword table has %q -> %q, documented %q", k, got[k], docKeywords[k]))
	}
	r.Floor("C09/keywords", 4)
}

// evalRunePred evaluates a single-return boolean predicate over one rune argument.
func evalRunePred(p *Program, fd *ast.FuncDecl, c rune, depth int) (bool, bool) {
	if depth > 4 || len(fd.Body.List) != 1 || fd.Type.Params.NumFields() != 1 {
		return false, false
	}
	ret, ok := fd.Body.List[0].(*ast.ReturnStmt)
	if !ok || len(ret.Results) != 1 {
		return false, false
	}
	info := p.Parser.TypesInfo
	param := info.Defs[fd.Type.Params.List[0].Names[0]]
	var evalB func(e ast.Expr) (bool, bool)
	evalI := func(e ast.Expr) (int64, bool) {
		if v := constOf(info, e); v != nil {
			n, ok := constant.Int64Val(constant.ToInt(v))
			return n, ok
		}
		if objOf(info, e) == param {
			return int64(c), true
		}
		return 0, false
	}
	evalB = func(e ast.Expr) (bool, bool) {
		e = ast.Unparen(e)
		switch x := e.(type) {
		case *ast.BinaryExpr:
			switch x.Op {
			case token.LAND, token.LOR:
				a, ok1 := evalB(x.X)
				b, ok2 := evalB(x.Y)
				if !ok1 || !ok2 {
					return false, false
				}
				if x.Op == token.LAND {
					return a && b, true
				}
				return a || b, true
			case token.LEQ, token.LSS, token.GEQ, token.GTR, token.EQL, token.NEQ:
				a, ok1 := evalI(x.X)
				b, ok2 := evalI(x.Y)
				if !ok1 || !ok2 {
					return false, false
				}
				switch x.Op {
				case token.LEQ:
					return a <= b, true
				case token.LSS:
					return a < b, true
				case token.GEQ:
					return a >= b, true
				case token.GTR:
					return a > b, true
				case token.EQL:
					return a == b, true
				default:
					return a != b, true
				}
			}
		case *ast.UnaryExpr:
			if x.Op == token.NOT {
				v, ok := evalB(x.X)
				return !v, ok
			}
		case *ast.CallExpr:
			f := Callee(info, x)
			if f == nil || len(x.Args) != 1 || objOf(info, x.Args[0]) != param {
				return false, false
			}
			fd2 := p.FuncDecl(p.Parser, f.Name())
			if fd2 == nil {
				return false, false
			}
			return evalRunePred(p, fd2, c, depth+1)
		}
		return false, false
	}
	return evalB(ret.Results[0])
}

// ---- C09/spans: token span shape.

func ruleC09Spans(p *Program, r *Run) {
	pkg := p.Parser
	info := pkg.TypesInfo
	tokenT := p.Named(pkg, "Token")
	scannerT := p.Named(pkg, "scanner")
	errTok := FuncObj(pkg, p.MustFunc(pkg, "errorToken"))
	newSpanF := FuncObj(pkg, p.MustFunc(pkg, "newSpan"))
	indexSpanF := FuncObj(pkg, p.MustFunc(pkg, "indexSpan"))
	isScannerPos := func(e ast.Expr) bool {
		sel, ok := ast.Unparen(e).(*ast.SelectorExpr)
		if !ok || sel.Sel.Name != "pos" {
			return false
		}
		t := info.TypeOf(sel.X)
		if pt, ok := t.(*types.Pointer); ok {
			t = pt.Elem()
		}
		return types.Identical(t, scannerT)
	}
	for _, fd := range AllFuncs(pkg) {
		if !strings.HasSuffix(p.Fset.Position(fd.Pos()).Filename, "lex.go") {
			continue
		}
		fn := FuncName(pkg, fd)
		// definitions of local ints: name -> all RHS
		defs := map[types.Object][]ast.Expr{}
		defStmt := map[types.Object][]*ast.AssignStmt{}
		ast.Inspect(fd.Body, func(n ast.Node) bool {
			if as, ok := n.(*ast.AssignStmt); ok && len(as.Lhs) == len(as.Rhs) {
				for i, l := range as.Lhs {
					if o := objOf(info, l); o != nil {
						defs[o] = append(defs[o], as.Rhs[i])
						defStmt[o] = append(defStmt[o], as)
					}
				}
			}
			return true
		})
		// savedPos: a local whose every definition is s.pos
		savedPos := func(e ast.Expr) bool {
			if isScannerPos(e) {
				return true
			}
			o := objOf(info, e)
			if o == nil || len(defs[o]) == 0 {
				return false
			}
			for _, d := range defs[o] {
				if !isScannerPos(d) {
					return false
				}
			}
			return true
		}
		// startVar: saved position taken as the first statement of the function body or of the enclosing loop body
		isStart := func(e ast.Expr) bool {
			o := objOf(info, e)
			if o == nil || len(defs[o]) != 1 || !isScannerPos(defs[o][0]) {
				return false
			}
			as := defStmt[o][0]
			switch parent := p.Parent(as).(type) {
			case *ast.BlockStmt:
				if len(parent.List) > 0 && parent.List[0] == ast.Stmt(as) {
					switch gp := p.Parent(parent).(type) {
					case *ast.FuncDecl:
						return true
					case *ast.ForStmt:
						return gp.Body == parent
					}
				}
			}
			return false
		}
		var okSpan func(e ast.Expr, depth int) (bool, string)
		okSpan = func(e ast.Expr, depth int) (bool, string) {
			e = ast.Unparen(e)
			if call, ok := e.(*ast.CallExpr); ok {
				switch Callee(info, call) {
				case newSpanF:
					if !isStart(call.Args[0]) {
						return false, "span does not start at the position saved at the start of the token (" + exprStr(call.Args[0]) + ")"
					}
					if !savedPos(call.Args[1]) {
						return false, "span does not end at the scanner position (or a saved copy of it): " + exprStr(call.Args[1])
					}
					return true, "newSpan(start, s.pos)"
				case indexSpanF:
					if !isStart(call.Args[0]) {
						return false, "indexSpan argument is not the token start"
					}
					return true, "indexSpan(start)"
				}
				return false, "span built by an unknown call " + exprStr(e)
			}
			if o := objOf(info, e); o != nil && depth < 3 && len(defs[o]) > 0 {
				for _, d := range defs[o] {
					if ok, why := okSpan(d, depth+1); !ok {
						return false, why
					}
				}
				return true, "local span variable built from newSpan(start, s.pos)"
			}
			return false, "span expression " + exprStr(e) + " is not derived from the token start and the scanner position"
		}
		n := 0
		ast.Inspect(fd.Body, func(x ast.Node) bool {
			var spanE ast.Expr
			var what string
			switch v := x.(type) {
			case *ast.CompositeLit:
				if !types.Identical(info.TypeOf(v), tokenT) {
					return true
				}
				spanE = litField(info, v, "Span")
				what = "Token{Kind: " + exprStr(orIdent(litField(info, v, "Kind"))) + "}"
				if spanE == nil {
					n++
					r.Fail("C09/spans", fmt.Sprintf("%s %s #%d", fn, what, n), p.Pos(v.Pos()), "token built without a span")
					return true
				}
			case *ast.CallExpr:
				if Callee(info, v) != errTok {
					return true
				}
				spanE = v.Args[0]
				what = "errorToken"
			default:
				return true
			}
			n++
			r.Saw(fn)
			if FuncObj(pkg, fd) == errTok {
				if v, isVar := objOf(info, spanE).(*types.Var); isVar && v.Parent() == info.Scopes[fd.Type] {
					r.Pass("C09/spans", fmt.Sprintf("%s %s #%d", fn, what, n), p.Pos(x.Pos()), "span forwarded from the parameter; every call site of errorToken is checked")
					return true
				}
			}
			ok, why := okSpan(spanE, 0)
			r.Check(ok, "C09/spans", fmt.Sprintf("%s %s #%d", fn, what, n), p.Pos(x.Pos()), why, why+": the token would not cover exactly [token start, scanner position)")
			return true
		})
	}
	r.Floor("C09/spans", 40)
}

func orIdent(e ast.Expr) ast.Expr {
	if e == nil {
		return ast.NewIdent("?")
	}
	return e
}

// ---- C09/runes: scanned runes are never narrowed to a byte.
func ruleC09Runes(p *Program, r *Run) {
	pkg := p.Parser
	info := pkg.TypesInfo
	n := 0
	for _, fd := range AllFuncs(pkg) {
		if !strings.HasSuffix(p.Fset.Position(fd.Pos()).Filename, "lex.go") {
			continue
		}
		fn := FuncName(pkg, fd)
		ast.Inspect(fd.Body, func(x ast.Node) bool {
			call, ok := x.(*ast.CallExpr)
			if !ok || len(call.Args) != 1 {
				return true
			}
			tv, ok := info.Types[call.Fun]
			if !ok || !tv.IsType() {
				return true
			}
			to, okT := tv.Type.Underlying().(*types.Basic)
			from, okF := info.TypeOf(call.Args[0]).Underlying().(*types.Basic)
			if !okT || !okF {
				return true
			}
			if from.Kind() == types.Int32 && (to.Kind() == types.Uint8 || to.Kind() == types.Int8) && constOf(info, call.Args[0]) == nil {
				n++
				r.Fail("C09/runes", fmt.Sprintf("%s conversion %s", fn, exprStr(call)), p.Pos(call.Pos()), "a scanned rune is narrowed to a byte: every non-ASCII character loses its upper bits (token values would not be the decoded text)")
			}
			return true
		})
		// writes of a rune into a builder go through WriteRune
		ast.Inspect(fd.Body, func(x ast.Node) bool {
			call, ok := x.(*ast.CallExpr)
			if !ok {
				return true
			}
			sel, ok := ast.Unparen(call.Fun).(*ast.SelectorExpr)
			if !ok || sel.Sel.Name != "WriteRune" || len(call.Args) != 1 {
				return true
			}
			n++
			r.Pass("C09/runes", fmt.Sprintf("%s %s", fn, exprStr(call)), p.Pos(call.Pos()), "decoded character written as a rune")
			return true
		})
	}
	r.Floor("C09/runes", 1)
}

// ---- C09/lookahead: a scanner method that reports failure (false) leaves the position where it was.
type lookaheadClient struct {
	loopClient
	hasDefer bool
}

func (c *lookaheadClient) Return(e *Engine, st *State, ret *ast.ReturnStmt) {
	if e.Lit != nil || ret == nil || len(ret.Results) != 1 || !e.Reporting() {
		return
	}
	v := constOf(e.Info, ret.Results[0])
	if v == nil || v.String() != "false" {
		return
	}
	key := fmt.Sprintf("%s return #%d (false)", c.fn, returnOrdinal(e.Func, ret))
	net := st.Ext("net")
	ok := net == "0" || c.hasDefer
	how := "the scanner position is back at the method's entry when it reports failure"
	if c.hasDefer {
		how = "a deferred closure restores the entry position whenever the result is false"
	}
	e.Site("C09/lookahead", key, ret, ok, how)
	if !ok {
		e.Site("C09/lookahead", key, ret, false, "the look-ahead reports failure but the runes it read are not given back on this path (net consumption "+net+"): they are swallowed into the current token")
	}
}

func ruleC09Lookahead(p *Program, r *Run) {
	pkg := p.Parser
	info := pkg.TypesInfo
	w := &loopWorld{p: p, minCons: map[*types.Func]int{}}
	for _, fd := range AllFuncs(pkg) {
		fobj := FuncObj(pkg, fd)
		if cursorOf(fobj) != "scanner" || fd.Type.Results == nil || len(fd.Type.Results.List) != 1 || TypeStr(info.TypeOf(fd.Type.Results.List[0].Type)) != "bool" {
			continue
		}
		fn := FuncName(pkg, fd)
		r.Saw(fn)
		c := &lookaheadClient{}
		c.w, c.pkg, c.fd, c.fn, c.loops = w, pkg, fd, fn, map[ast.Stmt]int{}
		// deferred restore: defer func() { if !<result> { s.setPos(<entry>) } }()
		var resName types.Object
		if len(fd.Type.Results.List[0].Names) == 1 {
			resName = info.Defs[fd.Type.Results.List[0].Names[0]]
		}
		ast.Inspect(fd.Body, func(n ast.Node) bool {
			ds, ok := n.(*ast.DeferStmt)
			if !ok {
				return true
			}
			lit, ok := ds.Call.Fun.(*ast.FuncLit)
			if !ok || len(lit.Body.List) != 1 {
				return true
			}
			ifs, ok := lit.Body.List[0].(*ast.IfStmt)
			if !ok {
				return true
			}
			un, ok := ast.Unparen(ifs.Cond).(*ast.UnaryExpr)
			if !ok || un.Op != token.NOT || resName == nil || objOf(info, un.X) != resName {
				return true
			}
			for _, s := range ifs.Body.List {
				if es, ok := s.(*ast.ExprStmt); ok {
					if call, ok := es.X.(*ast.CallExpr); ok {
						if f := Callee(info, call); f != nil && f.Name() == "setPos" {
							if k, ok := c.entryRelative(nil, call.Args[0], info); ok && k == 0 {
								c.hasDefer = true
							}
						}
					}
				}
			}
			return true
		})
		e := NewEngine(p, pkg, fd, c)
		e.Run(newState().WithExt("net", "0"))
		for _, m := range e.Errs {
			r.Fail("C09/lookahead", fn+" engine", "-", m)
		}
		e.FlushSites(r)
	}
	r.Floor("C09/lookahead", 3)
}

// ---- C09/escapes: the escape decoding table of string literals; C09/unquote: backtick un-doubling.
func ruleC09Escapes(p *Program, r *Run) {
	pkg := p.Parser
	info := pkg.TypesInfo
	fd := p.MustFunc(pkg, "scanner.string")
	fn := FuncName(pkg, fd)
	r.Saw(fn)
	// the switch on the rune read directly after a backslash: the innermost switch inside `case '\\':`
	var escSw *ast.SwitchStmt
	ast.Inspect(fd.Body, func(n ast.Node) bool {
		cc, ok := n.(*ast.CaseClause)
		if !ok {
			return true
		}
		isBackslash := false
		for _, e := range cc.List {
			if v, ok := constInt(info, e); ok && v == '\\' {
				isBackslash = true
			}
		}
		if !isBackslash {
			return true
		}
		ast.Inspect(cc, func(m ast.Node) bool {
			if sw, ok := m.(*ast.SwitchStmt); ok && sw != nil && escSw == nil && sw.Tag != nil {
				escSw = sw
			}
			return true
		})
		return false
	})
	if escSw == nil {
		r.Fail("C09/escapes", fn+" escape switch", p.Pos(fd.Pos()), "no switch on the character after a backslash found: escape sequences are not decoded by a recognisable table")
		return
	}
	want := map[string]string{"n": "\n", "t": "\t"}
	got := map[string]string{}
	dfltSelf := false
	nlErr := false
	for _, c := range escSw.Body.List {
		cc := c.(*ast.CaseClause)
		var wrote *ast.CallExpr
		returns := false
		for _, s := range cc.Body {
			ast.Inspect(s, func(m ast.Node) bool {
				if call, ok := m.(*ast.CallExpr); ok {
					if sel, ok := call.Fun.(*ast.SelectorExpr); ok && strings.HasPrefix(sel.Sel.Name, "Write") {
						wrote = call
					}
				}
				if _, ok := m.(*ast.ReturnStmt); ok {
					returns = true
				}
				return true
			})
		}
		if cc.List == nil {
			if wrote != nil && len(wrote.Args) == 1 && sameExpr(info, wrote.Args[0], escSw.Tag) {
				dfltSelf = true
			}
			continue
		}
		for _, e := range cc.List {
			v, ok := constInt(info, e)
			if !ok {
				continue
			}
			if v == '\n' && returns {
				nlErr = true
				continue
			}
			if wrote != nil && len(wrote.Args) == 1 {
				if w, ok := constInt(info, wrote.Args[0]); ok {
					got[string(rune(v))] = string(rune(w))
				} else {
					got[string(rune(v))] = "?" + exprStr(wrote.Args[0])
				}
			}
		}
	}
	for _, k := range []string{"n", "t"} {
		r.Check(got[k] == want[k], "C09/escapes", fmt.Sprintf("%s escape \\%s", fn, k), p.Pos(escSw.Pos()), fmt.Sprintf("decodes to %q", want[k]), fmt.Sprintf("the escape \\%s decodes to %q, documented %q", k, got[k], want[k]))
	}
	for k, v := range got {
		if _, ok := want[k]; !ok {
			r.Fail("C09/escapes", fmt.Sprintf("%s escape \\%s", fn, k), p.Pos(escSw.Pos()), fmt.Sprintf("undocumented escape \\%s -> %q", k, v))
		}
	}
	r.Check(dfltSelf, "C09/escapes", fn+" any other escaped character", p.Pos(escSw.Pos()), "stands for itself (so \\\" \\' \\\\ work)", "an escaped character that is not n or t does not stand for itself")
	r.Check(nlErr, "C09/escapes", fn+" backslash before a newline", p.Pos(escSw.Pos()), "is an unterminated string (strings are one-line)", "a backslash directly before a newline does not end the token with an error")
	r.Floor("C09/escapes", 4)

	// quotedIdent: Value = ReplaceAll(text between the backticks, "``", "`")
	qd := p.MustFunc(pkg, "scanner.quotedIdent")
	r.Saw(FuncName(pkg, qd))
	okUn := false
	ast.Inspect(qd.Body, func(n ast.Node) bool {
		cl, ok := n.(*ast.CompositeLit)
		if !ok || TypeStr(info.TypeOf(cl)) != "parser.Token" {
			return true
		}
		if k := litField(info, cl, "Kind"); k == nil || constName(info, k) != "TokenQuotedIdentifier" {
			return true
		}
		v := litField(info, cl, "Value")
		call, isCall := ast.Unparen(orIdent(v)).(*ast.CallExpr)
		if !isCall || len(call.Args) != 3 {
			return true
		}
		if f := Callee(info, call); f == nil || f.FullName() != "strings.ReplaceAll" {
			return true
		}
		from, _ := constString(info, call.Args[1])
		to, _ := constString(info, call.Args[2])
		_, isSlice := ast.Unparen(call.Args[0]).(*ast.SliceExpr)
		okUn = from == "``" && to == "`" && isSlice
		return true
	})
	r.Check(okUn, "C09/unquote", FuncName(pkg, qd)+" value", p.Pos(qd.Pos()), "the text between the backticks with every doubled backtick reduced to one", "the value of a backtick-quoted identifier is not the enclosed text with `` reduced to `")
	r.Floor("C09/unquote", 1)
}
