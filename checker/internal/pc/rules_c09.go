package pc

import (
	"fmt"
	"go/ast"
	"go/constant"
	"go/token"
	"go/types"
	"golang.org/x/tools/go/packages"
	"os"
	"sort"
	"strconv"
	"strings"
	"unicode"
)

// ---- C09/backup: typestate of the scanner's one-rune back-up.

type backupClient struct {
	backed map[string]bool // sub-scanner -> every call from Scan follows a prev()
	BaseClient
	p        *Program
	next     *types.Func
	prev     *types.Func
	scannerT *types.Named
	fn       string
	// table extraction (Scan only)
	tokenT   *types.Named
	literals []tokenSite
	classes  map[string][]bool // sub-scanner -> first characters (below U+3100) for which Scan calls it
	// helpers that give back a rune their caller has read (a prev() before any read of their own): interpreted in
	// place in every caller, where the usual rule decides
	relies map[*types.Func]bool
	self   *types.Func
}

type tokenSite struct {
	lit    *ast.CompositeLit
	ctx    string // in-place call context of the literal ("" = written in Scan itself)
	kind   string
	first  []string // characters of the enclosing dispatch clause (from `c == 'x'` disjuncts)
	second secondInfo
	backed bool // scanner was backed up (or the look-ahead failed) in this state
}

type secondInfo struct {
	looked  bool     // a look-ahead next() happened inside the clause
	okTrue  bool     // its ok result is known true
	okFalse bool     //
	eq      string   // known value of the look-ahead rune ("" unknown)
	ne      []string // excluded values
}

// Inline (table extraction for Scan only): loop-free helpers that build a token are interpreted in place, so a
// token literal shared by several dispatch clauses is seen once per clause with its parameters bound.
func (c *backupClient) Inline(e *Engine, call *ast.CallExpr, callee *types.Func, decl *ast.FuncDecl) bool {
	if (InlinePredicates{}).Inline(e, call, callee, decl) {
		return true // isIdentStart(c), isQuote(c): the facts they stand for
	}
	if c.relies[callee] && callee != c.self && smallBody(decl) {
		return true
	}
	if c.tokenT == nil || callee == c.next || callee == c.prev || !smallBody(decl) {
		return false
	}
	sig := callee.Type().(*types.Signature)
	tokenHelper := sig.Results().Len() == 1 && types.Identical(sig.Results().At(0).Type(), c.tokenT)
	// look-ahead helpers of the scanner (accept(c), peek()) and local closures (emit(kind)) are interpreted in
	// place too, so that what they read and append counts for the iteration that called them
	lookahead := c.isScannerMethod(callee) && fnName(callee) != "setPos"
	closure := e.P.isClosureDecl(decl)
	if !tokenHelper && !lookahead && !closure {
		return false
	}
	loops := false
	ast.Inspect(decl.Body, func(n ast.Node) bool {
		switch n.(type) {
		case *ast.ForStmt, *ast.RangeStmt:
			loops = true
		}
		return true
	})
	// a helper of the dispatch that also reports something besides a token (slashOrComment: the token and whether
	// it was a comment) is part of the clause that calls it even if it loops over the comment's text; a method that
	// returns just a token and loops is a sub-scanner, with rules of its own
	if loops && lookahead && sig.Results().Len() > 1 {
		return true
	}
	return !loops
}

// runeLimit: character classes are compared on U+0000..U+30FF.
const runeLimit = 0x3100

// noteClass: the first characters consistent with what this path knows about the character the iteration
// dispatched on (constants it equals or differs from, predicates known to hold or not to hold for it).
func (c *backupClient) noteClass(e *Engine, st *State, name string) {
	k := st.Ext("iterfirst")
	if k == "" {
		return
	}
	if a := st.Get("val:" + k); a != nil && a.Alias != nil && !hasStr(a.Tags, "soft") {
		k = a.Alias.Key
	}
	if c.classes == nil {
		c.classes = map[string][]bool{}
	}
	if c.classes[name] == nil {
		c.classes[name] = make([]bool, runeLimit)
	}
	f := st.Get(k)
	type atom struct {
		fn   string
		arg0 string // constant first argument (strings.ContainsRune("...", c)), if any
		want bool
	}
	var atoms []atom
	for _, key := range st.Keys() {
		if !strings.HasPrefix(key, "call:") || !strings.HasSuffix(key, k+")") {
			continue
		}
		g := st.Get(key)
		if g == nil || !g.HasEq {
			continue
		}
		body := strings.TrimPrefix(key, "call:")
		open := strings.Index(body, "(")
		if open < 0 {
			continue
		}
		args := strings.TrimSuffix(body[open+1:], ")")
		a := atom{fn: body[:open], want: g.Eq == "true"}
		if args != k {
			if !strings.HasSuffix(args, ","+k) {
				continue
			}
			a.arg0 = strings.TrimSuffix(args, ","+k)
		}
		atoms = append(atoms, a)
	}
	for r := rune(0); r < runeLimit; r++ {
		ok := true
		if f != nil {
			if f.HasEq {
				if n, isInt := parseInt(f.Eq); isInt && rune(n) != r {
					ok = false
				}
			}
			for _, ne := range f.Ne {
				if n, isInt := parseInt(ne); isInt && rune(n) == r {
					ok = false
				}
			}
			if f.Lo != nil && int64(r) < *f.Lo || f.Hi != nil && int64(r) > *f.Hi {
				ok = false
			}
		}
		for _, a := range atoms {
			if !ok {
				break
			}
			var got, known bool
			switch {
			case a.fn == "unicode.IsSpace":
				got, known = unicode.IsSpace(r), true
			case a.fn == "unicode.IsLetter":
				got, known = unicode.IsLetter(r), true
			case a.fn == "unicode.IsDigit":
				got, known = unicode.IsDigit(r), true
			case a.fn == "strings.ContainsRune" && a.arg0 != "":
				if s, err := strconv.Unquote(a.arg0); err == nil {
					got, known = strings.ContainsRune(s, r), true
				}
			default:
				if i := strings.LastIndex(a.fn, "."); i >= 0 {
					if fd := c.p.FuncDecl(c.p.Parser, a.fn[i+1:]); fd != nil {
						got, known = evalRunePred(c.p, fd, r, 0)
					}
				}
			}
			if known && got != a.want {
				ok = false
			}
		}
		if ok {
			c.classes[name][r] = true
		}
	}
}

// where: the function (and in-place call context) a call sits in, with its ordinal among the prev() calls there.
func (c *backupClient) where(e *Engine) string {
	if k := e.FrameKey(); k != "" {
		return c.fn + " > " + k
	}
	return c.fn
}

func (c *backupClient) recvKey(e *Engine, st *State, call *ast.CallExpr) (string, bool) {
	sel, ok := ast.Unparen(call.Fun).(*ast.SelectorExpr)
	if !ok {
		return "", false
	}
	k := e.CanonSt(st, sel.X) // the receiver of a helper interpreted in place is the caller's scanner
	if !k.OK {
		return "?", true
	}
	return strings.TrimPrefix(k.Key, "&"), true
}

func (c *backupClient) isScannerMethod(fn *types.Func) bool {
	if fn == nil {
		return false
	}
	sig := fn.Type().(*types.Signature)
	if sig.Recv() == nil {
		return false
	}
	t := sig.Recv().Type()
	if p, ok := t.(*types.Pointer); ok {
		t = p.Elem()
	}
	return types.Identical(t, c.scannerT)
}

func (c *backupClient) PreCall(e *Engine, st *State, call *ast.CallExpr, callee *types.Func) *State {
	if c.tokenT != nil && len(e.Frames()) == 0 && e.Reporting() && c.isScannerMethod(callee) && callee != c.next && callee != c.prev {
		// a sub-scanner is entered: the first characters consistent with this path, and whether the character
		// was given back first
		name := fnName(callee)
		c.noteClass(e, st, name)
		if c.backed == nil {
			c.backed = map[string]bool{}
		}
		rk, _ := c.recvKey(e, st, call)
		if _, seen := c.backed[name]; !seen {
			c.backed[name] = true
		}
		if !strings.HasPrefix(st.Ext("lastnext:"+rk), "after:prev") {
			c.backed[name] = false
		}
	}
	if callee != c.prev {
		return nil
	}
	rk, _ := c.recvKey(e, st, call)
	key := fmt.Sprintf("%s prev() #%d", c.where(e), c.ordinal(e, call))
	last := st.Ext("lastnext:" + rk)
	switch {
	case last == "entry" && len(e.Frames()) == 0:
		// nothing was read since the helper was entered: it gives back what its caller read
		c.relies[c.self] = true
		e.Site("C09/backup", key, call, true, "gives back the rune its caller has just read: decided in every caller, where the helper is interpreted in place")
	case last == "" || last == "entry":
		e.Site("C09/backup", key, call, false, "prev() with no preceding next() on this path: the saved position is stale, an already consumed rune would be read again")
	case strings.HasPrefix(last, "after:"):
		e.Site("C09/backup", key, call, false, "prev() after "+strings.TrimPrefix(last, "after:")+" without a fresh next(): the saved position is stale")
	case last == "ignored":
		e.Site("C09/backup", key, call, false, "prev() after a next() whose ok result was discarded: at end of input the back-up re-reads a consumed rune")
	default:
		f := st.Get(last)
		if f != nil && f.HasEq && f.Eq == "true" {
			e.Site("C09/backup", key, call, true, "most recent next() on this path returned ok")
		} else {
			e.Site("C09/backup", key, call, false, "prev() is reachable when the most recent next() failed (end of input): it re-reads the previous rune, shifting token boundaries (and can livelock the scan loop)")
		}
	}
	return nil
}

func (c *backupClient) ordinal(e *Engine, call *ast.CallExpr) int {
	n, idx := 0, 0
	ast.Inspect(e.CurFunc().Body, func(x ast.Node) bool {
		if cc, ok := x.(*ast.CallExpr); ok && Callee(e.Info, cc) == c.prev {
			n++
			if cc == call {
				idx = n
			}
		}
		return true
	})
	return idx
}

func (c *backupClient) PostCall(e *Engine, st *State, call *ast.CallExpr, callee *types.Func) *State {
	if !c.isScannerMethod(callee) {
		return nil
	}
	rk, _ := c.recvKey(e, st, call)
	switch callee {
	case c.next:
		st = st.WithExt("lastnext:"+rk, "ignored")
		st = st.WithExt("lastnextval:"+rk, "")
		st = st.WithExt("eofread:"+rk, st.Ext("eof:"+rk)) // a read at the end of the input fails again
		pos := call.Pos()
		if fr := e.Frames(); len(fr) > 0 {
			pos = fr[0].Call.Pos() // a look-ahead inside a helper counts for the clause that called the helper
		}
		return st.WithExt("lastnextpos:"+rk, strconv.Itoa(int(pos)))
	case c.prev:
		// the rune that is given back is the one the next read returns: what is known about it is kept
		gave := ""
		if vk := st.Ext("lastnextval:" + rk); vk != "" {
			f := st.Get(vk)
			if f == nil {
				f = snapFact(st, "lastnextval:"+rk)
			}
			if f != nil {
				if f.HasEq {
					gave = "=" + f.Eq
				}
				for _, ne := range f.Ne {
					gave += "|!" + ne
				}
			}
		}
		return st.WithExt("lastnext:"+rk, "after:prev()").WithExt("gaveback:"+rk, gave)
	default:
		if _, inPlace := e.inlined[call]; inPlace {
			return nil // a look-ahead helper interpreted in place: its own reads and back-ups are what counts
		}
		return st.WithExt("lastnext:"+rk, "after:"+callee.Name()+"()").WithExt("gaveback:"+rk, "").WithExt("eof:"+rk, "").WithExt("eofread:"+rk, "")
	}
}

func (c *backupClient) PostAssign(e *Engine, st *State, lhs, rhs []ast.Expr, _ ast.Stmt) *State {
	// tokens = append(tokens, ...): this iteration produced a token
	if c.tokenT != nil && len(lhs) == 1 && len(rhs) == 1 {
		if call, ok := ast.Unparen(rhs[0]).(*ast.CallExpr); ok && IsBuiltinCall(e.Info, call, "append") {
			if sl, ok := e.Info.TypeOf(lhs[0]).Underlying().(*types.Slice); ok && types.Identical(sl.Elem(), c.tokenT) && st.Ext("tok:emitted") != "1" {
				return st.WithExt("tok:emitted", "1")
			}
		}
	}
	if len(rhs) != 1 || len(lhs) != 2 {
		return nil
	}
	call, ok := ast.Unparen(rhs[0]).(*ast.CallExpr)
	if !ok || Callee(e.Info, call) != c.next {
		return nil
	}
	rk, _ := c.recvKey(e, st, call)
	if id, ok := lhs[1].(*ast.Ident); ok && id.Name != "_" {
		if k := e.Canon(id); k.OK {
			st = st.WithExt("lastnext:"+rk, k.Key)
		}
	}
	if id, ok := lhs[0].(*ast.Ident); ok && id.Name != "_" {
		if k := e.Canon(id); k.OK {
			if gave := st.Ext("gaveback:" + rk); gave != "" {
				// the same rune as the one given back by the prev() before this read
				st = st.WithExt("gaveback:"+rk, "")
				if n := e.update(st, k, func(f *Fact) {
					for _, part := range strings.Split(gave, "|") {
						switch {
						case strings.HasPrefix(part, "="):
							if !f.HasEq {
								f.HasEq, f.Eq = true, part[1:]
							}
						case strings.HasPrefix(part, "!"):
							f.Ne = addSorted(f.Ne, part[1:])
						}
					}
				}); n != nil {
					st = n
				}
			}
			st = st.WithExt("lastnextval:"+rk, k.Key)
			if c.tokenT != nil {
				if st.Ext("iterfirst") == "" {
					st = st.WithExt("iterfirst", k.Key) // the character this iteration of the scan loop dispatches on
				} else if st.Ext("itersecond") == "" {
					st = st.WithExt("itersecond", k.Key) // the look-ahead after it
				}
			}
		}
	}
	return st
}

// LoopHead / LoopBack (Scan only): an iteration that dispatched on a character of the documented operator table ends
// with a token appended - a documented lexeme is never swallowed (only white space and // comments are).
func (c *backupClient) LoopHead(e *Engine, st *State, loop ast.Stmt) *State {
	if c.tokenT == nil || !c.isScanLoop(e, loop) {
		return nil
	}
	for k := range st.ext {
		if strings.HasPrefix(k, "snap:") {
			st = st.WithExt(k, "") // what an earlier iteration remembered about its look-ahead
		}
	}
	for k := range st.ext {
		if strings.HasPrefix(k, "eof:") || strings.HasPrefix(k, "eofread:") || strings.HasPrefix(k, "gaveback:") {
			st = st.WithExt(k, "")
		}
	}
	return st.WithExt("iterfirst", "").WithExt("itersecond", "").WithExt("iter:comment", "").WithExt("tok:emitted", "")
}

func (c *backupClient) isScanLoop(e *Engine, loop ast.Stmt) bool {
	return e.P.Parent(e.P.Parent(loop)) == ast.Node(e.Func)
}

func (c *backupClient) LoopBack(e *Engine, st *State, loop ast.Stmt) {
	if c.tokenT == nil || !c.isScanLoop(e, loop) || !e.Reporting() {
		return
	}
	k := st.Ext("iterfirst")
	if k == "" {
		return
	}
	if st.Ext("iter:comment") == "1" && st.Ext("tok:emitted") != "1" {
		return // a `//` comment: the look-ahead was known to be a second slash on this path
	}
	f := st.GetVar(k)
	if (f == nil || !f.HasEq) && st.Ext("tok:emitted") != "1" {
		// a class of characters passed over without a token: the predicate known to hold for the character
		// must be exactly the white-space class
		if os.Getenv("PQL_DEBUG_SKIP") != "" {
			fmt.Fprintln(os.Stderr, "SKIP", k, st.String())
		}
		c.noteClass(e, st, "skip")
		return
	}
	if f == nil || !f.HasEq {
		return
	}
	n, ok := parseInt(f.Eq)
	if !ok {
		return
	}
	ch := string(rune(n))
	_, one := docOneChar[ch]
	_, two := docTwoChar[ch]
	if !one && !two {
		// any other character that is passed over without a token must be white space
		if st.Ext("tok:emitted") != "1" {
			okSp := unicode.IsSpace(rune(n))
			c.noteClass(e, st, "skip")
			e.Site("C09/classes", fmt.Sprintf("%s skips %q without a token", c.fn, ch), loop, okSp, "white space")
			if !okSp {
				e.Site("C09/classes", fmt.Sprintf("%s skips %q without a token", c.fn, ch), loop, false, "a character that is not white space is passed over without a token or an error token")
			}
		}
		return
	}
	key := fmt.Sprintf("%s every path for %q appends a token", c.fn, ch)
	emitted := st.Ext("tok:emitted") == "1"
	if ch == "/" && !emitted && st.Ext("iter:comment") == "1" {
		return // a `//` comment: the look-ahead was known to be a second slash on this path
	}
	e.Site("C09/tables", key, loop, emitted, "an iteration that read this character ends with a token appended")
	if !emitted {
		e.Site("C09/tables", key, loop, false, fmt.Sprintf("a path of the scan loop that read %q goes round again without appending a token: a documented lexeme (or what follows it) would be swallowed, so the token sequence depends on layout", ch))
	}
}

func (c *backupClient) scanRecv(st *State) string {
	for k := range st.ext {
		if strings.HasPrefix(k, "lastnextval:") {
			return strings.TrimPrefix(k, "lastnextval:")
		}
	}
	return ""
}

// Visit records Token literals with the path facts (used by C09/tables for Scan) and notes that this iteration of
// the scan loop produced a token.
func (c *backupClient) Visit(e *Engine, st *State, n ast.Node) *State {
	cl, ok := n.(*ast.CompositeLit)
	if !ok || c.tokenT == nil || !types.Identical(e.Info.TypeOf(cl), c.tokenT) {
		return nil
	}
	c.recordToken(e, st, n)
	if st.Ext("tok:emitted") != "1" {
		return st.WithExt("tok:emitted", "1")
	}
	return nil
}

// Visit records Token literals with the path facts (used by C09/tables for Scan).
func (c *backupClient) recordToken(e *Engine, st *State, n ast.Node) *State {
	cl, ok := n.(*ast.CompositeLit)
	if !ok || c.tokenT == nil || !e.Reporting() || !types.Identical(e.Info.TypeOf(cl), c.tokenT) {
		return nil
	}
	kindE := litField(e.Info, cl, "Kind")
	if kindE == nil {
		return nil
	}
	site := tokenSite{lit: cl, ctx: e.FrameKey(), kind: constName(e.Info, kindE)}
	if site.kind == "" {
		// the kind is a parameter of a helper: its value on this path
		if f := e.FactOf(st, kindE); f != nil && f.HasEq {
			site.kind = c.p.constNameByValue(c.p.Parser, "TokenKind", f.Eq)
		}
	}
	if !docPunctKind(site.kind) {
		// error tokens and the tokens of the sub-scanners (identifiers, numbers, strings) are not entries of the
		// documented operator table (C09/classes, C09/lookahead cover them); a documented lexeme that stops
		// yielding its kind is still reported by the `produces` obligations
		return nil
	}
	// enclosing dispatch clause (of the call that led here, for a literal inside a helper)
	var clause *ast.CaseClause
	var from ast.Node = cl
	if fr := e.Frames(); len(fr) > 0 {
		from = fr[0].Call
	}
	e.P.ancestors(from, e.Func, func(anc, _ ast.Node) bool {
		if cc, ok := anc.(*ast.CaseClause); ok {
			clause = cc // keep the outermost
		}
		return true
	})
	if clause != nil {
		var cmpVar ast.Expr
		for _, ce := range clause.List {
			for _, d := range disjuncts(ce) {
				if b, ok := d.(*ast.BinaryExpr); ok && b.Op == token.EQL {
					if v := constOf(e.Info, b.Y); v != nil && v.Kind() == constant.Int {
						n, _ := constant.Int64Val(v)
						site.first = append(site.first, string(rune(n)))
						cmpVar = b.X
					}
				}
			}
		}
		// a value switch on the character: the case constants themselves
		if sw, ok := e.P.Parent(e.P.Parent(clause)).(*ast.SwitchStmt); ok && sw.Tag != nil && len(site.first) == 0 {
			for _, ce := range clause.List {
				if v := constOf(e.Info, ce); v != nil && v.Kind() == constant.Int {
					n, _ := constant.Int64Val(v)
					site.first = append(site.first, string(rune(n)))
					cmpVar = sw.Tag
				}
			}
		}
		// a clause for several characters: the path facts say which one this state is about
		if len(site.first) > 1 && cmpVar != nil {
			if f := e.FactOf(st, cmpVar); f != nil && f.HasEq {
				if n, ok := parseInt(f.Eq); ok {
					site.first = []string{string(rune(n))}
				}
			}
		}
	}
	// no dispatch clause names the character (a table lookup, an if-chain): what the path knows about the character
	// this iteration read first
	if len(site.first) == 0 {
		if k := st.Ext("iterfirst"); k != "" && (st.Ext("itersecond") == "" || st.Ext("itersecond") != k) {
			if f := st.GetVar(k); f != nil && f.HasEq {
				if n, ok := parseInt(f.Eq); ok {
					site.first = []string{string(rune(n))}
				}
			}
		}
	}
	// look-ahead facts: only if the most recent next() call lies inside the clause
	for k, v := range st.ext {
		if !strings.HasPrefix(k, "lastnextpos:") || clause == nil {
			continue
		}
		rk := strings.TrimPrefix(k, "lastnextpos:")
		pos, _ := strconv.Atoi(v)
		if token.Pos(pos) < clause.Pos() || token.Pos(pos) >= clause.End() {
			continue
		}
		site.second.looked = true
		last := st.Ext("lastnext:" + rk)
		if strings.HasPrefix(last, "after:prev") {
			site.backed = true
		}
		// the ok flag of the look-ahead: live fact, or what was known when the variable went out of scope
		if okKey := st.Ext("lastok:" + rk); okKey != "" {
			f := st.Get(okKey)
			if f == nil {
				f = snapFact(st, "lastok:"+rk)
			}
			if f != nil && f.HasEq {
				site.second.okTrue = f.Eq == "true"
				site.second.okFalse = f.Eq == "false"
			}
		}
		if vk := st.Ext("lastnextval:" + rk); vk != "" {
			f := st.Get(vk)
			if f == nil {
				f = snapFact(st, "lastnextval:"+rk)
			}
			if f != nil {
				if f.HasEq {
					site.second.eq = f.Eq
				}
				site.second.ne = append(site.second.ne, f.Ne...)
			}
		}
	}
	for k, v := range st.ext {
		if strings.HasPrefix(k, "eofread:") && v == "1" && site.second.okTrue {
			return nil // the look-ahead succeeded although the read before it had hit the end of the input: not a real path
		}
	}
	if os.Getenv("PQL_DEBUG_TOK") != "" {
		fmt.Fprintf(os.Stderr, "TOK %s first=%q looked=%v backed=%v okT=%v okF=%v eq=%q ne=%v ctx=%s\n", site.kind, site.first, site.second.looked, site.backed, site.second.okTrue, site.second.okFalse, site.second.eq, site.second.ne, site.ctx)
	}
	c.literals = append(c.literals, site)
	return nil
}

// ScopeEnd: what is known about the most recent look-ahead (its ok flag, the rune) is kept when the variables
// holding them go out of scope (`if c, ok := s.next(); ok {...}` followed by the token literal).
func (c *backupClient) ScopeEnd(e *Engine, st *State, n ast.Node) *State {
	if c.tokenT == nil {
		return nil
	}
	lo, hi := e.P.Fset.Position(n.Pos()).Offset, e.P.Fset.Position(n.End()).Offset
	st = c.Stmt(e, st, nil) // bring the remembered ok variable up to date first
	out := st
	for k, v := range st.ext {
		if !strings.HasPrefix(k, "lastok:") && !strings.HasPrefix(k, "lastnextval:") {
			continue
		}
		if v == "" || !extMentionsScope(v, lo, hi) {
			continue
		}
		f := st.Get(v)
		if f == nil {
			continue
		}
		snap := ""
		if f.HasEq {
			snap = "=" + f.Eq
		}
		for _, ne := range f.Ne {
			snap += "|!" + ne
		}
		out = out.WithExt("snap:"+k, snap)
	}
	return out
}

// snapFact rebuilds the fact remembered by ScopeEnd for the ext entry k.
func snapFact(st *State, k string) *Fact {
	s := st.Ext("snap:" + k)
	if s == "" {
		return nil
	}
	f := &Fact{}
	for _, part := range strings.Split(s, "|") {
		switch {
		case strings.HasPrefix(part, "="):
			f.HasEq, f.Eq = true, part[1:]
		case strings.HasPrefix(part, "!"):
			f.Ne = append(f.Ne, part[1:])
		}
	}
	return f
}

// remember the ok variable across prev() so that the table rule can still see it
func (c *backupClient) Stmt(e *Engine, st *State, s ast.Stmt) *State {
	if k2 := st.Ext("itersecond"); k2 != "" && st.Ext("iter:comment") != "1" {
		if k1 := st.Ext("iterfirst"); k1 != "" {
			f1, f2 := st.GetVar(k1), st.GetVar(k2)
			// the look-ahead is known to be '/' (for a scanner that reuses one variable, the first read is then gone)
			if f2 != nil && f2.HasEq && f2.Eq == runeKey("/") && (k1 == k2 || (f1 != nil && f1.HasEq && f1.Eq == runeKey("/"))) {
				st = st.WithExt("iter:comment", "1")
			}
		}
	}
	for k, v := range st.ext {
		if strings.HasPrefix(k, "lastnext:") && !strings.HasPrefix(v, "after:") && v != "ignored" {
			rk := strings.TrimPrefix(k, "lastnext:")
			if st.Ext("lastok:"+rk) != v {
				st = st.WithExt("lastok:"+rk, v)
			}
			// a read that failed: the scanner is at the end of its input (and stays there until it is moved)
			if f := st.Get(v); f != nil && f.HasEq && f.Eq == "false" && st.Ext("eof:"+rk) != "1" {
				st = st.WithExt("eof:"+rk, "1")
			}
		}
	}
	return st
}

func ruleC09Backup(p *Program, r *Run) {
	pkg := p.Parser
	scannerT := p.Named(pkg, "scanner")
	next := FuncObj(pkg, p.MustFunc(pkg, "scanner.next"))
	prev := FuncObj(pkg, p.MustFunc(pkg, "scanner.prev"))
	var scanSites []tokenSite
	var scanClasses map[string][]bool
	relies := map[*types.Func]bool{}
	usesCursor := func(fd *ast.FuncDecl) bool {
		uses := false
		ast.Inspect(fd.Body, func(n ast.Node) bool {
			if call, ok := n.(*ast.CallExpr); ok {
				if cal := Callee(pkg.TypesInfo, call); cal == next || cal == prev || relies[cal] {
					uses = true
				}
			}
			return true
		})
		return uses
	}
	entryState := func(e *Engine, fd *ast.FuncDecl, c *backupClient) *State {
		// a method of the scanner starts with nothing read: a prev() there is about the caller's read
		if fd.Recv == nil || len(fd.Recv.List[0].Names) != 1 || !c.isScannerMethod(c.self) {
			return nil
		}
		k := e.Canon(fd.Recv.List[0].Names[0])
		if !k.OK {
			return nil
		}
		return newState().WithExt("lastnext:"+strings.TrimPrefix(k.Key, "&"), "entry")
	}
	// which helpers rely on their caller's read (quiet pass)
	for _, fd := range AllFuncs(pkg) {
		if !usesCursor(fd) || fd.Recv == nil {
			continue
		}
		c := &backupClient{p: p, next: next, prev: prev, scannerT: scannerT, fn: FuncName(pkg, fd), relies: relies, self: FuncObj(pkg, fd)}
		e := NewEngine(p, pkg, fd, c)
		e.Run(entryState(e, fd, c))
	}
	// such a helper must be called only from functions this rule analyses (where it is interpreted in place)
	for h := range relies {
		for _, fd := range AllFuncs(pkg) {
			if FuncObj(pkg, fd) == h {
				continue
			}
			calls := false
			ast.Inspect(fd.Body, func(n ast.Node) bool {
				if call, ok := n.(*ast.CallExpr); ok && Callee(pkg.TypesInfo, call) == h {
					calls = true
				}
				return true
			})
			if calls && !p.isLexerFunc(fd) {
				r.Fail("C09/backup", FuncName(pkg, fd)+" calls "+h.Name(), p.Pos(fd.Pos()), "a helper that gives back a rune its caller has read is called from outside the lexer")
			}
		}
	}
	for _, fd := range AllFuncs(pkg) {
		if !usesCursor(fd) {
			continue
		}
		fn := FuncName(pkg, fd)
		r.Saw(fn)
		c := &backupClient{p: p, next: next, prev: prev, scannerT: scannerT, fn: fn, relies: relies, self: FuncObj(pkg, fd)}
		if fd.Name.Name == "Scan" && fd.Recv == nil {
			c.tokenT = p.Named(pkg, "Token")
		}
		e := NewEngine(p, pkg, fd, c)
		e.Run(entryState(e, fd, c))
		for _, m := range e.Errs {
			r.Fail("C09/backup", fn+" engine", "-", m)
		}
		e.FlushSites(r)
		if c.tokenT != nil {
			scanSites = c.literals
			scanClasses = c.classes
		}
	}
	r.Floor("C09/backup", 20)
	ruleC09Dispatch(p, r, scanSites, scanClasses)
}

// ---- C09/tables: the dispatch of Scan against the documented token table.

var docOneChar = map[string]string{
	",": "TokenComma", "|": "TokenPipe", "(": "TokenLParen", ")": "TokenRParen", "[": "TokenLBracket", "]": "TokenRBracket",
	"+": "TokenPlus", "-": "TokenMinus", "*": "TokenStar", "%": "TokenMod", ";": "TokenSemi",
}

// first char -> (second char -> kind); "" = no second char taken.
var docTwoChar = map[string]map[string]string{
	"=": {"=": "TokenEq", "~": "TokenCaseInsensitiveEq", "": "TokenAssign"},
	"!": {"=": "TokenNE", "~": "TokenCaseInsensitiveNE"},
	"<": {"=": "TokenLE", "": "TokenLT"},
	">": {"=": "TokenGE", "": "TokenGT"},
	"/": {"": "TokenSlash"}, // "//" starts a comment
}

var docKeywords = map[string]string{"and": "TokenAnd", "or": "TokenOr", "in": "TokenIn", "by": "TokenBy"}

func docPunctKind(kind string) bool {
	for _, k := range docOneChar {
		if k == kind {
			return true
		}
	}
	for _, fam := range docTwoChar {
		for _, k := range fam {
			if k == kind {
				return true
			}
		}
	}
	return false
}

func runeKey(s string) string { return strconv.Itoa(int([]rune(s)[0])) }

func ruleC09Dispatch(p *Program, r *Run, sites []tokenSite, classes map[string][]bool) {
	pkg := p.Parser
	fn := "parser.Scan"
	type agg struct {
		pos    token.Pos
		states []tokenSite
	}
	// one group per (literal, in-place call context, dispatch character, kind)
	byLit := map[string]*agg{}
	var order []string
	for _, s := range sites {
		gk := fmt.Sprintf("%d|%s|%s|%s", s.lit.Pos(), s.ctx, strings.Join(s.first, ""), s.kind)
		a := byLit[gk]
		if a == nil {
			a = &agg{pos: s.lit.Pos()}
			byLit[gk] = a
			order = append(order, gk)
		}
		a.states = append(a.states, s)
	}
	covered := map[string]bool{}
	for _, lit := range order {
		a := byLit[lit]
		s0 := a.states[0]
		if len(s0.first) != 1 {
			r.Fail("C09/tables", fmt.Sprintf("%s token literal %s", fn, s0.kind), p.Pos(a.pos), fmt.Sprintf("token literal is not under a single-character dispatch clause (chars %q); cannot relate it to the documented table", s0.first))
			continue
		}
		ch := s0.first[0]
		key := fmt.Sprintf("%s dispatch %q -> %s", fn, ch, s0.kind)
		if want, ok := docOneChar[ch]; ok {
			okAll := s0.kind == want
			for _, s := range a.states {
				if s.second.looked {
					okAll = false
				}
			}
			covered[ch] = covered[ch] || okAll
			r.Check(okAll, "C09/tables", key, p.Pos(a.pos), "one-character token, no look-ahead", fmt.Sprintf("character %q must yield %s without consuming anything else (documented token table)", ch, want))
			continue
		}
		fam, ok := docTwoChar[ch]
		if !ok {
			r.Fail("C09/tables", key, p.Pos(a.pos), fmt.Sprintf("character %q is not in the documented operator table", ch))
			continue
		}
		// classify the literal by what every state knows about the look-ahead
		var longer []string
		for c2 := range fam {
			if c2 != "" {
				longer = append(longer, c2)
			}
		}
		if ch == "/" {
			longer = append(longer, "/")
		}
		sort.Strings(longer)
		verdict := ""
		second := "?"
		for i, s := range a.states {
			var this string
			switch {
			case !s.second.looked:
				this = "?"
			case s.second.okTrue && s.second.eq != "":
				n, _ := strconv.Atoi(s.second.eq)
				this = string(rune(n))
			default:
				// no second character taken: either the look-ahead failed, or it excludes every longer token and was backed up
				excl := true
				for _, l := range longer {
					if !hasStr(s.second.ne, runeKey(l)) {
						excl = false
					}
				}
				switch {
				case s.second.okFalse:
					this = ""
				case excl && s.backed:
					this = ""
				case excl && !s.backed:
					this = ""
					verdict = fmt.Sprintf("after %q the look-ahead rune is not given back (prev() missing on a path where next() succeeded): the following character is swallowed", ch)
				default:
					this = "?"
				}
			}
			if i == 0 {
				second = this
			} else if second != this {
				second = "?"
			}
		}
		if second == "?" {
			r.Fail("C09/tables", key, p.Pos(a.pos), fmt.Sprintf("cannot determine from the path facts which second character (of %q or none) leads to this token", longer))
			continue
		}
		want, ok := fam[second]
		if !ok {
			r.Fail("C09/tables", key, p.Pos(a.pos), fmt.Sprintf("lexeme %q is not a documented token", ch+second))
			continue
		}
		covered[ch+second] = covered[ch+second] || (s0.kind == want && verdict == "")
		if verdict == "" && s0.kind != want {
			verdict = fmt.Sprintf("lexeme %q must yield %s (documented token table), the code yields %s", ch+second, want, s0.kind)
		}
		r.Check(verdict == "", "C09/tables", fmt.Sprintf("%s dispatch %q -> %s", fn, ch+second, s0.kind), p.Pos(a.pos), "longest-match dispatch agrees with the documented table; look-ahead given back", verdict)
	}
	// every documented entry is produced somewhere
	var all []string
	for ch := range docOneChar {
		all = append(all, ch)
	}
	for ch, fam := range docTwoChar {
		for c2 := range fam {
			all = append(all, ch+c2)
		}
	}
	sort.Strings(all)
	for _, lex := range all {
		r.Check(covered[lex], "C09/tables", fmt.Sprintf("%s produces %q", fn, lex), p.Pos(p.MustFunc(pkg, "Scan").Pos()), "documented token is produced by a matching dispatch path", fmt.Sprintf("no dispatch path of Scan produces the documented token for %q with the documented kind", lex))
	}
	r.Floor("C09/tables", 40)

	// sub-scanner dispatch classes
	scan := p.MustFunc(pkg, "Scan")
	// decided on path facts: the set of first characters (below U+3100) consistent with what is known where Scan
	// calls each sub-scanner, against the documented class
	isAl := func(c rune) bool { return 'a' <= c && c <= 'z' || 'A' <= c && c <= 'Z' }
	docClass := map[string]func(c rune) bool{
		"ident":       func(c rune) bool { return isAl(c) || c == '_' || c == '$' },
		"numberOrDot": func(c rune) bool { return c == '.' || '0' <= c && c <= '9' },
		"string":      func(c rune) bool { return c == '"' || c == '\'' },
		"quotedIdent": func(c rune) bool { return c == '`' },
	}
	docText := map[string]string{"ident": "[A-Za-z_$]", "numberOrDot": "[0-9.]", "string": "[\"']", "quotedIdent": "[`]"}
	for _, name := range []string{"ident", "numberOrDot", "quotedIdent", "string"} {
		bad := ""
		set := classes[name]
		if set == nil {
			bad = "Scan never calls it"
		}
		for c := rune(0); c < runeLimit && bad == ""; c++ {
			if set[c] != docClass[name](c) {
				bad = fmt.Sprintf("%q: entered=%v, documented=%v", c, set[c], docClass[name](c))
			}
		}
		r.Check(bad == "", "C09/classes", fmt.Sprintf("%s first-character class of %s", fn, name), p.Pos(scan.Pos()), "entered exactly for first characters "+docText[name]+" (path facts at the call, U+0000..U+30FF)", fmt.Sprintf("sub-scanner %s is not entered for exactly the documented first characters %s: %s", name, docText[name], bad))
	}
	// the characters passed over without a token are exactly the white-space class
	{
		bad := ""
		set := classes["skip"]
		if set == nil {
			bad = "no path of the scan loop passes over a character"
		}
		for c := rune(0); c < runeLimit && bad == ""; c++ {
			if set[c] != unicode.IsSpace(c) {
				bad = fmt.Sprintf("%q (U+%04X): passed over=%v, white space=%v", c, c, set[c], unicode.IsSpace(c))
			}
		}
		r.Check(bad == "", "C09/classes", fn+" white-space class", p.Pos(scan.Pos()), "the characters an iteration of the scan loop passes over without a token are exactly unicode.IsSpace (path facts at the back edge, U+0000..U+30FF)", "the class of characters the lexer passes over as white space differs from the documented one: "+bad)
	}
	// character predicates evaluated over the first 0x3100 code points
	preds := map[string]func(c rune) bool{
		"isAlpha":    func(c rune) bool { return 'a' <= c && c <= 'z' || 'A' <= c && c <= 'Z' },
		"isDigit":    func(c rune) bool { return '0' <= c && c <= '9' },
		"isHexDigit": func(c rune) bool { return '0' <= c && c <= '9' || 'a' <= c && c <= 'f' || 'A' <= c && c <= 'F' },
	}
	for _, name := range []string{"isAlpha", "isDigit", "isHexDigit"} {
		fd := p.FuncDecl(pkg, name)
		if fd == nil {
			// the predicate may have become a variable holding a function (var isAlpha = unicode.IsLetter)
			eval, pos := p.predicateVar(pkg, name)
			if eval == nil {
				r.Fail("C09/classes", "parser."+name+" character class", p.Pos(scan.Pos()), "the character predicate "+name+" is neither a function nor a variable initialised with a known function: its class cannot be evaluated")
				continue
			}
			bad := ""
			for c := rune(0); c < runeLimit && bad == ""; c++ {
				if got := eval(c); got != preds[name](c) {
					bad = fmt.Sprintf("%s(%q) is %v, documented class says %v", name, c, got, preds[name](c))
				}
			}
			r.Check(bad == "", "C09/classes", "parser."+name+" character class", pos, "agrees with the documented class on U+0000..U+30FF", bad)
			continue
		}
		bad := ""
		for c := rune(0); c < runeLimit && bad == ""; c++ {
			got, ok := evalRunePred(p, fd, c, 0)
			if !ok {
				bad = "predicate body is not a pure boolean expression over its argument"
			} else if got != preds[name](c) {
				bad = fmt.Sprintf("%s(%q) is %v, documented class says %v", name, c, got, preds[name](c))
			}
		}
		r.Check(bad == "", "C09/classes", "parser."+name+" character class", p.Pos(fd.Pos()), "agrees with the documented class on U+0000..U+30FF (symbolic evaluation of the predicate expression)", bad)
	}
	// identifier continuation class in ident(): !(isAlpha(c) || isDigit(c) || c == '_')
	r.Floor("C09/classes", 7)

	// keywords
	got, kwPos := p.keywordTable()
	if got == nil {
		r.Fail("C09/keywords", "parser.keywords", p.Pos(scan.Pos()), "no keyword table found: neither a map from words to token kinds nor a function word -> (kind, found) that switches on the word")
		return
	}
	var kws []string
	for k := range docKeywords {
		kws = append(kws, k)
	}
	for k := range got {
		if _, ok := docKeywords[k]; !ok {
			kws = append(kws, k)
		}
	}
	sort.Strings(kws)
	for _, k := range kws {
		r.Check(got[k] == docKeywords[k] && got[k] != "", "C09/keywords", fmt.Sprintf("parser.keywords[%q]", k), p.Pos(kwPos), "keyword maps to "+docKeywords[k], fmt.Sprintf("keyword table has %q -> %q, documented %q", k, got[k], docKeywords[k]))
	}
	// a word is a keyword by its spelling as written: what is looked up in the table is the scanned text itself, not
	// something computed from it (folded to lower case, trimmed) - `By`, `IN` and `Or` are ordinary names
	for i, key := range p.keywordLookups(kwPos) {
		rk := p.ResolveDeep(key)
		bad := ""
		ast.Inspect(rk, func(n ast.Node) bool {
			call, ok := n.(*ast.CallExpr)
			if !ok || bad != "" {
				return bad == ""
			}
			if tv, isConv := p.Info.Types[call.Fun]; isConv && tv.IsType() {
				return true
			}
			bad = exprStr(call.Fun)
			return false
		})
		r.Check(bad == "", "C09/keywords", fmt.Sprintf("parser keyword lookup #%d uses the spelling as written", i+1), p.Pos(key.Pos()), "the key of the lookup is the scanned text itself",
			fmt.Sprintf("the keyword table is consulted with %s(...) of the scanned word, not with the word: identifiers that differ from a keyword only in what that function removes (their case, say) turn into keywords and can no longer be used as names", bad))
	}
	r.Floor("C09/keywords", 4)
}

// keywordLookups: the key expressions with which the keyword table (a map variable or a function, declared at pos)
// is consulted.
func (p *Program) keywordLookups(pos token.Pos) []ast.Expr {
	pkg := p.Parser
	info := pkg.TypesInfo
	var table types.Object
	for _, f := range pkg.Syntax {
		for _, d := range f.Decls {
			switch d := d.(type) {
			case *ast.GenDecl:
				for _, sp := range d.Specs {
					vs, ok := sp.(*ast.ValueSpec)
					if !ok || !(vs.Pos() <= pos && pos <= vs.End()) {
						continue
					}
					for _, n := range vs.Names {
						table = info.Defs[n]
					}
				}
			case *ast.FuncDecl:
				if d.Pos() == pos {
					table = info.Defs[d.Name]
				}
			}
		}
	}
	if table == nil {
		return nil
	}
	var out []ast.Expr
	for _, fd := range AllFuncs(pkg) {
		if fd.Body == nil {
			continue
		}
		ast.Inspect(fd.Body, func(n ast.Node) bool {
			switch v := n.(type) {
			case *ast.IndexExpr:
				if objOf(info, v.X) == table {
					out = append(out, v.Index)
				}
			case *ast.CallExpr:
				if objOf(info, v.Fun) == table && len(v.Args) == 1 {
					out = append(out, v.Args[0])
				}
			}
			return true
		})
	}
	return out
}

// evalRunePred evaluates a single-return boolean predicate over one rune argument.
func evalRunePred(p *Program, fd *ast.FuncDecl, c rune, depth int) (bool, bool) {
	if fd.Type.Params.NumFields() != 1 {
		return false, false
	}
	return evalPredicate(p, fd, []int64{int64(c)}, depth)
}

// evalPredicate evaluates a side-effect-free boolean function over integer (rune/byte) arguments: straight-line
// definitions, if/else, switch and return; comparisons, arithmetic and calls of other such predicates
// (and of the unicode class predicates). ok is false if the body uses anything else.
// predEval evaluates side-effect-free boolean/integer code over known integer (rune/byte) variables.
type predEval struct {
	evalB func(e ast.Expr) (bool, bool)
	evalI func(e ast.Expr) (int64, bool)
	exec  func(list []ast.Stmt) (bool, bool, bool)
	// integer-valued functions: with wantInt set, `return x` evaluates x as an integer into intVal
	wantInt *bool
	intVal  *int64
}

func newPredEval(p *Program, env map[types.Object]int64, benv map[types.Object]bool, depth int) *predEval {
	info := p.Info
	var evalB func(e ast.Expr) (bool, bool)
	var evalI func(e ast.Expr) (int64, bool)
	evalI = func(e ast.Expr) (int64, bool) {
		e = ast.Unparen(e)
		if v := constOf(info, e); v != nil {
			n, ok := constant.Int64Val(constant.ToInt(v))
			return n, ok
		}
		switch x := e.(type) {
		case *ast.Ident:
			v, ok := env[objOf(info, x)]
			return v, ok
		case *ast.UnaryExpr:
			if v, ok := evalI(x.X); ok {
				switch x.Op {
				case token.SUB:
					return -v, true
				case token.ADD:
					return v, true
				case token.XOR:
					return ^v, true
				}
			}
		case *ast.BinaryExpr:
			a, ok1 := evalI(x.X)
			b, ok2 := evalI(x.Y)
			if !ok1 || !ok2 {
				return 0, false
			}
			// arithmetic in the operand type's width (byte, rune, int)
			wrap := func(v int64) int64 {
				if t, ok := info.TypeOf(x).Underlying().(*types.Basic); ok {
					switch t.Kind() {
					case types.Uint8:
						return int64(uint8(v))
					case types.Int32:
						return int64(int32(v))
					case types.Uint32:
						return int64(uint32(v))
					case types.Uint16:
						return int64(uint16(v))
					}
				}
				return v
			}
			switch x.Op {
			case token.ADD:
				return wrap(a + b), true
			case token.SUB:
				return wrap(a - b), true
			case token.MUL:
				return wrap(a * b), true
			case token.OR:
				return wrap(a | b), true
			case token.AND:
				return wrap(a & b), true
			case token.XOR:
				return wrap(a ^ b), true
			case token.AND_NOT:
				return wrap(a &^ b), true
			case token.SHL:
				if b >= 0 && b < 63 {
					return wrap(a << uint(b)), true
				}
			case token.SHR:
				if b >= 0 && b < 63 {
					return wrap(a >> uint(b)), true
				}
			case token.QUO:
				if b != 0 {
					return wrap(a / b), true
				}
			case token.REM:
				if b != 0 {
					return wrap(a % b), true
				}
			}
		case *ast.CallExpr:
			if tv, ok := info.Types[x.Fun]; ok && tv.IsType() && len(x.Args) == 1 {
				v, ok := evalI(x.Args[0])
				if !ok {
					return 0, false
				}
				if t, ok := tv.Type.Underlying().(*types.Basic); ok {
					switch t.Kind() {
					case types.Uint8:
						return int64(uint8(v)), true
					case types.Int32, types.Int, types.Int64, types.UntypedRune:
						return v, true
					case types.Uint32:
						return int64(uint32(v)), true
					}
				}
			}
		}
		return 0, false
	}
	evalB = func(e ast.Expr) (bool, bool) {
		e = ast.Unparen(e)
		if v := constOf(info, e); v != nil && v.Kind() == constant.Bool {
			return constant.BoolVal(v), true
		}
		switch x := e.(type) {
		case *ast.Ident:
			v, ok := benv[objOf(info, x)]
			return v, ok
		case *ast.BinaryExpr:
			switch x.Op {
			case token.LAND, token.LOR:
				a, ok1 := evalB(x.X)
				if !ok1 {
					return false, false
				}
				if x.Op == token.LAND && !a {
					return false, true
				}
				if x.Op == token.LOR && a {
					return true, true
				}
				return evalB(x.Y)
			case token.LEQ, token.LSS, token.GEQ, token.GTR, token.EQL, token.NEQ:
				a, ok1 := evalI(x.X)
				b, ok2 := evalI(x.Y)
				if !ok1 || !ok2 {
					return false, false
				}
				switch x.Op {
				case token.LEQ:
					return a <= b, true
				case token.LSS:
					return a < b, true
				case token.GEQ:
					return a >= b, true
				case token.GTR:
					return a > b, true
				case token.EQL:
					return a == b, true
				default:
					return a != b, true
				}
			}
		case *ast.UnaryExpr:
			if x.Op == token.NOT {
				v, ok := evalB(x.X)
				return !v, ok
			}
		case *ast.CallExpr:
			f := Callee(info, x)
			if f == nil {
				return false, false
			}
			if f.Pkg() != nil && f.Pkg().Path() == "strings" && len(x.Args) == 2 {
				if str, isStr := constString(info, x.Args[0]); isStr {
					if v, ok := evalI(x.Args[1]); ok {
						switch f.Name() {
						case "ContainsRune":
							return strings.ContainsRune(str, rune(v)), true
						}
					}
				}
				return false, false
			}
			var vals []int64
			for _, a := range x.Args {
				v, ok := evalI(a)
				if !ok {
					return false, false
				}
				vals = append(vals, v)
			}
			if f.Pkg() != nil && f.Pkg().Path() == "unicode" && len(vals) == 1 {
				r := rune(vals[0])
				switch f.Name() {
				case "IsLetter":
					return unicode.IsLetter(r), true
				case "IsDigit":
					return unicode.IsDigit(r), true
				case "IsSpace":
					return unicode.IsSpace(r), true
				case "IsUpper":
					return unicode.IsUpper(r), true
				case "IsLower":
					return unicode.IsLower(r), true
				}
				return false, false
			}
			fd2, _ := p.DeclOf(f)
			if fd2 == nil {
				return false, false
			}
			return evalPredicate(p, fd2, vals, depth+1)
		}
		return false, false
	}
	// statements: returns (value, returned, ok)
	wantInt, intVal := new(bool), new(int64)
	var exec func(list []ast.Stmt) (bool, bool, bool)
	exec = func(list []ast.Stmt) (bool, bool, bool) {
		for _, st := range list {
			switch s := st.(type) {
			case *ast.ReturnStmt:
				if len(s.Results) != 1 {
					return false, false, false
				}
				if *wantInt {
					n, ok := evalI(s.Results[0])
					*intVal = n
					return false, true, ok
				}
				v, ok := evalB(s.Results[0])
				return v, true, ok
			case *ast.BlockStmt:
				if v, ret, ok := exec(s.List); !ok || ret {
					return v, ret, ok
				}
			case *ast.AssignStmt:
				if len(s.Lhs) != 1 || len(s.Rhs) != 1 || (s.Tok != token.DEFINE && s.Tok != token.ASSIGN) {
					return false, false, false
				}
				o := objOf(info, s.Lhs[0])
				if o == nil {
					return false, false, false
				}
				if v, ok := evalI(s.Rhs[0]); ok {
					env[o] = v
				} else if b, ok := evalB(s.Rhs[0]); ok {
					benv[o] = b
				} else {
					return false, false, false
				}
			case *ast.IfStmt:
				if s.Init != nil {
					if _, _, ok := exec([]ast.Stmt{s.Init}); !ok {
						return false, false, false
					}
				}
				cv, ok := evalB(s.Cond)
				if !ok {
					return false, false, false
				}
				if cv {
					if v, ret, ok := exec(s.Body.List); !ok || ret {
						return v, ret, ok
					}
				} else if s.Else != nil {
					if v, ret, ok := exec([]ast.Stmt{s.Else}); !ok || ret {
						return v, ret, ok
					}
				}
			case *ast.SwitchStmt:
				if s.Init != nil {
					if _, _, ok := exec([]ast.Stmt{s.Init}); !ok {
						return false, false, false
					}
				}
				var tag int64
				if s.Tag != nil {
					t, ok := evalI(s.Tag)
					if !ok {
						return false, false, false
					}
					tag = t
				}
				var chosen, dflt *ast.CaseClause
				for _, cs := range s.Body.List {
					cc := cs.(*ast.CaseClause)
					if cc.List == nil {
						dflt = cc
						continue
					}
					for _, ce := range cc.List {
						hit := false
						if s.Tag != nil {
							v, ok := evalI(ce)
							if !ok {
								return false, false, false
							}
							hit = v == tag
						} else {
							v, ok := evalB(ce)
							if !ok {
								return false, false, false
							}
							hit = v
						}
						if hit && chosen == nil {
							chosen = cc
						}
					}
					if chosen != nil {
						break
					}
				}
				if chosen == nil {
					chosen = dflt
				}
				if chosen != nil {
					for _, b := range chosen.Body {
						if br, ok := b.(*ast.BranchStmt); ok && br.Tok == token.FALLTHROUGH {
							return false, false, false
						}
					}
					if v, ret, ok := exec(chosen.Body); !ok || ret {
						return v, ret, ok
					}
				}
			default:
				return false, false, false
			}
		}
		return false, false, true
	}
	return &predEval{evalB: evalB, evalI: evalI, exec: exec, wantInt: wantInt, intVal: intVal}
}

// evalBoolExpr evaluates a boolean expression in which the variables of env have the given values.
func evalBoolExpr(p *Program, x ast.Expr, env map[types.Object]int64) (bool, bool) {
	return newPredEval(p, env, map[types.Object]bool{}, 0).evalB(x)
}

func evalPredicate(p *Program, fd *ast.FuncDecl, args []int64, depth int) (result bool, ok bool) {
	if depth > 6 || fd == nil || fd.Body == nil {
		return false, false
	}
	info := p.Info
	env := map[types.Object]int64{}
	benv := map[types.Object]bool{}
	i := 0
	for _, f := range fd.Type.Params.List {
		for _, n := range f.Names {
			if i < len(args) {
				env[info.Defs[n]] = args[i]
			}
			i++
		}
	}
	if i != len(args) {
		return false, false
	}
	pe := newPredEval(p, env, benv, depth)
	v, ret, ok := pe.exec(fd.Body.List)
	if !ok || !ret {
		return false, false
	}
	return v, true
}

// evalIntFunc evaluates a side-effect-free function from integers (runes, bytes) to an integer.
func evalIntFunc(p *Program, fd *ast.FuncDecl, args []int64) (int64, bool) {
	if fd == nil || fd.Body == nil {
		return 0, false
	}
	env := map[types.Object]int64{}
	i := 0
	for _, f := range fd.Type.Params.List {
		for _, n := range f.Names {
			if i < len(args) {
				env[p.Info.Defs[n]] = args[i]
			}
			i++
		}
	}
	if i != len(args) {
		return 0, false
	}
	pe := newPredEval(p, env, map[types.Object]bool{}, 0)
	*pe.wantInt = true
	_, ret, ok := pe.exec(fd.Body.List)
	if !ok || !ret {
		return 0, false
	}
	return *pe.intVal, true
}

// ---- C09/spans: token span shape.

func ruleC09Spans(p *Program, r *Run) {
	pkg := p.Parser
	info := pkg.TypesInfo
	tokenT := p.Named(pkg, "Token")
	scannerT := p.Named(pkg, "scanner")
	errTok := FuncObj(pkg, p.MustFunc(pkg, "errorToken"))
	newSpanF := FuncObj(pkg, p.MustFunc(pkg, "newSpan"))
	indexSpanF := FuncObj(pkg, p.MustFunc(pkg, "indexSpan"))
	isScannerPos := func(e ast.Expr) bool {
		sel, ok := ast.Unparen(e).(*ast.SelectorExpr)
		if !ok || selName(sel) != "pos" {
			return false
		}
		t := info.TypeOf(sel.X)
		if pt, ok := t.(*types.Pointer); ok {
			t = pt.Elem()
		}
		return types.Identical(t, scannerT)
	}
	// definitions of locals, per function
	type fnDefs struct {
		defs    map[types.Object][]ast.Expr
		defStmt map[types.Object][]*ast.AssignStmt
	}
	allDefs := map[*ast.FuncDecl]*fnDefs{}
	defsOf := func(fd *ast.FuncDecl) *fnDefs {
		if d := allDefs[fd]; d != nil {
			return d
		}
		d := &fnDefs{defs: map[types.Object][]ast.Expr{}, defStmt: map[types.Object][]*ast.AssignStmt{}}
		ast.Inspect(fd.Body, func(n ast.Node) bool {
			if as, ok := n.(*ast.AssignStmt); ok && len(as.Lhs) == len(as.Rhs) {
				for i, l := range as.Lhs {
					if o := objOf(info, l); o != nil {
						d.defs[o] = append(d.defs[o], as.Rhs[i])
						d.defStmt[o] = append(d.defStmt[o], as)
					}
				}
			}
			return true
		})
		allDefs[fd] = d
		return d
	}
	// call sites of the lexer's unexported helpers: parameter -> arguments (with the calling function)
	type argSite struct {
		fd  *ast.FuncDecl
		arg ast.Expr
	}
	paramArgs := func(param types.Object) ([]argSite, bool) {
		fd := p.FuncAt(param.Pos())
		if fd == nil {
			return nil, false
		}
		fn := FuncObj(pkg, fd)
		if !p.onlyCalledDirectly(fn) {
			return nil, false
		}
		idx, i := -1, 0
		for _, f := range fd.Type.Params.List {
			for _, n := range f.Names {
				if info.Defs[n] == param {
					idx = i
				}
				i++
			}
		}
		if idx < 0 || !p.neverReassigned(param) {
			return nil, false
		}
		var out []argSite
		for _, caller := range AllFuncs(pkg) {
			ast.Inspect(caller.Body, func(n ast.Node) bool {
				if call, ok := n.(*ast.CallExpr); ok && Callee(info, call) == fn && idx < len(call.Args) {
					out = append(out, argSite{caller, call.Args[idx]})
				}
				return true
			})
		}
		return out, len(out) > 0
	}
	var savedPosIn, isStartIn func(fd *ast.FuncDecl, e ast.Expr, depth int) bool
	// savedPos: the scanner position, a local whose every definition is s.pos, or a parameter that is one at every call
	savedPosIn = func(fd *ast.FuncDecl, e ast.Expr, depth int) bool {
		if isScannerPos(e) {
			return true
		}
		o := objOf(info, e)
		if o == nil || depth > 3 {
			return false
		}
		d := defsOf(fd)
		if len(d.defs[o]) == 0 {
			if sites, ok := paramArgs(o); ok {
				for _, s := range sites {
					if !savedPosIn(s.fd, s.arg, depth+1) {
						return false
					}
				}
				return true
			}
			return false
		}
		for _, df := range d.defs[o] {
			if !isScannerPos(df) {
				return false
			}
		}
		return true
	}
	// start: the position saved as the first statement of the function body or of the enclosing loop body
	// (or a parameter that is such a position at every call)
	isStartIn = func(fd *ast.FuncDecl, e ast.Expr, depth int) bool {
		o := objOf(info, e)
		if o == nil || depth > 3 {
			return false
		}
		d := defsOf(fd)
		if len(d.defs[o]) == 0 {
			if sites, ok := paramArgs(o); ok {
				for _, s := range sites {
					if !isStartIn(s.fd, s.arg, depth+1) {
						return false
					}
				}
				return true
			}
			return false
		}
		// one definition from the scanner position; a constant initial value before it (var start = 0; for { start =
		// s.pos ... }) does not count: the position is saved again at the top of every iteration
		posIdx := -1
		for i, df := range d.defs[o] {
			switch {
			case isScannerPos(df):
				if posIdx >= 0 {
					return false
				}
				posIdx = i
			case constOf(info, df) != nil:
			default:
				return false
			}
		}
		if posIdx < 0 {
			return false
		}
		as := d.defStmt[o][posIdx]
		if len(d.defs[o]) > 1 {
			// only acceptable when the position is saved at the top of a loop body
			if blk, ok := p.Parent(as).(*ast.BlockStmt); !ok || len(blk.List) == 0 || blk.List[0] != ast.Stmt(as) {
				return false
			} else if _, isLoop := p.Parent(blk).(*ast.ForStmt); !isLoop {
				return false
			}
		}
		switch parent := p.Parent(as).(type) {
		case *ast.BlockStmt:
			if len(parent.List) > 0 && parent.List[0] == ast.Stmt(as) {
				switch gp := p.Parent(parent).(type) {
				case *ast.FuncDecl:
					return true
				case *ast.ForStmt:
					return gp.Body == parent
				}
			}
		}
		return false
	}
	// token constructors: functions that return a token whose span is one of their parameters, handed on unchanged
	// to the token literal or to another constructor (errorToken, and helpers written like it). Their call sites
	// are where the span is checked.
	spanT := p.spanType()
	ctors := map[*types.Func]int{}
	ctorParam := map[*types.Func]types.Object{}
	for _, fd := range AllFuncs(pkg) {
		f := FuncObj(pkg, fd)
		if f == nil || fd.Recv != nil {
			continue
		}
		sig := f.Type().(*types.Signature)
		if sig.Results().Len() != 1 || !types.Identical(sig.Results().At(0).Type(), tokenT) {
			continue
		}
		idx := 0
		for _, fl := range fd.Type.Params.List {
			for _, nm := range fl.Names {
				if types.Identical(info.TypeOf(nm), spanT) {
					if _, have := ctors[f]; !have {
						ctors[f] = idx
						ctorParam[f] = info.Defs[nm]
					}
				}
				idx++
			}
		}
	}
	for changed := true; changed; {
		changed = false
		for _, fd := range AllFuncs(pkg) {
			f := FuncObj(pkg, fd)
			if _, is := ctors[f]; !is {
				continue
			}
			good, builds := true, false
			ast.Inspect(fd.Body, func(x ast.Node) bool {
				switch v := x.(type) {
				case *ast.CompositeLit:
					if types.Identical(info.TypeOf(v), tokenT) {
						builds = true
						if sp := litField(info, v, "Span"); sp == nil || objOf(info, sp) != ctorParam[f] {
							good = false
						}
					}
				case *ast.CallExpr:
					if g := Callee(info, v); g != nil {
						if gi, is := ctors[g]; is && g != f {
							builds = true
							if gi >= len(v.Args) || objOf(info, v.Args[gi]) != ctorParam[f] {
								good = false
							}
						}
					}
				case *ast.AssignStmt:
					for _, l := range v.Lhs {
						if objOf(info, l) == ctorParam[f] {
							good = false
						}
					}
				}
				return true
			})
			if !good || !builds {
				delete(ctors, f)
				changed = true
			}
		}
	}
	for _, fd := range AllFuncs(pkg) {
		if !p.isLexerFunc(fd) {
			continue
		}
		fd := fd
		fn := FuncName(pkg, fd)
		defs := defsOf(fd).defs
		savedPos := func(e ast.Expr) bool { return savedPosIn(fd, e, 0) }
		isStart := func(e ast.Expr) bool { return isStartIn(fd, e, 0) }
		var okSpan func(e ast.Expr, depth int) (bool, string)
		okSpan = func(e ast.Expr, depth int) (bool, string) {
			e = ast.Unparen(e)
			if call, ok := e.(*ast.CallExpr); ok {
				switch Callee(info, call) {
				case newSpanF:
					if !isStart(call.Args[0]) {
						return false, "span does not start at the position saved at the start of the token (" + exprStr(call.Args[0]) + ")"
					}
					if !savedPos(call.Args[1]) {
						return false, "span does not end at the scanner position (or a saved copy of it): " + exprStr(call.Args[1])
					}
					return true, "newSpan(start, s.pos)"
				case indexSpanF:
					if !isStart(call.Args[0]) {
						return false, "indexSpan argument is not the token start"
					}
					return true, "indexSpan(start)"
				}
				return false, "span built by an unknown call " + exprStr(e)
			}
			if o := objOf(info, e); o != nil && depth < 3 && len(defs[o]) > 0 {
				for _, d := range defs[o] {
					if ok, why := okSpan(d, depth+1); !ok {
						return false, why
					}
				}
				return true, "local span variable built from newSpan(start, s.pos)"
			}
			return false, "span expression " + exprStr(e) + " is not derived from the token start and the scanner position"
		}
		n := 0
		ast.Inspect(fd.Body, func(x ast.Node) bool {
			var spanE ast.Expr
			var what string
			switch v := x.(type) {
			case *ast.CompositeLit:
				if !types.Identical(info.TypeOf(v), tokenT) {
					return true
				}
				spanE = litField(info, v, "Span")
				what = "Token{Kind: " + exprStr(orIdent(litField(info, v, "Kind"))) + "}"
				if len(v.Elts) == 0 {
					// the zero token: a placeholder result ("no token here"), not a token of the source - unless it
					// is put into a token list
					if call, isCall := p.Parent(v).(*ast.CallExpr); !isCall || !IsBuiltinCall(info, call, "append") {
						return true
					}
				}
				if spanE == nil {
					n++
					r.Fail("C09/spans", fmt.Sprintf("%s %s #%d", fn, what, n), p.Pos(v.Pos()), "token built without a span")
					return true
				}
			case *ast.CallExpr:
				g := Callee(info, v)
				gi, isCtor := ctors[g]
				if g != errTok && !isCtor {
					return true
				}
				if g == errTok && !isCtor {
					gi = 0
				}
				if gi >= len(v.Args) {
					return true
				}
				spanE = v.Args[gi]
				what = g.Name()
			default:
				return true
			}
			n++
			r.Saw(fn)
			if self := FuncObj(pkg, fd); self == errTok || ctorParam[self] != nil {
				if _, is := ctors[self]; is || self == errTok {
					if v, isVar := objOf(info, spanE).(*types.Var); isVar && v.Parent() == info.Scopes[fd.Type] {
						r.Pass("C09/spans", fmt.Sprintf("%s %s #%d", fn, what, n), p.Pos(x.Pos()), "span forwarded from the parameter; every call site of "+self.Name()+" is checked")
						return true
					}
				}
			}
			ok, why := okSpan(spanE, 0)
			r.Check(ok, "C09/spans", fmt.Sprintf("%s %s #%d", fn, what, n), p.Pos(x.Pos()), why, why+": the token would not cover exactly [token start, scanner position)")
			return true
		})
	}
	r.Floor("C09/spans", 40)
}

func orIdent(e ast.Expr) ast.Expr {
	if e == nil {
		return ast.NewIdent("?")
	}
	return e
}

// ---- C09/runes: scanned runes are never narrowed to a byte.
func ruleC09Runes(p *Program, r *Run) {
	pkg := p.Parser
	info := pkg.TypesInfo
	n := 0
	for _, fd := range AllFuncs(pkg) {
		if !p.isLexerFunc(fd) {
			continue
		}
		fn := FuncName(pkg, fd)
		ast.Inspect(fd.Body, func(x ast.Node) bool {
			call, ok := x.(*ast.CallExpr)
			if !ok || len(call.Args) != 1 {
				return true
			}
			tv, ok := info.Types[call.Fun]
			if !ok || !tv.IsType() {
				return true
			}
			to, okT := tv.Type.Underlying().(*types.Basic)
			from, okF := info.TypeOf(call.Args[0]).Underlying().(*types.Basic)
			if !okT || !okF {
				return true
			}
			if from.Kind() == types.Int32 && (to.Kind() == types.Uint8 || to.Kind() == types.Int8) && constOf(info, call.Args[0]) == nil {
				n++
				r.Fail("C09/runes", fmt.Sprintf("%s conversion %s", fn, exprStr(call)), p.Pos(call.Pos()), "a scanned rune is narrowed to a byte: every non-ASCII character loses its upper bits (token values would not be the decoded text)")
			}
			return true
		})
		// writes of a rune into a builder go through WriteRune
		ast.Inspect(fd.Body, func(x ast.Node) bool {
			call, ok := x.(*ast.CallExpr)
			if !ok {
				return true
			}
			sel, ok := ast.Unparen(call.Fun).(*ast.SelectorExpr)
			if !ok || sel.Sel.Name != "WriteRune" || len(call.Args) != 1 {
				return true
			}
			n++
			r.Pass("C09/runes", fmt.Sprintf("%s %s", fn, exprStr(call)), p.Pos(call.Pos()), "decoded character written as a rune")
			return true
		})
	}
	r.Floor("C09/runes", 1)
	ruleC09Decoded(p, r)
}

// decodedClient: the character the scanner's read method hands out is the one utf8.DecodeRune(InString) decoded at
// the position (U+FFFD for a byte that is not valid UTF-8), or a byte known to be ASCII.
type decodedClient struct {
	BaseClient
	InlinePure
	fn   string
	seen int
}

func isDecodeCall(info *types.Info, x ast.Expr) bool {
	call, ok := ast.Unparen(x).(*ast.CallExpr)
	if !ok {
		return false
	}
	f := Callee(info, call)
	return f != nil && f.Pkg() != nil && f.Pkg().Path() == "unicode/utf8" && strings.HasPrefix(f.Name(), "DecodeRune")
}

func (c *decodedClient) PostAssign(e *Engine, st *State, lhs, rhs []ast.Expr, _ ast.Stmt) *State {
	if len(rhs) == 1 && len(lhs) >= 1 && isDecodeCall(e.Info, rhs[0]) {
		return e.SetTag(st, lhs[0], "decoded")
	}
	return nil
}

func (c *decodedClient) Return(e *Engine, st *State, ret *ast.ReturnStmt) {
	if !e.Reporting() || e.Lit != nil || ret == nil || len(ret.Results) != 2 {
		return
	}
	if v := constOf(e.Info, ret.Results[1]); v != nil && v.String() == "false" {
		return
	}
	c.seen++
	key := fmt.Sprintf("%s return #%d hands out the decoded character", c.fn, returnOrdinal(e.Func, ret))
	x := ret.Results[0]
	ok := e.HasTag(st, x, "decoded") || isDecodeCall(e.Info, x)
	if !ok {
		// a single byte known to be ASCII (a fast path in front of the decoder)
		inner := ast.Unparen(x)
		if conv, isCall := inner.(*ast.CallExpr); isCall && len(conv.Args) == 1 {
			if tv, isT := e.Info.Types[conv.Fun]; isT && tv.IsType() {
				inner = ast.Unparen(conv.Args[0])
			}
		}
		unsigned := false
		if b, isB := e.Info.TypeOf(inner).Underlying().(*types.Basic); isB && b.Info()&types.IsUnsigned != 0 {
			unsigned = true
		}
		if f := e.valueOf(st, inner); f != nil && f.Hi != nil && *f.Hi < 0x80 && (unsigned || f.Lo != nil && *f.Lo >= 0) {
			ok = true
		}
		// `if b := text[pos]; b < utf8.RuneSelf { pos++; return rune(b), true }`: the fact about b is about the byte
		// that was read, whatever happens to the position afterwards
		if o := objOf(e.Info, inner); o != nil && unsigned && !ok {
			for n := e.P.Parent(ret); n != nil; n = e.P.Parent(n) {
				ifs, isIf := n.(*ast.IfStmt)
				if !isIf || !(ret.Pos() >= ifs.Body.Pos() && ret.End() <= ifs.Body.End()) {
					if _, isFn := n.(*ast.FuncDecl); isFn {
						break
					}
					continue
				}
				if b, isBin := ast.Unparen(ifs.Cond).(*ast.BinaryExpr); isBin && b.Op == token.LSS && objOf(e.Info, b.X) == o {
					if lim, isC := constInt(e.Info, b.Y); isC && lim <= 0x80 && !writesTo(e.Info, ifs.Body, o) {
						ok = true
					}
				}
			}
		}
	}
	e.Site("C09/runes", key, ret, ok, "the character returned is the first result of utf8.DecodeRune(InString) at the position (or a byte known to be ASCII)")
	if !ok {
		e.Site("C09/runes", key, ret, false, "the scanner's read method can return something other than the character decoded at the position: a byte that is not valid UTF-8 (or any other character) reaches the lexer as a different character, so what is white space, an identifier character or an error depends on it")
	}
}

func ruleC09Decoded(p *Program, r *Run) {
	pkg := p.Parser
	fd := p.MustFunc(pkg, "scanner.next")
	fn := FuncName(pkg, fd)
	r.Saw(fn)
	c := &decodedClient{fn: fn}
	e := NewEngine(p, pkg, fd, c)
	e.Run(nil)
	for _, m := range e.Errs {
		r.Fail("C09/runes", fn+" engine", "-", m)
	}
	e.FlushSites(r)
	if c.seen == 0 {
		r.Fail("C09/runes", fn+" hands out the decoded character", p.Pos(fd.Pos()), "no successful return of the scanner's read method found")
	}
}

// ---- C09/lookahead: a scanner method that reports failure (false) leaves the position where it was.
type lookaheadClient struct {
	loopClient
	hasDefer bool
	inline   map[*types.Func]bool // helpers whose own failure paths are decided where they are called
}

// Inline: a helper that may report failure after consuming runes is judged together with its caller (which may put
// the position back itself).
func (c *lookaheadClient) Inline(e *Engine, call *ast.CallExpr, callee *types.Func, decl *ast.FuncDecl) bool {
	return c.inline[callee]
}

// PostAssign / PostCall: which variable holds the rune read last (and its ok flag), until it is given back.
func (c *lookaheadClient) PostAssign(e *Engine, st *State, lhs, rhs []ast.Expr, stmt ast.Stmt) *State {
	out := st
	if n := c.loopClient.PostAssign(e, st, lhs, rhs, stmt); n != nil {
		out = n
	}
	if len(lhs) == 2 && len(rhs) == 1 && len(e.Frames()) == 0 {
		if call, ok := ast.Unparen(rhs[0]).(*ast.CallExpr); ok {
			if callee := Callee(e.Info, call); cursorOf(callee) == "scanner" && fnName(callee) == "next" {
				rk, okk := e.CanonSt(out, lhs[0]), e.CanonSt(out, lhs[1])
				if rk.OK {
					out = out.WithExt("la:rune", rk.Key)
					out = out.WithExt("la:ok", "")
					if okk.OK {
						out = out.WithExt("la:ok", okk.Key)
					}
				}
			}
		}
	}
	if out != st {
		return out
	}
	return nil
}

func (c *lookaheadClient) PostCall(e *Engine, st *State, call *ast.CallExpr, callee *types.Func) *State {
	out := st
	if n := c.loopClient.PostCall(e, st, call, callee); n != nil {
		out = n
	}
	if cursorOf(callee) == "scanner" {
		switch fnName(callee) {
		case "prev", "setPos":
			if out.Ext("la:rune") != "" {
				out = out.WithExt("la:rune", "").WithExt("la:ok", "")
			}
		}
	}
	if out != st {
		return out
	}
	return nil
}

// PreAssign: the next read replaces the variable - what the path knows about the rune it is about to forget is
// judged now.
func (c *lookaheadClient) PreAssign(e *Engine, st *State, lhs, rhs []ast.Expr, stmt ast.Stmt) *State {
	out := st
	if n := c.loopClient.PreAssign(e, st, lhs, rhs, stmt); n != nil {
		out = n
	}
	if len(lhs) == 2 && len(rhs) == 1 && len(e.Frames()) == 0 {
		if call, ok := ast.Unparen(rhs[0]).(*ast.CallExpr); ok {
			if callee := Callee(e.Info, call); cursorOf(callee) == "scanner" && fnName(callee) == "next" {
				if !c.classified(out) {
					out = out.WithExt("la:unk", "1")
				}
				if c.failedMandatory(out) {
					out = out.WithExt("la:eof", "1")
				}
			}
		}
	}
	if out != st {
		return out
	}
	return nil
}

// failedMandatory: the read before this point failed (end of input) and the method has not entered a loop yet - it
// is still in the part of the token that has to be there.
func (c *lookaheadClient) failedMandatory(st *State) bool {
	if st.Ext("la:inloop") != "" {
		return false
	}
	okk := st.Ext("la:ok")
	if okk == "" {
		return false
	}
	f := st.Get(okk)
	return f != nil && f.HasEq && f.Eq == "false"
}

// LoopHead: entering the method's first loop (the repeated, optional tail of the token) after a read that failed.
func (c *lookaheadClient) LoopHead(e *Engine, st *State, loop ast.Stmt) *State {
	out := st
	if n := c.loopClient.LoopHead(e, st, loop); n != nil {
		out = n
	}
	if len(e.Frames()) == 0 {
		if c.failedMandatory(out) {
			out = out.WithExt("la:eof", "1")
		}
		if out.Ext("la:inloop") == "" {
			out = out.WithExt("la:inloop", "1")
		}
	}
	if out != st {
		return out
	}
	return nil
}

// classified: the rune read last and kept is a known character or lies in a known class (or there is none).
func (c *lookaheadClient) classified(st *State) bool {
	rk := st.Ext("la:rune")
	if rk == "" {
		return true
	}
	if okk := st.Ext("la:ok"); okk != "" {
		if f := st.Get(okk); f != nil && f.HasEq && f.Eq == "false" {
			return true // nothing was read
		}
	}
	f := st.Get(rk)
	if f != nil && (f.HasEq || (f.Lo != nil && f.Hi != nil)) {
		return true
	}
	// something positive is known about it: a predicate that held (isDigit(c), strings.ContainsRune("eE", c)), or
	// an equality with another value (c == want)
	for k, pf := range st.facts {
		if pf == nil || !pf.HasEq || pf.Eq != "true" || k == rk || !strings.Contains(k, rk) {
			continue
		}
		if strings.Contains(k, " < ") || strings.Contains(k, " <= ") {
			continue // one-sided
		}
		if i := strings.Index(k, rk); i > 0 && strings.ContainsAny(k[i-1:i], "(, ") {
			if j := i + len(rk); j < len(k) && strings.ContainsAny(k[j:j+1], "), ") {
				return true
			}
		}
	}
	return false
}

// ScopeEnd: the variable holding the rune read last goes out of scope (`c, ok := s.next()` inside a loop body): what
// the path knows about it is judged now, while it is still known.
func (c *lookaheadClient) ScopeEnd(e *Engine, st *State, n ast.Node) *State {
	rk := st.Ext("la:rune")
	if rk == "" || n == nil || len(e.Frames()) > 0 {
		return nil
	}
	lo, hi := e.P.Fset.Position(n.Pos()).Offset, e.P.Fset.Position(n.End()).Offset
	if !extMentionsScope(rk, lo, hi) {
		return nil
	}
	out := st
	if !c.classified(st) {
		out = out.WithExt("la:unk", "1")
	}
	return out.WithExt("la:rune", "").WithExt("la:ok", "")
}

// success: the look-ahead says yes only when it knows what it has taken. The rune read last and not given back is
// classified on this path - equal to a known character, or inside a range (a character predicate that held); a
// rune of which the path only knows what it is not has been swallowed into the token unseen.
func (c *lookaheadClient) success(e *Engine, st *State, ret *ast.ReturnStmt) {
	// the end of the input inside the part that has to be there is a failure: no path on which a read failed before
	// the method's first loop goes on reading, enters the loop or answers yes
	if eof := st.Ext("la:eof") != "" || c.failedMandatory(st); eof || st.Ext("la:rune") != "" {
		key := fmt.Sprintf("%s return #%d (true) has read what has to be there", c.fn, returnOrdinal(e.Func, ret))
		e.Site("C09/lookahead", key, ret, !eof, "no read failed before the method's first loop on any path to this return")
		if eof {
			e.Site("C09/lookahead", key, ret, false, "the look-ahead reports success on a path on which a read failed at the end of the input before its first loop - inside the part of the token that must be present (`ok && …` for `!ok || …`): a token cut off by the end of the input is accepted, and the same text followed by anything else is not")
		}
	}
	if st.Ext("la:rune") == "" && st.Ext("la:unk") == "" {
		return
	}
	classified := c.classified(st) && st.Ext("la:unk") == ""
	key := fmt.Sprintf("%s return #%d (true) knows the last rune it took", c.fn, returnOrdinal(e.Func, ret))
	e.Site("C09/lookahead", key, ret, classified, "the rune read last and not given back is a known character or lies in a known class on every path to this return")
	if !classified {
		e.Site("C09/lookahead", key, ret, false, "the look-ahead reports success on a path where the rune it read last (and kept) is not known to be any particular character or class - only what it is not: a test that was meant to reject it does not (`&&` for `||`, a dropped check), and an arbitrary character becomes part of the token")
	}
}

func (c *lookaheadClient) Return(e *Engine, st *State, ret *ast.ReturnStmt) {
	if e.Lit != nil || ret == nil || len(ret.Results) != 1 || !e.Reporting() {
		return
	}
	v := constOf(e.Info, ret.Results[0])
	if v != nil && v.String() == "true" && len(e.Frames()) == 0 {
		c.success(e, st, ret)
	}
	if v == nil || v.String() != "false" {
		return
	}
	key := fmt.Sprintf("%s return #%d (false)", c.fn, returnOrdinal(e.Func, ret))
	net := st.Ext("net")
	ok := net == "0" || c.hasDefer
	how := "the scanner position is back at the method's entry when it reports failure"
	if c.hasDefer {
		how = "a deferred closure restores the entry position whenever the result is false"
	}
	e.Site("C09/lookahead", key, ret, ok, how)
	if !ok {
		e.Site("C09/lookahead", key, ret, false, "the look-ahead reports failure but the runes it read are not given back on this path (net consumption "+net+"): they are swallowed into the current token")
	}
}

func ruleC09Lookahead(p *Program, r *Run) {
	pkg := p.Parser
	info := pkg.TypesInfo
	w := &loopWorld{p: p, minCons: map[*types.Func]int{}}
	isLookahead := func(fd *ast.FuncDecl) bool {
		fobj := FuncObj(pkg, fd)
		return cursorOf(fobj) == "scanner" && fd.Type.Results != nil && len(fd.Type.Results.List) == 1 && TypeStr(info.TypeOf(fd.Type.Results.List[0].Type)) == "bool"
	}
	run := func(fd *ast.FuncDecl, inline map[*types.Func]bool) *Engine {
		fn := FuncName(pkg, fd)
		c := &lookaheadClient{inline: inline}
		c.w, c.pkg, c.fd, c.fn, c.loops = w, pkg, fd, fn, map[ast.Stmt]int{}
		// deferred restore: defer func() { if !<result> { s.setPos(<entry>) } }()
		var resName types.Object
		if len(fd.Type.Results.List[0].Names) == 1 {
			resName = info.Defs[fd.Type.Results.List[0].Names[0]]
		}
		ast.Inspect(fd.Body, func(n ast.Node) bool {
			ds, ok := n.(*ast.DeferStmt)
			if !ok {
				return true
			}
			lit, ok := ds.Call.Fun.(*ast.FuncLit)
			if !ok || len(lit.Body.List) != 1 {
				return true
			}
			ifs, ok := lit.Body.List[0].(*ast.IfStmt)
			if !ok {
				return true
			}
			un, ok := ast.Unparen(ifs.Cond).(*ast.UnaryExpr)
			if !ok || un.Op != token.NOT || resName == nil || objOf(info, un.X) != resName {
				return true
			}
			for _, s := range ifs.Body.List {
				if es, ok := s.(*ast.ExprStmt); ok {
					if call, ok := es.X.(*ast.CallExpr); ok {
						if f := Callee(info, call); f != nil && fnName(f) == "setPos" {
							if k, ok := c.entryRelative(nil, call.Args[0], info); ok && k == 0 {
								c.hasDefer = true
							}
						}
					}
				}
			}
			return true
		})
		e := NewEngine(p, pkg, fd, c)
		e.Run(newState().WithExt("net", "0"))
		return e
	}
	failing := func(e *Engine) bool {
		for _, s := range e.Sites() {
			if len(s.Fails) > 0 {
				return true
			}
		}
		return false
	}
	var units []*ast.FuncDecl
	engines := map[*ast.FuncDecl]*Engine{}
	for _, fd := range AllFuncs(pkg) {
		if isLookahead(fd) {
			units = append(units, fd)
			r.Saw(FuncName(pkg, fd))
			engines[fd] = run(fd, nil)
		}
	}
	// a helper that fails on its own but is only ever called by other look-ahead methods is decided in their context
	inline := map[*types.Func]bool{}
	for _, fd := range units {
		fobj := FuncObj(pkg, fd)
		if !failing(engines[fd]) || !p.onlyCalledDirectly(fobj) || !smallBody(fd) {
			continue
		}
		loops, callers, allChecked := false, 0, true
		ast.Inspect(fd.Body, func(n ast.Node) bool {
			switch n.(type) {
			case *ast.ForStmt, *ast.RangeStmt:
				loops = true
			}
			return true
		})
		for _, caller := range AllFuncs(pkg) {
			if caller != fd && p.callsAny(caller, map[*types.Func]bool{fobj: true}) {
				callers++
				if !isLookahead(caller) {
					allChecked = false
				}
			}
		}
		_ = loops // a helper with a digit loop is interpreted in place like any other (its consumption counts on the caller's path)
		if callers > 0 && allChecked {
			inline[fobj] = true
		}
	}
	for _, fd := range units {
		if inline[FuncObj(pkg, fd)] {
			continue // judged where it is called
		}
		e := engines[fd]
		if len(inline) > 0 && p.callsAny(fd, inline) {
			e = run(fd, inline)
		}
		for _, m := range e.Errs {
			r.Fail("C09/lookahead", FuncName(pkg, fd)+" engine", "-", m)
		}
		e.FlushSites(r)
	}
	r.Floor("C09/lookahead", 3)
}

// ---- C09/escapes: the escape decoding table of string literals; C09/unquote: backtick un-doubling.
func ruleC09Escapes(p *Program, r *Run) {
	pkg := p.Parser
	fd := p.MustFunc(pkg, "scanner.string")
	fn := FuncName(pkg, fd)
	r.Saw(fn)
	// Decided on path facts: wherever one rune is written into the value while the rune read before the most recent
	// one is known to be a backslash, the rune just read says which escape this is and the written value what it
	// decodes to - whatever the shape of the decoding code (nested switch, helper, table of ifs).
	ec := &escapeClient{next: FuncObj(pkg, p.MustFunc(pkg, "scanner.next")), got: map[string]map[string]bool{}}
	eng := NewEngine(p, pkg, fd, ec)
	eng.Run(nil)
	for _, m := range eng.Errs {
		r.Fail("C09/escapes", fn+" engine", "-", m)
	}
	if len(ec.got) == 0 {
		// the decoding may live in a function from the escaped character to what it stands for (unescapeChar),
		// applied to the raw text after the literal was delimited: that function is evaluated for every character
		if dec := p.escapeDecoder(fd); dec != nil {
			bad := ""
			for c := rune(0); c < runeLimit && bad == ""; c++ {
				got, ok := evalIntFunc(p, dec, []int64{int64(c)})
				want := c
				switch c {
				case 'n':
					want = '\n'
				case 't':
					want = '\t'
				}
				if !ok {
					bad = "the decoding function cannot be evaluated"
				} else if rune(got) != want {
					bad = fmt.Sprintf("\\%c decodes to %q, documented %q", c, rune(got), want)
				}
			}
			r.Check(bad == "", "C09/escapes", fn+" escape \\n", p.Pos(dec.Pos()), "decodes to \"\\n\" ("+FuncName(pkg, dec)+" evaluated on U+0000..U+30FF)", bad)
			r.Check(bad == "", "C09/escapes", fn+" escape \\t", p.Pos(dec.Pos()), "decodes to \"\\t\"", bad)
			r.Check(bad == "", "C09/escapes", fn+" other escapes", p.Pos(dec.Pos()), "every other escaped character stands for itself", bad)
			r.Floor("C09/escapes", 3)
			ruleC09Unquote(p, r)
			return
		}
		r.Fail("C09/escapes", fn+" escape decoding", p.Pos(fd.Pos()), "no rune is ever written into the value after a backslash was read: escape sequences are not decoded")
		return
	}
	want := map[string]string{"n": "\n", "t": "\t"}
	render := func(m map[string]bool) string {
		var ks []string
		for k := range m {
			ks = append(ks, k)
		}
		sort.Strings(ks)
		return strings.Join(ks, ",")
	}
	for _, k := range []string{"n", "t"} {
		g := ec.got[k]
		r.Check(len(g) == 1 && g["="+want[k]], "C09/escapes", fmt.Sprintf("%s escape \\%s", fn, k), p.Pos(fd.Pos()), fmt.Sprintf("decodes to %q", want[k]), fmt.Sprintf("the escape \\%s decodes to {%s}, documented %q", k, render(g), want[k]))
	}
	var others []string
	for k := range ec.got {
		if k != "n" && k != "t" && k != "*" {
			others = append(others, k)
		}
	}
	sort.Strings(others)
	for _, k := range others {
		if k == "\n" {
			continue
		}
		if g := ec.got[k]; !(len(g) == 1 && g["self"]) {
			r.Fail("C09/escapes", fmt.Sprintf("%s escape \\%s", fn, k), p.Pos(fd.Pos()), fmt.Sprintf("undocumented escape \\%s -> {%s}", k, render(g)))
		}
	}
	dflt := ec.got["*"]
	r.Check(len(dflt) == 1 && dflt["self"], "C09/escapes", fn+" any other escaped character", p.Pos(fd.Pos()), "stands for itself (so \\\" \\' \\\\ work)", fmt.Sprintf("an escaped character that is not n or t does not stand for itself: {%s}", render(dflt)))
	r.Check(len(ec.got["\n"]) == 0 && ec.nlReturn, "C09/escapes", fn+" backslash before a newline", p.Pos(fd.Pos()), "is an unterminated string (strings are one-line)", "a backslash directly before a newline does not end the token with an error")
	r.Floor("C09/escapes", 4)
	ruleC09Unquote(p, r)
}

// ruleC09Unquote: quotedIdent: Value = ReplaceAll(text between the backticks, "“", "`")
func ruleC09Unquote(p *Program, r *Run) {
	pkg := p.Parser
	info := pkg.TypesInfo
	qd := p.MustFunc(pkg, "scanner.quotedIdent")
	r.Saw(FuncName(pkg, qd))
	okUn := false
	for _, cl := range p.tokenLits(qd.Body) {
		if k := litField(info, cl, "Kind"); k == nil || constName(info, k) != "TokenQuotedIdentifier" {
			continue
		}
		v := litField(info, cl, "Value")
		if v == nil {
			continue
		}
		call, isCall := p.DefExpr(v).(*ast.CallExpr)
		if !isCall || len(call.Args) != 3 {
			continue
		}
		if f := Callee(info, call); f == nil || f.FullName() != "strings.ReplaceAll" {
			continue
		}
		from, _ := constString(info, call.Args[1])
		to, _ := constString(info, call.Args[2])
		_, isSlice := p.DefExpr(call.Args[0]).(*ast.SliceExpr)
		okUn = from == "``" && to == "`" && isSlice
	}
	r.Check(okUn, "C09/unquote", FuncName(pkg, qd)+" value", p.Pos(qd.Pos()), "the text between the backticks with every doubled backtick reduced to one", "the value of a backtick-quoted identifier is not the enclosed text with `` reduced to `")
	r.Floor("C09/unquote", 1)
}

// escapeClient observes single-rune writes into the decoded value of a string literal.
type escapeClient struct {
	BaseClient
	InlinePure
	next     *types.Func
	got      map[string]map[string]bool // escaped character ("*" = any other) -> what is written ("=x" constant, "self", "?")
	nlReturn bool                       // some return is reached with backslash + newline read and nothing written for it
}

func (c *escapeClient) isNext(e *Engine, rhs []ast.Expr) bool {
	if len(rhs) != 1 {
		return false
	}
	call, ok := ast.Unparen(rhs[0]).(*ast.CallExpr)
	return ok && Callee(e.Info, call) == c.next
}

func (c *escapeClient) PreAssign(e *Engine, st *State, lhs, rhs []ast.Expr, _ ast.Stmt) *State {
	if !c.isNext(e, rhs) || len(lhs) != 2 {
		return nil
	}
	prev := ""
	if k := st.Ext("esc:cur"); k != "" {
		if f := st.GetVar(k); f != nil && f.HasEq {
			prev = f.Eq
		}
	}
	return st.WithExt("esc:prevEq", prev)
}

func (c *escapeClient) PostAssign(e *Engine, st *State, lhs, rhs []ast.Expr, _ ast.Stmt) *State {
	if !c.isNext(e, rhs) || len(lhs) != 2 {
		return nil
	}
	if o := objOf(e.Info, lhs[0]); o != nil {
		return st.WithExt("esc:cur", e.objKey(o))
	}
	return st.WithExt("esc:cur", "")
}

func (c *escapeClient) escaped(st *State) (string, *Fact, bool) {
	if st.Ext("esc:prevEq") != "92" {
		return "", nil, false
	}
	cur := st.Ext("esc:cur")
	if cur == "" {
		return "", nil, false
	}
	f := st.GetVar(cur)
	if f != nil && f.HasEq {
		if n, ok := parseInt(f.Eq); ok {
			return string(rune(n)), f, true
		}
	}
	return "*", f, true
}

func (c *escapeClient) PreCall(e *Engine, st *State, call *ast.CallExpr, _ *types.Func) *State {
	sel, ok := ast.Unparen(call.Fun).(*ast.SelectorExpr)
	if !ok || (sel.Sel.Name != "WriteRune" && sel.Sel.Name != "WriteByte") || len(call.Args) != 1 || !e.Reporting() {
		return nil
	}
	if t := e.Info.TypeOf(sel.X); t == nil || (TypeStr(t) != "*strings.Builder" && TypeStr(t) != "strings.Builder") {
		return nil
	}
	ch, _, ok := c.escaped(st)
	if !ok {
		return nil
	}
	what := "?"
	arg := call.Args[0]
	if v, ok := constInt(e.Info, arg); ok {
		what = "=" + string(rune(v))
	} else if k := e.CanonSt(st, arg); k.OK {
		cur := st.Ext("esc:cur")
		target := cur
		if a := st.Get("val:" + cur); a != nil && a.Alias != nil {
			target = a.Alias.Key
		}
		if k.Key == cur || k.Key == target {
			what = "self"
		} else if f := st.Get(k.Key); f != nil && f.HasEq {
			if n, ok := parseInt(f.Eq); ok {
				what = "=" + string(rune(n))
			}
		}
	}
	if what != "self" {
		if f := e.FactOf(st, arg); f != nil && f.HasEq && what == "?" {
			if n, ok := parseInt(f.Eq); ok {
				what = "=" + string(rune(n))
			}
		}
	}
	if c.got[ch] == nil {
		c.got[ch] = map[string]bool{}
	}
	c.got[ch][what] = true
	return nil
}

func (c *escapeClient) Return(e *Engine, st *State, ret *ast.ReturnStmt) {
	if ch, _, ok := c.escaped(st); ok && ch == "\n" {
		c.nlReturn = true
	}
}

// runeAtom evaluates a remembered call atom `call:F(args)` whose last argument is the rune variable with key rk, for
// the rune r: module predicates are evaluated on r, the unicode classes and strings.ContainsRune(const, r) are known.
// known is false if the atom is not about that variable or cannot be evaluated.
func runeAtom(p *Program, key, rk string, r rune) (val, known bool) {
	if !strings.HasPrefix(key, "call:") || !strings.HasSuffix(key, rk+")") {
		return false, false
	}
	body := strings.TrimPrefix(key, "call:")
	open := strings.Index(body, "(")
	if open < 0 {
		return false, false
	}
	fn, args := body[:open], strings.TrimSuffix(body[open+1:], ")")
	arg0 := ""
	if args != rk {
		if !strings.HasSuffix(args, ","+rk) {
			return false, false
		}
		arg0 = strings.TrimSuffix(args, ","+rk)
	}
	switch {
	case fn == "unicode.IsSpace" && arg0 == "":
		return unicode.IsSpace(r), true
	case fn == "unicode.IsLetter" && arg0 == "":
		return unicode.IsLetter(r), true
	case fn == "unicode.IsDigit" && arg0 == "":
		return unicode.IsDigit(r), true
	case fn == "strings.ContainsRune" && arg0 != "":
		if s, err := strconv.Unquote(arg0); err == nil {
			return strings.ContainsRune(s, r), true
		}
	case arg0 == "":
		if i := strings.LastIndex(fn, "."); i >= 0 && strings.HasPrefix(fn, PathParser) {
			if fd := p.FuncDecl(p.Parser, fn[i+1:]); fd != nil {
				return evalRunePred(p, fd, r, 0)
			}
		}
	}
	return false, false
}

// scanEntryClasses: for every sub-scanner Scan calls, the set of first characters (below runeLimit) consistent with
// the path facts at its calls, and whether every call follows a back-up over the character just read.
func (p *Program) scanEntryClasses() (map[string][]bool, map[string]bool) {
	if p.entryClasses != nil {
		return p.entryClasses, p.entryBacked
	}
	pkg := p.Parser
	p.entryClasses, p.entryBacked = map[string][]bool{}, map[string]bool{}
	fd := p.FuncDecl(pkg, "Scan")
	if fd == nil {
		return p.entryClasses, p.entryBacked
	}
	c := &backupClient{p: p, next: FuncObj(pkg, p.MustFunc(pkg, "scanner.next")), prev: FuncObj(pkg, p.MustFunc(pkg, "scanner.prev")), scannerT: p.Named(pkg, "scanner"), fn: FuncName(pkg, fd), tokenT: p.Named(pkg, "Token"), relies: map[*types.Func]bool{}}
	e := NewEngine(p, pkg, fd, c)
	e.Run(nil)
	if len(e.Errs) == 0 {
		for k, v := range c.classes {
			p.entryClasses[k] = v
		}
		for k, v := range c.backed {
			p.entryBacked[k] = v
		}
	}
	return p.entryClasses, p.entryBacked
}

// escapeDecoder: a function rune -> rune (or byte -> byte) among the helpers the string scanner was split into whose
// result is written into a builder.
func (p *Program) escapeDecoder(fd *ast.FuncDecl) *ast.FuncDecl {
	info := p.Info
	for _, root := range p.regionOf(p.Parser, fd.Body) {
		var found *ast.FuncDecl
		ast.Inspect(root, func(n ast.Node) bool {
			call, ok := n.(*ast.CallExpr)
			if !ok || found != nil {
				return found == nil
			}
			f := Callee(info, call)
			decl, dpkg := p.DeclOf(f)
			if decl == nil || dpkg != p.Parser || p.recordedFunc(f) {
				return true
			}
			sig := f.Type().(*types.Signature)
			if sig.Params().Len() != 1 || sig.Results().Len() != 1 {
				return true
			}
			pb, ok1 := sig.Params().At(0).Type().Underlying().(*types.Basic)
			rb, ok2 := sig.Results().At(0).Type().Underlying().(*types.Basic)
			if !ok1 || !ok2 || pb.Info()&types.IsInteger == 0 || rb.Info()&types.IsInteger == 0 {
				return true
			}
			// its result is written (WriteRune / WriteByte / append)
			if par, isCall := p.Parent(call).(*ast.CallExpr); isCall {
				if sel, isSel := ast.Unparen(par.Fun).(*ast.SelectorExpr); isSel && strings.HasPrefix(sel.Sel.Name, "Write") {
					found = decl
				}
				if IsBuiltinCall(info, par, "append") {
					found = decl
				}
			}
			return true
		})
		if found != nil {
			return found
		}
	}
	return nil
}

// keywordTable: the lexer's keyword table, whether it is a map literal (word -> kind) or a function that switches on
// the word and returns the kind.
func (p *Program) keywordTable() (map[string]string, token.Pos) {
	pkg := p.Parser
	info := p.Info
	// a package-level map[string]TokenKind
	for _, f := range pkg.Syntax {
		for _, d := range f.Decls {
			gd, ok := d.(*ast.GenDecl)
			if !ok || gd.Tok != token.VAR {
				continue
			}
			for _, sp := range gd.Specs {
				vs := sp.(*ast.ValueSpec)
				for i, n := range vs.Names {
					if i >= len(vs.Values) || TypeStr(info.TypeOf(n)) != "map[string]parser.TokenKind" {
						continue
					}
					cl, ok := ast.Unparen(vs.Values[i]).(*ast.CompositeLit)
					if !ok {
						continue
					}
					got := map[string]string{}
					for _, el := range cl.Elts {
						if kv, ok := el.(*ast.KeyValueExpr); ok {
							if k, isS := constString(info, kv.Key); isS {
								got[k] = constName(info, kv.Value)
							}
						}
					}
					if _, hasAnd := got["and"]; hasAnd || objName(info.Defs[n]) == "keywords" {
						return got, cl.Pos()
					}
				}
			}
		}
	}
	// func(word string) (TokenKind, bool) { switch word { case "and": return TokenAnd, true ... } }
	for _, fd := range AllFuncs(pkg) {
		sig := FuncObj(pkg, fd).Type().(*types.Signature)
		if sig.Params().Len() != 1 || TypeStr(sig.Params().At(0).Type()) != "string" || sig.Results().Len() < 1 || TypeStr(sig.Results().At(0).Type()) != "parser.TokenKind" {
			continue
		}
		if len(fd.Type.Params.List) != 1 || len(fd.Type.Params.List[0].Names) != 1 {
			continue
		}
		param := info.Defs[fd.Type.Params.List[0].Names[0]]
		got := map[string]string{}
		okShape := false
		ast.Inspect(fd.Body, func(n ast.Node) bool {
			sw, ok := n.(*ast.SwitchStmt)
			if !ok || sw.Tag == nil || objOf(info, sw.Tag) != param {
				return true
			}
			okShape = true
			for _, cs := range sw.Body.List {
				cc := cs.(*ast.CaseClause)
				if cc.List == nil || len(cc.Body) == 0 {
					continue
				}
				ret, isRet := cc.Body[len(cc.Body)-1].(*ast.ReturnStmt)
				if !isRet || len(ret.Results) < 1 {
					okShape = false
					continue
				}
				for _, ce := range cc.List {
					if k, isS := constString(info, ce); isS {
						got[k] = constName(info, ret.Results[0])
					}
				}
			}
			return false
		})
		if okShape && len(got) > 0 {
			return got, fd.Pos()
		}
	}
	return nil, token.NoPos
}

// ---- C09/accessors: a number literal is an integer exactly when it is not spelled as a float.
//
// IsInteger may only answer true on a path where the literal's kind is known to be TokenNumber and IsFloat() of the
// same literal is known to be false (path facts; a compound result expression is split into its outcomes).
type accessorClient struct {
	BaseClient
	InlinePure
	fn      string
	recvKey string
	isFloat *types.Func
	numKey  string
	seen    int
}

func (c *accessorClient) Return(e *Engine, st *State, ret *ast.ReturnStmt) {
	if !e.Reporting() || e.Lit != nil || ret == nil || len(ret.Results) != 1 {
		return
	}
	if v := constOf(e.Info, ret.Results[0]); v != nil && v.String() == "false" {
		return
	}
	e.quiet++
	yes, _ := e.cond(ret.Results[0], []*State{st})
	e.quiet--
	key := fmt.Sprintf("%s return #%d answers true only for a number that is not spelled as a float", c.fn, returnOrdinal(e.Func, ret))
	for _, t := range yes {
		c.seen++
		kind := t.Get(c.recvKey + ".Kind")
		okKind := kind != nil && kind.HasEq && kind.Eq == c.numKey
		okFloat := notSpelledAsFloat(t, c.isFloat, c.recvKey)
		ok := okKind && okFloat
		e.Site("C09/accessors", key, ret, ok, "Kind == TokenNumber and !IsFloat() are known where the answer is true")
		if !ok {
			var miss []string
			if !okKind {
				miss = append(miss, "the kind is not known to be TokenNumber")
			}
			if !okFloat {
				miss = append(miss, "IsFloat() is not known to be false")
			}
			e.Site("C09/accessors", key, ret, false, "IsInteger can answer true although "+strings.Join(miss, " and ")+": a literal spelled with a fraction or exponent would count as an integer (and be accepted as a row count), so the accessors no longer follow the literal's spelling")
		}
	}
}

// uintClient: the integer value of a literal spelled as a float is taken from its float value.
// notSpelledAsFloat: the state knows that the literal is not spelled with a fraction or exponent - IsFloat() is
// known false, or the test IsFloat makes (strings.ContainsAny(lit.Value, ".eE"), also through a helper interpreted
// in place) is.
func notSpelledAsFloat(st *State, isFloat *types.Func, recvKey string) bool {
	for _, k := range st.Keys() {
		f := st.Get(k)
		if f == nil || !f.HasEq || f.Eq != "false" {
			continue
		}
		if strings.HasPrefix(k, "call:"+isFloat.FullName()+"(") {
			return true
		}
		if strings.HasPrefix(k, "call:strings.ContainsAny("+recvKey+".Value,") {
			rest := k[len("call:strings.ContainsAny("+recvKey+".Value,"):]
			if strings.Contains(rest, ".") && strings.Contains(rest, "e") && strings.Contains(rest, "E") {
				return true
			}
		}
	}
	return false
}

type uintClient struct {
	BaseClient
	InlinePure
	fn      string
	recvKey string
	isFloat *types.Func
	float64 *types.Func
	numKey  string
	seen    int
}

func (c *uintClient) Return(e *Engine, st *State, ret *ast.ReturnStmt) {
	if !e.Reporting() || e.Lit != nil || ret == nil || len(ret.Results) != 1 {
		return
	}
	c.seen++
	// paths on which the literal is known not to be spelled as a float are free to parse the digits
	if notSpelledAsFloat(st, c.isFloat, c.recvKey) {
		return
	}
	key := fmt.Sprintf("%s return #%d: a float spelling goes through the float value", c.fn, returnOrdinal(e.Func, ret))
	x := ast.Unparen(ret.Results[0])
	ok := false
	// uint64(lit.Float64())
	if conv, isCall := x.(*ast.CallExpr); isCall && len(conv.Args) == 1 {
		if tv, isT := e.Info.Types[conv.Fun]; isT && tv.IsType() {
			if inner, isCall2 := ast.Unparen(e.ResolveExpr(conv.Args[0])).(*ast.CallExpr); isCall2 && Callee(e.Info, inner) == c.float64 {
				ok = true
			}
		}
	}
	// 0 for something that is not a number at all
	if v, isC := constInt(e.Info, x); isC && v == 0 {
		if kind := st.Get(c.recvKey + ".Kind"); kind != nil && (kind.HasEq && kind.Eq != c.numKey || hasStr(kind.Ne, c.numKey)) {
			ok = true
		}
	}
	e.Site("C09/accessors", key, ret, ok, "where IsFloat() may hold the result is uint64(Float64()) (or 0 for a non-number)")
	if !ok {
		e.Site("C09/accessors", key, ret, false, "the unsigned value of a literal that may be spelled with a fraction or exponent is not derived from its float value: digits cut out of the spelling (`1.5e3` read as 1) give a number the literal does not denote")
	}
}

// floatClient: IsFloat answers true only for a number whose text contains '.', 'e' or 'E'.
type floatClient struct {
	BaseClient
	InlinePure
	fn      string
	recvKey string
	numKey  string
	seen    int
}

func (c *floatClient) Return(e *Engine, st *State, ret *ast.ReturnStmt) {
	if !e.Reporting() || e.Lit != nil || ret == nil || len(ret.Results) != 1 {
		return
	}
	if v := constOf(e.Info, ret.Results[0]); v != nil && v.String() == "false" {
		return
	}
	e.quiet++
	yes, no := e.cond(ret.Results[0], []*State{st})
	e.quiet--
	marker := func(t *State, want string) bool {
		for _, k := range t.Keys() {
			pre := "call:strings.ContainsAny(" + c.recvKey + ".Value,"
			if strings.HasPrefix(k, pre) {
				rest := k[len(pre):]
				if f := t.Get(k); f != nil && f.HasEq && f.Eq == want && strings.Contains(rest, ".") && strings.Contains(rest, "e") && strings.Contains(rest, "E") {
					return true
				}
			}
		}
		return false
	}
	key := fmt.Sprintf("%s return #%d follows the spelling", c.fn, returnOrdinal(e.Func, ret))
	for _, t := range yes {
		c.seen++
		kind := t.Get(c.recvKey + ".Kind")
		ok := kind != nil && kind.HasEq && kind.Eq == c.numKey && marker(t, "true")
		e.Site("C09/accessors", key, ret, ok, "true only for a number whose text contains '.', 'e' or 'E'")
		if !ok {
			e.Site("C09/accessors", key, ret, false, "IsFloat can answer true where the kind is not known to be TokenNumber or the text is not known to contain '.', 'e' or 'E'")
		}
	}
	for _, t := range no {
		kind := t.Get(c.recvKey + ".Kind")
		ok := kind != nil && (kind.HasEq && kind.Eq != c.numKey || hasStr(kind.Ne, c.numKey)) || marker(t, "false")
		e.Site("C09/accessors", key+" (false)", ret, ok, "false only for a non-number or a text without '.', 'e', 'E'")
		if !ok {
			e.Site("C09/accessors", key+" (false)", ret, false, "IsFloat can answer false for a number whose text may contain '.', 'e' or 'E': a literal spelled with a fraction or exponent would count as an integer")
		}
	}
}

func ruleC09Accessors(p *Program, r *Run) {
	if ffd := p.FuncDecl(p.Parser, "BasicLit.IsFloat"); ffd != nil && ffd.Recv != nil && len(ffd.Recv.List) == 1 && len(ffd.Recv.List[0].Names) == 1 {
		pkg := p.Parser
		fn := FuncName(pkg, ffd)
		r.Saw(fn)
		if tn := p.constNamed(pkg.Types.Scope(), "TokenNumber"); tn != nil {
			fc := &floatClient{fn: fn, numKey: constKey(tn.Val())}
			fe := NewEngine(p, pkg, ffd, fc)
			fc.recvKey = fe.objKey(pkg.TypesInfo.Defs[ffd.Recv.List[0].Names[0]])
			fe.Run(nil)
			for _, m := range fe.Errs {
				r.Fail("C09/accessors", fn+" engine", "-", m)
			}
			fe.FlushSites(r)
			if fc.seen == 0 {
				r.Fail("C09/accessors", fn+" answers", p.Pos(ffd.Pos()), "IsFloat never answers true on a feasible path")
			}
		}
	}
	if ufd := p.FuncDecl(p.Parser, "BasicLit.Uint64"); ufd != nil && ufd.Recv != nil && len(ufd.Recv.List) == 1 && len(ufd.Recv.List[0].Names) == 1 {
		pkg := p.Parser
		fn := FuncName(pkg, ufd)
		r.Saw(fn)
		if tn := p.constNamed(pkg.Types.Scope(), "TokenNumber"); tn != nil {
			uc := &uintClient{fn: fn, isFloat: FuncObj(pkg, p.MustFunc(pkg, "BasicLit.IsFloat")), float64: FuncObj(pkg, p.MustFunc(pkg, "BasicLit.Float64")), numKey: constKey(tn.Val())}
			ue := NewEngine(p, pkg, ufd, uc)
			uc.recvKey = ue.objKey(pkg.TypesInfo.Defs[ufd.Recv.List[0].Names[0]])
			ue.Run(nil)
			for _, m := range ue.Errs {
				r.Fail("C09/accessors", fn+" engine", "-", m)
			}
			ue.FlushSites(r)
		}
	}
	pkg := p.Parser
	info := pkg.TypesInfo
	fd := p.MustFunc(pkg, "BasicLit.IsInteger")
	fn := FuncName(pkg, fd)
	r.Saw(fn)
	if fd.Recv == nil || len(fd.Recv.List) != 1 || len(fd.Recv.List[0].Names) != 1 {
		r.Fail("C09/accessors", fn+" receiver", p.Pos(fd.Pos()), "IsInteger has no named receiver")
		return
	}
	tn := p.constNamed(pkg.Types.Scope(), "TokenNumber")
	if tn == nil {
		fatalf("anchor not found: const parser.TokenNumber")
	}
	c := &accessorClient{fn: fn, isFloat: FuncObj(pkg, p.MustFunc(pkg, "BasicLit.IsFloat")), numKey: constKey(tn.Val())}
	e := NewEngine(p, pkg, fd, c)
	c.recvKey = e.objKey(info.Defs[fd.Recv.List[0].Names[0]])
	e.Run(nil)
	for _, m := range e.Errs {
		r.Fail("C09/accessors", fn+" engine", "-", m)
	}
	e.FlushSites(r)
	if c.seen == 0 {
		r.Fail("C09/accessors", fn+" answers", p.Pos(fd.Pos()), "IsInteger never answers true on a feasible path")
	}
	r.Floor("C09/accessors", 1)
}

// ---- C09/normalize: normalising a decimal literal keeps everything after its leading zeros.
//
// The value of a number token is the literal's own text with redundant leading zeros removed and, where the text
// would otherwise start with '.', 'e' or 'E' (or be empty), a "0" put in front. Whether the literal is a float
// (IsFloat looks for '.', 'e', 'E' in the value), what its digits are and what it denotes all rest on nothing else
// being taken away. Decided on normalizeNumberValue: every value it can return is a constant, a suffix of its
// parameter (TrimLeft/TrimPrefix with a constant, s[i:]), or a constant followed by such a suffix.
func ruleC09Normalize(p *Program, r *Run) {
	pkg := p.Parser
	info := pkg.TypesInfo
	fd := p.FuncDecl(pkg, "normalizeNumberValue")
	if fd == nil {
		return
	}
	fn := FuncName(pkg, fd)
	r.Saw(fn)
	if len(fd.Type.Params.List) != 1 || len(fd.Type.Params.List[0].Names) != 1 {
		r.Fail("C09/normalize", fn+" signature", p.Pos(fd.Pos()), "expected one string parameter")
		return
	}
	param := info.Defs[fd.Type.Params.List[0].Names[0]]
	const (
		kConst  = 1
		kSuffix = 2
		kBoth   = 3 // constant + suffix
		kOther  = 4
	)
	var classify func(x ast.Expr, depth int) int
	varClass := map[types.Object]int{}
	classify = func(x ast.Expr, depth int) int {
		x = ast.Unparen(x)
		if depth > 8 {
			return kOther
		}
		if _, ok := constString(info, x); ok {
			return kConst
		}
		switch v := x.(type) {
		case *ast.Ident:
			o := objOf(info, v)
			if c, ok := varClass[o]; ok {
				return c
			}
			return kOther
		case *ast.SliceExpr:
			if v.High == nil && v.Max == nil && classify(v.X, depth+1) == kSuffix {
				return kSuffix
			}
		case *ast.BinaryExpr:
			if v.Op == token.ADD {
				a, b := classify(v.X, depth+1), classify(v.Y, depth+1)
				if a == kConst && (b == kSuffix || b == kConst) {
					if b == kConst {
						return kConst
					}
					return kBoth
				}
			}
		case *ast.CallExpr:
			f := Callee(info, v)
			if f != nil && f.Pkg() != nil && f.Pkg().Path() == "strings" && (f.Name() == "TrimLeft" || f.Name() == "TrimPrefix") && len(v.Args) == 2 {
				if _, isC := constString(info, v.Args[1]); isC && classify(v.Args[0], depth+1) == kSuffix {
					return kSuffix
				}
			}
		}
		return kOther
	}
	// the parameter and every local string: the join of what is assigned to it, to a fixpoint
	varClass[param] = kSuffix
	join := func(a, b int) int {
		switch {
		case a == 0:
			return b
		case a == b:
			return a
		default:
			return kOther
		}
	}
	for iter := 0; iter < 6; iter++ {
		changed := false
		ast.Inspect(fd.Body, func(n ast.Node) bool {
			as, ok := n.(*ast.AssignStmt)
			if !ok || len(as.Lhs) != len(as.Rhs) {
				return true
			}
			for i, l := range as.Lhs {
				o := objOf(info, l)
				if o == nil {
					continue
				}
				if b, isB := o.Type().Underlying().(*types.Basic); !isB || b.Info()&types.IsString == 0 {
					continue
				}
				c := classify(as.Rhs[i], 0)
				if as.Tok != token.ASSIGN && as.Tok != token.DEFINE {
					c = kOther
				}
				if n := join(varClass[o], c); n != varClass[o] {
					varClass[o] = n
					changed = true
				}
			}
			return true
		})
		if !changed {
			break
		}
	}
	k := 0
	ast.Inspect(fd.Body, func(n ast.Node) bool {
		if _, nested := n.(*ast.FuncLit); nested {
			return false
		}
		ret, ok := n.(*ast.ReturnStmt)
		if !ok || len(ret.Results) != 1 {
			return true
		}
		k++
		c := classify(ret.Results[0], 0)
		r.Check(c != kOther, "C09/normalize", fmt.Sprintf("%s return #%d", fn, k), p.Pos(ret.Pos()), "a constant, a suffix of the literal's text, or a constant in front of such a suffix", "the value returned ("+exprStr(ret.Results[0])+") is not the literal's text minus a prefix: characters other than leading zeros can be removed or changed, so a literal spelled with a fraction or exponent can lose that spelling (IsFloat, IsInteger and the row-count check then disagree with what was written) or denote another value")
		return true
	})
	r.Floor("C09/normalize", 2)
}

// ---- C09/start: scanning starts at the first byte.
//
// Everything Scan passes over is a token, white space or a comment, decided inside its loop (C09/classes and the
// skip rule). Nothing may move the scanner before the loop is entered - a prefix skipped there is neither: the same
// bytes in the middle of a source are an error token, so scanning a piece on its own and in context disagree.
func ruleC09Start(p *Program, r *Run) {
	pkg := p.Parser
	info := pkg.TypesInfo
	fd := p.MustFunc(pkg, "Scan")
	fn := FuncName(pkg, fd)
	r.Saw(fn)
	isScannerT := func(t types.Type) bool {
		return t != nil && strings.HasSuffix(strings.TrimPrefix(TypeStr(t), "*"), "parser.scanner")
	}
	bad := ""
	sawLoop := false
	for _, s := range fd.Body.List {
		if _, ok := s.(*ast.ForStmt); ok {
			sawLoop = true
			break
		}
		if _, ok := s.(*ast.RangeStmt); ok {
			sawLoop = true
			break
		}
		ast.Inspect(s, func(n ast.Node) bool {
			switch v := n.(type) {
			case *ast.CallExpr:
				if sel, ok := ast.Unparen(v.Fun).(*ast.SelectorExpr); ok && isScannerT(info.TypeOf(sel.X)) && bad == "" {
					bad = "the scanner method " + sel.Sel.Name + " is called at " + p.Pos(v.Pos()) + " before the scanning loop"
				}
				for _, a := range v.Args {
					if u, ok := ast.Unparen(a).(*ast.UnaryExpr); ok && u.Op == token.AND && isScannerT(info.TypeOf(u.X)) && bad == "" {
						bad = "the scanner is handed to " + exprStr(v.Fun) + " at " + p.Pos(v.Pos()) + " before the scanning loop"
					}
				}
			case *ast.AssignStmt:
				for _, l := range v.Lhs {
					if sel, ok := ast.Unparen(l).(*ast.SelectorExpr); ok && isScannerT(info.TypeOf(sel.X)) && bad == "" {
						bad = "the scanner field " + sel.Sel.Name + " is assigned at " + p.Pos(v.Pos()) + " before the scanning loop"
					}
				}
			case *ast.CompositeLit:
				if isScannerT(info.TypeOf(v)) {
					for _, el := range v.Elts {
						kv, ok := el.(*ast.KeyValueExpr)
						if !ok {
							continue
						}
						fld, _ := objOf(info, kv.Key).(*types.Var)
						if fld == nil {
							continue
						}
						if b, isB := fld.Type().Underlying().(*types.Basic); isB && b.Info()&types.IsInteger != 0 {
							if c, isC := constInt(info, kv.Value); (!isC || c != 0) && bad == "" {
								bad = "the scanner is created with " + fld.Name() + " = " + exprStr(kv.Value)
							}
						}
					}
				}
			}
			return true
		})
	}
	if !sawLoop {
		bad = "no scanning loop found in the body of Scan"
	}
	r.Check(bad == "", "C09/start", fn+" starts at the first byte", p.Pos(fd.Pos()), "the scanner is created at offset 0 and first moved inside the loop", bad+": bytes at the start of the source can be passed over without becoming a token, white space or a comment, although the same bytes elsewhere are an error token")
	r.Floor("C09/start", 1)
}

// predicateVar: a package-level variable of function type named name that is never assigned and is initialised with
// a function whose value on a character can be computed here (a unicode class predicate, or a module predicate).
func (p *Program) predicateVar(pkg *packages.Package, name string) (func(rune) bool, string) {
	v, _ := pkg.Types.Scope().Lookup(name).(*types.Var)
	if v == nil || !p.globalNeverWritten(v) {
		return nil, ""
	}
	init := p.globalInitExpr(v)
	if init == nil {
		return nil, ""
	}
	var fn *types.Func
	switch x := ast.Unparen(init).(type) {
	case *ast.Ident:
		fn, _ = p.Info.Uses[x].(*types.Func)
	case *ast.SelectorExpr:
		fn, _ = p.Info.Uses[x.Sel].(*types.Func)
	}
	if fn == nil {
		return nil, ""
	}
	pos := p.Pos(init.Pos())
	switch fn.FullName() {
	case "unicode.IsLetter":
		return unicode.IsLetter, pos
	case "unicode.IsDigit":
		return unicode.IsDigit, pos
	case "unicode.IsNumber":
		return unicode.IsNumber, pos
	case "unicode.IsSpace":
		return unicode.IsSpace, pos
	case "unicode.IsUpper":
		return unicode.IsUpper, pos
	case "unicode.IsLower":
		return unicode.IsLower, pos
	}
	if d, dpkg := p.DeclOf(fn); d != nil && dpkg == pkg {
		return func(c rune) bool {
			got, ok := evalRunePred(p, d, c, 0)
			return ok && got
		}, pos
	}
	return nil, ""
}

// ---- C09/jump: a forward jump of the scanner in Scan passes over exactly what was searched for.
//
// Scan may skip a comment by searching for the line feed instead of reading rune by rune. Such a jump goes either to
// just behind the separator that was found - X.setPos(X.pos + i + len(sep)) on a path where i, the result of
// strings.Index*(text[X.pos:], sep), is known not to be negative - or to the end of the text on a path where that
// result is known to be negative. Anything else (a jump to the end although a separator may have been found, a jump
// computed from a result that may be -1) swallows text that is not part of the comment, or none of it.
type jumpClient struct {
	BaseClient
	InlinePredicates
	p    *Program
	fn   string
	seen int
}

func (c *jumpClient) PreCall(e *Engine, st *State, call *ast.CallExpr, callee *types.Func) *State {
	if callee == nil || cursorOf(callee) != "scanner" || fnName(callee) != "setPos" || len(call.Args) != 1 || len(e.Frames()) != 0 || !e.Reporting() {
		return nil
	}
	info := e.Info
	fs, ok := ast.Unparen(call.Fun).(*ast.SelectorExpr)
	if !ok {
		return nil
	}
	recv := fs.X
	arg := ast.Unparen(call.Args[0])
	// a saved position (plus a constant): the undo of a look-ahead, decided by C09/backup and C09/lookahead
	base := arg
	if b, isBin := arg.(*ast.BinaryExpr); isBin && b.Op == token.ADD {
		if _, isC := constInt(info, b.Y); isC {
			base = ast.Unparen(b.X)
		}
	}
	if id, isID := base.(*ast.Ident); isID {
		if c.p.allDefsAre(id, func(d ast.Expr) bool {
			sel, ok := d.(*ast.SelectorExpr)
			return ok && selName(sel) == "pos"
		}) {
			return nil
		}
	}
	c.seen++
	key := fmt.Sprintf("%s jump #%d to %s", c.fn, c.seen, exprStr(arg))
	searchOf := func(x ast.Expr) (*ast.CallExpr, string) {
		cl, _ := ast.Unparen(c.p.DefExpr(x)).(*ast.CallExpr)
		if cl == nil || len(cl.Args) != 2 {
			return nil, ""
		}
		f := Callee(info, cl)
		if f == nil || f.Pkg() == nil || f.Pkg().Path() != "strings" || !strings.HasPrefix(f.Name(), "Index") {
			return nil, ""
		}
		sl, ok := ast.Unparen(cl.Args[0]).(*ast.SliceExpr)
		if !ok || sl.High != nil || sl.Low == nil {
			return nil, ""
		}
		lo, ok := ast.Unparen(sl.Low).(*ast.SelectorExpr)
		if !ok || selName(lo) != "pos" || !sameExpr(info, lo.X, recv) || !c.p.scannerTextOf(sl.X, recv) {
			return nil, ""
		}
		sep := ""
		if s, isS := constString(info, cl.Args[1]); isS {
			sep = s
		} else if v, isC := constInt(info, cl.Args[1]); isC && v >= 0 && v < 128 {
			sep = string(rune(v))
		}
		return cl, sep
	}
	// the end of the text: only where a search is known to have found nothing
	if lc, isCall := arg.(*ast.CallExpr); isCall && IsBuiltinCall(info, lc, "len") && len(lc.Args) == 1 && c.p.scannerTextOf(lc.Args[0], recv) {
		ok := false
		for _, k := range st.Keys() {
			if !strings.HasPrefix(k, "call:strings.Index") {
				continue
			}
			if f := st.Get(k); f != nil && (f.Hi != nil && *f.Hi < 0 || f.HasEq && f.Eq == "-1") {
				ok = true
			}
		}
		// the result held in a variable that an enclosing condition tested
		for a := e.P.Parent(call); a != nil && !ok; a = e.P.Parent(a) {
			if ifs, isIf := a.(*ast.IfStmt); isIf {
				ast.Inspect(ifs.Cond, func(n ast.Node) bool {
					if id, isID := n.(*ast.Ident); isID {
						if cl, _ := searchOf(id); cl != nil {
							if f := e.FactOf(st, id); f != nil && (f.Hi != nil && *f.Hi < 0 || f.HasEq && f.Eq == "-1") {
								ok = true
							}
						}
					}
					return true
				})
			}
			if _, isFn := a.(*ast.FuncDecl); isFn {
				break
			}
		}
		e.Site("C09/jump", key, call, ok, "the end of the text, where the search for the separator is known to have found nothing")
		if !ok {
			e.Site("C09/jump", key, call, false, "the scanner jumps to the end of the text on a path where it is not known that the search found nothing (the separator may be right at the position): everything after the comment's line is swallowed without a token")
		}
		return nil
	}
	// pos + i + len(sep)
	var terms []ast.Expr
	var flat func(x ast.Expr)
	flat = func(x ast.Expr) {
		if b, ok := ast.Unparen(x).(*ast.BinaryExpr); ok && b.Op == token.ADD {
			flat(b.X)
			flat(b.Y)
			return
		}
		terms = append(terms, ast.Unparen(x))
	}
	flat(arg)
	posTerms, consts := 0, int64(0)
	var search ast.Expr
	sep := ""
	okShape := true
	for _, t := range terms {
		if sel, ok := t.(*ast.SelectorExpr); ok && selName(sel) == "pos" && sameExpr(info, sel.X, recv) {
			posTerms++
			continue
		}
		if v, ok := constInt(info, t); ok {
			consts += v
			continue
		}
		if cl, sp := searchOf(t); cl != nil && search == nil {
			search, sep = t, sp
			continue
		}
		okShape = false
	}
	ok2 := okShape && posTerms == 1 && search != nil && sep != "" && consts == int64(len(sep))
	why := "the target is not <position> + <result of a search from the position> + <length of the separator>"
	if ok2 {
		f := e.FactOf(st, search)
		if f == nil || f.Lo == nil || *f.Lo < 0 {
			ok2 = false
			why = "the result of the search may be -1 here (nothing found): the scanner would not move, and the comment's text is scanned as tokens"
		}
	}
	e.Site("C09/jump", key, call, ok2, "just behind the separator that was found (result known not to be negative)")
	if !ok2 {
		e.Site("C09/jump", key, call, false, "the scanner is moved to a position that is not known to be just behind the separator it searched for: "+why)
	}
	return nil
}

func ruleC09Jump(p *Program, r *Run) {
	pkg := p.Parser
	fd := p.MustFunc(pkg, "Scan")
	fn := FuncName(pkg, fd)
	r.Saw(fn)
	c := &jumpClient{p: p, fn: fn}
	e := NewEngine(p, pkg, fd, c)
	e.Run(nil)
	for _, m := range e.Errs {
		r.Fail("C09/jump", fn+" engine", "-", m)
	}
	e.FlushSites(r)
	if c.seen == 0 {
		r.PassNT("C09/jump", fn+" moves only by reading", p.Pos(fd.Pos()), "Scan never moves the scanner forwards except by reading runes")
	}
}

// ---- C09/folding: a character is only compared after a transformation that is exact for the compared constant.
//
// Where the lexer compares f(c) with a constant K (a value switch on f(c), or f(c) == K), f being a function of the
// module from a character to a character, the characters that are taken for K are exactly K itself and - when K is
// a letter - the same letter in the other case. A bit trick that "lowers" every character maps control characters
// onto punctuation ('\x0e' | 0x20 == '.'), so a byte that is no part of any lexeme is accepted as one.
func ruleC09Folding(p *Program, r *Run) {
	pkg := p.Parser
	info := pkg.TypesInfo
	isCharFunc := func(f *types.Func) *ast.FuncDecl {
		if f == nil || f.Pkg() != pkg.Types {
			return nil
		}
		sig := f.Type().(*types.Signature)
		if sig.Recv() != nil || sig.Params().Len() != 1 || sig.Results().Len() != 1 {
			return nil
		}
		isChar := func(t types.Type) bool {
			b, ok := t.Underlying().(*types.Basic)
			return ok && (b.Kind() == types.Int32 || b.Kind() == types.Uint8)
		}
		if !isChar(sig.Params().At(0).Type()) || !isChar(sig.Results().At(0).Type()) {
			return nil
		}
		d, _ := p.DeclOf(f)
		return d
	}
	n := 0
	check := func(fn string, call *ast.CallExpr, k ast.Expr) {
		decl := isCharFunc(Callee(info, call))
		if decl == nil {
			return
		}
		kv, ok := constInt(info, k)
		if !ok {
			return
		}
		n++
		r.Saw(fn)
		bad := ""
		for c := int64(0); c < int64(runeLimit) && bad == ""; c++ {
			got, ok := evalIntFunc(p, decl, []int64{c})
			if !ok {
				bad = "the function cannot be evaluated symbolically"
				break
			}
			if got != kv {
				continue
			}
			exact := c == kv
			if !exact && unicode.IsLetter(rune(kv)) && unicode.IsLetter(rune(c)) && unicode.ToLower(rune(c)) == unicode.ToLower(rune(kv)) {
				exact = true
			}
			if !exact {
				bad = fmt.Sprintf("%s(%q) == %q", decl.Name.Name, rune(c), rune(kv))
			}
		}
		key := fmt.Sprintf("%s compares %s with %q", fn, exprStr(call), rune(kv))
		r.Check(bad == "", "C09/folding", key, p.Pos(call.Pos()), "only the constant itself (and the same letter in the other case) is taken for it (U+0000..U+30FF)", "a character other than the compared one is taken for it: "+bad+" - a byte that belongs to no lexeme is accepted as part of one")
	}
	for _, fd := range AllFuncs(pkg) {
		if !p.isLexerFunc(fd) {
			continue
		}
		fn := FuncName(pkg, fd)
		ast.Inspect(fd.Body, func(x ast.Node) bool {
			switch v := x.(type) {
			case *ast.SwitchStmt:
				call, ok := ast.Unparen(v.Tag).(*ast.CallExpr)
				if v.Tag == nil || !ok {
					return true
				}
				for _, cs := range v.Body.List {
					for _, k := range cs.(*ast.CaseClause).List {
						check(fn, call, k)
					}
				}
			case *ast.BinaryExpr:
				if v.Op != token.EQL && v.Op != token.NEQ {
					return true
				}
				if call, ok := ast.Unparen(v.X).(*ast.CallExpr); ok {
					check(fn, call, v.Y)
				} else if call, ok := ast.Unparen(v.Y).(*ast.CallExpr); ok {
					check(fn, call, v.X)
				}
			}
			return true
		})
	}
	if n == 0 {
		r.PassNT("C09/folding", "parser lexer compares characters directly", "-", "no character is compared through a transformation function")
	}
}
