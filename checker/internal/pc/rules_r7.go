package pc

import (
	"fmt"
	"go/ast"
	"go/token"
	"go/types"
	"sort"
	"strings"
)

// ---- C13/limits: the parser does not reject input for its size.
//
// C07 and C13 quantify over every program of the grammar, "at whatever depth": a construct that parses when it
// occurs once parses when it occurs a thousand times, side by side or nested. A counter kept on the parser or the
// scanner (or in a package-level variable) that is compared with a constant in a condition under which an error is
// returned makes the outcome depend on how much input came before. (The cursor and its saved copy are positions,
// not counters.)
func ruleC13Limits(p *Program, r *Run) {
	pkg := p.Parser
	info := pkg.TypesInfo
	isCounter := func(x ast.Expr) (string, bool) {
		x = ast.Unparen(x)
		switch v := x.(type) {
		case *ast.SelectorExpr:
			f := selField(info, v)
			if f == nil {
				return "", false
			}
			b, ok := f.Type().Underlying().(*types.Basic)
			if !ok || b.Info()&types.IsInteger == 0 {
				return "", false
			}
			t := info.TypeOf(v.X)
			if pt, isP := t.(*types.Pointer); isP {
				t = pt.Elem()
			}
			n, isN := t.(*types.Named)
			if !isN || n.Obj().Pkg() == nil || n.Obj().Pkg().Path() != PathParser {
				return "", false
			}
			switch objName(n.Obj()) {
			case "parser", "scanner":
			default:
				return "", false
			}
			switch fldName(f) {
			case "pos", "last":
				return "", false
			}
			return n.Obj().Name() + "." + f.Name(), true
		case *ast.Ident:
			if g, ok := objOf(info, v).(*types.Var); ok && g.Pkg() != nil && g.Parent() == g.Pkg().Scope() {
				if b, isB := g.Type().Underlying().(*types.Basic); isB && b.Info()&types.IsInteger != 0 {
					return g.Name(), true
				}
			}
		}
		return "", false
	}
	isConst := func(x ast.Expr) bool {
		tv, ok := info.Types[ast.Unparen(x)]
		return ok && tv.Value != nil
	}
	errIface := errorIface()
	makesError := func(body *ast.BlockStmt) bool {
		found := false
		ast.Inspect(body, func(n ast.Node) bool {
			ret, ok := n.(*ast.ReturnStmt)
			if !ok {
				return !found
			}
			for _, res := range ret.Results {
				ast.Inspect(res, func(m ast.Node) bool {
					switch v := m.(type) {
					case *ast.CompositeLit:
						if t := info.TypeOf(v); t != nil && (types.Implements(t, errIface) || types.Implements(types.NewPointer(t), errIface)) {
							found = true
						}
					case *ast.CallExpr:
						if f := Callee(info, v); f != nil {
							switch f.FullName() {
							case "fmt.Errorf", "errors.New":
								found = true
							}
							if fnName(f) == "errorToken" {
								found = true
							}
						}
					}
					return !found
				})
			}
			return !found
		})
		return found
	}
	n := 0
	for _, fd := range AllFuncs(pkg) {
		fn := FuncName(pkg, fd)
		ast.Inspect(fd.Body, func(x ast.Node) bool {
			is, ok := x.(*ast.IfStmt)
			if !ok {
				return true
			}
			ast.Inspect(is.Cond, func(m ast.Node) bool {
				b, isB := m.(*ast.BinaryExpr)
				if !isB {
					return true
				}
				switch b.Op {
				case token.LSS, token.LEQ, token.GTR, token.GEQ:
				default:
					return true
				}
				name, isC := isCounter(b.X)
				other := b.Y
				if !isC {
					name, isC = isCounter(b.Y)
					other = b.X
				}
				if !isC || !isConst(other) || !makesError(is.Body) {
					return true
				}
				n++
				r.Saw(fn)
				r.Fail("C13/limits", fmt.Sprintf("%s rejects on %s", fn, exprStr(b)), p.Pos(b.Pos()), fmt.Sprintf("an error is returned because the counter %s has passed a constant: whether a program is accepted would depend on how much of it there is (statements, operators, groups), not on what it says", name))
				return true
			})
			return true
		})
	}
	if n == 0 {
		r.PassNT("C13/limits", "parser: no size limits", p.Pos(p.MustFunc(pkg, "Parse").Pos()), "no error is returned under a comparison of a counter of the parser or scanner with a constant")
	}
}

// ---- C11/unshared (fresh per iteration): a node made before a loop is not handed on inside it.
//
// A node (or a struct that becomes one) that is allocated once before a loop and then filled in and stored, copied
// or passed on in every iteration is one object doing the work of many: fields that an iteration does not set keep
// what the previous one left (a stale span or name), and where the pointer itself is stored the tree holds the same
// node several times - a cycle, if it is stored into itself. Inside a loop such a variable may only be the base of
// a field selection (the parent that collects the children) or be returned.
func ruleC11FreshPerIteration(p *Program, r *Run) {
	nodeIface := p.Iface(p.Parser, "Node")
	isNodeT := func(t types.Type) bool {
		if t == nil {
			return false
		}
		if pt, ok := t.(*types.Pointer); ok {
			t = pt.Elem()
		}
		n, ok := t.(*types.Named)
		if !ok {
			return false
		}
		if _, isStruct := n.Underlying().(*types.Struct); !isStruct {
			return false
		}
		return types.Implements(types.NewPointer(n), nodeIface) || types.Implements(n, nodeIface)
	}
	total := 0
	for _, pkg := range p.Lib() {
		info := pkg.TypesInfo
		for _, fd := range AllFuncs(pkg) {
			fn := FuncName(pkg, fd)
			var loops []ast.Node
			ast.Inspect(fd.Body, func(n ast.Node) bool {
				switch n.(type) {
				case *ast.ForStmt, *ast.RangeStmt:
					loops = append(loops, n)
				}
				return true
			})
			if len(loops) == 0 {
				continue
			}
			// candidates: locals with a single definition from an allocation of a node struct
			cands := map[types.Object]ast.Node{}
			ast.Inspect(fd.Body, func(n ast.Node) bool {
				as, ok := n.(*ast.AssignStmt)
				if !ok || as.Tok != token.DEFINE || len(as.Lhs) != len(as.Rhs) {
					return true
				}
				for i, l := range as.Lhs {
					id, isID := l.(*ast.Ident)
					if !isID {
						continue
					}
					o := info.Defs[id]
					if o == nil || !isNodeT(o.Type()) {
						continue
					}
					x := ast.Unparen(as.Rhs[i])
					if u, isU := x.(*ast.UnaryExpr); isU && u.Op == token.AND {
						x = ast.Unparen(u.X)
					}
					alloc := false
					if _, isLit := x.(*ast.CompositeLit); isLit {
						alloc = true
					}
					if call, isCall := x.(*ast.CallExpr); isCall && IsBuiltinCall(info, call, "new") {
						alloc = true
					}
					if alloc {
						cands[o] = as
					}
				}
				return true
			})
			for o, def := range cands {
				for _, loop := range loops {
					if def.Pos() >= loop.Pos() && def.End() <= loop.End() {
						continue // made inside the loop: a new one every time round
					}
					// assigned as a whole inside the loop: made anew there
					renewed := false
					ast.Inspect(loop, func(n ast.Node) bool {
						if as, isAs := n.(*ast.AssignStmt); isAs {
							for _, l := range as.Lhs {
								if id, isID := ast.Unparen(l).(*ast.Ident); isID && objOf(info, id) == o {
									renewed = true
								}
							}
						}
						return !renewed
					})
					if renewed {
						continue
					}
					var bad ast.Node
					ast.Inspect(loop, func(n ast.Node) bool {
						if bad != nil {
							return false
						}
						if _, isRet := n.(*ast.ReturnStmt); isRet {
							return false // leaving the loop with it
						}
						if sel, isSel := n.(*ast.SelectorExpr); isSel {
							if id, isID := ast.Unparen(sel.X).(*ast.Ident); isID && objOf(info, id) == o {
								if s, has := info.Selections[sel]; has && s.Kind() == types.FieldVal {
									return false // a field of it: the parent that collects
								}
							}
						}
						if id, isID := n.(*ast.Ident); isID && objOf(info, id) == o {
							bad = id
						}
						return true
					})
					total++
					key := fmt.Sprintf("%s node %s made before the loop at %s", fn, o.Name(), p.Pos(loop.Pos()))
					if bad == nil {
						r.Pass("C11/unshared", key, p.Pos(def.Pos()), "inside the loop only its fields are selected (or it is returned)")
					} else {
						r.Fail("C11/unshared", key, p.Pos(bad.Pos()), fmt.Sprintf("the node %s is allocated once before the loop and is stored, copied, passed on or called inside it (%s): every iteration works on the same object, so fields an iteration does not set keep the previous iteration's values and a stored pointer puts the same node into the tree several times", o.Name(), p.Pos(bad.Pos())))
					}
				}
			}
		}
	}
	if total == 0 {
		r.PassNT("C11/unshared", "library: nodes made before loops", "-", "no loop uses a node that was allocated before it")
	}
}

// ---- C04/stale (buffers): text is taken from a buffer that holds nothing but it.
//
// A strings.Builder that is made before a loop, written in every iteration and read (String()) in every iteration
// without being reset in between hands each iteration the text of all the earlier ones as well: the value stored
// for one let statement would be the concatenation of all lets so far.
func ruleC04StaleBuffers(p *Program, r *Run) {
	pkg := p.PQL
	info := pkg.TypesInfo
	isBuilderT := func(t types.Type) bool {
		return t != nil && strings.TrimPrefix(TypeStr(t), "*") == "strings.Builder"
	}
	total := 0
	for _, fd := range AllFuncs(pkg) {
		fn := FuncName(pkg, fd)
		var loops []ast.Node
		ast.Inspect(fd.Body, func(n ast.Node) bool {
			switch n.(type) {
			case *ast.ForStmt, *ast.RangeStmt:
				loops = append(loops, n)
			}
			return true
		})
		for _, loop := range loops {
			// builders read inside the loop
			read := map[types.Object]ast.Node{}
			reset := map[types.Object]bool{}
			written := map[types.Object]bool{}
			ast.Inspect(loop, func(n ast.Node) bool {
				call, ok := n.(*ast.CallExpr)
				if !ok {
					return true
				}
				if sel, isSel := ast.Unparen(call.Fun).(*ast.SelectorExpr); isSel && isBuilderT(info.TypeOf(sel.X)) {
					if o := objOf(info, sel.X); o != nil {
						switch {
						case sel.Sel.Name == "String":
							read[o] = call
						case sel.Sel.Name == "Reset":
							reset[o] = true
						case strings.HasPrefix(sel.Sel.Name, "Write"):
							written[o] = true
						}
					}
				}
				for _, a := range call.Args {
					if o := objOf(info, a); o != nil && isBuilderT(o.Type()) {
						written[o] = true // handed to a writer
					}
				}
				return true
			})
			for o, at := range read {
				if o.Pos() >= loop.Pos() && o.Pos() < loop.End() {
					continue // made inside the loop
				}
				isParam := false
				for _, f := range fd.Type.Params.List {
					for _, nm := range f.Names {
						if info.Defs[nm] == o {
							isParam = true
						}
					}
				}
				if isParam {
					continue // the caller's buffer, whose contents are the caller's business
				}
				if !written[o] {
					continue
				}
				total++
				key := fmt.Sprintf("%s buffer %s read inside the loop at %s", fn, o.Name(), p.Pos(loop.Pos()))
				r.Check(reset[o], "C04/stale", key, p.Pos(at.Pos()), "the buffer is reset inside the loop", fmt.Sprintf("the buffer %s is made before the loop, written and read in every iteration and never reset: what is read in one iteration includes the text of all earlier ones", o.Name()))
			}
		}
	}
	if total == 0 {
		r.PassNT("C04/stale", "pql: buffers read inside loops", "-", "no buffer made before a loop is both written and read inside it")
	}
}

// ---- C07/repeats: a loop of a production can go round.
//
// Repetition in the grammar - the parts of a dotted name, the operators of a pipeline, the items of a list, the
// operators of an expression - is a loop in the production. A loop whose every path returns or breaks before the
// end of the body parses one repetition and stops: `a.b.c` ends after `a.b`. Decided with the interpreter: every
// `for` statement in a method of the parser is reached again by at least one path of its own body.
type repeatsClient struct {
	BaseClient
	back map[ast.Stmt]int
}

func (c *repeatsClient) LoopBack(e *Engine, st *State, loop ast.Stmt) {
	if len(e.Frames()) == 0 {
		c.back[loop]++
	}
}

func ruleC07Repeats(p *Program, r *Run) {
	pkg := p.Parser
	n := 0
	primary := p.MustFunc(pkg, "parser.primaryExpr")
	for _, fd := range AllFuncs(pkg) {
		f := FuncObj(pkg, fd)
		if f == nil || fd.Body == nil || cursorOf(f) != "parser" {
			continue
		}
		var loops []ast.Stmt
		ast.Inspect(fd.Body, func(nd ast.Node) bool {
			switch nd.(type) {
			case *ast.FuncLit:
				return false
			case *ast.ForStmt, *ast.RangeStmt:
				loops = append(loops, nd.(ast.Stmt))
			}
			return true
		})
		if len(loops) == 0 {
			continue
		}
		fn := FuncName(pkg, fd)
		r.Saw(fn)
		c := &repeatsClient{back: map[ast.Stmt]int{}}
		e := NewEngine(p, pkg, fd, c)
		e.Run(nil)
		for _, m := range e.Errs {
			r.Fail("C07/repeats", fn+" engine", "-", m)
		}
		for i, l := range loops {
			n++
			if fd == primary && c.back[l] == 0 {
				// reviewed: the postfix loop of the operand production returns after one `[index]` - the accepted
				// language has one index per operand (`a[1][2]` is rejected today); the loop is a loop in name only
				r.PassNT("C07/repeats", fmt.Sprintf("%s loop #%d goes round", fn, i+1), p.Pos(l.Pos()), "reviewed: one `[index]` per operand is the accepted language; this loop never went round")
				continue
			}
			r.Check(c.back[l] > 0, "C07/repeats", fmt.Sprintf("%s loop #%d goes round", fn, i+1), p.Pos(l.Pos()),
				fmt.Sprintf("%d abstract path(s) of the body lead back to the loop head", c.back[l]),
				"no path through the body of this loop leads back to its head (every path returns or breaks): the production takes one repetition and stops, so a longer input of the same shape - a name with more parts, a list with more items, one more operator - is cut short or rejected")
		}
	}
	r.Floor("C07/repeats", 10)
}

// ---- C05/separators: a list separator is followed by an item.
//
// The SQL writers put `, ` between the items of a list (columns, sort terms, arguments, render properties). On the
// derived output grammar: on every path, the event after a text that ends in a comma starts an item - a quoted
// name or string, an expression hole, a table dispatch, a raw value, or a text that does not itself begin with a
// comma, a closing parenthesis or a clause keyword - and is never the end of the output. A `continue` or an early
// exit between the separator and the item leaves `, ,` or `, FROM` behind, which no SQL parser accepts.
func ruleC05Separators(p *Program, r *Run) {
	g := p.Grammar()
	byID := map[int]*emitEvent{}
	for _, ev := range g.events {
		byID[ev.ID] = ev
	}
	endsInComma := func(ev *emitEvent) bool {
		return ev != nil && ev.Kind == "T" && strings.HasSuffix(strings.TrimRight(ev.Text, " \t\n"), ",")
	}
	type verdict struct {
		ev  *emitEvent
		bad string
	}
	seen := map[int]*verdict{}
	var order []int
	note := func(sep *emitEvent, bad string) {
		v := seen[sep.ID]
		if v == nil {
			v = &verdict{ev: sep}
			seen[sep.ID] = v
			order = append(order, sep.ID)
		}
		if bad != "" && v.bad == "" {
			v.bad = bad
		}
	}
	// a separator written after the item, under `if i < len(list)-1` (or the like) inside the loop over the list:
	// another turn of the loop follows, so what comes after the loop is not a successor of the separator
	trailing := map[int]ast.Node{}
	for _, ev := range g.events {
		if !endsInComma(ev) || ev.Call == nil {
			continue
		}
		guarded := false
		p.ancestors(ev.Call, ev.Func, func(anc, _ ast.Node) bool {
			switch v := anc.(type) {
			case *ast.IfStmt:
				ast.Inspect(p.ResolveDeep(v.Cond), func(n ast.Node) bool {
					if call, ok := n.(*ast.CallExpr); ok && IsBuiltinCall(p.Info, call, "len") {
						guarded = true
					}
					return true
				})
			case *ast.ForStmt, *ast.RangeStmt:
				if guarded {
					trailing[ev.ID] = anc
				}
				return false
			}
			return true
		})
	}
	outside := func(sep *emitEvent, n ast.Node) bool {
		l := trailing[sep.ID]
		return l != nil && (n == nil || n.Pos() < l.Pos() || n.End() > l.End())
	}
	for _, o := range g.occs {
		prev := byID[o.Prev]
		if !endsInComma(prev) {
			continue
		}
		if o.Ev.Call != nil && outside(prev, o.Ev.Call) {
			continue
		}
		bad := ""
		if o.Ev.Kind == "T" {
			t := strings.ToUpper(strings.TrimLeft(o.Ev.Text, " \t\n"))
			switch {
			case t == "":
			case t[0] == ',' || t[0] == ')' || t[0] == ';':
				bad = fmt.Sprintf("the text %q", o.Ev.Text)
			default:
				for _, kw := range []string{"FROM", "WHERE", "GROUP BY", "ORDER BY", "LIMIT", "ON ", "AS "} {
					if strings.HasPrefix(t, kw) {
						bad = fmt.Sprintf("the text %q", o.Ev.Text)
					}
				}
			}
		}
		note(prev, bad)
	}
	for _, x := range g.exits {
		if prev := byID[x.Prev]; endsInComma(prev) && trailing[prev.ID] == nil {
			note(prev, "the end of the output")
		}
	}
	sort.Ints(order)
	for _, id := range order {
		v := seen[id]
		key := fmt.Sprintf("%s separator %q is followed by an item", v.ev.FnName, v.ev.Text)
		if v.ev.Frame != "" {
			key += " (" + v.ev.Frame + ")"
		}
		r.Check(v.bad == "", "C05/separators", key, p.Pos(v.ev.Call.Pos()), "on every path the next thing written after the separator starts a list item",
			fmt.Sprintf("on some path the separator is followed by %s: an item is skipped (or the list ends) after its separator was written, and the statement has a comma with nothing behind it", v.bad))
	}
	r.Floor("C05/separators", 5)
}
