package pc

import (
	"fmt"
	"go/ast"
	"go/token"
	"go/types"
	"strings"
)

// ---- C13/limits: the parser does not reject input for its size.
//
// C07 and C13 quantify over every program of the grammar, "at whatever depth": a construct that parses when it
// occurs once parses when it occurs a thousand times, side by side or nested. A counter kept on the parser or the
// scanner (or in a package-level variable) that is compared with a constant in a condition under which an error is
// returned makes the outcome depend on how much input came before. (The cursor and its saved copy are positions,
// not counters.)
func ruleC13Limits(p *Program, r *Run) {
	pkg := p.Parser
	info := pkg.TypesInfo
	isCounter := func(x ast.Expr) (string, bool) {
		x = ast.Unparen(x)
		switch v := x.(type) {
		case *ast.SelectorExpr:
			f := selField(info, v)
			if f == nil {
				return "", false
			}
			b, ok := f.Type().Underlying().(*types.Basic)
			if !ok || b.Info()&types.IsInteger == 0 {
				return "", false
			}
			t := info.TypeOf(v.X)
			if pt, isP := t.(*types.Pointer); isP {
				t = pt.Elem()
			}
			n, isN := t.(*types.Named)
			if !isN || n.Obj().Pkg() == nil || n.Obj().Pkg().Path() != PathParser {
				return "", false
			}
			switch objName(n.Obj()) {
			case "parser", "scanner":
			default:
				return "", false
			}
			switch fldName(f) {
			case "pos", "last":
				return "", false
			}
			return n.Obj().Name() + "." + f.Name(), true
		case *ast.Ident:
			if g, ok := objOf(info, v).(*types.Var); ok && g.Pkg() != nil && g.Parent() == g.Pkg().Scope() {
				if b, isB := g.Type().Underlying().(*types.Basic); isB && b.Info()&types.IsInteger != 0 {
					return g.Name(), true
				}
			}
		}
		return "", false
	}
	isConst := func(x ast.Expr) bool {
		tv, ok := info.Types[ast.Unparen(x)]
		return ok && tv.Value != nil
	}
	errIface := errorIface()
	makesError := func(body *ast.BlockStmt) bool {
		found := false
		ast.Inspect(body, func(n ast.Node) bool {
			ret, ok := n.(*ast.ReturnStmt)
			if !ok {
				return !found
			}
			for _, res := range ret.Results {
				ast.Inspect(res, func(m ast.Node) bool {
					switch v := m.(type) {
					case *ast.CompositeLit:
						if t := info.TypeOf(v); t != nil && (types.Implements(t, errIface) || types.Implements(types.NewPointer(t), errIface)) {
							found = true
						}
					case *ast.CallExpr:
						if f := Callee(info, v); f != nil {
							switch f.FullName() {
							case "fmt.Errorf", "errors.New":
								found = true
							}
							if fnName(f) == "errorToken" {
								found = true
							}
						}
					}
					return !found
				})
			}
			return !found
		})
		return found
	}
	n := 0
	for _, fd := range AllFuncs(pkg) {
		fn := FuncName(pkg, fd)
		ast.Inspect(fd.Body, func(x ast.Node) bool {
			is, ok := x.(*ast.IfStmt)
			if !ok {
				return true
			}
			ast.Inspect(is.Cond, func(m ast.Node) bool {
				b, isB := m.(*ast.BinaryExpr)
				if !isB {
					return true
				}
				switch b.Op {
				case token.LSS, token.LEQ, token.GTR, token.GEQ:
				default:
					return true
				}
				name, isC := isCounter(b.X)
				other := b.Y
				if !isC {
					name, isC = isCounter(b.Y)
					other = b.X
				}
				if !isC || !isConst(other) || !makesError(is.Body) {
					return true
				}
				n++
				r.Saw(fn)
				r.Fail("C13/limits", fmt.Sprintf("%s rejects on %s", fn, exprStr(b)), p.Pos(b.Pos()), fmt.Sprintf("an error is returned because the counter %s has passed a constant: whether a program is accepted would depend on how much of it there is (statements, operators, groups), not on what it says", name))
				return true
			})
			return true
		})
	}
	if n == 0 {
		r.PassNT("C13/limits", "parser: no size limits", p.Pos(p.MustFunc(pkg, "Parse").Pos()), "no error is returned under a comparison of a counter of the parser or scanner with a constant")
	}
}

// ---- C11/unshared (fresh per iteration): a node made before a loop is not handed on inside it.
//
// A node (or a struct that becomes one) that is allocated once before a loop and then filled in and stored, copied
// or passed on in every iteration is one object doing the work of many: fields that an iteration does not set keep
// what the previous one left (a stale span or name), and where the pointer itself is stored the tree holds the same
// node several times - a cycle, if it is stored into itself. Inside a loop such a variable may only be the base of
// a field selection (the parent that collects the children) or be returned.
func ruleC11FreshPerIteration(p *Program, r *Run) {
	nodeIface := p.Iface(p.Parser, "Node")
	isNodeT := func(t types.Type) bool {
		if t == nil {
			return false
		}
		if pt, ok := t.(*types.Pointer); ok {
			t = pt.Elem()
		}
		n, ok := t.(*types.Named)
		if !ok {
			return false
		}
		if _, isStruct := n.Underlying().(*types.Struct); !isStruct {
			return false
		}
		return types.Implements(types.NewPointer(n), nodeIface) || types.Implements(n, nodeIface)
	}
	total := 0
	for _, pkg := range p.Lib() {
		info := pkg.TypesInfo
		for _, fd := range AllFuncs(pkg) {
			fn := FuncName(pkg, fd)
			var loops []ast.Node
			ast.Inspect(fd.Body, func(n ast.Node) bool {
				switch n.(type) {
				case *ast.ForStmt, *ast.RangeStmt:
					loops = append(loops, n)
				}
				return true
			})
			if len(loops) == 0 {
				continue
			}
			// candidates: locals with a single definition from an allocation of a node struct
			cands := map[types.Object]ast.Node{}
			ast.Inspect(fd.Body, func(n ast.Node) bool {
				as, ok := n.(*ast.AssignStmt)
				if !ok || as.Tok != token.DEFINE || len(as.Lhs) != len(as.Rhs) {
					return true
				}
				for i, l := range as.Lhs {
					id, isID := l.(*ast.Ident)
					if !isID {
						continue
					}
					o := info.Defs[id]
					if o == nil || !isNodeT(o.Type()) {
						continue
					}
					x := ast.Unparen(as.Rhs[i])
					if u, isU := x.(*ast.UnaryExpr); isU && u.Op == token.AND {
						x = ast.Unparen(u.X)
					}
					alloc := false
					if _, isLit := x.(*ast.CompositeLit); isLit {
						alloc = true
					}
					if call, isCall := x.(*ast.CallExpr); isCall && IsBuiltinCall(info, call, "new") {
						alloc = true
					}
					if alloc {
						cands[o] = as
					}
				}
				return true
			})
			for o, def := range cands {
				for _, loop := range loops {
					if def.Pos() >= loop.Pos() && def.End() <= loop.End() {
						continue // made inside the loop: a new one every time round
					}
					// assigned as a whole inside the loop: made anew there
					renewed := false
					ast.Inspect(loop, func(n ast.Node) bool {
						if as, isAs := n.(*ast.AssignStmt); isAs {
							for _, l := range as.Lhs {
								if id, isID := ast.Unparen(l).(*ast.Ident); isID && objOf(info, id) == o {
									renewed = true
								}
							}
						}
						return !renewed
					})
					if renewed {
						continue
					}
					var bad ast.Node
					ast.Inspect(loop, func(n ast.Node) bool {
						if bad != nil {
							return false
						}
						if _, isRet := n.(*ast.ReturnStmt); isRet {
							return false // leaving the loop with it
						}
						if sel, isSel := n.(*ast.SelectorExpr); isSel {
							if id, isID := ast.Unparen(sel.X).(*ast.Ident); isID && objOf(info, id) == o {
								if s, has := info.Selections[sel]; has && s.Kind() == types.FieldVal {
									return false // a field of it: the parent that collects
								}
							}
						}
						if id, isID := n.(*ast.Ident); isID && objOf(info, id) == o {
							bad = id
						}
						return true
					})
					total++
					key := fmt.Sprintf("%s node %s made before the loop at %s", fn, o.Name(), p.Pos(loop.Pos()))
					if bad == nil {
						r.Pass("C11/unshared", key, p.Pos(def.Pos()), "inside the loop only its fields are selected (or it is returned)")
					} else {
						r.Fail("C11/unshared", key, p.Pos(bad.Pos()), fmt.Sprintf("the node %s is allocated once before the loop and is stored, copied, passed on or called inside it (%s): every iteration works on the same object, so fields an iteration does not set keep the previous iteration's values and a stored pointer puts the same node into the tree several times", o.Name(), p.Pos(bad.Pos())))
					}
				}
			}
		}
	}
	if total == 0 {
		r.PassNT("C11/unshared", "library: nodes made before loops", "-", "no loop uses a node that was allocated before it")
	}
}

// ---- C04/stale (buffers): text is taken from a buffer that holds nothing but it.
//
// A strings.Builder that is made before a loop, written in every iteration and read (String()) in every iteration
// without being reset in between hands each iteration the text of all the earlier ones as well: the value stored
// for one let statement would be the concatenation of all lets so far.
func ruleC04StaleBuffers(p *Program, r *Run) {
	pkg := p.PQL
	info := pkg.TypesInfo
	isBuilderT := func(t types.Type) bool {
		return t != nil && strings.TrimPrefix(TypeStr(t), "*") == "strings.Builder"
	}
	total := 0
	for _, fd := range AllFuncs(pkg) {
		fn := FuncName(pkg, fd)
		var loops []ast.Node
		ast.Inspect(fd.Body, func(n ast.Node) bool {
			switch n.(type) {
			case *ast.ForStmt, *ast.RangeStmt:
				loops = append(loops, n)
			}
			return true
		})
		for _, loop := range loops {
			// builders read inside the loop
			read := map[types.Object]ast.Node{}
			reset := map[types.Object]bool{}
			written := map[types.Object]bool{}
			ast.Inspect(loop, func(n ast.Node) bool {
				call, ok := n.(*ast.CallExpr)
				if !ok {
					return true
				}
				if sel, isSel := ast.Unparen(call.Fun).(*ast.SelectorExpr); isSel && isBuilderT(info.TypeOf(sel.X)) {
					if o := objOf(info, sel.X); o != nil {
						switch {
						case sel.Sel.Name == "String":
							read[o] = call
						case sel.Sel.Name == "Reset":
							reset[o] = true
						case strings.HasPrefix(sel.Sel.Name, "Write"):
							written[o] = true
						}
					}
				}
				for _, a := range call.Args {
					if o := objOf(info, a); o != nil && isBuilderT(o.Type()) {
						written[o] = true // handed to a writer
					}
				}
				return true
			})
			for o, at := range read {
				if o.Pos() >= loop.Pos() && o.Pos() < loop.End() {
					continue // made inside the loop
				}
				isParam := false
				for _, f := range fd.Type.Params.List {
					for _, nm := range f.Names {
						if info.Defs[nm] == o {
							isParam = true
						}
					}
				}
				if isParam {
					continue // the caller's buffer, whose contents are the caller's business
				}
				if !written[o] {
					continue
				}
				total++
				key := fmt.Sprintf("%s buffer %s read inside the loop at %s", fn, o.Name(), p.Pos(loop.Pos()))
				r.Check(reset[o], "C04/stale", key, p.Pos(at.Pos()), "the buffer is reset inside the loop", fmt.Sprintf("the buffer %s is made before the loop, written and read in every iteration and never reset: what is read in one iteration includes the text of all earlier ones", o.Name()))
			}
		}
	}
	if total == 0 {
		r.PassNT("C04/stale", "pql: buffers read inside loops", "-", "no buffer made before a loop is both written and read inside it")
	}
}
