package pc

import (
	"fmt"
	"go/ast"
	"go/token"
	"go/types"
	"os"
	"sort"
	"strings"
)

// exprClass: how an emitted SQL fragment behaves as an operand.
type exprClass int

const (
	clClosed exprClass = iota // no operator at nesting depth 0: identifier, literal, f(...), (...), CASE..END
	clSigned                  // a leading + or - and nothing else at depth 0
	clOpen                    // some other operator or keyword operator at depth 0
)

func (c exprClass) String() string { return [...]string{"Closed", "Signed", "Open"}[c] }

func maxClass(a, b exprClass) exprClass {
	if a > b {
		return a
	}
	return b
}

type classTable struct {
	g          *grammar
	cls        map[string]exprClass // "<func full name>|<kind>"
	sbKey      map[*ast.FuncDecl]string
	writer     map[string]*types.Func // known function name -> writer
	succs      map[int][]*eventOcc    // event id -> occurrences that follow it
	exitsAfter map[int]bool
	occsOf     map[int][]*eventOcc
}

func (g *grammar) fnKey(fd *ast.FuncDecl) string { return FuncObj(g.p.PQL, fd).FullName() }

func (g *grammar) classTable() *classTable {
	ct := &classTable{g: g, cls: map[string]exprClass{}, sbKey: map[*ast.FuncDecl]string{}, writer: map[string]*types.Func{},
		succs: map[int][]*eventOcc{}, exitsAfter: map[int]bool{}, occsOf: map[int][]*eventOcc{}}
	info := g.p.PQL.TypesInfo
	for _, fd := range g.fnDecl {
		if sb := builderParam(info, fd); sb != nil {
			ct.sbKey[fd] = g.p.ObjKey(sb)
		}
	}
	for _, row := range g.kf {
		ct.writer[row.Name] = row.Write
	}
	for _, o := range g.occs {
		ct.succs[o.Prev] = append(ct.succs[o.Prev], o)
		ct.occsOf[o.Ev.ID] = append(ct.occsOf[o.Ev.ID], o)
	}
	for _, x := range g.exits {
		ct.exitsAfter[x.Prev] = true
	}
	// fixpoint
	for iter := 0; iter < 20; iter++ {
		changed := false
		for _, o := range g.occs {
			sb, ok := ct.sbKey[o.Ev.Func]
			if !ok || o.Ev.Builder != sb || o.Depth != [3]int{} {
				continue
			}
			kinds := o.Kinds
			if kinds == nil {
				kinds = []string{"*"}
			}
			for _, k := range kinds {
				c := ct.contribution(o, k)
				key := g.fnKey(o.Ev.Func) + "|" + k
				if c > ct.cls[key] {
					if os.Getenv("PQLCHECK_DEBUG_CLASS") != "" {
						fmt.Fprintf(os.Stderr, "class %s -> %s because of event #%d %s %q\n", key, c, o.Ev.ID, o.Ev.Kind, o.Ev.Text)
					}
					ct.cls[key] = c
					changed = true
				}
			}
		}
		if !changed {
			break
		}
	}
	return ct
}

// classOf: class of what callee writes for a node of kind k.
func (ct *classTable) classOf(callee *types.Func, k string) exprClass {
	fd := ct.g.fnDecl[callee]
	if fd == nil {
		return clOpen
	}
	if ct.g.xParamOf(fd) == nil {
		k = "*"
	}
	return ct.cls[callee.FullName()+"|"+k]
}

// provided: the class of what a hole/dispatch occurrence writes (join over the kinds its argument can have).
func (ct *classTable) provided(o *eventOcc, restrict string) exprClass {
	switch o.Ev.Kind {
	case "HOLE":
		if o.ArgKinds == nil {
			return ct.classOf(o.Ev.Callee, "*")
		}
		c := clClosed
		for _, k := range o.ArgKinds {
			if restrict != "" && restrict != "*" && o.Kinds != nil && sameSlice(o.ArgKinds, o.Kinds) && k != restrict {
				continue // pass-through hole: for kind k only k flows
			}
			c = maxClass(c, ct.classOf(o.Ev.Callee, k))
		}
		return c
	case "DISPATCH":
		c := clClosed
		for _, k := range o.Kinds {
			if restrict != "" && restrict != "*" && k != restrict {
				continue
			}
			name := strings.TrimPrefix(k, "*parser.CallExpr:")
			if w := ct.writer[name]; w != nil {
				c = maxClass(c, ct.classOf(w, "*"))
			}
		}
		return c
	}
	return clClosed
}

func sameSlice(a, b []string) bool {
	if len(a) != len(b) {
		return false
	}
	for i := range a {
		if a[i] != b[i] {
			return false
		}
	}
	return true
}

// contribution of one depth-0 occurrence to the class of its function for kind k.
func (ct *classTable) contribution(o *eventOcc, k string) exprClass {
	switch o.Ev.Kind {
	case "T":
		if isPlaceholderText(o.Ev.Text) {
			return clClosed // internal placeholder branch; C05/dead shows it is unreachable
		}
		c := clClosed
		d := o.Depth
		for i, t := range sqlTokenize(o.Ev.Text) {
			if d == [3]int{} && (t.Kind == "op" || t.Kind == "kwop") {
				if (t.Text == "+" || t.Text == "-") && o.Prev == -1 && i == 0 {
					c = maxClass(c, clSigned)
				} else {
					c = maxClass(c, clOpen)
				}
			}
			d, _ = applyDepth(d, []sqlTok{t})
		}
		return c
	case "RAW":
		if o.Origin == "constmap:binaryOps" {
			return clOpen
		}
		return clClosed
	case "HOLE", "DISPATCH":
		return ct.provided(o, k)
	}
	return clClosed
}

// neighbour kinds
const (
	nbEdge      = "edge"
	nbDelim     = "delimiter"
	nbOperand   = "operand"
	nbOp        = "operator"
	nbSignTight = "unspaced sign"
	nbIndex     = "index bracket"
)

func wsOnly(s string) bool { return strings.TrimSpace(s) == "" }

// isPlaceholderText: constant pieces of the `NULL /* unhandled ... */` fallbacks.
func isPlaceholderText(s string) bool { return strings.Contains(s, "/*") || strings.Contains(s, "*/") }

func (ct *classTable) leftNeighbours(o *eventOcc, seen map[int]bool, spaced bool, out map[string]bool) {
	if o.Prev < 0 {
		out[nbEdge] = true
		return
	}
	ev := ct.g.events[o.Prev]
	switch ev.Kind {
	case "T":
		if wsOnly(ev.Text) {
			if seen[ev.ID] {
				return
			}
			seen[ev.ID] = true
			for _, po := range ct.occsOf[ev.ID] {
				ct.leftNeighbours(po, seen, true, out)
			}
			return
		}
		toks := sqlTokenize(ev.Text)
		if len(toks) == 0 {
			out[nbDelim] = true
			return
		}
		t := toks[len(toks)-1]
		switch {
		case (t.Kind == "op") && (t.Text == "+" || t.Text == "-") && !t.Trail && !spaced:
			out[nbSignTight] = true
		case t.Kind == "op" || t.Kind == "kwop":
			out[nbOp] = true
		case t.Kind == "BAD":
			out[nbDelim] = true
		default:
			out[nbDelim] = true
		}
	case "RAW":
		pos := ct.occsOf[ev.ID]
		isOp := false
		for _, po := range pos {
			if po.Origin == "constmap:binaryOps" {
				isOp = true
			}
		}
		if isOp {
			out[nbOp] = true
		} else {
			out[nbOperand] = true
		}
	default:
		out[nbOperand] = true
	}
}

func (ct *classTable) rightNeighbours(evID int, seen map[int]bool, out map[string]bool) {
	if ct.exitsAfter[evID] {
		out[nbEdge] = true
	}
	for _, so := range ct.succs[evID] {
		ev := so.Ev
		switch ev.Kind {
		case "T":
			if wsOnly(ev.Text) {
				if !seen[ev.ID] {
					seen[ev.ID] = true
					ct.rightNeighbours(ev.ID, seen, out)
				}
				continue
			}
			toks := sqlTokenize(ev.Text)
			if len(toks) == 0 {
				out[nbDelim] = true
				continue
			}
			t := toks[0]
			switch {
			case t.Kind == "open" && t.Text == "[":
				out[nbIndex] = true
			case t.Kind == "op" || t.Kind == "kwop":
				out[nbOp] = true
			default:
				out[nbDelim] = true
			}
		case "RAW":
			if so.Origin == "constmap:binaryOps" {
				out[nbOp] = true
			} else {
				out[nbOperand] = true
			}
		default:
			out[nbOperand] = true
		}
	}
}

func requiredClass(left, right map[string]bool) (exprClass, string) {
	if left[nbSignTight] {
		return clClosed, "directly after an unspaced sign (a Signed operand would spell `--`/`+-`, an Open one would be regrouped)"
	}
	if right[nbIndex] {
		return clClosed, "directly before `[` (SQL subscripts bind tighter than a sign or any operator)"
	}
	if left[nbOp] || right[nbOp] {
		return clSigned, "next to an infix/keyword operator (an Open operand would be regrouped by SQL precedence)"
	}
	return clOpen, "between delimiters"
}

func keysSorted(m map[string]bool) string {
	var ks []string
	for k := range m {
		ks = append(ks, k)
	}
	sort.Strings(ks)
	return strings.Join(ks, "/")
}

// isExprWriter: callee writes an expression (has an Expr or *CallExpr parameter).
func (g *grammar) isExprWriter(callee *types.Func) bool {
	fd := g.fnDecl[callee]
	if fd == nil {
		return false
	}
	info := g.p.PQL.TypesInfo
	for _, f := range fd.Type.Params.List {
		switch TypeStr(info.TypeOf(f.Type)) {
		case "parser.Expr", "*parser.CallExpr":
			return true
		}
	}
	return false
}

// ruleC01Closed: operand closedness at every hole, and needsParens flags.
func ruleC01Closed(p *Program, r *Run) {
	g := p.Grammar()
	for _, m := range g.engErrs {
		r.Fail("C01/closed", "grammar extraction", "-", m)
	}
	ct := g.classTable()
	for _, fd := range g.fnDecl {
		if builderParam(p.PQL.TypesInfo, fd) != nil {
			r.Saw(FuncName(p.PQL, fd))
		}
	}
	// holes
	type agg struct {
		ev       *emitEvent
		provided exprClass
		required exprClass
		why      string
		left     map[string]bool
		right    map[string]bool
	}
	byEv := map[int]*agg{}
	var order []int
	for _, o := range g.occs {
		if o.Ev.Kind != "HOLE" && o.Ev.Kind != "DISPATCH" {
			continue
		}
		if o.Ev.Kind == "HOLE" && !g.isExprWriter(o.Ev.Callee) {
			continue
		}
		a := byEv[o.Ev.ID]
		if a == nil {
			a = &agg{ev: o.Ev, required: clOpen, left: map[string]bool{}, right: map[string]bool{}}
			byEv[o.Ev.ID] = a
			order = append(order, o.Ev.ID)
		}
		a.provided = maxClass(a.provided, ct.provided(o, ""))
		ct.leftNeighbours(o, map[int]bool{}, false, a.left)
	}
	sort.Ints(order)
	n := map[string]int{}
	for _, id := range order {
		a := byEv[id]
		ct.rightNeighbours(id, map[int]bool{}, a.right)
		a.required, a.why = requiredClass(a.left, a.right)
		n[a.ev.FnName]++
		arg := "node"
		if a.ev.Arg != nil {
			arg = exprStr(a.ev.Arg)
		}
		callee := "table dispatch"
		if a.ev.Callee != nil {
			callee = a.ev.Callee.Name()
		}
		key := fmt.Sprintf("%s hole #%d %s via %s", a.ev.FnName, n[a.ev.FnName], arg, callee)
		how := fmt.Sprintf("writes a %s fragment %s [left: %s, right: %s]", a.provided, a.why, keysSorted(a.left), keysSorted(a.right))
		if a.provided <= a.required {
			r.PassNT("C01/closed", key, p.Pos(a.ev.Call.Pos()), how)
		} else {
			r.Fail("C01/closed", key, p.Pos(a.ev.Call.Pos()), fmt.Sprintf("operand can be written as a %s fragment but sits %s; required: at most %s [left: %s, right: %s]", a.provided, a.why, a.required, keysSorted(a.left), keysSorted(a.right)))
		}
	}
	r.Floor("C01/closed", 40)

	// needsParens flags of the built-in table
	for _, row := range g.kf {
		c := ct.classOf(row.Write, "*")
		key := fmt.Sprintf("pql.knownFunctions[%q].needsParens", row.Name)
		ok := c == clClosed || row.NeedsParens
		r.Check(ok, "C01/needsparens", key, p.Pos(row.Pos), fmt.Sprintf("rewrite is %s, needsParens=%v", c, row.NeedsParens), fmt.Sprintf("the rewrite of %s(...) is a %s SQL fragment (it has an operator at nesting depth 0) but needsParens is false: used as an operand it is written bare and regrouped by SQL precedence (e.g. `%s(a) in (...)`)", row.Name, c, row.Name))
	}
	// every lookup into the built-in table asks with the same key: the site that decides about parentheses and the
	// site that writes the rewrite must agree on which functions are built-ins
	{
		info := p.Info
		kfInit := FuncObj(p.PQL, p.MustFunc(p.PQL, "initKnownFunctions"))
		isTable := func(x ast.Expr) bool {
			x = ast.Unparen(p.DefExpr(x))
			if call, ok := x.(*ast.CallExpr); ok {
				return Callee(info, call) == kfInit
			}
			if o := objOf(info, x); o != nil {
				return objName(o) == "knownFunctions"
			}
			return false
		}
		keys := map[string][]string{}
		var first ast.Node
		for _, fd := range AllFuncs(p.PQL) {
			ast.Inspect(fd.Body, func(n ast.Node) bool {
				ix, ok := n.(*ast.IndexExpr)
				if !ok || !isTable(ix.X) {
					return true
				}
				if as, isAs := p.Parent(ix).(*ast.AssignStmt); isAs {
					for _, l := range as.Lhs {
						if l == ast.Expr(ix) {
							return true // the table being filled
						}
					}
				}
				if first == nil {
					first = ix
				}
				k := p.normExpr(p.ResolveDeep(ix.Index))
				keys[k] = append(keys[k], p.Pos(ix.Pos()))
				return true
			})
		}
		var ks []string
		for k := range keys {
			ks = append(ks, fmt.Sprintf("%s at %s", k, strings.Join(keys[k], ", ")))
		}
		sort.Strings(ks)
		if first != nil {
			r.Check(len(keys) == 1, "C01/needsparens", "pql lookups into the built-in table use one key", p.Pos(first.Pos()), "every lookup asks with "+strings.Join(ks, "; "), "the built-in table is consulted with different keys ("+strings.Join(ks, "; ")+"): a call can be written by a built-in's rewrite while the site that decides about parentheses does not see the built-in (or the other way round)")
		}
	}
	r.Floor("C01/needsparens", 11)

	// report the derived classes as a note
	var ks []string
	for k, c := range ct.cls {
		if c != clClosed {
			ks = append(ks, strings.TrimPrefix(k, PathPQL+".")+"="+c.String())
		}
	}
	sort.Strings(ks)
	r.Note("non-Closed productions derived from the code: %s", strings.Join(ks, ", "))
}

// ---- C05/balance, C05/semicolon, C04/handquote on the derived grammar.

func ruleC05Balance(p *Program, r *Run) {
	g := p.Grammar()
	for _, m := range g.engErrs {
		r.Fail("C05/balance", "grammar extraction", "-", m)
	}
	semis := 0
	for _, ev := range g.events {
		if ev.Kind != "T" || strings.HasPrefix(ev.FnName, "pql.quote") {
			continue // the sanitizers write the inside of one quoted token (C04/escape)
		}
		r.Saw(ev.FnName)
		toks := sqlTokenize(ev.Text)
		key := fmt.Sprintf("%s constant %q", ev.FnName, ev.Text)
		bad := ""
		for _, t := range toks {
			if t.Kind == "BAD" {
				bad = t.Text
			}
			if t.Kind == "semi" {
				semis++
				r.Check((ev.FnName == "pql.(*CompileOptions).Compile" || p.tailOfCompile(ev.Func)) && ev.Text == ";", "C05/semicolon", fmt.Sprintf("%s writes %q", ev.FnName, ev.Text), p.Pos(ev.Call.Pos()), "the statement terminator, written once by Compile", "a statement separator is written outside the single terminating write of Compile")
			}
		}
		if strings.Contains(ev.Text, "/*") {
			continue // placeholder branches: C05/dead shows they are unreachable
		}
		if bad != "" && (strings.Contains(bad, "quoted")) {
			continue // hand-made quotes are C04/handquote's business
		}
		// depth never negative on any occurrence
		neg := false
		for _, o := range g.occs {
			if o.Ev == ev {
				if _, min := applyDepth(o.Depth, toks); min < 0 {
					neg = true
				}
			}
		}
		switch {
		case bad != "":
			r.Fail("C05/balance", key, p.Pos(ev.Call.Pos()), "constant SQL text does not lex cleanly: "+bad)
		case neg:
			r.Fail("C05/balance", key, p.Pos(ev.Call.Pos()), "a closing bracket is written where no bracket is open on some path")
		default:
			r.Pass("C05/balance", key, p.Pos(ev.Call.Pos()), "lexes cleanly; bracket depth stays >= 0 on every path")
		}
	}
	r.Check(semis == 1, "C05/semicolon", "exactly one statement terminator in the whole output grammar", "-", "one", fmt.Sprintf("%d constant texts contain ';'", semis))
	// exits: depth zero
	type ex struct {
		fn, what string
		bad      map[string]bool
		pos      string
		n        int
	}
	exits := map[string]*ex{}
	var order []string
	for _, x := range g.exits {
		id := x.Ev.FnName + " " + x.Ev.Text + " of builder " + strings.Split(x.Ev.Builder, "#")[0]
		if x.Ev.Call != nil {
			id = fmt.Sprintf("%s %s.String() [%s]", x.Ev.FnName, strings.Split(x.Ev.Builder, "#")[0], p.Pos(x.Ev.Call.Pos()))
		}
		e := exits[id]
		if e == nil {
			e = &ex{fn: x.Ev.FnName, what: id, bad: map[string]bool{}}
			exits[id] = e
			order = append(order, id)
			if x.Ev.Call != nil {
				e.pos = p.Pos(x.Ev.Call.Pos())
			} else {
				e.pos = p.Pos(x.Ev.Func.Pos())
			}
		}
		e.n++
		if x.Depth != [3]int{} {
			e.bad[fmtDepth(x.Depth)] = true
		}
	}
	for _, id := range order {
		e := exits[id]
		key := strings.Split(id, " [")[0]
		r.Check(len(e.bad) == 0, "C05/balance", key+": brackets closed", e.pos, fmt.Sprintf("(), [], CASE/END depth is 0 on all %d abstract paths reaching this exit", e.n), fmt.Sprintf("text is handed on with unbalanced brackets on some path (open (,[,CASE counts: %s)", keysSorted(e.bad)))
	}
	r.Floor("C05/balance", 100)
	r.Floor("C05/semicolon", 2)
}

// ---- C04/taint, C04/handquote, C04/escape.

func ruleC04(p *Program, r *Run) {
	g := p.Grammar()
	for _, m := range g.engErrs {
		r.Fail("C04/taint", "grammar extraction", "-", m)
	}
	// taint: every RAW event
	type agg struct {
		ev      *emitEvent
		origins map[string]bool
	}
	byEv := map[int]*agg{}
	var order []int
	for _, o := range g.occs {
		if o.Ev.Kind != "RAW" {
			continue
		}
		a := byEv[o.Ev.ID]
		if a == nil {
			a = &agg{ev: o.Ev, origins: map[string]bool{}}
			byEv[o.Ev.ID] = a
			order = append(order, o.Ev.ID)
		}
		a.origins[o.Origin] = true
	}
	sort.Ints(order)
	cnt := map[string]int{}
	for _, id := range order {
		a := byEv[id]
		r.Saw(a.ev.FnName)
		cnt[a.ev.FnName]++
		what := "?"
		if a.ev.Arg != nil {
			what = exprStr(a.ev.Arg)
		}
		key := fmt.Sprintf("%s raw write #%d of %s", a.ev.FnName, cnt[a.ev.FnName], what)
		var bad []string
		for o := range a.origins {
			if strings.HasPrefix(o, "tainted") {
				bad = append(bad, o)
			}
		}
		sort.Strings(bad)
		if len(bad) == 0 {
			r.PassNT("C04/taint", key, p.Pos(a.ev.Call.Pos()), "origin: "+keysSorted(a.origins))
		} else {
			r.Fail("C04/taint", key, p.Pos(a.ev.Call.Pos()), "text taken from the PQL source is written into the SQL without passing quoteIdentifier/quoteSQLString ("+strings.Join(bad, "; ")+"): its characters can close the quote, open a comment or start a new clause")
		}
	}
	r.Floor("C04/taint", 12)

	// the sanitized writes (for the evidence) and what they quote
	nq := 0
	for _, ev := range g.events {
		if ev.Kind == "Q" || ev.Kind == "S" {
			nq++
			r.Pass("C04/taint", fmt.Sprintf("%s sanitized write #%d of %s", ev.FnName, nq, exprStr(ev.Arg)), p.Pos(ev.Call.Pos()), "passes "+ev.Callee.Name())
		}
	}

	// hand-made quotes
	for _, ev := range g.events {
		if ev.Kind != "T" || strings.HasPrefix(ev.FnName, "pql.quote") {
			continue
		}
		bad := ""
		for _, t := range sqlTokenize(ev.Text) {
			if t.Kind == "BAD" && strings.Contains(t.Text, "quoted") {
				bad = t.Text
			}
		}
		key := fmt.Sprintf("%s constant %q", ev.FnName, ev.Text)
		if bad != "" {
			r.Fail("C04/handquote", key, p.Pos(ev.Call.Pos()), "constant SQL text opens or closes a quote by hand ("+bad+"): whatever is written next to it is inside a quoted token without having been escaped")
		} else if strings.ContainsAny(ev.Text, "'\"") {
			r.PassNT("C04/handquote", key, p.Pos(ev.Call.Pos()), "quoted tokens inside the constant are complete")
		}
	}
	r.Floor("C04/handquote", 3)

	ruleC04Escape(p, r, g)
	ruleC04Numbers(p, r)
	ruleC04Assembled(p, r)
}

// ruleC04Assembled: text that is later written raw as "already assembled SQL" (subquery.sourceSQL, let values in the
// scope) is only ever the contents of a builder whose writes are themselves checked, or a caller parameter.
func ruleC04Assembled(p *Program, r *Run) {
	pkg := p.PQL
	info := pkg.TypesInfo
	isBuilderString := func(e ast.Expr) bool { return p.assembledSQL(e, 0) }
	n := 0
	for _, fd := range AllFuncs(pkg) {
		fn := FuncName(pkg, fd)
		ast.Inspect(fd.Body, func(x ast.Node) bool {
			switch v := x.(type) {
			case *ast.AssignStmt:
				for i, l := range v.Lhs {
					if i >= len(v.Rhs) {
						continue
					}
					if f := selField(info, l); f != nil && fldName(f) == "sourceSQL" {
						n++
						r.Check(isBuilderString(v.Rhs[i]), "C04/assembled", fmt.Sprintf("%s store #%d to subquery.sourceSQL", fn, n), p.Pos(v.Pos()), "contents of a builder (every write into it is a checked emission)", "subquery.sourceSQL, which is later written into the SQL verbatim, is assembled by hand ("+exprStr(v.Rhs[i])+") instead of through a builder whose writes are checked: names reach the SQL unescaped")
					}
					if ix, ok := ast.Unparen(l).(*ast.IndexExpr); ok {
						if ok2, _ := p.scopeProvenance(fd, ix.X, 0); ok2 {
							n++
							okv := isBuilderString(v.Rhs[i])
							if rs, isRange := p.Parent(p.Parent(v)).(*ast.RangeStmt); isRange && rs.Value != nil && objOf(info, v.Rhs[i]) == objOf(info, rs.Value) {
								if p.allDefsAre(rs.X, func(x ast.Expr) bool { f := selField(info, x); return f != nil && f.Name() == "Parameters" }) {
									okv = true // caller-supplied parameter, inserted verbatim by contract
								}
							}
							r.Check(okv, "C04/assembled", fmt.Sprintf("%s store #%d into the scope", fn, n), p.Pos(v.Pos()), "builder contents or a caller parameter", "a scope value, which is later written into the SQL verbatim, is neither the contents of a checked builder nor a caller parameter: "+exprStr(v.Rhs[i]))
						}
					}
				}
			case *ast.CompositeLit:
				if TypeStr(info.TypeOf(v)) != "pql.subquery" {
					return true
				}
				if val := litField(info, v, "sourceSQL"); val != nil {
					n++
					r.Check(isBuilderString(val), "C04/assembled", fmt.Sprintf("%s store #%d to subquery.sourceSQL", fn, n), p.Pos(v.Pos()), "contents of a builder (every write into it is a checked emission)", "subquery.sourceSQL is initialised by hand ("+exprStr(val)+") instead of from a checked builder")
				}
			}
			return true
		})
	}
	r.Floor("C04/assembled", 4)
}

// ruleC04Escape recovers delimiter and escape set of the two sanitizers from the path facts.
func ruleC04Escape(p *Program, r *Run, g *grammar) {
	want := map[string]struct {
		delim string
		esc   map[string]string
	}{
		"quoteIdentifier": {`"`, map[string]string{`"`: `""`, `\`: `\\`}},
		"quoteSQLString":  {`'`, map[string]string{`'`: `''`, `\`: `\\`}},
	}
	for _, name := range []string{"quoteIdentifier", "quoteSQLString"} {
		fd := p.MustFunc(p.PQL, name)
		fn := FuncName(p.PQL, fd)
		r.Saw(fn)
		// the byte variable: argument of the RAW event
		var bKey string
		for _, ev := range g.events {
			if ev.Func == fd && ev.Kind == "RAW" {
				if o := objOf(p.PQL.TypesInfo, ev.Arg); o != nil {
					bKey = p.ObjKey(o)
				}
			}
		}
		// or the value goes through a strings.Replacer with a constant table
		var chunkEsc map[string]string
		replacer := ""
		for _, o := range g.occs {
			if o.Ev.Func == fd && o.Ev.Kind == "RAW" && strings.HasPrefix(o.Origin, "replacer:") {
				replacer = strings.TrimPrefix(o.Origin, "replacer:")
			}
		}
		// or it is copied in runs between the special characters (chunked copy)
		if ci := p.chunkIdiomOf(fd); ci != nil {
			bKey, replacer = "", "-"
			chunkEsc = map[string]string{}
			for i := 0; i < len(ci.special); i++ {
				chunkEsc[ci.special[i:i+1]] = ci.escape(ci.special[i])
			}
		}
		if bKey == "" && replacer == "" {
			r.Fail("C04/escape", fn+" idiom", p.Pos(fd.Pos()), "sanitizer does not copy the value byte by byte in a recognised way (byte loop with per-byte branches, or a strings.Replacer with a constant table); its escape set cannot be recovered")
			continue
		}
		esc := map[string]string{}
		for k, v := range chunkEsc {
			esc[k] = v
		}
		if replacer != "" && replacer != "-" {
			parts := strings.Split(replacer, "\x00")
			for i := 0; i+1 < len(parts); i += 2 {
				esc[parts[i]] = parts[i+1]
			}
		}
		escSeen := map[string]map[int]bool{}
		opens, closes := map[string]bool{}, map[string]bool{}
		lastBeforeExit := map[int]bool{}
		for _, x := range g.exits {
			if x.Ev.Func == fd {
				lastBeforeExit[x.Prev] = true
			}
		}
		copied := false
		for _, o := range g.occs {
			if o.Ev.Func != fd {
				continue
			}
			var f *Fact
			if bKey != "" {
				f = o.St.GetVar(bKey)
			}
			switch o.Ev.Kind {
			case "T":
				if f != nil && f.HasEq {
					// the escape of a byte is everything written while the byte is known to be that value
					// (one write of `""` or two writes of `"`), in event order
					var n int
					fmt.Sscanf(f.Eq, "%d", &n)
					b := string(rune(n))
					if escSeen[b] == nil {
						escSeen[b] = map[int]bool{}
					}
					if !escSeen[b][o.Ev.ID] {
						escSeen[b][o.Ev.ID] = true
						esc[b] += o.Ev.Text
					}
				} else if o.Prev == -1 {
					// the whole token of an empty value written at once (`if s == "" { sb.WriteString("''"); return }`)
					if wd := want[name].delim; o.Ev.Text == wd+wd && lastBeforeExit[o.Ev.ID] && textParamEmpty(p, fd, o.St) {
						opens[wd], closes[wd] = true, true
						continue
					}
					opens[o.Ev.Text] = true
				}
				if lastBeforeExit[o.Ev.ID] && (f == nil || !f.HasEq) {
					closes[o.Ev.Text] = true
				}
			case "RAW":
				copied = true
			}
		}
		w := want[name]
		r.Check(len(opens) == 1 && opens[w.delim] && closes[w.delim], "C04/escape", fn+" delimiters", p.Pos(fd.Pos()), "opens and closes with "+w.delim, fmt.Sprintf("sanitizer opens with %v and closes with %v, expected %s on both ends", keysOf(opens), keysOf(closes), w.delim))
		var cs []string
		for c := range w.esc {
			cs = append(cs, c)
		}
		sort.Strings(cs)
		for _, c := range cs {
			got, ok := esc[c]
			r.Check(ok && got == w.esc[c], "C04/escape", fmt.Sprintf("%s escapes %q", fn, c), p.Pos(fd.Pos()), fmt.Sprintf("%q is written as %q", c, w.esc[c]), fmt.Sprintf("the byte %q is copied unchanged (found %q): in the ClickHouse dialect it %s", c, got, map[bool]string{true: "ends the quoted token", false: "escapes the following character, so a value ending in it swallows the closing quote"}[c != `\`]))
		}
		// any other byte that is rewritten must decode back to itself (a backslash escape of the dialect)
		var extra []string
		for c := range esc {
			if _, documented := w.esc[c]; !documented {
				extra = append(extra, c)
			}
		}
		sort.Strings(extra)
		for _, c := range extra {
			r.Check(escapeDecodesTo(esc[c], c), "C04/escape", fmt.Sprintf("%s rewrites %q", fn, c), p.Pos(fd.Pos()), fmt.Sprintf("%q is written as %q, which the dialect decodes back to the byte", c, esc[c]), fmt.Sprintf("the byte %q is written as %q inside a token delimited by %s: the dialect does not decode that back to the byte, so the token carries a different value than the one written", c, esc[c], w.delim))
		}
		r.Check(copied, "C04/escape", fn+" copies other bytes", p.Pos(fd.Pos()), "every other byte is copied unchanged", "no byte is copied: the value is lost")
		okArg, whyArg := p.sanitizerKeepsArgument(fd)
		r.Check(okArg, "C04/escape", fn+" escapes the text it is given", p.Pos(fd.Pos()), "the text parameter is only ever shortened from the front or cut into pieces; nothing computed from it takes its place", whyArg)
	}
	r.Floor("C04/escape", 8)
}

// escapeDecodesTo: does the ClickHouse lexer decode the written text back to the single byte b inside a quoted token?
func escapeDecodesTo(written, b string) bool {
	if written == b {
		return true
	}
	if len(written) == 2 && written[0] == '\\' {
		switch written[1] {
		case '\'', '"', '`', '\\':
			return b == written[1:]
		}
		named := map[byte]string{'n': "\n", 't': "\t", 'r': "\r", '0': "\x00", 'b': "\b", 'f': "\f", 'a': "\a", 'v': "\v"}
		return named[written[1]] == b
	}
	return false
}

// ruleC04Numbers: number tokens take their value from the normalising functions.
func ruleC04Numbers(p *Program, r *Run) {
	pkg := p.Parser
	info := pkg.TypesInfo
	n := 0
	for _, fd := range AllFuncs(pkg) {
		for _, cl := range p.tokenLits(fd.Body) {
			if k := litField(info, cl, "Kind"); k == nil || constName(info, k) != "TokenNumber" {
				continue
			}
			n++
			v := litField(info, cl, "Value")
			ok2, how := false, "no Value"
			if v != nil {
				if s, isC := constString(info, v); isC {
					ok2, how = s == "0", fmt.Sprintf("constant %q", s)
				} else if call, isCall := ast.Unparen(v).(*ast.CallExpr); isCall {
					if f := Callee(info, call); f != nil {
						how = f.FullName()
						ok2 = f.Name() == "normalizeNumberValue" || f.FullName() == "strconv.FormatUint"
						if f.FullName() == "strconv.FormatUint" && len(call.Args) == 2 {
							b, _ := constInt(info, call.Args[1])
							ok2 = b == 10
						}
					}
				} else {
					how = exprStr(v)
				}
			}
			r.Check(ok2, "C04/numbers", fmt.Sprintf("%s number token #%d", FuncName(pkg, fd), n), p.Pos(cl.Pos()), "value from "+how, "a number token's value is "+how+", not the normalised decimal spelling: the raw lexeme (hex, leading zeros) would reach the SQL")
		}
	}
	r.Floor("C04/numbers", 5)
}

// ---- C02/clauses: clause keywords appear in SQL order on every path of (*subquery).write.

var clauseRank = map[string]int{"SELECT": 1, "FROM": 2, "WHERE": 3, "GROUP": 4, "ORDER": 5, "LIMIT": 6}

func ruleC02Clauses(p *Program, r *Run) {
	g := p.Grammar()
	fd := p.MustFunc(p.PQL, "subquery.write")
	fn := FuncName(p.PQL, fd)
	r.Saw(fn)
	// max clause rank seen before each event (fixpoint over the follow relation)
	before := map[int]int{}
	rankOf := func(ev *emitEvent, depth [3]int) (first, last int) {
		if ev.Kind != "T" {
			return 0, 0
		}
		d := depth
		for _, t := range sqlTokenize(ev.Text) {
			if d == [3]int{} && t.Kind == "kw" {
				if rk, ok := clauseRank[t.Text]; ok {
					if first == 0 {
						first = rk
					}
					last = rk
				}
			}
			d, _ = applyDepth(d, []sqlTok{t})
		}
		return
	}
	after := map[int]int{}
	for iter := 0; iter < 30; iter++ {
		changed := false
		for _, o := range g.occs {
			if o.Ev.Func != fd {
				continue
			}
			in := 0
			if o.Prev >= 0 {
				in = after[o.Prev]
			}
			if in > before[o.Ev.ID] {
				before[o.Ev.ID] = in
				changed = true
			}
			_, last := rankOf(o.Ev, o.Depth)
			out := before[o.Ev.ID]
			if last > out {
				out = last
			}
			if out > after[o.Ev.ID] {
				after[o.Ev.ID] = out
				changed = true
			}
		}
		if !changed {
			break
		}
	}
	names := []string{"", "SELECT", "FROM", "WHERE", "GROUP BY", "ORDER BY", "LIMIT"}
	seen := map[int]bool{}
	for _, o := range g.occs {
		if o.Ev.Func != fd || seen[o.Ev.ID] {
			continue
		}
		first, _ := rankOf(o.Ev, o.Depth)
		if first == 0 {
			continue
		}
		seen[o.Ev.ID] = true
		key := fmt.Sprintf("%s clause text %q", fn, o.Ev.Text)
		if strings.Contains(o.Ev.Text, "/*") {
			continue
		}
		ok := before[o.Ev.ID] < first
		r.Check(ok, "C02/clauses", key, p.Pos(o.Ev.Call.Pos()), fmt.Sprintf("%s is written after at most %s on every path", names[first], names[before[o.Ev.ID]]), fmt.Sprintf("%s can be written after %s: clauses out of SQL order (e.g. LIMIT before ORDER BY changes which rows are kept)", names[first], names[before[o.Ev.ID]]))
	}
	r.Floor("C02/clauses", 12)

	// summarize: group keys are listed before the aggregates
	info := p.PQL.TypesInfo
	for _, ts := range findTypeSwitches(info, fd.Body, nil) {
		for _, cc := range ts.Clauses {
			if len(ts.Types[cc]) != 1 || ts.Types[cc][0] == nil || TypeStr(ts.Types[cc][0]) != "*parser.SummarizeOperator" {
				continue
			}
			// the select list is produced by loops over the operator's fields, or over a list they were appended to
			// (outputCols = append(outputCols, op.GroupBy...)): the first use of GroupBy comes before the first of Cols
			var order []string
			seenF := map[string]bool{}
			note := func(x ast.Expr) {
				if f := selField(info, x); f != nil && !seenF[f.Name()] {
					seenF[f.Name()] = true
					order = append(order, f.Name())
				}
			}
			for _, root := range p.regionOf(p.PQL, cc) {
				ast.Inspect(root, func(n ast.Node) bool {
					switch v := n.(type) {
					case *ast.RangeStmt:
						note(v.X)
					case *ast.CallExpr:
						if IsBuiltinCall(info, v, "append") && v.Ellipsis.IsValid() && len(v.Args) == 2 {
							note(v.Args[1])
						}
					}
					return true
				})
			}
			ok := len(order) >= 2 && order[0] == "GroupBy" && order[1] == "Cols"
			r.Check(ok, "C02/clauses", fn+" summarize lists group keys before aggregates", p.Pos(cc.Pos()), "select list: GroupBy loop, then Cols loop", fmt.Sprintf("the summarize select list is written in the order %v; documented: group keys first, then aggregates", order))
		}
	}
}

// assembledSQL: the string is text that went through a checked builder: `<builder>.String()`, a variable that only
// ever receives such text, the result of a function of the compiler all of whose returns give such text (or "" next
// to an error), or a parameter that receives such text at every call.
func (p *Program) assembledSQL(x ast.Expr, depth int) bool {
	if x == nil || depth > 4 {
		return false
	}
	info := p.Info
	x = ast.Unparen(x)
	switch v := x.(type) {
	case *ast.CallExpr:
		if sel, ok := ast.Unparen(v.Fun).(*ast.SelectorExpr); ok && sel.Sel.Name == "String" && isBuilder(info, sel.X) {
			return true
		}
		f := Callee(info, v)
		decl, dpkg := p.DeclOf(f)
		if decl == nil || dpkg != p.PQL || decl.Body == nil {
			return false
		}
		sig := f.Type().(*types.Signature)
		if sig.Results().Len() < 1 || TypeStr(sig.Results().At(0).Type()) != "string" {
			return false
		}
		ok, n := true, 0
		ast.Inspect(decl.Body, func(m ast.Node) bool {
			switch r := m.(type) {
			case *ast.FuncLit:
				return false
			case *ast.ReturnStmt:
				if len(r.Results) < 1 {
					ok = false
					return true
				}
				n++
				if s, isC := constString(info, r.Results[0]); isC && s == "" {
					return true
				}
				if !p.assembledSQL(r.Results[0], depth+1) {
					ok = false
				}
			}
			return true
		})
		return ok && n > 0
	case *ast.Ident:
		o, isVar := objOf(info, v).(*types.Var)
		if !isVar || o.IsField() {
			return false
		}
		// a parameter: every call site
		if fd := p.FuncAt(o.Pos()); fd != nil {
			idx, i := -1, 0
			for _, f := range fd.Type.Params.List {
				for _, nm := range f.Names {
					if info.Defs[nm] == types.Object(o) {
						idx = i
					}
					i++
				}
			}
			if idx >= 0 {
				fobj := FuncObj(p.PQL, fd)
				if fobj == nil || fobj.Exported() || !p.onlyCalledDirectly(fobj) || !p.neverReassigned(o) {
					return false
				}
				calls, all := 0, true
				for _, caller := range AllFuncs(p.PQL) {
					ast.Inspect(caller.Body, func(m ast.Node) bool {
						if call, ok := m.(*ast.CallExpr); ok && Callee(info, call) == fobj && idx < len(call.Args) {
							calls++
							if !p.assembledSQL(call.Args[idx], depth+1) {
								all = false
							}
						}
						return true
					})
				}
				return calls > 0 && all
			}
		}
		return p.allDefsAre(v, func(d ast.Expr) bool { return p.assembledSQL(d, depth+1) })
	}
	return false
}

// ---- the chunked-copy idiom of a sanitizer.
//
//	for {
//		i := strings.IndexAny(s, special)      // or IndexByte / IndexRune with a constant
//		if i < 0 { break }
//		sb.WriteString(s[:i])                   // a run free of the special characters
//		sb.WriteByte(s[i]); sb.WriteByte(s[i])  // what stands for the special character found
//		s = s[i+1:]
//	}
//	sb.WriteString(s)                         // the rest, free of them as well
//
// The body is straight-line; s[i] stands for "the special character found", constants for themselves. From this
// shape the escape of every character of `special` is read off; every other byte is copied by the run writes.
type chunkIdiom struct {
	loop    *ast.ForStmt
	param   types.Object
	special string
	escape  func(c byte) string // what is written for the special byte c
	chunk   *ast.CallExpr       // the write of s[:i]
	rest    *ast.CallExpr       // the write of s after the loop
	writes  map[*ast.CallExpr]bool
}

func (p *Program) chunkIdiomOf(fd *ast.FuncDecl) *chunkIdiom {
	info := p.PQL.TypesInfo
	var found *chunkIdiom
	for idx, st := range fd.Body.List {
		fs, ok := st.(*ast.ForStmt)
		if !ok || fs.Init != nil || fs.Cond != nil || fs.Post != nil || len(fs.Body.List) < 4 {
			continue
		}
		body := fs.Body.List
		// i := strings.IndexAny(s, special)
		as, ok := body[0].(*ast.AssignStmt)
		if !ok || as.Tok != token.DEFINE || len(as.Lhs) != 1 || len(as.Rhs) != 1 {
			continue
		}
		call, ok := ast.Unparen(as.Rhs[0]).(*ast.CallExpr)
		if !ok || len(call.Args) != 2 {
			continue
		}
		f := Callee(info, call)
		if f == nil || f.Pkg() == nil || f.Pkg().Path() != "strings" {
			continue
		}
		special := ""
		switch f.Name() {
		case "IndexAny":
			s, isS := constString(info, call.Args[1])
			if !isS {
				continue
			}
			special = s
		case "IndexByte", "IndexRune":
			v, isC := constInt(info, call.Args[1])
			if !isC || v < 0 || v > 127 {
				continue
			}
			special = string(rune(v))
		default:
			continue
		}
		for _, r := range special {
			if r > 127 {
				special = "" // bytewise reasoning only
			}
		}
		if special == "" {
			continue
		}
		iObj := objOf(info, as.Lhs[0])
		sObj := objOf(info, call.Args[0])
		if iObj == nil || sObj == nil {
			continue
		}
		if b, isB := sObj.Type().Underlying().(*types.Basic); !isB || b.Info()&types.IsString == 0 {
			continue
		}
		// if i < 0 { break }   (or i == -1)
		ifs, ok := body[1].(*ast.IfStmt)
		if !ok || ifs.Init != nil || ifs.Else != nil || len(ifs.Body.List) != 1 {
			continue
		}
		if br, isBr := ifs.Body.List[0].(*ast.BranchStmt); !isBr || br.Tok != token.BREAK || br.Label != nil {
			continue
		}
		cond, ok := ast.Unparen(ifs.Cond).(*ast.BinaryExpr)
		if !ok || objOf(info, cond.X) != iObj {
			continue
		}
		cv, isC := constInt(info, cond.Y)
		if !(isC && (cond.Op == token.LSS && cv == 0 || cond.Op == token.EQL && cv == -1 || cond.Op == token.LEQ && cv == -1)) {
			continue
		}
		// the writes and the final reslice
		isSI := func(x ast.Expr) bool { // s[i]
			ix, ok := ast.Unparen(x).(*ast.IndexExpr)
			return ok && objOf(info, ix.X) == sObj && objOf(info, ix.Index) == iObj
		}
		var chunk *ast.CallExpr
		writes := map[*ast.CallExpr]bool{}
		okShape := true
		// the writes between the run and the reslice: pieces ("\x00" stands for the special byte found), possibly
		// under tests of which special byte it is (if s[i] == '\'' { ... } else { ... } / switch s[i] { ... })
		type step struct {
			piece string
			cond  bool
			cases map[byte][]step
			dflt  []step
		}
		var parseSteps func(list []ast.Stmt, top bool) []step
		var parseIf func(is *ast.IfStmt) []step
		byteOf := func(x ast.Expr) (byte, bool) {
			v, isC := constInt(info, x)
			if !isC || v < 0 || v > 127 {
				return 0, false
			}
			return byte(v), true
		}
		parseIf = func(is *ast.IfStmt) []step {
			cond, isB := ast.Unparen(is.Cond).(*ast.BinaryExpr)
			if is.Init != nil || !isB || cond.Op != token.EQL || !isSI(cond.X) {
				okShape = false
				return nil
			}
			b, isByte := byteOf(cond.Y)
			if !isByte {
				okShape = false
				return nil
			}
			st := step{cond: true, cases: map[byte][]step{b: parseSteps(is.Body.List, false)}}
			switch el := is.Else.(type) {
			case nil:
			case *ast.BlockStmt:
				st.dflt = parseSteps(el.List, false)
			case *ast.IfStmt:
				st.dflt = parseIf(el)
			default:
				okShape = false
			}
			return []step{st}
		}
		parseSteps = func(list []ast.Stmt, top bool) []step {
			var out []step
			for k, s2 := range list {
				if !okShape {
					return out
				}
				switch v := s2.(type) {
				case *ast.IfStmt:
					out = append(out, parseIf(v)...)
					continue
				case *ast.SwitchStmt:
					if v.Init != nil || v.Tag == nil || !isSI(v.Tag) {
						okShape = false
						return out
					}
					st := step{cond: true, cases: map[byte][]step{}}
					for _, cc := range v.Body.List {
						cl := cc.(*ast.CaseClause)
						body := parseSteps(cl.Body, false)
						if cl.List == nil {
							st.dflt = body
							continue
						}
						for _, e := range cl.List {
							b, isByte := byteOf(e)
							if !isByte {
								okShape = false
								return out
							}
							st.cases[b] = body
						}
					}
					out = append(out, st)
					continue
				}
				es, ok := s2.(*ast.ExprStmt)
				if !ok {
					okShape = false
					return out
				}
				wc, ok := es.X.(*ast.CallExpr)
				if !ok || len(wc.Args) != 1 {
					okShape = false
					return out
				}
				sel, ok := ast.Unparen(wc.Fun).(*ast.SelectorExpr)
				if !ok || !isBuilder(info, sel.X) {
					okShape = false
					return out
				}
				arg := ast.Unparen(wc.Args[0])
				switch {
				case top && k == 0:
					// sb.WriteString(s[:i])
					sl, isSl := arg.(*ast.SliceExpr)
					if !isSl || sel.Sel.Name != "WriteString" || sl.Low != nil || sl.Max != nil || objOf(info, sl.X) != sObj || objOf(info, sl.High) != iObj {
						okShape = false
					}
					chunk = wc
				case sel.Sel.Name == "WriteByte" && isSI(arg):
					out = append(out, step{piece: "\x00"})
				case sel.Sel.Name == "WriteByte" || sel.Sel.Name == "WriteRune":
					v, isC := constInt(info, arg)
					if !isC || v < 0 || v > 127 {
						okShape = false
					}
					out = append(out, step{piece: string(rune(v))})
				case sel.Sel.Name == "WriteString":
					cs, isS := constString(info, arg)
					if !isS {
						okShape = false
					}
					out = append(out, step{piece: cs})
				default:
					okShape = false
				}
				writes[wc] = true
			}
			return out
		}
		steps := parseSteps(body[2:len(body)-1], true)
		if !okShape || chunk == nil || len(steps) == 0 {
			continue
		}
		// s = s[i+1:]
		rs, ok := body[len(body)-1].(*ast.AssignStmt)
		if !ok || rs.Tok != token.ASSIGN || len(rs.Lhs) != 1 || len(rs.Rhs) != 1 || objOf(info, rs.Lhs[0]) != sObj {
			continue
		}
		sl, ok := ast.Unparen(rs.Rhs[0]).(*ast.SliceExpr)
		if !ok || sl.High != nil || sl.Max != nil || objOf(info, sl.X) != sObj {
			continue
		}
		lo, ok := ast.Unparen(sl.Low).(*ast.BinaryExpr)
		if !ok || lo.Op != token.ADD || objOf(info, lo.X) != iObj {
			continue
		}
		if one, isC := constInt(info, lo.Y); !isC || one != 1 {
			continue
		}
		// the statement after the loop writes the rest; s and i are not assigned anywhere else
		if idx+1 >= len(fd.Body.List) {
			continue
		}
		var rest *ast.CallExpr
		if es, ok := fd.Body.List[idx+1].(*ast.ExprStmt); ok {
			if wc, ok := es.X.(*ast.CallExpr); ok && len(wc.Args) == 1 && objOf(info, wc.Args[0]) == sObj {
				if sel, ok := ast.Unparen(wc.Fun).(*ast.SelectorExpr); ok && sel.Sel.Name == "WriteString" && isBuilder(info, sel.X) {
					rest = wc
				}
			}
		}
		if rest == nil {
			continue
		}
		assigns := 0
		ast.Inspect(fd.Body, func(n ast.Node) bool {
			if a, ok := n.(*ast.AssignStmt); ok {
				for _, l := range a.Lhs {
					if o := objOf(info, l); o == sObj || o == iObj {
						assigns++
					}
				}
			}
			return true
		})
		if assigns != 2 {
			continue
		}
		writes[rest] = true
		var eval func(list []step, c byte) string
		eval = func(list []step, c byte) string {
			out := ""
			for _, st := range list {
				switch {
				case st.cond:
					if body, has := st.cases[c]; has {
						out += eval(body, c)
					} else {
						out += eval(st.dflt, c)
					}
				case st.piece == "\x00":
					out += string(rune(c))
				default:
					out += st.piece
				}
			}
			return out
		}
		found = &chunkIdiom{loop: fs, param: sObj, special: special, chunk: chunk, rest: rest, writes: writes,
			escape: func(c byte) string { return eval(steps, c) }}
	}
	return found
}

// sanitizerKeepsArgument: what a sanitizer escapes is the text it was given. The string parameter is assigned only
// reslices of itself (the chunked copy), and every local that is computed from it is a reslice, a conversion or the
// result of the replacer - never the result of another function of the text (trimming, folding, collapsing).
func (p *Program) sanitizerKeepsArgument(fd *ast.FuncDecl) (bool, string) {
	info := p.PQL.TypesInfo
	var param types.Object
	for _, f := range fd.Type.Params.List {
		for _, n := range f.Names {
			if b, ok := info.Defs[n].Type().Underlying().(*types.Basic); ok && b.Info()&types.IsString != 0 {
				param = info.Defs[n]
			}
		}
	}
	if param == nil {
		return false, "the sanitizer has no string parameter"
	}
	derived := map[types.Object]bool{param: true}
	mentions := func(x ast.Expr) bool {
		found := false
		ast.Inspect(x, func(n ast.Node) bool {
			if id, ok := n.(*ast.Ident); ok && derived[objOf(info, id)] {
				found = true
			}
			return !found
		})
		return found
	}
	// is x the text (or a piece of it) unchanged: a derived variable, a reslice or index of one, a conversion
	var piece func(x ast.Expr) bool
	piece = func(x ast.Expr) bool {
		switch v := ast.Unparen(x).(type) {
		case *ast.Ident:
			return derived[objOf(info, v)]
		case *ast.SliceExpr:
			return piece(v.X)
		case *ast.IndexExpr:
			return piece(v.X)
		case *ast.CallExpr:
			if tv, ok := info.Types[v.Fun]; ok && tv.IsType() && len(v.Args) == 1 {
				return piece(v.Args[0])
			}
			// the result of a strings.Replacer with a constant table is accounted for by the escape set
			if f := Callee(info, v); f != nil && f.Type().(*types.Signature).Recv() != nil && strings.HasSuffix(TypeStr(f.Type().(*types.Signature).Recv().Type()), "strings.Replacer") {
				return true
			}
			// searches report a position, not text
			if f := Callee(info, v); f != nil && f.Pkg() != nil && (f.Pkg().Path() == "strings" || f.Pkg().Path() == "bytes") && strings.HasPrefix(f.Name(), "Index") {
				return true
			}
			if IsBuiltinCall(info, v, "len") || IsBuiltinCall(info, v, "min") || IsBuiltinCall(info, v, "max") {
				return true
			}
		}
		return false
	}
	ok, why := true, ""
	note := func(lhs ast.Expr, rhs ast.Expr, pos token.Pos) {
		o := objOf(info, lhs)
		if o == nil {
			return
		}
		isText := false
		switch u := o.Type().Underlying().(type) {
		case *types.Basic:
			isText = u.Info()&types.IsString != 0
		case *types.Slice:
			if b, isB := u.Elem().Underlying().(*types.Basic); isB && (b.Kind() == types.Byte || b.Kind() == types.Rune || b.Kind() == types.Uint8 || b.Kind() == types.Int32) {
				isText = true
			}
		}
		if !isText || !mentions(rhs) {
			return
		}
		if piece(rhs) {
			derived[o] = true
			return
		}
		ok = false
		why = fmt.Sprintf("%s: %s = %s replaces the text by something computed from it: the quoted token no longer decodes to the name or value that was written", p.Pos(pos), o.Name(), exprStr(rhs))
	}
	for pass := 0; pass < 3; pass++ {
		ast.Inspect(fd.Body, func(n ast.Node) bool {
			switch v := n.(type) {
			case *ast.AssignStmt:
				if len(v.Lhs) == len(v.Rhs) {
					for i := range v.Lhs {
						note(v.Lhs[i], v.Rhs[i], v.Pos())
					}
				}
			case *ast.ValueSpec:
				for i, nm := range v.Names {
					if i < len(v.Values) {
						note(nm, v.Values[i], v.Pos())
					}
				}
			}
			return true
		})
	}
	return ok, why
}

// textParamEmpty: the sanitizer's string parameter is known to be empty in st.
func textParamEmpty(p *Program, fd *ast.FuncDecl, st *State) bool {
	info := p.PQL.TypesInfo
	for _, f := range fd.Type.Params.List {
		for _, n := range f.Names {
			o := info.Defs[n]
			if b, ok := o.Type().Underlying().(*types.Basic); !ok || b.Info()&types.IsString == 0 {
				continue
			}
			k := p.ObjKey(o)
			if g := st.Get("len(" + k + ")"); g != nil && g.Hi != nil && *g.Hi == 0 {
				return true
			}
			if g := st.Get(k); g != nil && g.HasEq && g.Eq == `""` {
				return true
			}
		}
	}
	return false
}

// tailOfCompile: fd is a helper whose only call sites are `return fd(...)` statements of Compile (or of another
// such helper): what it writes last is what Compile writes last.
func (p *Program) tailOfCompile(fd *ast.FuncDecl) bool {
	return p.tailOfCompileN(fd, 0)
}

func (p *Program) tailOfCompileN(fd *ast.FuncDecl, depth int) bool {
	if fd == nil || depth > 2 {
		return false
	}
	pkg := p.PQL
	self := FuncObj(pkg, fd)
	if self == nil {
		return false
	}
	compile := p.MustFunc(pkg, "CompileOptions.Compile")
	sites, ok := 0, true
	for _, cfd := range AllFuncs(pkg) {
		ast.Inspect(cfd.Body, func(n ast.Node) bool {
			call, isCall := n.(*ast.CallExpr)
			if !isCall || Callee(p.Info, call) != self {
				return true
			}
			sites++
			ret, isRet := p.Parent(call).(*ast.ReturnStmt)
			if !isRet || len(ret.Results) != 1 {
				ok = false
				return true
			}
			if cfd != compile && !p.tailOfCompileN(cfd, depth+1) {
				ok = false
			}
			return true
		})
	}
	return ok && sites > 0
}
