package pc

import (
	"fmt"
	"go/ast"
	"go/token"
	"go/types"
	"sort"
	"strings"

	"golang.org/x/tools/go/packages"
)

// ---- C06: let bindings and parameters.

// scopeProvenance decides whether expression e (of type map[string]string) inside fd denotes the scope map that
// Compile builds: Compile's make()-allocated local, a parameter whose every call site passes such a value,
// or the scope field of an exprContext.
func (p *Program) scopeProvenance(fd *ast.FuncDecl, e ast.Expr, depth int) (bool, string) {
	return p.scopeProv(fd, e, depth, map[types.Object]bool{})
}

func (p *Program) scopeProv(fd *ast.FuncDecl, e ast.Expr, depth int, visiting map[types.Object]bool) (bool, string) {
	pkg := p.PQL
	info := pkg.TypesInfo
	if depth > 8 {
		return false, "call chain too deep"
	}
	e = ast.Unparen(e)
	if f := selField(info, e); f != nil && fldName(f) == "scope" {
		return true, "ctx.scope"
	}
	obj, _ := objOf(info, e).(*types.Var)
	if obj == nil {
		return false, "not a variable: " + exprStr(e)
	}
	if visiting[obj] {
		return true, "passed on through a recursive call chain" // coinductive: the other call sites decide
	}
	visiting[obj] = true
	defer delete(visiting, obj)
	// local allocated in this function (make / map literal; := or var, alone or in a group)
	madeHere := false
	fresh := func(x ast.Expr) bool {
		x = ast.Unparen(x)
		if call, ok := x.(*ast.CallExpr); ok && IsBuiltinCall(info, call, "make") {
			return true
		}
		if cl, ok := x.(*ast.CompositeLit); ok {
			_, isMap := info.TypeOf(cl).Underlying().(*types.Map)
			return isMap
		}
		// scope := opts.newScope(): a helper that returns a map it has just made
		if call, ok := x.(*ast.CallExpr); ok {
			if f := Callee(info, call); f != nil && p.freshResult(f) {
				return true
			}
		}
		return false
	}
	ast.Inspect(fd.Body, func(n ast.Node) bool {
		switch v := n.(type) {
		case *ast.AssignStmt:
			for i, l := range v.Lhs {
				if objOf(info, l) == types.Object(obj) && len(v.Lhs) == len(v.Rhs) && fresh(v.Rhs[i]) {
					madeHere = true
				}
			}
		case *ast.ValueSpec:
			for i, nm := range v.Names {
				if info.Defs[nm] == types.Object(obj) && i < len(v.Values) && fresh(v.Values[i]) {
					madeHere = true
				}
			}
		}
		return true
	})
	if madeHere {
		if p.scopeRoots != nil {
			p.scopeRoots[obj] = true
		}
		if declName(fd) == "Compile" && fd.Recv != nil {
			return true, "the map allocated by Compile"
		}
		// a helper of Compile (one that did not exist on the reviewed tree) that makes the scope and hands it back
		if fobj := FuncObj(pkg, fd); fobj != nil && !p.recordedFunc(fobj) && p.freshResult(fobj) {
			return true, "the map a helper of Compile makes"
		}
		return false, "a map allocated in " + declName(fd) + ", not Compile's scope"
	}
	// parameter: all call sites
	fn := FuncObj(pkg, fd)
	idx := -1
	i := 0
	for _, f := range fd.Type.Params.List {
		for _, n := range f.Names {
			if info.Defs[n] == types.Object(obj) {
				idx = i
			}
			i++
		}
	}
	if idx < 0 {
		return false, exprStr(e) + " is neither Compile's map nor a parameter"
	}
	sites := 0
	okAll := true
	why := ""
	for _, cfd := range AllFuncs(pkg) {
		ast.Inspect(cfd.Body, func(n ast.Node) bool {
			call, ok := n.(*ast.CallExpr)
			if !ok || Callee(info, call) != fn || idx >= len(call.Args) {
				return true
			}
			sites++
			if cfd == fd && objOf(info, call.Args[idx]) == types.Object(obj) {
				return true // recursive call passing the parameter on
			}
			if ok2, w := p.scopeProv(cfd, call.Args[idx], depth+1, visiting); !ok2 {
				okAll, why = false, fmt.Sprintf("call in %s passes %s (%s)", cfd.Name.Name, exprStr(call.Args[idx]), w)
			}
			return true
		})
	}
	if sites == 0 {
		return false, "parameter of a function without call sites"
	}
	if !okAll {
		return false, why
	}
	return true, fmt.Sprintf("parameter fed by Compile's map at all %d call sites", sites)
}

func ruleC06(p *Program, r *Run) {
	pkg := p.PQL
	info := pkg.TypesInfo
	ctxT := p.Named(pkg, "exprContext")
	compile := p.MustFunc(pkg, "CompileOptions.Compile")
	p.scopeRoots = map[types.Object]bool{}
	defer func() { p.scopeRoots = nil }()

	// ---- ctx: every expression context carries the scope
	n := 0
	for _, fd := range AllFuncs(pkg) {
		fn := FuncName(pkg, fd)
		ast.Inspect(fd.Body, func(x ast.Node) bool {
			cl, ok := x.(*ast.CompositeLit)
			if !ok || !types.Identical(info.TypeOf(cl), ctxT) {
				return true
			}
			n++
			r.Saw(fn)
			mode := "defaultExprMode"
			if m := litField(info, cl, "mode"); m != nil {
				mode = exprStr(m)
			}
			key := fmt.Sprintf("%s exprContext{mode: %s}", fn, mode)
			sc := litField(info, cl, "scope")
			if sc == nil {
				r.Fail("C06/ctx", key, p.Pos(cl.Pos()), "this expression context is built without the scope: identifiers written under it never resolve to let bindings or parameters (they silently become column names)")
				return true
			}
			ok2, why := p.scopeProvenance(fd, sc, 0)
			r.Check(ok2, "C06/ctx", key, p.Pos(cl.Pos()), "scope: "+why, "the scope given to this expression context is not the one Compile builds from parameters and let statements: "+why)
			return true
		})
	}
	r.Floor("C06/ctx", 3)

	// ---- one-reader: the scope is consulted in exactly one place, under the documented guards
	g := p.Grammar()
	we := p.MustFunc(pkg, "writeExpression")
	x := g.xParamOf(we)
	xk := p.ObjKey(x)
	lookups := 0
	// the identifier case and the helpers it was split into
	var identRegion []ast.Node
	if cc := typeCaseOf(info, we, "*parser.QualifiedIdent"); cc != nil {
		identRegion = p.regionOf(pkg, cc)
	}
	for _, fd := range AllFuncs(pkg) {
		ast.Inspect(fd.Body, func(nn ast.Node) bool {
			ix, ok := nn.(*ast.IndexExpr)
			if !ok {
				return true
			}
			if f := selField(info, ix.X); f == nil || fldName(f) != "scope" || !strings.HasSuffix(TypeStr(info.TypeOf(ast.Unparen(ix.X).(*ast.SelectorExpr).X)), "exprContext") {
				return true
			}
			lookups++
			if fd != we && !p.onlyCalledFrom(pkg, fd, identRegion) {
				r.Fail("C06/one-reader", fmt.Sprintf("%s consults the scope", FuncName(pkg, fd)), p.Pos(ix.Pos()), "the scope is consulted outside the identifier case of the expression writer: something other than an unquoted, unqualified identifier could be substituted")
			}
			return true
		})
	}
	var scopeEv, builtinEv *emitEvent
	for _, o := range g.occs {
		if o.Ev.Func != we || o.Ev.Kind != "RAW" {
			continue
		}
		switch o.Origin {
		case "scope":
			scopeEv = o.Ev
			lenF := o.St.Get("len(" + xk + ".Parts)")
			okLen := lenF != nil && lenF.HasEq && lenF.Eq == "1"
			qF := o.St.Get(xk + ".Parts[0].Quoted")
			okQ := qF != nil && qF.HasEq && qF.Eq == "false"
			okKind := len(o.Kinds) == 1 && o.Kinds[0] == "*parser.QualifiedIdent"
			key := "pql.writeExpression substitution of a binding"
			var miss []string
			if !okKind {
				miss = append(miss, "node is a QualifiedIdent")
			}
			if !okLen {
				miss = append(miss, "exactly one part (qualified names are never substituted)")
			}
			if !okQ {
				miss = append(miss, "the part is not quoted (quoted identifiers are never substituted)")
			}
			r.Check(len(miss) == 0, "C06/one-reader", key, p.Pos(o.Ev.Call.Pos()), "substitution only for an unquoted, unqualified identifier (facts: kind, len(Parts) == 1, !Quoted)", "a binding's value can be written without the guard(s): "+strings.Join(miss, "; "))
		case "constmap:builtinIdentifiers":
			builtinEv = o.Ev
		}
	}
	r.Check(lookups == 1 && scopeEv != nil, "C06/one-reader", "pql scope lookups", p.Pos(we.Pos()), "exactly one lookup site", fmt.Sprintf("%d lookups of the scope map found (expected exactly one, in the identifier case)", lookups))
	_ = builtinEv
	{
		// the lookup into the scope comes before the lookup into the table of built-in constants
		var scopeAt, builtinAt token.Pos
		for _, root := range p.regionOf(p.PQL, we.Body) {
			ast.Inspect(root, func(n ast.Node) bool {
				ix, ok := n.(*ast.IndexExpr)
				if !ok {
					return true
				}
				if f := selField(p.Info, ix.X); f != nil && fldName(f) == "scope" && !scopeAt.IsValid() {
					scopeAt = ix.Pos()
				}
				if o := objOf(p.Info, ix.X); o != nil && objName(o) == "builtinIdentifiers" && !builtinAt.IsValid() {
					builtinAt = ix.Pos()
				}
				return true
			})
		}
		if scopeAt.IsValid() && builtinAt.IsValid() {
			r.Check(scopeAt < builtinAt, "C06/order", "pql.writeExpression scope before built-in constants", p.Pos(scopeAt), "bindings and parameters shadow true/false/null", "built-in constants are resolved before the scope: a let or parameter named like a constant would be ignored")
		}
	}
	// the substituted text is written verbatim and nothing else on that path
	r.Floor("C06/one-reader", 2)

	// ---- let statements in Compile
	letCase := typeCaseOf(info, compile, "*parser.LetStatement")
	if letCase == nil {
		r.Fail("C06/let-mode", "pql.(*CompileOptions).Compile case *parser.LetStatement", p.Pos(compile.Pos()), "no case for let statements")
		return
	}
	fn := FuncName(pkg, compile)
	r.Saw(fn)
	// the code of the let case: the clause and the helpers it was split into
	letRegion := p.regionOf(pkg, letCase)
	letFn := p.FuncAt(letCase.Pos()) // the function the case sits in (Compile, or a helper of it)
	inLetRegion := func(fdx *ast.FuncDecl, n ast.Node) bool {
		for _, root := range letRegion {
			if n.Pos() >= root.Pos() && n.End() <= root.End() {
				return true
			}
		}
		return false
	}
	letMode := false
	for _, root := range letRegion {
		ast.Inspect(root, func(nn ast.Node) bool {
			if cl, ok := nn.(*ast.CompositeLit); ok && types.Identical(info.TypeOf(cl), ctxT) {
				if m := litField(info, cl, "mode"); m != nil && constName(info, m) == "letExprMode" {
					letMode = true
				}
			}
			// a constructor of the context (newExprContext(source, scope, letExprMode)): the literal it stands for
			if call, ok := nn.(*ast.CallExpr); ok {
				if t := info.TypeOf(call); t != nil && (types.Identical(t, types.NewPointer(ctxT)) || types.Identical(t, ctxT)) {
					if lit := litOf(p.Constructed(call)); lit != nil {
						if m := litField(info, lit, "mode"); m != nil && constName(info, p.Resolve(m)) == "letExprMode" {
							letMode = true
						}
					}
				}
			}
			return true
		})
	}
	if !letMode {
		// the context may be built once before the statement loop and handed to the writer from the let case: the
		// variable passed there is defined once, by a literal in let mode
		for _, root := range letRegion {
			ast.Inspect(root, func(nn ast.Node) bool {
				call, ok := nn.(*ast.CallExpr)
				if !ok || len(call.Args) == 0 {
					return true
				}
				for _, a := range call.Args {
					if !types.Identical(info.TypeOf(a), types.NewPointer(ctxT)) && !types.Identical(info.TypeOf(a), ctxT) {
						continue
					}
					o := objOf(info, a)
					if o == nil || !p.neverReassigned(o) {
						continue
					}
					src := p.DefExpr(a) // the one definition of the variable: a literal, or a call of a constructor
					lit := litOf(src)
					if lit == nil {
						lit = litOf(p.Constructed(src))
					}
					if lit != nil && types.Identical(info.TypeOf(lit), ctxT) {
						if m := litField(info, lit, "mode"); m != nil && constName(info, m) == "letExprMode" {
							letMode = true
						}
					}
				}
				return true
			})
		}
	}
	r.Check(letMode, "C06/let-mode", fn+" let values are written in let mode", p.Pos(letCase.Pos()), "context has mode: letExprMode (only earlier bindings and constants allowed; C13/gate-let)", "the value of a let statement is not written in let mode: it could refer to columns")

	// the hole that writes the let value: class Closed, query variable nil, stored under the let's own name afterwards
	ct := g.classTable()
	var exprVar types.Object
	ast.Inspect(letFn.Body, func(nn ast.Node) bool {
		if id, ok := nn.(*ast.Ident); ok {
			if v, ok := info.Defs[id].(*types.Var); ok && TypeStr(v.Type()) == "*parser.TabularExpr" && exprVar == nil {
				exprVar = v
			}
		}
		return true
	})
	found := false
	worst, onlyContent, queryNil := clClosed, true, true
	var holePos token.Pos
	holeInHelper := false
	for _, o := range g.occs {
		if o.Ev.Kind != "HOLE" || !inLetRegion(o.Ev.Func, o.Ev.Call) {
			continue
		}
		found = true
		holePos = o.Ev.Call.Pos()
		worst = maxClass(worst, ct.provided(o, ""))
		if o.Prev != -1 {
			onlyContent = false
		}
		if o.Ev.Func != letFn {
			holeInHelper = true // decided at the helper's call in the let case, below
			continue
		}
		if exprVar != nil {
			if f := o.St.Get(p.ObjKey(exprVar)); f == nil || f.Nil != 1 {
				queryNil = false
			}
		}
	}
	if holeInHelper && exprVar != nil {
		// the value is written by a helper: at every call in the let case to a function that can reach the
		// expression writer, the query variable is known nil
		ac := &afterQueryClient{letCase: letCase, queryVar: exprVar, reaches: p.reachesWriter()}
		ae := NewEngine(p, pkg, letFn, ac)
		ae.Run(nil)
		if len(ae.Errs) > 0 || ac.calls == 0 || ac.bad > 0 {
			queryNil = false
		}
	}
	if found {
		r.Check(worst == clClosed && onlyContent, "C06/closed-value", fn+" let value", p.Pos(holePos), "the stored value is a Closed SQL fragment (acts as one operand wherever the identifier is used) and nothing else is in the buffer", fmt.Sprintf("a let value can be stored as a %s fragment (or with other text in front): substituted next to an operator, after a sign or before `[` it is regrouped or spells `--`", worst))
		r.Check(queryNil, "C06/after-query", fn+" lets after the query are skipped", p.Pos(holePos), "a let is evaluated only while no query statement has been seen", "a let statement written after the query is still evaluated and stored: it must have no effect")
	}
	if !found {
		r.Fail("C06/closed-value", fn+" let value", p.Pos(letCase.Pos()), "the let case does not write its value through an expression writer")
	}
	// store: scope[stmt.Name.Name] = <builder>.String() after the write
	stored := false
	// the let statement, as the case itself names it or as a helper of the case receives it
	isLetStmt := func(x ast.Expr) bool {
		o := objOf(info, x)
		if o == nil {
			return false
		}
		if o == clauseVar(info, letCase) {
			return true
		}
		// a parameter of a helper that the case calls with the statement
		hfd := p.FuncAt(o.Pos())
		if hfd == nil {
			return false
		}
		idx := paramIndex(info, hfd, o.(*types.Var))
		if idx < 0 {
			return false
		}
		bound := false
		for _, reg := range letRegion {
			ast.Inspect(reg, func(m ast.Node) bool {
				if call, isCall := m.(*ast.CallExpr); isCall && idx < len(call.Args) {
					if d, _ := p.DeclOf(Callee(info, call)); d == hfd && objOf(info, call.Args[idx]) == clauseVar(info, letCase) {
						bound = true
					}
				}
				return true
			})
		}
		return bound
	}
	for _, reg := range letRegion {
		ast.Inspect(reg, func(nn ast.Node) bool {
			as, ok := nn.(*ast.AssignStmt)
			if !ok || len(as.Lhs) != 1 || len(as.Rhs) != 1 {
				return true
			}
			ix, ok := as.Lhs[0].(*ast.IndexExpr)
			if !ok {
				return true
			}
			inFn := p.FuncAt(as.Pos())
			if inFn == nil {
				inFn = letFn
			}
			if ok2, _ := p.scopeProvenance(inFn, ix.X, 0); !ok2 {
				return true
			}
			// the text of a checked builder (directly, through a temporary, or returned by a helper that wrote it)
			if !p.assembledSQL(as.Rhs[0], 0) {
				return true
			}
			// key is the let's own name
			if ks, ok := ast.Unparen(ix.Index).(*ast.SelectorExpr); ok && ks.Sel.Name == "Name" {
				if inner, ok := ast.Unparen(ks.X).(*ast.SelectorExpr); ok && inner.Sel.Name == "Name" && isLetStmt(inner.X) {
					stored = true
				}
			}
			return true
		})
	}
	{
		// one scope: the contexts of the query, of the let values and of the join conditions, and the store of a
		// binding, all work on the same map - a second map that is filled separately leaves some expressions
		// (join conditions, row counts) without the bindings
		var names []string
		for o := range p.scopeRoots {
			names = append(names, o.Name()+" ("+p.Pos(o.Pos())+")")
		}
		sort.Strings(names)
		r.Check(len(names) <= 1, "C06/ctx", fn+" one scope for all expression contexts", p.Pos(compile.Pos()), "every expression context and the store of a let binding use the same map", "expression contexts (or the store of let bindings) use different maps: "+strings.Join(names, ", ")+"; a binding stored into one is invisible to the expressions written under another")
	}
	r.Check(stored, "C06/order", fn+" binding stored under the let's name", p.Pos(letCase.Pos()), "scope[stmt.Name.Name] = text written for stmt.X (later lets and the query see it; a later let of the same name overwrites)", "the let case does not store the written value under the statement's own name in the scope")

	// parameters are copied into the scope
	copied := false
	var copySites []ast.Node
	compileRegion := p.regionOf(pkg, compile.Body)
	inspectNodes := func(f func(ast.Node) bool) {
		for _, root := range compileRegion {
			ast.Inspect(root, f)
		}
	}
	inspectNodes(func(nn ast.Node) bool {
		rs, ok := nn.(*ast.RangeStmt)
		if !ok || rs.Tok != token.DEFINE {
			return true
		}
		if !p.allDefsAre(rs.X, func(x ast.Expr) bool { f := selField(info, x); return f != nil && f.Name() == "Parameters" }) {
			return true
		}
		ast.Inspect(rs.Body, func(m ast.Node) bool {
			if as, ok := m.(*ast.AssignStmt); ok && len(as.Lhs) == 1 {
				if ix, ok := as.Lhs[0].(*ast.IndexExpr); ok && objOf(info, ix.Index) == objOf(info, rs.Key) && objOf(info, as.Rhs[0]) == objOf(info, rs.Value) {
					if ok2, _ := p.scopeProvenance(p.FuncAt(ix.Pos()), ix.X, 0); ok2 {
						copied = true
						copySites = append(copySites, rs)
					}
				}
			}
			return true
		})
		return true
	})
	// the standard-library spelling of the same loop: maps.Copy(scope, opts.Parameters)
	inspectNodes(func(nn ast.Node) bool {
		call, ok := nn.(*ast.CallExpr)
		if !ok || len(call.Args) != 2 {
			return true
		}
		if f := Callee(info, call); f == nil || f.Pkg() == nil || f.Pkg().Path() != "maps" || f.Name() != "Copy" {
			return true
		}
		if f := selField(info, call.Args[1]); f == nil || f.Name() != "Parameters" {
			return true
		}
		if ok2, _ := p.scopeProvenance(p.FuncAt(call.Pos()), call.Args[0], 0); ok2 {
			copied = true
			copySites = append(copySites, call)
		}
		return true
	})
	// the parameters are the outermost bindings: they enter the scope before the first statement is looked at. A
	// copy that runs after (or inside) the statement loop puts a parameter on top of a let of the same name that the
	// query wrote later - and lets that were already evaluated have seen the other value
	var stmtLoop ast.Node
	p.ancestors(letCase, p.FuncAt(letCase.Pos()), func(anc, _ ast.Node) bool {
		switch anc.(type) {
		case *ast.ForStmt, *ast.RangeStmt:
			stmtLoop = anc
		}
		return true
	})
	for i, site := range copySites {
		if stmtLoop == nil || p.FuncAt(site.Pos()) != p.FuncAt(stmtLoop.Pos()) {
			continue
		}
		before := site.End() <= stmtLoop.Pos()
		r.Check(before, "C06/copy", fmt.Sprintf("%s parameter copy #%d runs before the statements", fn, i+1), p.Pos(site.Pos()), "the copy stands before the loop over the statements",
			"parameters are copied into the scope inside or after the loop over the statements: a let of the same name is overwritten by the parameter for the query, while lets evaluated earlier saw the let's value - one name with two meanings in one program")
	}
	r.Check(copied, "C06/copy", fn+" parameters enter the scope", p.Pos(compile.Pos()), "every parameter is copied into the fresh scope map (verbatim)", "the parameters are not copied key by key into the scope map")
}

// afterQueryClient: inside the let case, every call to a function that can reach the expression writer happens
// where the query variable is known nil.
type afterQueryClient struct {
	BaseClient
	InlinePredicates
	letCase    ast.Node
	queryVar   types.Object
	reaches    map[*types.Func]bool
	calls, bad int
}

func (c *afterQueryClient) PreCall(e *Engine, st *State, call *ast.CallExpr, callee *types.Func) *State {
	if callee == nil || !c.reaches[callee] || !e.Reporting() || len(e.Frames()) > 0 {
		return nil
	}
	if call.Pos() < c.letCase.Pos() || call.End() > c.letCase.End() {
		return nil
	}
	c.calls++
	if f := st.Get(e.objKey(c.queryVar)); f == nil || f.Nil != 1 {
		c.bad++
	}
	return nil
}

// reachesWriter: the functions of the compiler from which the recursive expression writer can be reached.
func (p *Program) reachesWriter() map[*types.Func]bool {
	if p.reachWriter != nil {
		return p.reachWriter
	}
	pkg := p.PQL
	we := FuncObj(pkg, p.MustFunc(pkg, "writeExpression"))
	calls := map[*types.Func][]*types.Func{}
	for _, fd := range AllFuncs(pkg) {
		from := FuncObj(pkg, fd)
		ast.Inspect(fd.Body, func(n ast.Node) bool {
			switch v := n.(type) {
			case *ast.CallExpr:
				if f := Callee(p.Info, v); f != nil {
					calls[from] = append(calls[from], f)
				}
			case *ast.Ident:
				if f, ok := p.Info.Uses[v].(*types.Func); ok && f.Pkg() == pkg.Types {
					calls[from] = append(calls[from], f)
				}
			}
			return true
		})
	}
	reaches := map[*types.Func]bool{we: true}
	for changed := true; changed; {
		changed = false
		for from, tos := range calls {
			if reaches[from] {
				continue
			}
			for _, t := range tos {
				if reaches[t] {
					reaches[from] = true
					changed = true
					break
				}
			}
		}
	}
	p.reachWriter = reaches
	return reaches
}

// onlyCalledFrom: fd is one of the helpers of the region and every call of it in the package lies inside the region.
func (p *Program) onlyCalledFrom(pkg *packages.Package, fd *ast.FuncDecl, region []ast.Node) bool {
	inRegion := func(n ast.Node) bool {
		for _, root := range region {
			if n.Pos() >= root.Pos() && n.End() <= root.End() {
				return true
			}
		}
		return false
	}
	if fd.Body == nil || !inRegion(fd.Body) {
		return false
	}
	fn, _ := pkg.TypesInfo.Defs[fd.Name].(*types.Func)
	if fn == nil {
		return false
	}
	ok := true
	for _, other := range AllFuncs(pkg) {
		ast.Inspect(other.Body, func(n ast.Node) bool {
			switch v := n.(type) {
			case *ast.CallExpr:
				if Callee(pkg.TypesInfo, v) == fn && !inRegion(v) {
					ok = false
				}
			case *ast.Ident:
				// the function used as a value escapes the region
				if pkg.TypesInfo.Uses[v] == fn && !p.isCallFun(pkg, other, v) {
					ok = false
				}
			}
			return true
		})
	}
	return ok
}

// isCallFun: id is (the selector of) the function position of a call expression inside fd.
func (p *Program) isCallFun(pkg *packages.Package, fd *ast.FuncDecl, id *ast.Ident) bool {
	found := false
	ast.Inspect(fd.Body, func(n ast.Node) bool {
		if call, ok := n.(*ast.CallExpr); ok {
			switch f := ast.Unparen(call.Fun).(type) {
			case *ast.Ident:
				if f == id {
					found = true
				}
			case *ast.SelectorExpr:
				if f.Sel == id {
					found = true
				}
			}
		}
		return !found
	})
	return found
}
