package pc

import (
	"fmt"
	"go/ast"
	"go/token"
	"go/types"
	"strings"
)

// ---- C16: the command-line tool (cmd/pql run and main).

type cliClient struct {
	BaseClient
	p        *Program
	fn       string
	compile  *types.Func
	prelude  types.Object // the prelude builder
	logErr   types.Object // the logError parameter
	output   types.Object // the io.Writer parameter
	loopEnd  token.Pos
	compiles int
	fprintfs int
	wrappers map[types.Object]bool // buffered writers wrapped around the output parameter
	pending  types.Object          // the builder holding not yet terminated input
	stmts    types.Object          // result of SplitStatements
}

// Inline: small helpers of the command (a compile-and-print function, predicates) are interpreted in place.
func (c *cliClient) Inline(e *Engine, call *ast.CallExpr, callee *types.Func, decl *ast.FuncDecl) bool {
	if callee.Pkg() == nil || callee.Pkg().Path() != PathMain || !smallBody(decl) {
		return false
	}
	loops := false
	ast.Inspect(decl.Body, func(n ast.Node) bool {
		switch n.(type) {
		case *ast.ForStmt, *ast.RangeStmt:
			loops = true
		}
		return true
	})
	return !loops
}

func isScannerErr(callee *types.Func) bool {
	return callee != nil && callee.FullName() == "(*bufio.Scanner).Err"
}

func (c *cliClient) PostCall(e *Engine, st *State, call *ast.CallExpr, callee *types.Func) *State {
	if objOf(e.Info, call.Fun) == c.logErr && c.logErr != nil {
		return st.WithExt("logged", "1")
	}
	if isScannerErr(callee) {
		return st.WithExt("errcalled", "1")
	}
	return nil
}

func (c *cliClient) PostAssign(e *Engine, st *State, lhs, rhs []ast.Expr, _ ast.Stmt) *State {
	if len(rhs) != 1 {
		return nil
	}
	call, ok := ast.Unparen(rhs[0]).(*ast.CallExpr)
	if !ok {
		return nil
	}
	callee := Callee(e.Info, call)
	// v := <prelude>.String(): a snapshot of the prelude, valid until the prelude is written again
	if sel, isSel := ast.Unparen(call.Fun).(*ast.SelectorExpr); isSel && sel.Sel.Name == "String" && c.prelude != nil && objOf(e.Info, sel.X) == c.prelude && len(lhs) == 1 {
		if o := objOf(e.Info, lhs[0]); o != nil {
			return st.WithExt("snap:"+e.objKey(o), "1")
		}
	}
	switch {
	case callee == c.compile && len(lhs) == 2:
		if k := e.CanonSt(st, lhs[1]); k.OK {
			st = st.WithExt("compileerr", k.Key)
		}
		if k := e.CanonSt(st, lhs[0]); k.OK {
			st = st.WithExt("compilesql", k.Key)
		} else {
			st = st.WithExt("compilesql", "")
		}
		// remember which statement expression was validated
		var idents []string
		ast.Inspect(call.Args[0], func(n ast.Node) bool {
			if id, ok := n.(*ast.Ident); ok {
				if o := objOf(e.Info, id); o != nil {
					if _, isVar := o.(*types.Var); isVar {
						idents = append(idents, e.objKey(o))
					}
				}
			}
			return true
		})
		return st.WithExt("compiledvars", strings.Join(idents, ","))
	case isScannerErr(callee) && len(lhs) == 1:
		if k := e.CanonSt(st, lhs[0]); k.OK {
			return st.WithExt("scanerr", k.Key)
		}
	}
	return nil
}

// ScopeEnd/Stmt: remember what is known about the Scanner.Err() result while its variable is in scope.
func (c *cliClient) ScopeEnd(e *Engine, st *State, _ ast.Node) *State { return c.noteReadErr(st) }
func (c *cliClient) Stmt(e *Engine, st *State, _ ast.Stmt) *State     { return c.noteReadErr(st) }

func (c *cliClient) noteReadErr(st *State) *State {
	k := st.Ext("scanerr")
	if k == "" {
		return nil
	}
	f := st.Get(k)
	switch {
	case f == nil:
		return nil
	case f.Nil == 1:
		return st.WithExt("readerr", "nil")
	case f.Nil == 2:
		return st.WithExt("readerr", "nonnil")
	}
	return nil
}

func (c *cliClient) PreCall(e *Engine, st *State, call *ast.CallExpr, callee *types.Func) *State {
	info := e.Info
	// C16/prelude: every Compile call is fed the prelude first.
	if callee == c.compile {
		c.compiles++
		key := fmt.Sprintf("%s call #%d of pql.Compile", c.where(e), c.ordinal(e, call, func(cc *ast.CallExpr) bool { return Callee(info, cc) == c.compile }))
		// the first operand of the concatenation, with temporaries and helper parameters looked through
		pieces := e.flattenConcat(call.Args[0], nil, 0)
		left := pieces[0]
		ok := false
		// a snapshot of the prelude taken earlier (prelude := letStatements.String()) with no write to the prelude since
		if o := objOf(info, left); o != nil && st.Ext("snap:"+e.objKey(o)) == "1" {
			ok = true
		}
		if lc, isCall := ast.Unparen(left).(*ast.CallExpr); isCall {
			if sel, isSel := ast.Unparen(lc.Fun).(*ast.SelectorExpr); isSel && sel.Sel.Name == "String" && objOf(info, sel.X) == c.prelude && c.prelude != nil {
				ok = true
			}
		}
		e.Site("C16/prelude", key, call, ok, "source starts with the accumulated let prelude")
		if !ok {
			e.Site("C16/prelude", key, call, false, "statement is compiled without the accumulated let statements in front: earlier bindings are silently out of scope for it")
		}
		return nil
	}
	// C16/let-on-success: the prelude only grows after the statement compiled.
	if sel, ok := ast.Unparen(call.Fun).(*ast.SelectorExpr); ok && objOf(info, sel.X) == c.prelude && c.prelude != nil && strings.HasPrefix(sel.Sel.Name, "Write") {
		// snapshots of the prelude taken before this write are stale now
		for k := range st.ext {
			if strings.HasPrefix(k, "snap:") {
				st = st.WithExt(k, "")
			}
		}
		key := fmt.Sprintf("%s prelude write #%d", c.where(e), c.ordinal(e, call, func(cc *ast.CallExpr) bool {
			s2, ok := ast.Unparen(cc.Fun).(*ast.SelectorExpr)
			return ok && objOf(info, s2.X) == c.prelude && strings.HasPrefix(s2.Sel.Name, "Write")
		}))
		errKey := st.Ext("compileerr")
		f := st.Get(errKey)
		ok := errKey != "" && f != nil && f.Nil == 1
		// what is written must be (part of) what was validated, or a constant
		if ok && len(call.Args) == 1 && constOf(info, call.Args[0]) == nil {
			if o := objOf(info, call.Args[0]); o == nil || !strings.Contains(","+st.Ext("compiledvars")+",", ","+e.objKey(o)+",") {
				ok = false
			}
		}
		e.Site("C16/let-on-success", key, call, ok, "prelude grows only under `err == nil` of the Compile call that validated this statement")
		if !ok {
			e.Site("C16/let-on-success", key, call, false, "the let prelude is extended on a path where the statement was not validated successfully: a failed let would poison every later statement")
		}
		return st
	}
	// a buffered wrapper around the output must be flushed before every return
	if sel, ok := ast.Unparen(call.Fun).(*ast.SelectorExpr); ok && sel.Sel.Name == "Flush" {
		if o := objOf(info, sel.X); o != nil && c.wrappers[o] {
			return st.WithExt("dirty:"+e.objKey(o), "")
		}
	}
	// C16/output: SQL is printed under err == nil, followed by a blank line. The write may be spelled
	// fmt.Fprintf(output, "%s\n\n", sql), io.WriteString(output, sql+"\n\n") or output.Write([]byte(sql+"\n\n")).
	if wr := c.outputWrite(e, call, callee); wr != nil {
		if o := objOf(info, e.ResolveExpr(wr.dst)); c.wrappers[o] {
			st = st.WithExt("dirty:"+e.objKey(o), "1")
		}
		c.fprintfs++
		key := fmt.Sprintf("%s output write #%d", c.where(e), c.ordinal(e, call, func(cc *ast.CallExpr) bool {
			return c.outputWrite(e, cc, Callee(info, cc)) != nil
		}))
		okFmt := wr.okShape
		errKey := st.Ext("compileerr")
		f := st.Get(errKey)
		okErr := errKey != "" && f != nil && f.Nil == 1
		okSQL := false
		if wr.sql != nil {
			if k := e.CanonSt(st, wr.sql); k.OK && k.Key == st.Ext("compilesql") {
				okSQL = true
			}
		}
		ok := okFmt && okErr && okSQL
		e.Site("C16/output", key, call, ok, "prints exactly the SQL of the Compile call that just succeeded, followed by a blank line")
		if !ok {
			var why []string
			if !okFmt {
				why = append(why, "what is written is not the SQL followed by \"\\n\\n\"")
			}
			if !okErr {
				why = append(why, "not dominated by `err == nil` of the Compile call")
			}
			if !okSQL {
				why = append(why, "the printed value is not the SQL returned by that Compile call")
			}
			e.Site("C16/output", key, call, false, "standard output would not be exactly the library's SQL plus a blank line: "+strings.Join(why, "; "))
		}
		return st
	}
	return nil
}

// outWrite: one write of SQL text to the output, whatever its spelling.
type outWrite struct {
	dst     ast.Expr
	sql     ast.Expr // the non-constant part
	okShape bool     // the text is <sql> followed by exactly "\n\n"
}

func (c *cliClient) outputWrite(e *Engine, call *ast.CallExpr, callee *types.Func) *outWrite {
	info := e.Info
	if c.output == nil {
		return nil
	}
	shape := func(x ast.Expr) (ast.Expr, bool) {
		pieces := e.flattenConcat(x, nil, 0)
		var sql ast.Expr
		tail := ""
		for _, pc := range pieces {
			if s, ok := constString(info, pc); ok {
				if sql == nil && s != "" {
					return nil, false // constant text before the SQL
				}
				tail += s
				continue
			}
			if sql != nil || tail != "" {
				return nil, false
			}
			sql = pc
		}
		return sql, sql != nil && tail == "\n\n"
	}
	switch {
	case callee != nil && callee.FullName() == "fmt.Fprintf" && len(call.Args) >= 2 && c.isOutput(e, call.Args[0]):
		w := &outWrite{dst: call.Args[0]}
		format, isConst := constString(info, call.Args[1])
		w.okShape = isConst && format == "%s\n\n" && len(call.Args) == 3
		if len(call.Args) == 3 {
			w.sql = call.Args[2]
		}
		return w
	case callee != nil && callee.FullName() == "io.WriteString" && len(call.Args) == 2 && c.isOutput(e, call.Args[0]):
		w := &outWrite{dst: call.Args[0]}
		w.sql, w.okShape = shape(call.Args[1])
		return w
	case callee != nil && (callee.FullName() == "fmt.Fprint" || callee.FullName() == "fmt.Fprintln") && len(call.Args) >= 2 && c.isOutput(e, call.Args[0]):
		return &outWrite{dst: call.Args[0]} // spacing rules of Fprint/Fprintln: not the documented format
	}
	// output.Write([]byte(text)) / output.WriteString(text)
	if sel, ok := ast.Unparen(call.Fun).(*ast.SelectorExpr); ok && len(call.Args) == 1 && (sel.Sel.Name == "Write" || sel.Sel.Name == "WriteString") && c.isOutput(e, sel.X) {
		w := &outWrite{dst: sel.X}
		arg := ast.Unparen(call.Args[0])
		if conv, ok := arg.(*ast.CallExpr); ok && len(conv.Args) == 1 {
			if tv, isT := info.Types[conv.Fun]; isT && tv.IsType() {
				arg = conv.Args[0]
			}
		}
		w.sql, w.okShape = shape(arg)
		return w
	}
	return nil
}

// isOutput: x is the output writer of run (or a buffered wrapper of it), possibly through a helper's parameter.
func (c *cliClient) isOutput(e *Engine, x ast.Expr) bool {
	o := objOf(e.Info, e.ResolveExpr(x))
	return o != nil && (o == c.output || c.wrappers[o])
}

func (c *cliClient) where(e *Engine) string {
	if k := e.FrameKey(); k != "" {
		return c.fn + " > " + k
	}
	return c.fn
}

func (c *cliClient) ordinal(e *Engine, call *ast.CallExpr, match func(*ast.CallExpr) bool) int {
	n, idx := 0, 0
	ast.Inspect(e.CurFunc().Body, func(x ast.Node) bool {
		if cc, ok := x.(*ast.CallExpr); ok && match(cc) {
			n++
			if cc == call {
				idx = n
			}
		}
		return true
	})
	return idx
}

func (c *cliClient) Return(e *Engine, st *State, ret *ast.ReturnStmt) {
	if !e.Reporting() || e.Lit != nil || ret == nil || len(ret.Results) != 1 {
		return
	}
	res := ret.Results[0]
	key := fmt.Sprintf("%s return #%d", c.fn, returnOrdinal(e.Func, ret))
	nn := knownNonNilError(e, st, res)
	for w := range c.wrappers {
		dirty := st.Ext("dirty:"+e.objKey(w)) == "1"
		e.Site("C16/output", key+" output flushed", ret, !dirty, "nothing is left in a buffered writer when run returns")
		if dirty {
			e.Site("C16/output", key+" output flushed", ret, false, "SQL was written to a buffered wrapper of the output that is not flushed on this path to the return: the SQL of accepted statements is dropped")
		}
	}
	// C16/sticky
	if st.Ext("logged") == "1" {
		e.Site("C16/sticky", key, ret, nn, "a path that reported a failed statement returns a non-nil error")
		if !nn {
			e.Site("C16/sticky", key, ret, false, "a statement failed (logError was called) on a path to this return, but the returned error is not known to be non-nil: exit status 0 after a failure")
		}
	} else {
		e.Site("C16/sticky", key, ret, true, "no failure was reported on the paths reaching this return")
	}
	// C16/readerr: returns after the read loop must have consulted Scanner.Err
	if c.loopEnd.IsValid() && ret.Pos() > c.loopEnd {
		direct := false
		if call, ok := ast.Unparen(res).(*ast.CallExpr); ok && isScannerErr(Callee(e.Info, call)) {
			direct = true
		}
		called := st.Ext("errcalled") == "1" || direct
		flows := true
		if !direct {
			switch st.Ext("readerr") {
			case "nil":
			case "nonnil":
				flows = nn
			default:
				flows = nn // result of Err() never tested on this path
			}
		}
		ok := called && flows
		e.Site("C16/readerr", key, ret, ok, "Scanner.Err() was consulted after the read loop and a non-nil result is returned")
		if !ok {
			msg := "the read loop can end because of a read error (e.g. a line longer than the scanner buffer) and this return is reached without consulting Scanner.Err(): input is dropped silently with exit status 0"
			if called {
				msg = "Scanner.Err() is called but a non-nil result does not reach the returned error"
			}
			e.Site("C16/readerr", key, ret, false, msg)
		}
	}
}

func ruleC16(p *Program, r *Run) {
	pkg := p.Main
	info := pkg.TypesInfo
	fd := p.MustFunc(pkg, "run")
	fn := FuncName(pkg, fd)
	r.Saw(fn)
	c := &cliClient{p: p, fn: fn, compile: FuncObj(p.PQL, p.MustFunc(p.PQL, "Compile")), wrappers: map[types.Object]bool{}}
	for _, f := range fd.Type.Params.List {
		for _, n := range f.Names {
			switch TypeStr(info.TypeOf(f.Type)) {
			case "func(error)":
				c.logErr = info.Defs[n]
			case "io.Writer":
				c.output = info.Defs[n]
			}
		}
	}
	if c.logErr == nil || c.output == nil {
		fatalf("anchor not found: run's io.Writer / func(error) parameters")
	}
	// buffered writers around the output: w := bufio.NewWriter(output)
	ast.Inspect(fd.Body, func(n ast.Node) bool {
		as, ok := n.(*ast.AssignStmt)
		if !ok || len(as.Lhs) != 1 || len(as.Rhs) != 1 {
			return true
		}
		if call, ok := as.Rhs[0].(*ast.CallExpr); ok && len(call.Args) >= 1 && objOf(info, call.Args[0]) == c.output {
			if f := Callee(info, call); f != nil && strings.HasPrefix(f.FullName(), "bufio.NewWriter") {
				c.wrappers[objOf(info, as.Lhs[0])] = true
			}
		}
		return true
	})
	ruleC16Carry(p, r, fd)
	// the prelude builder: the builder whose String() is the leftmost operand of some Compile call
	// and which is written to inside run.
	written := map[types.Object]bool{}
	ast.Inspect(fd.Body, func(n ast.Node) bool {
		if call, ok := n.(*ast.CallExpr); ok {
			if sel, ok := ast.Unparen(call.Fun).(*ast.SelectorExpr); ok && strings.HasPrefix(sel.Sel.Name, "Write") && isBuilder(info, sel.X) {
				written[objOf(info, sel.X)] = true
			}
		}
		return true
	})
	cands := map[types.Object]int{}
	ast.Inspect(fd.Body, func(n ast.Node) bool {
		call, ok := n.(*ast.CallExpr)
		if !ok || Callee(info, call) != c.compile {
			return true
		}
		left := call.Args[0]
		for {
			b, ok := ast.Unparen(left).(*ast.BinaryExpr)
			if !ok || b.Op != token.ADD {
				break
			}
			left = b.X
		}
		if lc, ok := ast.Unparen(left).(*ast.CallExpr); ok {
			if sel, ok := ast.Unparen(lc.Fun).(*ast.SelectorExpr); ok && sel.Sel.Name == "String" && isBuilder(info, sel.X) {
				if o := objOf(info, sel.X); written[o] {
					cands[o]++
				}
			}
		}
		return true
	})
	// the prelude is the candidate that is only ever appended to (never Reset)
	for o := range cands {
		reset := false
		ast.Inspect(fd.Body, func(n ast.Node) bool {
			if call, ok := n.(*ast.CallExpr); ok {
				if sel, ok := ast.Unparen(call.Fun).(*ast.SelectorExpr); ok && sel.Sel.Name == "Reset" && objOf(info, sel.X) == o {
					reset = true
				}
			}
			return true
		})
		if !reset && (c.prelude == nil || cands[o] > cands[c.prelude]) {
			c.prelude = o
		}
	}
	if c.prelude == nil {
		r.Fail("C16/prelude", fn+" prelude builder", p.Pos(fd.Pos()), "no accumulated let prelude is passed to any pql.Compile call")
	}
	// the read loop
	ast.Inspect(fd.Body, func(n ast.Node) bool {
		if fs, ok := n.(*ast.ForStmt); ok && fs.Cond != nil {
			if call, ok := ast.Unparen(fs.Cond).(*ast.CallExpr); ok {
				if f := Callee(info, call); f != nil && f.FullName() == "(*bufio.Scanner).Scan" {
					c.loopEnd = fs.End()
				}
			}
		}
		return true
	})
	if !c.loopEnd.IsValid() {
		r.Fail("C16/readerr", fn+" read loop", p.Pos(fd.Pos()), "no `for scanner.Scan()` loop found: input handling changed, rule cannot be applied")
	}
	e := NewEngine(p, pkg, fd, c)
	e.Run(nil)
	for _, m := range e.Errs {
		r.Fail("C16/prelude", fn+" engine", "-", m)
	}
	e.FlushSites(r)
	r.Floor("C16/prelude", 3)
	r.Floor("C16/readerr", 1)
	r.Floor("C16/sticky", 2)
	r.Floor("C16/let-on-success", 2)
	r.Floor("C16/output", 2)

	// the flag variable is never reset to nil
	ast.Inspect(fd.Body, func(n ast.Node) bool {
		as, ok := n.(*ast.AssignStmt)
		if !ok || as.Tok != token.ASSIGN {
			return true
		}
		for i, l := range as.Lhs {
			if i < len(as.Rhs) && isNilIdent(info, as.Rhs[i]) && TypeStr(info.TypeOf(l)) == "error" {
				r.Fail("C16/sticky", fn+" reset of "+exprStr(l), p.Pos(as.Pos()), "an error variable is reset to nil: the failure flag is not sticky")
			}
		}
		return true
	})

	ruleC16Exit(p, r)
}

// C16/exit: main turns a non-nil error into a non-zero exit status, and RunE returns run's error.
type exitClient struct {
	BaseClient
	fn      string
	errKey  string
	runFunc *types.Func
}

func (c *exitClient) PostAssign(e *Engine, st *State, lhs, rhs []ast.Expr, _ ast.Stmt) *State {
	if len(rhs) == 1 && len(lhs) == 1 {
		if call, ok := ast.Unparen(rhs[0]).(*ast.CallExpr); ok {
			if sel, ok := ast.Unparen(call.Fun).(*ast.SelectorExpr); ok && sel.Sel.Name == "ExecuteContext" {
				if k := e.CanonSt(st, lhs[0]); k.OK {
					return st.WithExt("execerr", k.Key)
				}
			}
			if Callee(e.Info, call) == c.runFunc && e.Lit != nil {
				return e.SetTag(st, lhs[0], "runerr")
			}
		}
	}
	return nil
}

func (c *exitClient) PreAssign(e *Engine, st *State, lhs, rhs []ast.Expr, _ ast.Stmt) *State {
	if e.Lit == nil {
		return nil
	}
	for _, l := range lhs {
		if e.HasTag(st, l, "runerr") && !e.IsNil(st, l) {
			e.Site("C16/exit", c.fn+" RunE overwrites run's error", l, false, "the error returned by run can be overwritten while non-nil: a failed statement would not reach the exit status")
		}
	}
	return nil
}

func (c *exitClient) PreCall(e *Engine, st *State, call *ast.CallExpr, callee *types.Func) *State {
	if callee == nil || callee.FullName() != "os.Exit" || e.Lit != nil {
		return nil
	}
	v, ok := constInt(e.Info, call.Args[0])
	e.Site("C16/exit", c.fn+" os.Exit status", call, ok && v != 0, "exits with a non-zero constant")
	if !(ok && v != 0) {
		e.Site("C16/exit", c.fn+" os.Exit status", call, false, "os.Exit is called with a status that is not a non-zero constant")
	}
	return st.WithExt("exited", "1")
}

func (c *exitClient) Return(e *Engine, st *State, ret *ast.ReturnStmt) {
	if !e.Reporting() {
		return
	}
	if e.Lit != nil {
		// RunE: a return after run(...) must return the variable carrying run's error (or something non-nil)
		if ret == nil || len(ret.Results) != 1 {
			return
		}
		hasRun := false
		for _, f := range st.facts {
			if hasStr(f.Tags, "runerr") {
				hasRun = true
			}
		}
		if !hasRun {
			return
		}
		ok := e.HasTag(st, ret.Results[0], "runerr") || knownNonNilError(e, st, ret.Results[0])
		e.Site("C16/exit", c.fn+" RunE returns run's error", ret, ok, "the closure returns the error of run")
		if !ok {
			e.Site("C16/exit", c.fn+" RunE returns run's error", ret, false, "the command's RunE does not return the error produced by run")
		}
		return
	}
	k := st.Ext("execerr")
	if k == "" {
		return
	}
	f := st.Get(k)
	ok := st.Ext("exited") == "1" || (f != nil && f.Nil == 1)
	var node ast.Node = e.Func
	if ret != nil {
		node = ret
	}
	e.Site("C16/exit", c.fn+" falls off only when the command succeeded", node, ok, "main returns normally only with a nil error")
	if !ok {
		e.Site("C16/exit", c.fn+" falls off only when the command succeeded", node, false, "main can return normally (status 0) although ExecuteContext returned an error")
	}
}

func ruleC16Exit(p *Program, r *Run) {
	pkg := p.Main
	fd := p.MustFunc(pkg, "main")
	fn := FuncName(pkg, fd)
	r.Saw(fn)
	c := &exitClient{fn: fn, runFunc: FuncObj(pkg, p.MustFunc(pkg, "run"))}
	e := NewEngine(p, pkg, fd, c)
	e.Run(nil)
	for _, m := range e.Errs {
		r.Fail("C16/exit", fn+" engine", "-", m)
	}
	e.FlushSites(r)
	r.Floor("C16/exit", 3)
}

// ruleC16Carry: the text that is split and compiled is exactly the text that was read.
//   - the pending buffer only ever receives a line's bytes, the line terminator, and - right after Reset - the
//     unmodified last piece of the split;
//   - SplitStatements is applied to the pending buffer's contents;
//   - the statements compiled inside the loop are the range values over all pieces but the last, unmodified;
//   - the statement compiled at end of input is the pending buffer's contents, unmodified.
func ruleC16Carry(p *Program, r *Run, fd *ast.FuncDecl) {
	pkg := p.Main
	info := pkg.TypesInfo
	fn := FuncName(pkg, fd)
	split := FuncObj(p.Parser, p.MustFunc(p.Parser, "SplitStatements"))
	compile := FuncObj(p.PQL, p.MustFunc(p.PQL, "Compile"))
	// locate: statements := parser.SplitStatements(<pending>.String())
	var stmts, pending types.Object
	ast.Inspect(fd.Body, func(n ast.Node) bool {
		as, ok := n.(*ast.AssignStmt)
		if !ok || len(as.Rhs) != 1 || len(as.Lhs) != 1 {
			return true
		}
		call, ok := as.Rhs[0].(*ast.CallExpr)
		if !ok || Callee(info, call) != split || len(call.Args) != 1 {
			return true
		}
		stmts = objOf(info, as.Lhs[0])
		if c2, ok := ast.Unparen(call.Args[0]).(*ast.CallExpr); ok {
			if sel, ok := ast.Unparen(c2.Fun).(*ast.SelectorExpr); ok && sel.Sel.Name == "String" && isBuilder(info, sel.X) {
				pending = objOf(info, sel.X)
			}
		}
		return true
	})
	r.Check(stmts != nil && pending != nil, "C16/carry", fn+" splits the pending buffer", p.Pos(fd.Pos()), "SplitStatements(pending.String())", "the input is not split by applying parser.SplitStatements to the contents of the pending-text buffer")
	if stmts == nil || pending == nil {
		return
	}
	isLastPiece := func(e ast.Expr) bool {
		ix, ok := p.DefExpr(e).(*ast.IndexExpr)
		return ok && objOf(info, ix.X) == stmts && isLenMinus1(info, p.DefExpr(ix.Index), stmts)
	}
	// every write into the pending buffer
	n := 0
	ast.Inspect(fd.Body, func(x ast.Node) bool {
		call, ok := x.(*ast.CallExpr)
		if !ok {
			return true
		}
		sel, ok := ast.Unparen(call.Fun).(*ast.SelectorExpr)
		if !ok || objOf(info, sel.X) != pending || !strings.HasPrefix(sel.Sel.Name, "Write") || len(call.Args) != 1 {
			return true
		}
		n++
		key := fmt.Sprintf("%s write #%d into the pending buffer: %s", fn, n, exprStr(call.Args[0]))
		arg := ast.Unparen(call.Args[0])
		ok2, how := false, ""
		switch {
		case isLastPiece(arg):
			// must directly follow Reset()
			if blk, isBlk := p.Parent(p.Parent(call)).(*ast.BlockStmt); isBlk {
				for i, s := range blk.List {
					if es, isES := s.(*ast.ExprStmt); isES && es.X == ast.Expr(call) && i > 0 {
						if prev, isES2 := blk.List[i-1].(*ast.ExprStmt); isES2 {
							if pc, isCall := prev.X.(*ast.CallExpr); isCall {
								if ps, isSel := pc.Fun.(*ast.SelectorExpr); isSel && ps.Sel.Name == "Reset" && objOf(info, ps.X) == pending {
									ok2, how = true, "the unterminated last piece is carried over unchanged after Reset"
								}
							}
						}
					}
				}
			}
			if !ok2 {
				how = "the last piece is appended without resetting the buffer first"
			}
		default:
			if c2, isCall := arg.(*ast.CallExpr); isCall {
				if f := Callee(info, c2); f != nil && (f.FullName() == "(*bufio.Scanner).Bytes" || f.FullName() == "(*bufio.Scanner).Text") {
					ok2, how = true, "the bytes of the line just read"
				}
			}
			if v, isC := constInt(info, arg); isC && v == '\n' {
				ok2, how = true, "the line terminator"
			}
			if s2, isS := constString(info, arg); isS && s2 == "\n" {
				ok2, how = true, "the line terminator"
			}
			if !ok2 {
				how = "the pending text is altered (" + exprStr(arg) + "): only a line's bytes, the line terminator and the unmodified last piece may be written"
			}
		}
		r.Check(ok2, "C16/carry", key, p.Pos(call.Pos()), how, how+" - statements spread over lines would be glued or cut differently from what was typed")
		return true
	})
	// compiled statements: range value over statements[:len-1], or the pending contents at end of input
	var rangeVal types.Object
	ast.Inspect(fd.Body, func(x ast.Node) bool {
		rs, ok := x.(*ast.RangeStmt)
		if !ok || rs.Value == nil {
			return true
		}
		if sl, ok := p.DefExpr(rs.X).(*ast.SliceExpr); ok && objOf(info, sl.X) == stmts && sl.Low == nil && isLenMinus1(info, p.DefExpr(sl.High), stmts) {
			rangeVal = objOf(info, rs.Value)
		}
		return true
	})
	r.Check(rangeVal != nil, "C16/carry", fn+" every terminated piece is visited", p.Pos(fd.Pos()), "for _, stmt := range statements[:len(statements)-1]", "the loop over the split result does not visit exactly all pieces but the last")
	var tailVar types.Object
	ast.Inspect(fd.Body, func(x ast.Node) bool {
		as, ok := x.(*ast.AssignStmt)
		if !ok || len(as.Lhs) != 1 || len(as.Rhs) != 1 {
			return true
		}
		if c2, ok := as.Rhs[0].(*ast.CallExpr); ok {
			if sel, ok := ast.Unparen(c2.Fun).(*ast.SelectorExpr); ok && sel.Sel.Name == "String" && objOf(info, sel.X) == pending && Callee(info, c2) != nil {
				if _, isSplitArg := p.Parent(c2).(*ast.CallExpr); !isSplitArg {
					tailVar = objOf(info, as.Lhs[0])
				}
			}
		}
		return true
	})
	// the Compile calls of run, and those of the small helpers run calls (with the helper's parameters replaced by
	// the arguments of the call)
	type compileSite struct {
		call *ast.CallExpr
		src  ast.Expr
	}
	var sites []compileSite
	ast.Inspect(fd.Body, func(x ast.Node) bool {
		call, ok := x.(*ast.CallExpr)
		if !ok {
			return true
		}
		callee := Callee(info, call)
		if callee == compile {
			sites = append(sites, compileSite{call, call.Args[0]})
			return true
		}
		decl, dpkg := p.DeclOf(callee)
		if decl == nil || dpkg != pkg || decl == fd {
			return true
		}
		env := map[types.Object]ast.Expr{}
		i := 0
		for _, f := range decl.Type.Params.List {
			for _, nm := range f.Names {
				if o := info.Defs[nm]; o != nil && i < len(call.Args) && p.neverReassigned(o) {
					env[o] = call.Args[i]
				}
				i++
			}
		}
		ast.Inspect(decl.Body, func(y ast.Node) bool {
			if c2, ok := y.(*ast.CallExpr); ok && Callee(info, c2) == compile && len(c2.Args) == 1 {
				sites = append(sites, compileSite{c2, p.Subst(c2.Args[0], env)})
			}
			return true
		})
		return true
	})
	k := 0
	for _, site := range sites {
		call := site.call
		k++
		// operands of the + chain other than the leading prelude and constant suffixes
		var ops []ast.Expr
		var flat func(e ast.Expr)
		flat = func(e ast.Expr) {
			if b, ok := p.Resolve(e).(*ast.BinaryExpr); ok && b.Op == token.ADD {
				flat(b.X)
				flat(b.Y)
				return
			}
			ops = append(ops, p.Resolve(e))
		}
		flat(site.src)
		var vars []types.Object
		okShape := true
		for i, o := range ops {
			if _, isConst := constString(info, o); isConst {
				continue
			}
			if c2, isCall := o.(*ast.CallExpr); isCall && i == 0 {
				if sel, ok := ast.Unparen(c2.Fun).(*ast.SelectorExpr); ok && sel.Sel.Name == "String" && isBuilder(info, sel.X) {
					continue
				}
			}
			// a leading variable holding the contents of a builder (the prelude hoisted into a local; C16/prelude
			// checks that it is current)
			if i == 0 && p.allDefsAre(o, func(x ast.Expr) bool {
				c3, isCall := x.(*ast.CallExpr)
				if !isCall {
					return false
				}
				sel, ok := ast.Unparen(c3.Fun).(*ast.SelectorExpr)
				return ok && sel.Sel.Name == "String" && isBuilder(info, sel.X)
			}) {
				continue
			}
			if ob := objOf(info, o); ob != nil {
				vars = append(vars, ob)
				continue
			}
			okShape = false
		}
		okStmt := okShape && len(vars) == 1 && (vars[0] == rangeVal || (tailVar != nil && vars[0] == tailVar))
		key := fmt.Sprintf("%s statement text of Compile call #%d", fn, k)
		r.Check(okStmt, "C16/carry", key, p.Pos(call.Pos()), "the piece produced by the split (or the pending text at end of input), unmodified", "the text handed to pql.Compile is not exactly one piece of the split / the pending text: "+exprStr(site.src))
	}
	r.Floor("C16/carry", 7)
}
