package pc

import (
	"fmt"
	"go/ast"
	"go/token"
	"go/types"
	"os"
	"sort"
	"strings"
)

// ---- C16: the command-line tool (cmd/pql run and main).

type cliClient struct {
	BaseClient
	p        *Program
	fn       string
	compile  *types.Func
	compileM *types.Func  // (*CompileOptions).Compile: the same entry point with options
	prelude  types.Object // the prelude builder
	logErr   types.Object // the logError parameter
	output   types.Object // the io.Writer parameter
	loopEnd  token.Pos
	compiles int
	fprintfs int
	wrappers map[types.Object]bool // buffered writers wrapped around the output parameter
	pending  types.Object          // the builder holding not yet terminated input
	stmts    types.Object          // result of SplitStatements
	rel      map[*ast.FuncDecl]bool
}

// Inline: small helpers of the command (a compile-and-print function, predicates) are interpreted in place.
func (c *cliClient) Inline(e *Engine, call *ast.CallExpr, callee *types.Func, decl *ast.FuncDecl) bool {
	if callee.Pkg() == nil || callee.Pkg().Path() != PathMain || !smallBody(decl) {
		return false
	}
	loops := false
	ast.Inspect(decl.Body, func(n ast.Node) bool {
		switch n.(type) {
		case *ast.ForStmt, *ast.RangeStmt:
			loops = true
		}
		return true
	})
	// a helper with a loop is interpreted in place only when it takes part in the work this rule looks at
	// (compiles, splits, or touches a text buffer) - a loop over file descriptors or flags need not stabilise
	return !loops || c.relevant(decl, 0)
}

// relevant: the function (or a function of the command it calls) compiles or splits statements or uses a builder.
func (c *cliClient) relevant(decl *ast.FuncDecl, depth int) bool {
	if c.rel == nil {
		c.rel = map[*ast.FuncDecl]bool{}
	}
	if v, ok := c.rel[decl]; ok {
		return v
	}
	c.rel[decl] = false
	info := c.p.Info
	found := false
	ast.Inspect(decl.Body, func(n ast.Node) bool {
		call, ok := n.(*ast.CallExpr)
		if !ok || found {
			return !found
		}
		f := Callee(info, call)
		if f != nil && (c.isCompile(f) || f.Pkg() != nil && f.Pkg().Path() == PathParser && fnName(f) == "SplitStatements") {
			found = true
			return false
		}
		if sel, isSel := ast.Unparen(call.Fun).(*ast.SelectorExpr); isSel && isBuilder(info, sel.X) {
			found = true
			return false
		}
		if d2, dpkg := c.p.DeclOf(f); d2 != nil && dpkg == c.p.Main && depth < 4 && c.relevant(d2, depth+1) {
			found = true
			return false
		}
		return true
	})
	c.rel[decl] = found
	return found
}

// isCompile: the library's entry point, as the package function or as the method with options.
func (c *cliClient) isCompile(f *types.Func) bool {
	return f != nil && (f == c.compile || f == c.compileM)
}

func isScannerErr(callee *types.Func) bool {
	return callee != nil && callee.FullName() == "(*bufio.Scanner).Err"
}

func (c *cliClient) PostCall(e *Engine, st *State, call *ast.CallExpr, callee *types.Func) *State {
	if c.logErr != nil && c.ent(e, call.Fun) == c.logErr {
		return st.WithExt("logged", "1")
	}
	if isScannerErr(callee) {
		return st.WithExt("errcalled", "1")
	}
	return nil
}

func (c *cliClient) PostAssign(e *Engine, st *State, lhs, rhs []ast.Expr, _ ast.Stmt) *State {
	if len(rhs) != 1 {
		return nil
	}
	call, ok := ast.Unparen(rhs[0]).(*ast.CallExpr)
	if !ok {
		return nil
	}
	callee := Callee(e.Info, call)
	// v := <prelude>.String(): a snapshot of the prelude, valid until the prelude is written again
	if sel, isSel := ast.Unparen(call.Fun).(*ast.SelectorExpr); isSel && sel.Sel.Name == "String" && c.prelude != nil && c.ent(e, sel.X) == c.prelude && len(lhs) == 1 {
		if o := objOf(e.Info, lhs[0]); o != nil {
			return st.WithExt("snap:"+e.objKey(o), "1")
		}
	}
	switch {
	case c.isCompile(callee) && len(lhs) == 2:
		st = e.DropTags(st, "compileerr")
		if k := e.CanonSt(st, lhs[1]); k.OK {
			st = st.WithExt("compileerr", k.Key).WithExt("compileres", "")
			st = e.SetTag(st, lhs[1], "compileerr") // the value keeps its tag when it is returned or copied
		}
		if k := e.CanonSt(st, lhs[0]); k.OK {
			st = st.WithExt("compilesql", k.Key)
		} else {
			st = st.WithExt("compilesql", "")
		}
		// remember which statement expression was validated
		var idents []string
		ast.Inspect(call.Args[0], func(n ast.Node) bool {
			if id, ok := n.(*ast.Ident); ok {
				if o := objOf(e.Info, id); o != nil {
					if _, isVar := o.(*types.Var); isVar {
						idents = append(idents, e.objKey(o))
					}
				}
				// a parameter of a helper interpreted in place: the variables of what was passed
				if rx := e.ResolveExpr(id); rx != ast.Expr(id) {
					ast.Inspect(rx, func(m ast.Node) bool {
						if id2, ok := m.(*ast.Ident); ok {
							if o, isVar := objOf(e.Info, id2).(*types.Var); isVar {
								idents = append(idents, e.objKey(o))
							}
						}
						return true
					})
				}
			}
			return true
		})
		return st.WithExt("compiledvars", strings.Join(idents, ","))
	case isScannerErr(callee) && len(lhs) == 1:
		if k := e.CanonSt(st, lhs[0]); k.OK {
			return st.WithExt("scanerr", k.Key)
		}
	}
	return nil
}

// ScopeEnd/Stmt: remember what is known about the Scanner.Err() result while its variable is in scope.
func (c *cliClient) ScopeEnd(e *Engine, st *State, n ast.Node) *State {
	out := st
	// what is known about the error of the last Compile call is kept when its variable goes out of scope
	// (if _, err := pql.Compile(...); err != nil { ...; return })
	if st.Ext("compileerr") != "" {
		lo, hi := e.P.Fset.Position(n.Pos()).Offset, e.P.Fset.Position(n.End()).Offset
		for _, k := range st.Keys() {
			f := st.Get(k)
			if f == nil || !hasStr(f.Tags, "compileerr") || !extMentionsScope(k, lo, hi) {
				continue
			}
			switch f.Nil {
			case 1:
				out = out.WithExt("compileres", "nil")
			case 2:
				out = out.WithExt("compileres", "nonnil")
			}
		}
	}
	if r := c.noteReadErr(out); r != nil {
		return r
	}
	if out != st {
		return out
	}
	return nil
}

// compileOK: the error of the most recent Compile call is known to be nil on this path.
func (c *cliClient) compileOK(st *State) bool {
	errKey := st.Ext("compileerr")
	if errKey == "" {
		return false
	}
	if f := st.Get(errKey); f != nil && (f.Nil == 1 || f.Nil == 2) {
		return f.Nil == 1
	}
	// the error was handed on (returned by a helper, copied): any variable still carrying it
	for _, k := range st.Keys() {
		if f := st.Get(k); f != nil && hasStr(f.Tags, "compileerr") && (f.Nil == 1 || f.Nil == 2) {
			return f.Nil == 1
		}
	}
	return st.Ext("compileres") == "nil"
}
func (c *cliClient) Stmt(e *Engine, st *State, _ ast.Stmt) *State { return c.noteReadErr(st) }

func (c *cliClient) noteReadErr(st *State) *State {
	k := st.Ext("scanerr")
	if k == "" {
		return nil
	}
	// (*bufio.Scanner).Err never returns io.EOF: a path on which its result is found to be io.EOF is one on which
	// nothing went wrong (the defensive `err != nil && err != io.EOF`)
	for _, rk := range st.Keys() {
		if strings.HasPrefix(rk, "(") && strings.Contains(rk, " == ") && strings.Contains(rk, k) && strings.Contains(rk, "io.EOF") {
			if g := st.Get(rk); g != nil && g.HasEq && g.Eq == "true" && st.Ext("readerr") != "nil" {
				return st.WithExt("readerr", "nil")
			}
		}
	}
	f := st.Get(k)
	switch {
	case f == nil:
		return nil
	case f.Nil == 1:
		return st.WithExt("readerr", "nil")
	case f.Nil == 2:
		if st.Ext("readerr") == "nil" {
			return nil // found to be io.EOF above
		}
		return st.WithExt("readerr", "nonnil")
	}
	return nil
}

func (c *cliClient) PreCall(e *Engine, st *State, call *ast.CallExpr, callee *types.Func) *State {
	info := e.Info
	// C16/prelude: every Compile call is fed the prelude first.
	if c.isCompile(callee) {
		c.compiles++
		key := fmt.Sprintf("%s call #%d of pql.Compile", c.where(e), c.ordinal(e, call, func(cc *ast.CallExpr) bool { return c.isCompile(Callee(info, cc)) }))
		// the first operand of the concatenation, with temporaries and helper parameters looked through
		pieces := e.flattenConcat(call.Args[0], nil, 0)
		left := pieces[0]
		ok := false
		// a snapshot of the prelude taken earlier (prelude := letStatements.String()) with no write to the prelude since
		if o := objOf(info, left); o != nil && st.Ext("snap:"+e.objKey(o)) == "1" {
			ok = true
		}
		if lc, isCall := ast.Unparen(left).(*ast.CallExpr); isCall {
			if sel, isSel := ast.Unparen(lc.Fun).(*ast.SelectorExpr); isSel && sel.Sel.Name == "String" && c.prelude != nil && c.ent(e, sel.X) == c.prelude {
				ok = true
			}
		}
		e.Site("C16/prelude", key, call, ok, "source starts with the accumulated let prelude")
		if !ok {
			e.Site("C16/prelude", key, call, false, "statement is compiled without the accumulated let statements in front: earlier bindings are silently out of scope for it")
		}
		// C16/readerr: what is still pending when the read loop ends is a statement only if the input was read
		// completely; after a read error it is a fragment (the lines before the failure)
		at := call.Pos()
		if fr := e.Frames(); len(fr) > 0 {
			at = fr[0].Call.Pos()
		}
		if c.loopEnd.IsValid() && at > c.loopEnd && e.Lit == nil {
			rkey := key + " after the read loop"
			okRead := st.Ext("readerr") == "nil"
			e.Site("C16/readerr", rkey, call, okRead, "the pending text is compiled only once Scanner.Err() is known to be nil")
			if !okRead {
				e.Site("C16/readerr", rkey, call, false, "the text that is pending when the read loop ends is compiled on a path where Scanner.Err() has not been found to be nil: after a read error that text is a fragment of a statement, and its SQL would be printed as if the fragment had been given")
			}
		}
		return nil
	}
	// C16/let-on-success: the prelude only grows after the statement compiled.
	if written, isPW := c.preludeWrite(e, call); isPW {
		// snapshots of the prelude taken before this write are stale now
		for k := range st.ext {
			if strings.HasPrefix(k, "snap:") {
				st = st.WithExt(k, "")
			}
		}
		key := fmt.Sprintf("%s prelude write #%d", c.where(e), c.ordinal(e, call, func(cc *ast.CallExpr) bool {
			_, is := c.preludeWrite(e, cc)
			return is
		}))
		ok := c.compileOK(st)
		// what is written must be (part of) what was validated, or a constant
		for _, w := range written {
			if ok && constOf(info, w) == nil {
				if o := objOf(info, w); o == nil || !strings.Contains(","+st.Ext("compiledvars")+",", ","+e.objKey(o)+",") {
					ok = false
				}
			}
		}
		e.Site("C16/let-on-success", key, call, ok, "prelude grows only under `err == nil` of the Compile call that validated this statement")
		if !ok {
			e.Site("C16/let-on-success", key, call, false, "the let prelude is extended on a path where the statement was not validated successfully: a failed let would poison every later statement")
		}
		return st
	}
	// a buffered wrapper around the output must be flushed before every return
	if sel, ok := ast.Unparen(call.Fun).(*ast.SelectorExpr); ok && sel.Sel.Name == "Flush" {
		if o := objOf(info, sel.X); o != nil && c.wrappers[o] {
			return st.WithExt("dirty:"+e.objKey(o), "")
		}
	}
	// C16/output: SQL is printed under err == nil, followed by a blank line. The write may be spelled
	// fmt.Fprintf(output, "%s\n\n", sql), io.WriteString(output, sql+"\n\n") or output.Write([]byte(sql+"\n\n")).
	if wr := c.outputWrite(e, call, callee); wr != nil {
		if o := objOf(info, e.ResolveExpr(wr.dst)); c.wrappers[o] {
			st = st.WithExt("dirty:"+e.objKey(o), "1")
		}
		c.fprintfs++
		key := fmt.Sprintf("%s output write #%d", c.where(e), c.ordinal(e, call, func(cc *ast.CallExpr) bool {
			return c.outputWrite(e, cc, Callee(info, cc)) != nil
		}))
		okFmt := wr.okShape
		okErr := c.compileOK(st)
		okSQL := false
		if wr.sql != nil {
			if k := e.CanonSt(st, wr.sql); k.OK && k.Key == st.Ext("compilesql") {
				okSQL = true
			}
		}
		ok := okFmt && okErr && okSQL
		e.Site("C16/output", key, call, ok, "prints exactly the SQL of the Compile call that just succeeded, followed by a blank line")
		if !ok {
			var why []string
			if !okFmt {
				why = append(why, "what is written is not the SQL followed by \"\\n\\n\"")
			}
			if !okErr {
				why = append(why, "not dominated by `err == nil` of the Compile call")
			}
			if !okSQL {
				why = append(why, "the printed value is not the SQL returned by that Compile call")
			}
			e.Site("C16/output", key, call, false, "standard output would not be exactly the library's SQL plus a blank line: "+strings.Join(why, "; "))
		}
		return st
	}
	return nil
}

// preludeWrite: a call that adds text to the let prelude - a Write* method of the builder, or any call that is
// handed the builder to write into (fmt.Fprintf(letStatements, ...), io.WriteString(letStatements, ...)).
// Returns what is written.
func (c *cliClient) preludeWrite(e *Engine, call *ast.CallExpr) ([]ast.Expr, bool) {
	if c.prelude == nil {
		return nil, false
	}
	if sel, ok := ast.Unparen(call.Fun).(*ast.SelectorExpr); ok && c.ent(e, sel.X) == c.prelude {
		if strings.HasPrefix(sel.Sel.Name, "Write") {
			return call.Args, true
		}
		return nil, false
	}
	for i, a := range call.Args {
		x := ast.Unparen(a)
		if u, ok := x.(*ast.UnaryExpr); ok && u.Op == token.AND {
			x = ast.Unparen(u.X)
		}
		if c.ent(e, x) != c.prelude {
			continue
		}
		// handed over as a writer (not as a Stringer or a value to be read)
		f := Callee(e.Info, call)
		if f == nil {
			return nil, false
		}
		sig := f.Type().(*types.Signature)
		if i >= sig.Params().Len() {
			return nil, false
		}
		pt := sig.Params().At(i).Type()
		iface, isIface := pt.Underlying().(*types.Interface)
		writer := false
		if isIface {
			for m := 0; m < iface.NumMethods(); m++ {
				if strings.HasPrefix(iface.Method(m).Name(), "Write") {
					writer = true
				}
			}
		} else if _, dpkg := c.p.DeclOf(f); dpkg != nil {
			return nil, false // a helper of the command: interpreted in place, its own writes are what counts
		}
		if !writer {
			return nil, false
		}
		var rest []ast.Expr
		for j, b := range call.Args {
			if j != i {
				rest = append(rest, b)
			}
		}
		return rest, true
	}
	return nil, false
}

// outWrite: one write of SQL text to the output, whatever its spelling.
type outWrite struct {
	dst     ast.Expr
	sql     ast.Expr // the non-constant part
	okShape bool     // the text is <sql> followed by exactly "\n\n"
}

func (c *cliClient) outputWrite(e *Engine, call *ast.CallExpr, callee *types.Func) *outWrite {
	info := e.Info
	if c.output == nil {
		return nil
	}
	shape := func(x ast.Expr) (ast.Expr, bool) {
		pieces := e.flattenConcat(x, nil, 0)
		var sql ast.Expr
		tail := ""
		for _, pc := range pieces {
			if s, ok := constString(info, pc); ok {
				if sql == nil && s != "" {
					return nil, false // constant text before the SQL
				}
				tail += s
				continue
			}
			if sql != nil || tail != "" {
				return nil, false
			}
			sql = pc
		}
		return sql, sql != nil && tail == "\n\n"
	}
	switch {
	case callee != nil && callee.FullName() == "fmt.Fprintf" && len(call.Args) >= 2 && c.isOutput(e, call.Args[0]):
		w := &outWrite{dst: call.Args[0]}
		format, isConst := constString(info, call.Args[1])
		w.okShape = isConst && format == "%s\n\n" && len(call.Args) == 3
		if len(call.Args) == 3 {
			w.sql = call.Args[2]
		}
		return w
	case callee != nil && callee.FullName() == "io.WriteString" && len(call.Args) == 2 && c.isOutput(e, call.Args[0]):
		w := &outWrite{dst: call.Args[0]}
		w.sql, w.okShape = shape(call.Args[1])
		return w
	case callee != nil && (callee.FullName() == "fmt.Fprint" || callee.FullName() == "fmt.Fprintln") && len(call.Args) >= 2 && c.isOutput(e, call.Args[0]):
		return &outWrite{dst: call.Args[0]} // spacing rules of Fprint/Fprintln: not the documented format
	}
	// output.Write([]byte(text)) / output.WriteString(text)
	if sel, ok := ast.Unparen(call.Fun).(*ast.SelectorExpr); ok && len(call.Args) == 1 && (sel.Sel.Name == "Write" || sel.Sel.Name == "WriteString") && c.isOutput(e, sel.X) {
		w := &outWrite{dst: sel.X}
		arg := ast.Unparen(call.Args[0])
		if conv, ok := arg.(*ast.CallExpr); ok && len(conv.Args) == 1 {
			if tv, isT := info.Types[conv.Fun]; isT && tv.IsType() {
				arg = conv.Args[0]
			}
		}
		w.sql, w.okShape = shape(arg)
		return w
	}
	return nil
}

// isOutput: x is the output writer of run (or a buffered wrapper of it), possibly through a helper's parameter.
func (c *cliClient) isOutput(e *Engine, x ast.Expr) bool {
	o := c.ent(e, x)
	return o != nil && (o == c.output || c.wrappers[o])
}

func (c *cliClient) where(e *Engine) string {
	if k := e.FrameKey(); k != "" {
		return c.fn + " > " + k
	}
	return c.fn
}

func (c *cliClient) ordinal(e *Engine, call *ast.CallExpr, match func(*ast.CallExpr) bool) int {
	n, idx := 0, 0
	ast.Inspect(e.CurFunc().Body, func(x ast.Node) bool {
		if cc, ok := x.(*ast.CallExpr); ok && match(cc) {
			n++
			if cc == call {
				idx = n
			}
		}
		return true
	})
	return idx
}

func (c *cliClient) Return(e *Engine, st *State, ret *ast.ReturnStmt) {
	if !e.Reporting() || e.Lit != nil || ret == nil || len(ret.Results) != 1 {
		return
	}
	res := ret.Results[0]
	key := fmt.Sprintf("%s return #%d", c.fn, returnOrdinal(e.Func, ret))
	nn := knownNonNilError(e, st, res)
	for w := range c.wrappers {
		dirty := st.Ext("dirty:"+e.objKey(w)) == "1"
		e.Site("C16/output", key+" output flushed", ret, !dirty, "nothing is left in a buffered writer when run returns")
		if dirty {
			e.Site("C16/output", key+" output flushed", ret, false, "SQL was written to a buffered wrapper of the output that is not flushed on this path to the return: the SQL of accepted statements is dropped")
		}
	}
	// C16/sticky
	if st.Ext("logged") == "1" {
		e.Site("C16/sticky", key, ret, nn, "a path that reported a failed statement returns a non-nil error")
		if !nn && os.Getenv("PQL_DEBUG_C16") != "" {
			fmt.Fprintln(os.Stderr, "STICKY", key, st.String())
		}
		if !nn {
			e.Site("C16/sticky", key, ret, false, "a statement failed (logError was called) on a path to this return, but the returned error is not known to be non-nil: exit status 0 after a failure")
		}
	} else {
		e.Site("C16/sticky", key, ret, true, "no failure was reported on the paths reaching this return")
	}
	// C16/readerr: returns after the read loop must have consulted Scanner.Err
	if c.loopEnd.IsValid() && ret.Pos() > c.loopEnd {
		direct := false
		if call, ok := ast.Unparen(res).(*ast.CallExpr); ok && isScannerErr(Callee(e.Info, call)) {
			direct = true
		}
		called := st.Ext("errcalled") == "1" || direct
		flows := true
		if !direct {
			switch st.Ext("readerr") {
			case "nil":
			case "nonnil":
				flows = nn
			default:
				flows = nn // result of Err() never tested on this path
			}
		}
		ok := called && flows
		e.Site("C16/readerr", key, ret, ok, "Scanner.Err() was consulted after the read loop and a non-nil result is returned")
		if !ok {
			msg := "the read loop can end because of a read error (e.g. a line longer than the scanner buffer) and this return is reached without consulting Scanner.Err(): input is dropped silently with exit status 0"
			if called {
				msg = "Scanner.Err() is called but a non-nil result does not reach the returned error"
			}
			e.Site("C16/readerr", key, ret, false, msg)
		}
	}
}

// cliRun: the function that does the command's work - run, or the function run hands everything on to when its
// body is a single `return worker(..., output, input, logError)` - and the functions whose error is that of run.
func (p *Program) cliRun() (*ast.FuncDecl, map[*types.Func]bool) {
	pkg := p.Main
	info := pkg.TypesInfo
	fd := p.MustFunc(pkg, "run")
	fns := map[*types.Func]bool{}
	if f := FuncObj(pkg, fd); f != nil {
		fns[f] = true
	}
	for depth := 0; depth < 3; depth++ {
		if len(fd.Body.List) != 1 {
			break
		}
		ret, ok := fd.Body.List[0].(*ast.ReturnStmt)
		if !ok || len(ret.Results) != 1 {
			break
		}
		call, ok := ast.Unparen(ret.Results[0]).(*ast.CallExpr)
		if !ok {
			break
		}
		callee := Callee(info, call)
		decl, dpkg := p.DeclOf(callee)
		if decl == nil || decl.Body == nil || dpkg != pkg || decl == fd {
			break
		}
		// the writer and the error callback are passed on as they are
		params := map[types.Object]bool{}
		for _, f := range fd.Type.Params.List {
			for _, n := range f.Names {
				switch TypeStr(info.TypeOf(f.Type)) {
				case "func(error)", "io.Writer", "io.Reader":
					params[info.Defs[n]] = true
				}
			}
		}
		passed := 0
		for _, a := range call.Args {
			if params[objOf(info, a)] {
				passed++
			}
		}
		if passed != len(params) || passed == 0 {
			break
		}
		fd = decl
		fns[callee] = true
	}
	return fd, fns
}

func ruleC16(p *Program, r *Run) {
	pkg := p.Main
	info := pkg.TypesInfo
	fd, _ := p.cliRun()
	fn := FuncName(pkg, fd)
	r.Saw(fn)
	c := &cliClient{p: p, fn: fn, compile: FuncObj(p.PQL, p.MustFunc(p.PQL, "Compile")), compileM: FuncObj(p.PQL, p.MustFunc(p.PQL, "CompileOptions.Compile")), wrappers: map[types.Object]bool{}}
	for _, f := range fd.Type.Params.List {
		for _, n := range f.Names {
			switch TypeStr(info.TypeOf(f.Type)) {
			case "func(error)":
				c.logErr = info.Defs[n]
			case "io.Writer":
				c.output = info.Defs[n]
			}
		}
	}
	if c.logErr == nil || c.output == nil {
		fatalf("anchor not found: run's io.Writer / func(error) parameters")
	}
	region := p.mainRegion(fd)
	// buffered writers around the output: w := bufio.NewWriter(output)
	inspectRegion(region, func(n ast.Node) bool {
		as, ok := n.(*ast.AssignStmt)
		if !ok || len(as.Lhs) != 1 || len(as.Rhs) != 1 {
			return true
		}
		if call, ok := as.Rhs[0].(*ast.CallExpr); ok && len(call.Args) >= 1 && p.entOf(call.Args[0]) == c.output {
			if f := Callee(info, call); f != nil && strings.HasPrefix(f.FullName(), "bufio.NewWriter") {
				if o := p.entOf(as.Lhs[0]); o != nil {
					c.wrappers[o] = true
				}
			}
		}
		return true
	})
	ruleC16Carry(p, r, fd)
	// the prelude builder: the builder whose String() is the leftmost operand of some Compile call
	// and which is written to inside run.
	written := map[types.Object]bool{}
	inspectRegion(region, func(n ast.Node) bool {
		if call, ok := n.(*ast.CallExpr); ok {
			if sel, ok := ast.Unparen(call.Fun).(*ast.SelectorExpr); ok && strings.HasPrefix(sel.Sel.Name, "Write") && isBuilder(info, sel.X) {
				if o := p.entOf(sel.X); o != nil {
					written[o] = true
				}
			}
		}
		return true
	})
	cands := map[types.Object]int{}
	inspectRegion(region, func(n ast.Node) bool {
		call, ok := n.(*ast.CallExpr)
		if !ok || !c.isCompile(Callee(info, call)) {
			return true
		}
		left := call.Args[0]
		for {
			b, ok := ast.Unparen(p.Resolve(left)).(*ast.BinaryExpr)
			if !ok || b.Op != token.ADD {
				break
			}
			left = b.X
		}
		if lc, ok := ast.Unparen(p.DefExpr(left)).(*ast.CallExpr); ok {
			if sel, ok := ast.Unparen(lc.Fun).(*ast.SelectorExpr); ok && sel.Sel.Name == "String" && isBuilder(info, sel.X) {
				if o := p.entOf(sel.X); o != nil && written[o] {
					cands[o]++
				}
			}
		}
		return true
	})
	// the prelude is the candidate that is only ever appended to (never Reset)
	var candList []types.Object
	for o := range cands {
		candList = append(candList, o)
	}
	sort.Slice(candList, func(i, j int) bool { return candList[i].Pos() < candList[j].Pos() })
	for _, o := range candList {
		reset := false
		inspectRegion(region, func(n ast.Node) bool {
			if call, ok := n.(*ast.CallExpr); ok {
				if sel, ok := ast.Unparen(call.Fun).(*ast.SelectorExpr); ok && sel.Sel.Name == "Reset" && p.entOf(sel.X) == o {
					reset = true
				}
			}
			return true
		})
		if !reset && (c.prelude == nil || cands[o] > cands[c.prelude]) {
			c.prelude = o
		}
	}
	if c.prelude == nil {
		// the leftmost operand may reach Compile through a helper's parameter: the prelude is then the one text
		// buffer that is written but never reset
		var only []types.Object
		for o := range written {
			reset := false
			inspectRegion(region, func(n ast.Node) bool {
				if call, ok := n.(*ast.CallExpr); ok {
					if sel, ok := ast.Unparen(call.Fun).(*ast.SelectorExpr); ok && sel.Sel.Name == "Reset" && p.entOf(sel.X) == o {
						reset = true
					}
				}
				return true
			})
			if !reset {
				only = append(only, o)
			}
		}
		if len(only) == 1 {
			c.prelude = only[0]
		}
	}
	if c.prelude == nil {
		r.Fail("C16/prelude", fn+" prelude builder", p.Pos(fd.Pos()), "no accumulated let prelude is passed to any pql.Compile call")
	}
	// the read loop
	ast.Inspect(fd.Body, func(n ast.Node) bool {
		if fs, ok := n.(*ast.ForStmt); ok && fs.Cond != nil {
			if call, ok := ast.Unparen(fs.Cond).(*ast.CallExpr); ok {
				if f := Callee(info, call); f != nil && f.FullName() == "(*bufio.Scanner).Scan" {
					c.loopEnd = fs.End()
				}
			}
		}
		return true
	})
	if !c.loopEnd.IsValid() {
		r.Fail("C16/readerr", fn+" read loop", p.Pos(fd.Pos()), "no `for scanner.Scan()` loop found: input handling changed, rule cannot be applied")
	}
	e := NewEngine(p, pkg, fd, c)
	e.Run(nil)
	for _, m := range e.Errs {
		r.Fail("C16/prelude", fn+" engine", "-", m)
	}
	e.FlushSites(r)
	r.Floor("C16/prelude", 3)
	r.Floor("C16/readerr", 1)
	r.Floor("C16/sticky", 2)
	r.Floor("C16/let-on-success", 2)
	r.Floor("C16/output", 2)

	// the flag variable is never reset to nil
	ast.Inspect(fd.Body, func(n ast.Node) bool {
		as, ok := n.(*ast.AssignStmt)
		if !ok || as.Tok != token.ASSIGN {
			return true
		}
		for i, l := range as.Lhs {
			if i < len(as.Rhs) && isNilIdent(info, as.Rhs[i]) && TypeStr(info.TypeOf(l)) == "error" {
				r.Fail("C16/sticky", fn+" reset of "+exprStr(l), p.Pos(as.Pos()), "an error variable is reset to nil: the failure flag is not sticky")
			}
		}
		return true
	})

	ruleC16Exit(p, r)
}

// C16/exit: main turns a non-nil error into a non-zero exit status, and RunE returns run's error.
type exitClient struct {
	BaseClient
	fn       string
	errKey   string
	runFuncs map[*types.Func]bool // run and the function it hands its work to
}

func (c *exitClient) PostAssign(e *Engine, st *State, lhs, rhs []ast.Expr, _ ast.Stmt) *State {
	if len(rhs) == 1 && len(lhs) == 1 {
		if call, ok := ast.Unparen(rhs[0]).(*ast.CallExpr); ok {
			// w := bufio.NewWriter(...): what run writes through it only reaches the output when it is flushed
			if f := Callee(e.Info, call); f != nil && strings.HasPrefix(f.FullName(), "bufio.NewWriter") {
				if k := e.CanonSt(st, lhs[0]); k.OK {
					return st.WithExt("bufw:"+k.Key, "1")
				}
			}
			if sel, ok := ast.Unparen(call.Fun).(*ast.SelectorExpr); ok && sel.Sel.Name == "ExecuteContext" {
				if k := e.CanonSt(st, lhs[0]); k.OK {
					return st.WithExt("execerr", k.Key)
				}
			}
			if c.runFuncs[Callee(e.Info, call)] && e.Lit != nil {
				return e.SetTag(st, lhs[0], "runerr")
			}
		}
	}
	return nil
}

func (c *exitClient) PreAssign(e *Engine, st *State, lhs, rhs []ast.Expr, _ ast.Stmt) *State {
	if e.Lit == nil {
		return nil
	}
	for _, l := range lhs {
		if e.HasTag(st, l, "runerr") && !e.IsNil(st, l) {
			e.Site("C16/exit", c.fn+" RunE overwrites run's error", l, false, "the error returned by run can be overwritten while non-nil: a failed statement would not reach the exit status")
		}
	}
	return nil
}

func (c *exitClient) PreCall(e *Engine, st *State, call *ast.CallExpr, callee *types.Func) *State {
	if c.runFuncs[callee] {
		// the command's work starts: buffered writers created so far have to be flushed after it
		out := st.WithExt("ran", "1")
		for k := range st.ext {
			if strings.HasPrefix(k, "bufflushed:") {
				out = out.WithExt(k, "")
			}
		}
		return out
	}
	if sel, ok := ast.Unparen(call.Fun).(*ast.SelectorExpr); ok && sel.Sel.Name == "Flush" {
		if k := e.CanonSt(st, sel.X); k.OK && st.Ext("bufw:"+k.Key) == "1" {
			return st.WithExt("bufflushed:"+k.Key, "1")
		}
	}
	if callee == nil || callee.FullName() != "os.Exit" || e.Lit != nil {
		return nil
	}
	v, ok := constInt(e.Info, call.Args[0])
	e.Site("C16/exit", c.fn+" os.Exit status", call, ok && v != 0, "exits with a non-zero constant")
	if !(ok && v != 0) {
		e.Site("C16/exit", c.fn+" os.Exit status", call, false, "os.Exit is called with a status that is not a non-zero constant")
	}
	return st.WithExt("exited", "1")
}

func (c *exitClient) Return(e *Engine, st *State, ret *ast.ReturnStmt) {
	if !e.Reporting() {
		return
	}
	if e.Lit != nil {
		// a buffered writer created on this path before run was called has been flushed since
		if st.Ext("ran") == "1" {
			var keys []string
			for k, v := range st.ext {
				if strings.HasPrefix(k, "bufw:") && v == "1" {
					keys = append(keys, strings.TrimPrefix(k, "bufw:"))
				}
			}
			sort.Strings(keys)
			for _, k := range keys {
				ok := st.Ext("bufflushed:"+k) == "1"
				var node ast.Node = e.Lit
				if ret != nil {
					node = ret
				}
				key := c.fn + " buffered output is flushed after run"
				e.Site("C16/exit", key, node, ok, "every path from run to the end of the command flushes the buffered writer created before it")
				if !ok {
					e.Site("C16/exit", key, node, false, "a buffered writer wrapped around the output before run is not flushed on a path from run to the end of the command (for instance when run reports a failed statement): the SQL of the statements that did compile never reaches standard output")
				}
			}
		}
		// RunE: a return after run(...) must return the variable carrying run's error (or something non-nil)
		if ret == nil || len(ret.Results) != 1 {
			return
		}
		hasRun := false
		for _, f := range st.facts {
			if hasStr(f.Tags, "runerr") {
				hasRun = true
			}
		}
		if !hasRun {
			return
		}
		ok := e.HasTag(st, ret.Results[0], "runerr") || knownNonNilError(e, st, ret.Results[0])
		e.Site("C16/exit", c.fn+" RunE returns run's error", ret, ok, "the closure returns the error of run")
		if !ok {
			e.Site("C16/exit", c.fn+" RunE returns run's error", ret, false, "the command's RunE does not return the error produced by run")
		}
		return
	}
	k := st.Ext("execerr")
	if k == "" {
		return
	}
	f := st.Get(k)
	ok := st.Ext("exited") == "1" || (f != nil && f.Nil == 1)
	var node ast.Node = e.Func
	if ret != nil {
		node = ret
	}
	e.Site("C16/exit", c.fn+" falls off only when the command succeeded", node, ok, "main returns normally only with a nil error")
	if !ok {
		e.Site("C16/exit", c.fn+" falls off only when the command succeeded", node, false, "main can return normally (status 0) although ExecuteContext returned an error")
	}
}

func ruleC16Exit(p *Program, r *Run) {
	pkg := p.Main
	fd := p.MustFunc(pkg, "main")
	fn := FuncName(pkg, fd)
	r.Saw(fn)
	_, runFns := p.cliRun()
	c := &exitClient{fn: fn, runFuncs: runFns}
	e := NewEngine(p, pkg, fd, c)
	e.Run(nil)
	for _, m := range e.Errs {
		r.Fail("C16/exit", fn+" engine", "-", m)
	}
	e.FlushSites(r)
	r.Floor("C16/exit", 3)
}

// ruleC16Carry: the text that is split and compiled is exactly the text that was read.
//   - the pending buffer only ever receives a line's bytes, the line terminator, and - right after Reset - the
//     unmodified last piece of the split;
//   - SplitStatements is applied to the pending buffer's contents;
//   - the statements compiled inside the loop are the range values over all pieces but the last, unmodified;
//   - the statement compiled at end of input is the pending buffer's contents, unmodified.
//
// skipClient: at a `continue` of the loop in which the input is split, what the path knows about the number of pieces.
type skipClient struct {
	BaseClient
	p     *Program
	fn    string
	stmts types.Object
}

func (c *skipClient) Stmt(e *Engine, st *State, s ast.Stmt) *State {
	br, ok := s.(*ast.BranchStmt)
	if !ok || br.Tok != token.CONTINUE || len(e.Frames()) > 0 || !e.Reporting() {
		return nil
	}
	// the loop this continue belongs to is the loop in whose body the split result is defined
	var loop ast.Node
	e.P.ancestors(br, e.Func, func(anc, _ ast.Node) bool {
		switch anc.(type) {
		case *ast.ForStmt, *ast.RangeStmt:
			if loop == nil {
				loop = anc
			}
		}
		return loop == nil
	})
	if loop == nil || !(loop.Pos() <= c.stmts.Pos() && c.stmts.Pos() < loop.End()) || br.Pos() < c.stmts.Pos() {
		return nil
	}
	inner := false
	ast.Inspect(loop, func(n ast.Node) bool {
		switch n.(type) {
		case *ast.ForStmt, *ast.RangeStmt:
			if n != loop && n.Pos() <= c.stmts.Pos() && c.stmts.Pos() < n.End() {
				inner = true
			}
		}
		return true
	})
	if inner {
		return nil
	}
	atMostOne := func(f *Fact, shift int64) bool {
		if f == nil {
			return false
		}
		if n, isInt := parseInt(f.Eq); f.HasEq && isInt && n+shift <= 1 {
			return true
		}
		return f.Hi != nil && *f.Hi+shift <= 1
	}
	ok = atMostOne(st.Get("len("+e.objKey(c.stmts)+")"), 0)
	if !ok {
		// a local that holds the length, or the index of the last piece (last := len(statements) - 1)
		ast.Inspect(e.Func.Body, func(n ast.Node) bool {
			as, isAs := n.(*ast.AssignStmt)
			if !isAs || ok || len(as.Lhs) != 1 || len(as.Rhs) != 1 || as.Pos() > br.Pos() {
				return !ok
			}
			o := objOf(e.Info, as.Lhs[0])
			if o == nil || !e.P.neverReassigned(o) {
				return true
			}
			rhs, shift := ast.Unparen(as.Rhs[0]), int64(0)
			if b, isB := rhs.(*ast.BinaryExpr); isB && b.Op == token.SUB {
				if k, isC := constInt(e.Info, b.Y); isC && k >= 0 {
					rhs, shift = ast.Unparen(b.X), k
				}
			}
			call, isCall := rhs.(*ast.CallExpr)
			if !isCall || !IsBuiltinCall(e.Info, call, "len") || len(call.Args) != 1 || e.P.entOf(call.Args[0]) != c.stmts {
				return true
			}
			if atMostOne(st.GetVar(e.objKey(o)), shift) {
				ok = true
			}
			return !ok
		})
	}
	key := fmt.Sprintf("%s continue #%d gives up the turn only when nothing was completed", c.fn, c.ordinal(e, br))
	e.Site("C16/carry", key, br, ok, "the split is known to have given at most one piece (no terminated statement) where the turn is given up")
	if !ok {
		e.Site("C16/carry", key, br, false, "the read loop goes on to the next line on a path where the split may have given a complete statement: that statement is not compiled now, stays in the pending text and is later compiled together with what follows it (two queries in one source, or an error for a statement that was fine)")
	}
	return nil
}

func (c *skipClient) ordinal(e *Engine, br *ast.BranchStmt) int {
	n, idx := 0, 0
	ast.Inspect(e.Func.Body, func(x ast.Node) bool {
		if b, ok := x.(*ast.BranchStmt); ok && b.Tok == token.CONTINUE {
			n++
			if b == br {
				idx = n
			}
		}
		return true
	})
	return idx
}

func ruleC16Carry(p *Program, r *Run, fd *ast.FuncDecl) {
	pkg := p.Main
	info := pkg.TypesInfo
	fn := FuncName(pkg, fd)
	split := FuncObj(p.Parser, p.MustFunc(p.Parser, "SplitStatements"))
	compile := FuncObj(p.PQL, p.MustFunc(p.PQL, "Compile"))
	compileM := FuncObj(p.PQL, p.MustFunc(p.PQL, "CompileOptions.Compile"))
	region := p.mainRegion(fd)
	declOf := func(n ast.Node) *ast.FuncDecl {
		for _, d := range region {
			if d.Pos() <= n.Pos() && n.End() <= d.End() {
				return d
			}
		}
		return nil
	}
	// locate: statements := parser.SplitStatements(<pending>.String())
	var stmts, pending types.Object
	inspectRegion(region, func(n ast.Node) bool {
		as, ok := n.(*ast.AssignStmt)
		if !ok || len(as.Rhs) != 1 || len(as.Lhs) != 1 {
			return true
		}
		call, ok := as.Rhs[0].(*ast.CallExpr)
		if !ok || Callee(info, call) != split || len(call.Args) != 1 {
			return true
		}
		stmts = p.entOf(as.Lhs[0])
		if c2, ok := ast.Unparen(p.DefExpr(call.Args[0])).(*ast.CallExpr); ok {
			if sel, ok := ast.Unparen(c2.Fun).(*ast.SelectorExpr); ok && sel.Sel.Name == "String" && isBuilder(info, sel.X) {
				pending = p.entOf(sel.X)
			}
		}
		return true
	})
	r.Check(stmts != nil && pending != nil, "C16/carry", fn+" splits the pending buffer", p.Pos(fd.Pos()), "SplitStatements(pending.String())", "the input is not split by applying parser.SplitStatements to the contents of the pending-text buffer")
	if stmts == nil || pending == nil {
		return
	}
	// a turn of the read loop is given up (`continue` before the pieces are looked at) only when nothing was
	// completed: the split gave at most one piece on that path. Given up with a complete piece in hand, that
	// statement waits for the next semicolon and is then compiled together with the next one.
	if sfd := declOf(&ast.Ident{NamePos: stmts.Pos()}); sfd != nil {
		sc := &skipClient{p: p, fn: fn, stmts: stmts}
		se := NewEngine(p, pkg, sfd, sc)
		se.Run(nil)
		for _, m := range se.Errs {
			r.Fail("C16/carry", fn+" engine (skipped turns)", "-", m)
		}
		se.FlushSites(r)
	}
	lenMinus1 := func(e ast.Expr) bool {
		b, ok := ast.Unparen(p.DefExpr(e)).(*ast.BinaryExpr)
		if !ok || b.Op != token.SUB {
			return false
		}
		c, ok := ast.Unparen(b.X).(*ast.CallExpr)
		if !ok || !IsBuiltinCall(info, c, "len") || p.entOf(c.Args[0]) != stmts {
			return false
		}
		v, ok := constInt(info, b.Y)
		return ok && v == 1
	}
	isLastPiece := func(e ast.Expr) bool {
		ix, ok := p.DefExpr(e).(*ast.IndexExpr)
		return ok && p.entOf(ix.X) == stmts && lenMinus1(ix.Index)
	}
	// callers: what a parameter of a helper stands for at each call site of the helper in the region
	argsFor := func(decl *ast.FuncDecl, param types.Object) []ast.Expr {
		idx, i := -1, 0
		for _, f := range decl.Type.Params.List {
			for _, nm := range f.Names {
				if info.Defs[nm] == param {
					idx = i
				}
				i++
			}
		}
		if idx < 0 {
			return nil
		}
		var out []ast.Expr
		inspectRegion(region, func(n ast.Node) bool {
			if call, ok := n.(*ast.CallExpr); ok {
				if d, _ := p.DeclOf(Callee(info, call)); d == decl && idx < len(call.Args) {
					out = append(out, call.Args[idx])
				}
			}
			return true
		})
		return out
	}
	isLineBytes := func(x ast.Expr) bool {
		c2, isCall := ast.Unparen(p.DefExpr(x)).(*ast.CallExpr)
		if !isCall {
			return false
		}
		f := Callee(info, c2)
		return f != nil && (f.FullName() == "(*bufio.Scanner).Bytes" || f.FullName() == "(*bufio.Scanner).Text")
	}
	// every write into the pending buffer
	n := 0
	inspectRegion(region, func(x ast.Node) bool {
		call, ok := x.(*ast.CallExpr)
		if !ok {
			return true
		}
		sel, ok := ast.Unparen(call.Fun).(*ast.SelectorExpr)
		if !ok || !isBuilder(info, sel.X) || p.entOf(sel.X) != pending || !strings.HasPrefix(sel.Sel.Name, "Write") || len(call.Args) != 1 {
			return true
		}
		n++
		key := fmt.Sprintf("%s write #%d into the pending buffer: %s", fn, n, exprStr(call.Args[0]))
		arg := ast.Unparen(call.Args[0])
		ok2, how := false, ""
		switch {
		case isLastPiece(arg):
			// must directly follow Reset()
			if blk, isBlk := p.Parent(p.Parent(call)).(*ast.BlockStmt); isBlk {
				for i, s := range blk.List {
					if es, isES := s.(*ast.ExprStmt); isES && es.X == ast.Expr(call) && i > 0 {
						if prev, isES2 := blk.List[i-1].(*ast.ExprStmt); isES2 {
							if pc, isCall := prev.X.(*ast.CallExpr); isCall {
								if ps, isSel := pc.Fun.(*ast.SelectorExpr); isSel && ps.Sel.Name == "Reset" && p.entOf(ps.X) == pending {
									ok2, how = true, "the unterminated last piece is carried over unchanged after Reset"
								}
							}
						}
					}
				}
			}
			if !ok2 {
				how = "the last piece is appended without resetting the buffer first"
			}
		default:
			if isLineBytes(arg) {
				ok2, how = true, "the bytes of the line just read"
			}
			// a parameter of a helper: what every caller passes
			if o, isVar := objOf(info, arg).(*types.Var); isVar && !ok2 {
				if d := declOf(call); d != nil && d != fd && p.neverReassigned(o) {
					if as := argsFor(d, o); len(as) > 0 {
						all := true
						for _, a := range as {
							if !isLineBytes(a) {
								all = false
							}
						}
						if all {
							ok2, how = true, "the bytes of the line just read (passed in by every caller)"
						}
					}
				}
			}
			if v, isC := constInt(info, arg); isC && v == '\n' {
				ok2, how = true, "the line terminator"
			}
			if s2, isS := constString(info, arg); isS && s2 == "\n" {
				ok2, how = true, "the line terminator"
			}
			if !ok2 {
				how = "the pending text is altered (" + exprStr(arg) + "): only a line's bytes, the line terminator and the unmodified last piece may be written"
			}
		}
		r.Check(ok2, "C16/carry", key, p.Pos(call.Pos()), how, how+" - statements spread over lines would be glued or cut differently from what was typed")
		return true
	})
	// compiled statements: range value over statements[:len-1], or the pending contents at end of input
	var rangeVal types.Object
	inspectRegion(region, func(x ast.Node) bool {
		rs, ok := x.(*ast.RangeStmt)
		if !ok || rs.Value == nil {
			return true
		}
		if sl, ok := p.DefExpr(rs.X).(*ast.SliceExpr); ok && p.entOf(sl.X) == stmts && sl.Low == nil && sl.High != nil && lenMinus1(sl.High) {
			rangeVal = objOf(info, rs.Value)
		}
		return true
	})
	// the same loop written with an index: for i := 0; i < len(statements)-1; i++ { stmt := statements[i] ... } (the
	// bound possibly through a local); the statement is the variable defined once as statements[i] in the body
	if rangeVal == nil {
		inspectRegion(region, func(x ast.Node) bool {
			fs, ok := x.(*ast.ForStmt)
			if !ok || rangeVal != nil || fs.Init == nil || fs.Cond == nil || fs.Post == nil {
				return true
			}
			init, ok1 := fs.Init.(*ast.AssignStmt)
			cond, ok2 := fs.Cond.(*ast.BinaryExpr)
			post, ok3 := fs.Post.(*ast.IncDecStmt)
			if !ok1 || !ok2 || !ok3 || len(init.Lhs) != 1 || len(init.Rhs) != 1 || cond.Op != token.LSS || post.Tok != token.INC {
				return true
			}
			iv := objOf(info, init.Lhs[0])
			if v, isC := constInt(info, init.Rhs[0]); iv == nil || !isC || v != 0 || objOf(info, cond.X) != iv || objOf(info, post.X) != iv || !lenMinus1(cond.Y) {
				return true
			}
			if writesTo(info, fs.Body, iv) {
				return true
			}
			for _, st := range fs.Body.List {
				as, isAs := st.(*ast.AssignStmt)
				if !isAs || len(as.Lhs) != 1 || len(as.Rhs) != 1 {
					continue
				}
				ix, isIx := ast.Unparen(as.Rhs[0]).(*ast.IndexExpr)
				if !isIx || p.entOf(ix.X) != stmts || objOf(info, ix.Index) != iv {
					continue
				}
				if o := objOf(info, as.Lhs[0]); o != nil && p.neverReassigned(o) {
					rangeVal = o
				}
			}
			return true
		})
	}
	r.Check(rangeVal != nil, "C16/carry", fn+" every terminated piece is visited", p.Pos(fd.Pos()), "for _, stmt := range statements[:len(statements)-1]", "the loop over the split result does not visit exactly all pieces but the last")
	var tailVar types.Object
	inspectRegion(region, func(x ast.Node) bool {
		as, ok := x.(*ast.AssignStmt)
		if !ok || len(as.Lhs) != 1 || len(as.Rhs) != 1 {
			return true
		}
		if c2, ok := as.Rhs[0].(*ast.CallExpr); ok {
			if sel, ok := ast.Unparen(c2.Fun).(*ast.SelectorExpr); ok && sel.Sel.Name == "String" && isBuilder(info, sel.X) && p.entOf(sel.X) == pending && Callee(info, c2) != nil {
				if _, isSplitArg := p.Parent(c2).(*ast.CallExpr); !isSplitArg {
					tailVar = objOf(info, as.Lhs[0])
				}
			}
		}
		return true
	})
	// the Compile calls reached from run, with the parameters of the helpers on the way replaced by what is passed
	type compileSite struct {
		call *ast.CallExpr
		src  ast.Expr
	}
	var sitesOf func(decl *ast.FuncDecl, depth int) []compileSite
	sitesOf = func(decl *ast.FuncDecl, depth int) []compileSite {
		var out []compileSite
		ast.Inspect(decl.Body, func(x ast.Node) bool {
			call, ok := x.(*ast.CallExpr)
			if !ok {
				return true
			}
			callee := Callee(info, call)
			if (callee == compile || callee == compileM) && callee != nil && len(call.Args) == 1 {
				out = append(out, compileSite{call, call.Args[0]})
				return true
			}
			d2, dpkg := p.DeclOf(callee)
			if d2 == nil || dpkg != pkg || d2 == decl || depth >= 4 {
				return true
			}
			env := map[types.Object]ast.Expr{}
			i := 0
			for _, f := range d2.Type.Params.List {
				for _, nm := range f.Names {
					if o := info.Defs[nm]; o != nil && i < len(call.Args) && p.neverReassigned(o) {
						env[o] = call.Args[i]
					}
					i++
				}
			}
			for _, s2 := range sitesOf(d2, depth+1) {
				out = append(out, compileSite{s2.call, p.Subst(s2.src, env)})
			}
			return true
		})
		return out
	}
	k := 0
	for _, site := range sitesOf(fd, 0) {
		call := site.call
		k++
		// operands of the + chain other than the leading prelude and constant suffixes
		var ops []ast.Expr
		var flat func(e ast.Expr)
		flat = func(e ast.Expr) {
			if b, ok := p.Resolve(e).(*ast.BinaryExpr); ok && b.Op == token.ADD {
				flat(b.X)
				flat(b.Y)
				return
			}
			ops = append(ops, p.Resolve(e))
		}
		flat(site.src)
		var vars []types.Object
		okShape := true
		tailDirect := 0
		for i, o := range ops {
			if _, isConst := constString(info, o); isConst {
				continue
			}
			if c2, isCall := o.(*ast.CallExpr); isCall && i == 0 {
				if sel, ok := ast.Unparen(c2.Fun).(*ast.SelectorExpr); ok && sel.Sel.Name == "String" && isBuilder(info, sel.X) {
					continue
				}
			}
			// a leading variable holding the contents of a builder (the prelude hoisted into a local; C16/prelude
			// checks that it is current)
			if i == 0 && p.allDefsAre(o, func(x ast.Expr) bool {
				c3, isCall := x.(*ast.CallExpr)
				if !isCall {
					return false
				}
				sel, ok := ast.Unparen(c3.Fun).(*ast.SelectorExpr)
				return ok && sel.Sel.Name == "String" && isBuilder(info, sel.X)
			}) {
				continue
			}
			// the pending text itself, taken from its buffer where it is used
			if c2, isCall := o.(*ast.CallExpr); isCall && i > 0 && pending != nil {
				if sel, ok := ast.Unparen(c2.Fun).(*ast.SelectorExpr); ok && sel.Sel.Name == "String" && isBuilder(info, sel.X) && p.entOf(sel.X) == pending {
					tailDirect++
					continue
				}
			}
			if ob := objOf(info, o); ob != nil {
				vars = append(vars, ob)
				continue
			}
			okShape = false
		}
		okStmt := okShape && len(vars) == 1 && tailDirect == 0 && (vars[0] == rangeVal || (tailVar != nil && vars[0] == tailVar))
		if okShape && len(vars) == 0 && tailDirect == 1 {
			okStmt = true
		}
		key := fmt.Sprintf("%s statement text of Compile call #%d", fn, k)
		r.Check(okStmt, "C16/carry", key, p.Pos(call.Pos()), "the piece produced by the split (or the pending text at end of input), unmodified", "the text handed to pql.Compile is not exactly one piece of the split / the pending text: "+exprStr(site.src))
	}
	r.Floor("C16/carry", 7)
}

// ---- entities: what identifies a text buffer, a writer or a callback across helpers and methods.
//
// A local variable is itself; a field selection names the field (sess.pending -> field pending); a field that a
// composite literal or an assignment initialises with a variable stands for that variable (session{output: output}).

func (p *Program) mainFieldInit() map[types.Object]types.Object {
	if p.fieldInit != nil {
		return p.fieldInit
	}
	p.fieldInit = map[types.Object]types.Object{}
	info := p.Info
	for _, f := range p.Main.Syntax {
		ast.Inspect(f, func(n ast.Node) bool {
			switch v := n.(type) {
			case *ast.CompositeLit:
				for _, el := range v.Elts {
					kv, ok := el.(*ast.KeyValueExpr)
					if !ok {
						continue
					}
					fld, _ := objOf(info, kv.Key).(*types.Var)
					val := objOf(info, kv.Value)
					if fld != nil && fld.IsField() && val != nil {
						if _, isVar := val.(*types.Var); isVar {
							p.fieldInit[fld] = val
						}
					}
				}
			case *ast.AssignStmt:
				for i, l := range v.Lhs {
					if i >= len(v.Rhs) {
						continue
					}
					if fld := selField(info, l); fld != nil {
						if val, isVar := objOf(info, v.Rhs[i]).(*types.Var); isVar && !val.IsField() {
							if _, dup := p.fieldInit[fld]; !dup {
								p.fieldInit[fld] = val
							}
						}
					}
				}
			}
			return true
		})
	}
	return p.fieldInit
}

// entOf: the entity an expression names (no helper parameters looked through).
func (p *Program) entOf(x ast.Expr) types.Object {
	x = ast.Unparen(x)
	if u, ok := x.(*ast.UnaryExpr); ok && u.Op == token.AND {
		x = ast.Unparen(u.X)
	}
	var o types.Object
	switch v := x.(type) {
	case *ast.Ident:
		o = objOf(p.Info, v)
	case *ast.SelectorExpr:
		if f := selField(p.Info, v); f != nil {
			o = f
		} else {
			o = objOf(p.Info, v.Sel)
		}
	}
	if o == nil {
		return nil
	}
	if init, ok := p.mainFieldInit()[o]; ok {
		return init
	}
	return o
}

// ent: entOf with the parameters of helpers interpreted in place replaced by what was passed.
func (c *cliClient) ent(e *Engine, x ast.Expr) types.Object {
	if x == nil {
		return nil
	}
	return c.p.entOf(e.ResolveExpr(x))
}

// mainRegion: run's body and the bodies of the functions of the command it calls (transitively).
func (p *Program) mainRegion(fd *ast.FuncDecl) []*ast.FuncDecl {
	out := []*ast.FuncDecl{fd}
	seen := map[*ast.FuncDecl]bool{fd: true}
	for i := 0; i < len(out) && i < 24; i++ {
		ast.Inspect(out[i].Body, func(n ast.Node) bool {
			if call, ok := n.(*ast.CallExpr); ok {
				if d, dpkg := p.DeclOf(Callee(p.Info, call)); d != nil && d.Body != nil && dpkg == p.Main && !seen[d] {
					seen[d] = true
					out = append(out, d)
				}
			}
			return true
		})
	}
	return out
}

func inspectRegion(fds []*ast.FuncDecl, f func(ast.Node) bool) {
	for _, fd := range fds {
		ast.Inspect(fd.Body, f)
	}
}

// ---- C16/inputs: reading several inputs as one stream ends only after the last of them.
//
// The command concatenates its input files through a reader whose Read moves on to the next file when one is
// exhausted. bufio.Scanner stops at the first io.EOF, so Read may report io.EOF only when no reader is left: at every
// return where the error may be io.EOF (it is not known nil and not known to differ from io.EOF), the list of
// remaining readers is known to be empty. An empty file in the middle must not end the stream.
type inputsClient struct {
	BaseClient
	fn      string
	readers string // canonical key of the readers field
	results []types.Object
	seen    int
}

func (c *inputsClient) Return(e *Engine, st *State, ret *ast.ReturnStmt) {
	if !e.Reporting() || e.Lit != nil || len(e.Frames()) > 0 {
		return
	}
	var errX ast.Expr
	var errKey string
	switch {
	case ret != nil && len(ret.Results) == 2:
		errX = ret.Results[1]
	case ret != nil && len(ret.Results) == 1:
		// return inner.Read(p): the error of another reader, which may well be io.EOF
		errX = nil
	case len(c.results) == 2:
		errKey = e.objKey(c.results[1])
	}
	c.seen++
	ord := 0
	if ret != nil {
		ord = returnOrdinal(e.Func, ret)
	}
	key := fmt.Sprintf("%s return #%d reports the end of input only after the last reader", c.fn, ord)
	mayEOF := true
	if errX != nil {
		if isNilIdent(e.Info, errX) || e.IsNil(st, errX) {
			mayEOF = false
		}
		if k := e.CanonSt(st, errX); k.OK {
			errKey = k.Key
		}
	}
	if errKey != "" {
		if f := st.Get(errKey); f != nil && f.Nil == 1 {
			mayEOF = false
		}
		for _, k := range st.Keys() {
			if strings.Contains(k, errKey) && strings.Contains(k, "io.EOF") && strings.Contains(k, " == ") {
				if f := st.Get(k); f != nil && f.HasEq && f.Eq == "false" {
					mayEOF = false
				}
			}
		}
	}
	if !mayEOF {
		e.Site("C16/inputs", key, retNode(e, ret), true, "the error returned here is known not to be io.EOF")
		return
	}
	empty := false
	if f := st.Get("len(" + c.readers + ")"); f != nil && (f.HasEq && f.Eq == "0" || f.Hi != nil && *f.Hi <= 0) {
		empty = true
	}
	for _, k := range st.Keys() {
		if k == "(0 < len("+c.readers+"))" {
			if f := st.Get(k); f != nil && f.HasEq && f.Eq == "false" {
				empty = true
			}
		}
		if k == "(len("+c.readers+") <= 0)" || k == "(0 == len("+c.readers+"))" {
			if f := st.Get(k); f != nil && f.HasEq && f.Eq == "true" {
				empty = true
			}
		}
	}
	e.Site("C16/inputs", key, retNode(e, ret), empty, "where io.EOF may be returned no reader is left")
	if !empty {
		e.Site("C16/inputs", key, retNode(e, ret), false, "Read can return io.EOF while readers remain (for instance the (0, io.EOF) of an empty file in the middle of the list): the scanner takes it for the end of all input and every later file is dropped silently with exit status 0")
	}
}

func retNode(e *Engine, ret *ast.ReturnStmt) ast.Node {
	if ret != nil {
		return ret
	}
	return e.Func
}

func ruleC16Inputs(p *Program, r *Run) {
	pkg := p.Main
	info := pkg.TypesInfo
	// the Read method of a type of the command that holds a list of readers
	for _, fd := range AllFuncs(pkg) {
		if fd.Name.Name != "Read" || fd.Recv == nil || len(fd.Recv.List) != 1 || len(fd.Recv.List[0].Names) != 1 {
			continue
		}
		rt := info.TypeOf(fd.Recv.List[0].Type)
		st := StructOf(rt)
		if st == nil {
			continue
		}
		var fld *types.Var
		for i := 0; i < st.NumFields(); i++ {
			if sl, ok := st.Field(i).Type().Underlying().(*types.Slice); ok {
				if types.Implements(sl.Elem(), p.ioReader()) {
					fld = st.Field(i)
				}
			}
		}
		if fld == nil {
			continue
		}
		fn := FuncName(pkg, fd)
		r.Saw(fn)
		c := &inputsClient{fn: fn}
		if fd.Type.Results != nil {
			for _, f := range fd.Type.Results.List {
				for _, nm := range f.Names {
					c.results = append(c.results, info.Defs[nm])
				}
			}
		}
		e := NewEngine(p, pkg, fd, c)
		c.readers = e.objKey(info.Defs[fd.Recv.List[0].Names[0]]) + "." + fldName(fld)
		e.Run(nil)
		for _, m := range e.Errs {
			r.Fail("C16/inputs", fn+" engine", "-", m)
		}
		e.FlushSites(r)
		if c.seen == 0 {
			r.Fail("C16/inputs", fn+" returns", p.Pos(fd.Pos()), "no return of the concatenating Read is reached on a feasible path")
		}
	}
}

// singleClient: a return that stands before the loop over the names and hands back an input (first result not
// nil) is reached only with at most one name.
type singleClient struct {
	BaseClient
	fn   string
	list types.Object
	loop ast.Node
}

func (c *singleClient) Return(e *Engine, st *State, ret *ast.ReturnStmt) {
	if ret == nil || e.Lit != nil || len(e.Frames()) > 0 || !e.Reporting() || len(ret.Results) == 0 || ret.Pos() > c.loop.Pos() {
		return
	}
	if isNilIdent(e.Info, ret.Results[0]) {
		return
	}
	f := st.Get("len(" + e.objKey(c.list) + ")")
	ok := false
	if f != nil {
		if n, isInt := parseInt(f.Eq); f.HasEq && isInt && n <= 1 {
			ok = true
		}
		if f.Hi != nil && *f.Hi <= 1 {
			ok = true
		}
	}
	if !ok {
		// the guard of the return says so in another way: every alternative of the enclosing condition compares the
		// list with a literal list of at most one element (slices.Equal(args, []string{"-"}))
		if ifs, isIf := e.P.Parent(e.P.Parent(ret)).(*ast.IfStmt); isIf && e.P.Parent(ret) == ast.Node(ifs.Body) {
			all := true
			for _, d := range disjuncts(ifs.Cond) {
				one := false
				for _, cj := range conjuncts(d) {
					call, isCall := ast.Unparen(cj).(*ast.CallExpr)
					if !isCall || len(call.Args) != 2 {
						continue
					}
					f := Callee(e.Info, call)
					if f == nil || !(f.FullName() == "slices.Equal" || f.FullName() == "reflect.DeepEqual") {
						continue
					}
					for i, a := range call.Args {
						if objOf(e.Info, a) != c.list {
							continue
						}
						if lit := litOf(e.P.Resolve(call.Args[1-i])); lit != nil && len(lit.Elts) <= 1 {
							one = true
						}
					}
				}
				if !one {
					// or the alternative is decided by the path facts of its own: len(list) == 0, len(list) == 1 && ...
					for _, cj := range conjuncts(d) {
						if b, isB := ast.Unparen(cj).(*ast.BinaryExpr); isB && (b.Op == token.EQL || b.Op == token.LSS || b.Op == token.LEQ) {
							if call, isCall := ast.Unparen(b.X).(*ast.CallExpr); isCall && IsBuiltinCall(e.Info, call, "len") && len(call.Args) == 1 && objOf(e.Info, call.Args[0]) == c.list {
								if k, isC := constInt(e.Info, b.Y); isC && (b.Op == token.EQL && k <= 1 || b.Op == token.LSS && k <= 2 || b.Op == token.LEQ && k <= 1) {
									one = true
								}
							}
						}
					}
				}
				if !one {
					all = false
				}
			}
			ok = all
		}
	}
	key := fmt.Sprintf("%s return #%d before the loop over %s", c.fn, returnOrdinal(e.Func, ret), c.list.Name())
	e.Site("C16/inputs", key, ret, ok, "reached only with at most one name in the list")
	if !ok {
		e.Site("C16/inputs", key, ret, false, fmt.Sprintf("an input is handed back before the loop over %s on a path where the list may hold several names: the names after the first are never opened - their queries disappear without a message and the exit status stays 0", c.list.Name()))
	}
}

// ruleC16Opens: the files named on the command line are each opened, in the order given. Decided on every loop of
// the command over a list of strings in whose body a file is opened (os.Open, directly or through helpers of the
// command that hand a parameter on to it): the name that is opened is the element of this turn - the loop's value
// variable or the list indexed by the loop's index variable. Anything else (a fixed element, a name from outside
// the loop) reads one file several times and the others never.
func ruleC16Opens(p *Program, r *Run) {
	pkg := p.Main
	info := pkg.TypesInfo
	isStrings := func(t types.Type) bool {
		sl, ok := t.Underlying().(*types.Slice)
		if !ok {
			return false
		}
		b, ok := sl.Elem().Underlying().(*types.Basic)
		return ok && b.Info()&types.IsString != 0
	}
	// opener: which parameter of a function of the command ends up as the name given to os.Open (-1: none)
	openerMemo := map[*types.Func]int{}
	var openerParam func(f *types.Func, depth int) int
	var openedNames func(root ast.Node, depth int) []ast.Expr
	openedNames = func(root ast.Node, depth int) []ast.Expr {
		var out []ast.Expr
		ast.Inspect(root, func(n ast.Node) bool {
			call, ok := n.(*ast.CallExpr)
			if !ok {
				return true
			}
			f := Callee(info, call)
			if f == nil {
				return true
			}
			switch f.FullName() {
			case "os.Open", "os.OpenFile", "os.ReadFile":
				if len(call.Args) > 0 {
					out = append(out, call.Args[0])
				}
				return true
			}
			if i := openerParam(f, depth+1); i >= 0 && i < len(call.Args) {
				out = append(out, call.Args[i])
			}
			return true
		})
		return out
	}
	openerParam = func(f *types.Func, depth int) int {
		if v, ok := openerMemo[f]; ok {
			return v
		}
		openerMemo[f] = -1
		decl, dpkg := p.DeclOf(f)
		if decl == nil || decl.Body == nil || dpkg != pkg || depth > 3 {
			return -1
		}
		var params []types.Object
		for _, fl := range decl.Type.Params.List {
			for _, nm := range fl.Names {
				params = append(params, info.Defs[nm])
			}
		}
		for _, name := range openedNames(decl.Body, depth) {
			o := objOf(info, p.Resolve(name))
			for i, po := range params {
				if o != nil && o == po {
					openerMemo[f] = i
				}
			}
		}
		return openerMemo[f]
	}
	n := 0
	early := map[*ast.FuncDecl]bool{}
	for _, fd := range AllFuncs(pkg) {
		if fd.Body == nil {
			continue
		}
		fn := FuncName(pkg, fd)
		ast.Inspect(fd.Body, func(nd ast.Node) bool {
			var list ast.Expr
			var idx, val types.Object
			var body *ast.BlockStmt
			switch lp := nd.(type) {
			case *ast.RangeStmt:
				if t := info.TypeOf(lp.X); t == nil || !isStrings(t) {
					return true
				}
				list, body = lp.X, lp.Body
				if id, ok := lp.Key.(*ast.Ident); ok && id.Name != "_" {
					idx = objOf(info, id)
				}
				if id, ok := lp.Value.(*ast.Ident); ok && id.Name != "_" {
					val = objOf(info, id)
				}
			case *ast.ForStmt:
				// for i := 0; i < len(list); i++
				cond, ok := lp.Cond.(*ast.BinaryExpr)
				if !ok {
					return true
				}
				call, ok := ast.Unparen(cond.Y).(*ast.CallExpr)
				if !ok || !IsBuiltinCall(info, call, "len") || len(call.Args) != 1 {
					return true
				}
				if t := info.TypeOf(call.Args[0]); t == nil || !isStrings(t) {
					return true
				}
				list, body = call.Args[0], lp.Body
				idx = objOf(info, cond.X)
			default:
				return true
			}
			names := openedNames(body, 0)
			if len(names) > 0 {
				// what is returned before the loop over the names is the whole input only if there is at most one
				// name: on every path to such a return the list is known to have no more than one element
				if lo := objOf(info, list); lo != nil && !early[fd] {
					early[fd] = true
					sc := &singleClient{fn: fn, list: lo, loop: nd}
					se := NewEngine(p, pkg, fd, sc)
					se.Run(nil)
					for _, m := range se.Errs {
						r.Fail("C16/inputs", fn+" engine (returns before the loop)", "-", m)
					}
					se.FlushSites(r)
				}
			}
			for _, name := range names {
				n++
				rn := ast.Unparen(p.Resolve(name))
				ok := false
				if o := objOf(info, rn); o != nil && val != nil && o == val {
					ok = true
				}
				if ix, isIx := rn.(*ast.IndexExpr); isIx && idx != nil {
					if objOf(info, p.Resolve(ix.Index)) == idx && objOf(info, ix.X) != nil && objOf(info, ix.X) == objOf(info, list) {
						ok = true
					}
				}
				r.Check(ok, "C16/inputs", fmt.Sprintf("%s loop over %s opens %s", fn, exprStr(list), exprStr(name)), p.Pos(name.Pos()),
					"the file opened in a turn of the loop over the names is the name of that turn",
					fmt.Sprintf("the loop over %s opens %s in every turn, not the name of the turn: one file is read several times and the other files are never read - their queries disappear without a message and the exit status stays 0", exprStr(list), exprStr(name)))
			}
			return true
		})
	}
	if n == 0 {
		r.Note("C16/inputs: no loop over a list of names opens a file in the command; the rule about opening every argument has nothing to decide")
	}
}

// ioReader: the io.Reader interface type.
func (p *Program) ioReader() *types.Interface {
	for _, pkg := range p.All {
		for _, imp := range pkg.Types.Imports() {
			if imp.Path() == "io" {
				if tn, ok := imp.Scope().Lookup("Reader").(*types.TypeName); ok {
					if it, ok := tn.Type().Underlying().(*types.Interface); ok {
						return it
					}
				}
			}
		}
	}
	return types.NewInterfaceType(nil, nil)
}
