package pc

import (
	"go/ast"
	"go/token"
	"go/types"
	"strings"
)

// ---- single-assignment temporaries
//
// A local variable that is assigned exactly once (at its declaration) from a stable expression is a name for that
// expression. Resolve replaces such names by their definitions, so that a rule which recognises an expression
// still recognises it after "introduce a temporary variable" (and its inverse).

type defInfo struct {
	count int      // number of assignments (declaration included); range/inc/address-taken count as 2
	rhs   ast.Expr // the single defining expression, if the declaration had one value per name
}

func (p *Program) defTable() map[types.Object]*defInfo {
	if p.defs != nil {
		return p.defs
	}
	p.defs = map[types.Object]*defInfo{}
	info := p.Info
	get := func(o types.Object) *defInfo {
		d := p.defs[o]
		if d == nil {
			d = &defInfo{}
			p.defs[o] = d
		}
		return d
	}
	// parameters, receivers and named results are bound when the function is entered: that is their first
	// definition, and it has no expression (an assignment in the body is a second one)
	bound := func(fl *ast.FieldList) {
		if fl == nil {
			return
		}
		for _, f := range fl.List {
			for _, nm := range f.Names {
				if o := info.Defs[nm]; o != nil && nm.Name != "_" {
					get(o).count++
				}
			}
		}
	}
	for _, pkg := range p.All {
		for _, f := range pkg.Syntax {
			ast.Inspect(f, func(n ast.Node) bool {
				switch x := n.(type) {
				case *ast.FuncDecl:
					bound(x.Recv)
					bound(x.Type.Params)
					bound(x.Type.Results)
				case *ast.FuncLit:
					bound(x.Type.Params)
					bound(x.Type.Results)
				case *ast.AssignStmt:
					for i, l := range x.Lhs {
						id, ok := ast.Unparen(l).(*ast.Ident)
						if !ok || id.Name == "_" {
							continue
						}
						o := objOf(info, id)
						if o == nil {
							continue
						}
						d := get(o)
						d.count++
						if (x.Tok == token.DEFINE || x.Tok == token.ASSIGN) && len(x.Lhs) == len(x.Rhs) {
							d.rhs = x.Rhs[i]
						} else {
							d.rhs = nil
							if x.Tok != token.DEFINE && x.Tok != token.ASSIGN {
								d.count++ // op-assignment
							}
						}
					}
				case *ast.ValueSpec:
					for i, id := range x.Names {
						o := info.Defs[id]
						if o == nil || id.Name == "_" {
							continue
						}
						d := get(o)
						d.count++
						if len(x.Values) == len(x.Names) {
							d.rhs = x.Values[i]
						} else if len(x.Values) == 0 {
							d.count++ // zero value now, assigned later
						}
					}
				case *ast.IncDecStmt:
					if o := objOf(info, x.X); o != nil {
						get(o).count += 2
					}
				case *ast.RangeStmt:
					// the variables of a range clause are set once per iteration (uses are confined to the body)
					for _, e := range []ast.Expr{x.Key, x.Value} {
						if e != nil {
							if o := objOf(info, e); o != nil {
								if x.Tok == token.DEFINE {
									get(o).count++
								} else {
									get(o).count += 2
								}
							}
						}
					}
				case *ast.UnaryExpr:
					if x.Op == token.AND {
						if o := objOf(info, x.X); o != nil {
							get(o).count += 2
						}
					}
				}
				return true
			})
		}
	}
	return p.defs
}

// neverReassigned: a local or parameter that keeps the value it got at its declaration.
func (p *Program) neverReassigned(o types.Object) bool {
	v, ok := o.(*types.Var)
	if !ok || v.IsField() {
		return false
	}
	if v.Pkg() != nil && v.Parent() == v.Pkg().Scope() {
		return false
	}
	d := p.defTable()[o]
	return d == nil || d.count <= 1
}

// DefOf returns the defining expression of a single-assignment local, if that expression is stable.
func (p *Program) DefOf(x ast.Expr) ast.Expr {
	id, ok := ast.Unparen(x).(*ast.Ident)
	if !ok {
		return nil
	}
	o := objOf(p.Info, id)
	if o == nil {
		return nil
	}
	d := p.defTable()[o]
	if d == nil || d.count != 1 || d.rhs == nil || !p.neverReassigned(o) {
		return nil
	}
	if !p.stableExpr(d.rhs, 0) {
		return nil
	}
	return d.rhs
}

// DefExpr returns the defining expression of a single-assignment local without asking whether it is stable
// (for rules that only need to know where a value came from).
func (p *Program) DefExpr(x ast.Expr) ast.Expr {
	for i := 0; i < 6; i++ {
		id, ok := ast.Unparen(x).(*ast.Ident)
		if !ok {
			return ast.Unparen(x)
		}
		o := objOf(p.Info, id)
		if o == nil {
			return id
		}
		d := p.defTable()[o]
		if d == nil || d.count != 1 || d.rhs == nil {
			return id
		}
		x = d.rhs
	}
	return ast.Unparen(x)
}

// stableExpr: evaluating x later (while its variables are in scope) gives the same value as evaluating it now.
func (p *Program) stableExpr(x ast.Expr, depth int) bool {
	if depth > 8 {
		return false
	}
	info := p.Info
	x = ast.Unparen(x)
	if tv, ok := info.Types[x]; ok && tv.Value != nil {
		return true
	}
	switch v := x.(type) {
	case *ast.Ident:
		o := objOf(info, v)
		switch o := o.(type) {
		case *types.Var:
			if o.Pkg() != nil && o.Parent() == o.Pkg().Scope() {
				return p.globalNeverWritten(o)
			}
			return p.neverReassigned(o)
		case *types.Nil, *types.Const, *types.Func:
			return true
		}
		return false
	case *ast.BasicLit:
		return true
	case *ast.BinaryExpr:
		return p.stableExpr(v.X, depth+1) && p.stableExpr(v.Y, depth+1)
	case *ast.UnaryExpr:
		if v.Op == token.AND || v.Op == token.ARROW {
			return false
		}
		return p.stableExpr(v.X, depth+1)
	case *ast.SelectorExpr:
		if sel, ok := info.Selections[v]; ok {
			if sel.Kind() != types.FieldVal {
				return false
			}
			if !p.stableExpr(v.X, depth+1) {
				return false
			}
			fld := sel.Obj().(*types.Var)
			if p.Summaries().IsFrozen(fld) {
				return true
			}
			// a field of a struct *value* held in a stable local (no pointer on the way)
			return !sel.Indirect() && p.valueChain(v.X)
		}
		if o, ok := info.Uses[v.Sel].(*types.Var); ok {
			return p.globalNeverWritten(o)
		}
		_, isConst := info.Uses[v.Sel].(*types.Const)
		return isConst
	case *ast.IndexExpr:
		if !p.stableExpr(v.X, depth+1) || !p.stableExpr(v.Index, depth+1) {
			return false
		}
		// elements of containers that are never stored into after construction
		switch b := ast.Unparen(v.X).(type) {
		case *ast.Ident:
			if o, ok := objOf(info, b).(*types.Var); ok && o.Pkg() != nil && o.Parent() == o.Pkg().Scope() {
				return p.globalNeverWritten(o)
			}
		case *ast.SelectorExpr:
			if fld := selField(info, b); fld != nil {
				return p.Summaries().IsFrozen(fld) && !p.fieldIndexStored(fld)
			}
		}
		return false
	case *ast.CallExpr:
		if tv, ok := info.Types[v.Fun]; ok && tv.IsType() && len(v.Args) == 1 {
			return p.stableExpr(v.Args[0], depth+1)
		}
		if IsBuiltinCall(info, v, "len") || IsBuiltinCall(info, v, "cap") {
			// the length of a local slice/string that is never reassigned or appended to
			if len(v.Args) == 1 {
				if id, ok := ast.Unparen(v.Args[0]).(*ast.Ident); ok {
					return p.neverReassigned(objOf(info, id))
				}
				if fld := selField(info, v.Args[0]); fld != nil {
					return p.Summaries().IsFrozen(fld) && p.stableExpr(v.Args[0], depth+1)
				}
			}
			return false
		}
		// a call of a function that writes nothing, with stable arguments
		if fn := Callee(info, v); fn != nil && p.pureFunc(fn) {
			for _, a := range v.Args {
				if !p.stableExpr(a, depth+1) {
					return false
				}
			}
			if sel, ok := ast.Unparen(v.Fun).(*ast.SelectorExpr); ok {
				if _, isSel := info.Selections[sel]; isSel && !p.stableExpr(sel.X, depth+1) {
					return false
				}
			}
			// the callee must not read mutable state either: fields it reads must be frozen - unless nothing
			// in the function holding the definition writes to the heap at all
			if fd := p.FuncAt(v.Pos()); fd != nil && p.quietFunc(fd) {
				return true
			}
			sums := p.Summaries()
			if sums.ReadsHeap(fn) {
				return false
			}
			for _, f := range sums.ReadsOf(fn) {
				if !sums.IsFrozen(f) {
					return false
				}
			}
			return true
		}
		return false
	}
	return false
}

// quietFunc: the body stores only into its own local variables and calls only functions that write nothing.
func (p *Program) quietFunc(fd *ast.FuncDecl) bool {
	if p.quiet == nil {
		p.quiet = map[*ast.FuncDecl]bool{}
	}
	if v, ok := p.quiet[fd]; ok {
		return v
	}
	info := p.Info
	ok := true
	ast.Inspect(fd.Body, func(n ast.Node) bool {
		switch x := n.(type) {
		case *ast.AssignStmt:
			for _, l := range x.Lhs {
				if _, isId := ast.Unparen(l).(*ast.Ident); !isId {
					ok = false
				}
			}
		case *ast.IncDecStmt:
			if _, isId := ast.Unparen(x.X).(*ast.Ident); !isId {
				ok = false
			}
		case *ast.CallExpr:
			if tv, isT := info.Types[x.Fun]; isT && tv.IsType() {
				return true
			}
			if id, isId := ast.Unparen(x.Fun).(*ast.Ident); isId {
				if b, isB := info.Uses[id].(*types.Builtin); isB {
					switch b.Name() {
					case "len", "cap", "append", "make", "new", "min", "max":
						return true
					}
					ok = false
					return true
				}
			}
			if fn := Callee(info, x); fn == nil || !p.pureFunc(fn) {
				ok = false
			}
		case *ast.GoStmt, *ast.SendStmt:
			ok = false
		}
		return true
	})
	p.quiet[fd] = ok
	return ok
}

// pureFunc: a module function that writes nothing (transitively), or a value-only standard-library function.
func (p *Program) pureFunc(fn *types.Func) bool {
	sums := p.Summaries()
	w, ok := sums.Writes[fn]
	if !ok {
		w, ok = sums.Writes[fn.Origin()]
	}
	if ok {
		return !w.All && !w.Index && len(w.Fields) == 0 && len(w.Globals) == 0
	}
	if fn.Pkg() == nil || fn.Type().(*types.Signature).Recv() != nil {
		return false
	}
	switch fn.Pkg().Path() {
	case "strings", "unicode", "unicode/utf8", "strconv", "errors":
		return true
	}
	return false
}

func (p *Program) valueChain(x ast.Expr) bool {
	x = ast.Unparen(x)
	switch v := x.(type) {
	case *ast.Ident:
		o, ok := objOf(p.Info, v).(*types.Var)
		if !ok {
			return false
		}
		_, isPtr := o.Type().Underlying().(*types.Pointer)
		return !isPtr && p.neverReassigned(o)
	case *ast.SelectorExpr:
		if sel, ok := p.Info.Selections[v]; ok && sel.Kind() == types.FieldVal && !sel.Indirect() {
			return p.valueChain(v.X)
		}
	}
	return false
}

// globalNeverWritten: a package-level variable no function stores to (element stores included).
func (p *Program) globalNeverWritten(o *types.Var) bool {
	if p.globalsWritten == nil {
		p.globalsWritten = map[*types.Var]bool{}
		for _, w := range p.Summaries().Writes {
			for g := range w.Globals {
				p.globalsWritten[g] = true
			}
		}
		info := p.Info
		for _, pkg := range p.All {
			for _, f := range pkg.Syntax {
				ast.Inspect(f, func(n ast.Node) bool {
					as, ok := n.(*ast.AssignStmt)
					if !ok {
						return true
					}
					for _, l := range as.Lhs {
						if ix, ok := ast.Unparen(l).(*ast.IndexExpr); ok {
							if g, ok := objOf(info, ix.X).(*types.Var); ok && g.Pkg() != nil && g.Parent() == g.Pkg().Scope() {
								p.globalsWritten[g] = true
							}
						}
					}
					return true
				})
			}
		}
	}
	return !p.globalsWritten[o]
}

// fieldIndexStored: some statement stores into an element of the container held in fld.
func (p *Program) fieldIndexStored(fld *types.Var) bool {
	if p.fieldIdxStored == nil {
		p.fieldIdxStored = map[*types.Var]bool{}
		info := p.Info
		for _, pkg := range p.All {
			for _, f := range pkg.Syntax {
				ast.Inspect(f, func(n ast.Node) bool {
					as, ok := n.(*ast.AssignStmt)
					if !ok {
						return true
					}
					for _, l := range as.Lhs {
						if ix, ok := ast.Unparen(l).(*ast.IndexExpr); ok {
							if fl := selField(info, ix.X); fl != nil {
								p.fieldIdxStored[fl] = true
							}
						}
					}
					return true
				})
			}
		}
	}
	return p.fieldIdxStored[fld]
}

// Resolve replaces single-assignment temporaries by their definitions, transitively, at the top of x
// (sub-expressions are resolved by ResolveDeep).
func (p *Program) Resolve(x ast.Expr) ast.Expr {
	for i := 0; i < 8; i++ {
		x = ast.Unparen(x)
		d := p.DefOf(x)
		if d == nil {
			return x
		}
		x = d
	}
	return x
}

// ResolveDeep rebuilds x with every single-assignment temporary replaced by its definition. The result shares
// unchanged sub-trees with x; new nodes carry the type information of the nodes they replace.
func (p *Program) ResolveDeep(x ast.Expr) ast.Expr {
	return p.resolveDeep(x, 0, p.Resolve)
}

func (p *Program) resolveDeep(x ast.Expr, depth int, top func(ast.Expr) ast.Expr) ast.Expr {
	if x == nil || depth > 12 {
		return x
	}
	x = top(x)
	copyType := func(n, old ast.Expr) ast.Expr {
		if tv, ok := p.Info.Types[old]; ok {
			p.Info.Types[n] = tv
		}
		return n
	}
	switch v := x.(type) {
	case *ast.BinaryExpr:
		a, b := p.resolveDeep(v.X, depth+1, top), p.resolveDeep(v.Y, depth+1, top)
		if a != v.X || b != v.Y {
			return copyType(&ast.BinaryExpr{X: a, OpPos: v.OpPos, Op: v.Op, Y: b}, v)
		}
	case *ast.UnaryExpr:
		a := p.resolveDeep(v.X, depth+1, top)
		if a != v.X {
			return copyType(&ast.UnaryExpr{OpPos: v.OpPos, Op: v.Op, X: a}, v)
		}
	case *ast.SelectorExpr:
		if sel, ok := p.Info.Selections[v]; ok {
			a := p.resolveDeep(v.X, depth+1, top)
			if a != v.X {
				n := &ast.SelectorExpr{X: a, Sel: v.Sel}
				p.Info.Selections[n] = sel
				return copyType(n, v)
			}
		}
	case *ast.IndexExpr:
		a, b := p.resolveDeep(v.X, depth+1, top), p.resolveDeep(v.Index, depth+1, top)
		if a != v.X || b != v.Index {
			return copyType(&ast.IndexExpr{X: a, Lbrack: v.Lbrack, Index: b, Rbrack: v.Rbrack}, v)
		}
	case *ast.CallExpr:
		if (IsBuiltinCall(p.Info, v, "len") || IsBuiltinCall(p.Info, v, "cap")) && len(v.Args) == 1 {
			a := p.resolveDeep(v.Args[0], depth+1, top)
			if a != v.Args[0] {
				return copyType(&ast.CallExpr{Fun: v.Fun, Lparen: v.Lparen, Args: []ast.Expr{a}, Rparen: v.Rparen}, v)
			}
		}
	case *ast.SliceExpr:
		a, lo, hi := p.resolveDeep(v.X, depth+1, top), p.resolveDeep(v.Low, depth+1, top), p.resolveDeep(v.High, depth+1, top)
		if a != v.X || lo != v.Low || hi != v.High {
			return copyType(&ast.SliceExpr{X: a, Lbrack: v.Lbrack, Low: lo, High: hi, Max: v.Max, Slice3: v.Slice3, Rbrack: v.Rbrack}, v)
		}
	}
	return x
}

// NormExpr renders x so that it reads the same after local renamings: constants by value, every local variable
// (parameters and receivers included) by "$" + its type; names are looked through first.
func (e *Engine) NormExpr(x ast.Expr) string {
	x = e.ResolveDeep(x)
	return e.P.normExpr(x)
}

// normExprElem is normExpr with an element selected from a list standing for "a value of the element type"
// (tokens[i].Span and tok.Span are the same thing for an argument about every token of the list).
func (p *Program) normExprElem(x ast.Expr) string {
	p.normElem = true
	defer func() { p.normElem = false }()
	return p.normExpr(x)
}

func (p *Program) normExpr(x ast.Expr) string {
	if x == nil {
		return ""
	}
	info := p.Info
	if tv, ok := info.Types[x]; ok && tv.Value != nil {
		return constKey(tv.Value)
	}
	switch v := x.(type) {
	case *ast.ParenExpr:
		return p.normExpr(v.X)
	case *ast.Ident:
		if o, ok := objOf(info, v).(*types.Var); ok && !o.IsField() && !(o.Pkg() != nil && o.Parent() == o.Pkg().Scope()) {
			return "$" + unqualified(TypeStr(o.Type()))
		}
		return v.Name
	case *ast.SelectorExpr:
		if ix, ok := ast.Unparen(v.X).(*ast.IndexExpr); ok && p.normElem {
			if t := info.TypeOf(ix); t != nil {
				return "$" + unqualified(TypeStr(t)) + "." + selName(v)
			}
		}
		return p.normExpr(v.X) + "." + selName(v)
	case *ast.IndexExpr:
		return p.normExpr(v.X) + "[" + p.normExpr(v.Index) + "]"
	case *ast.SliceExpr:
		return p.normExpr(v.X) + "[" + p.normExpr(v.Low) + ":" + p.normExpr(v.High) + "]"
	case *ast.BinaryExpr:
		return p.normExpr(v.X) + " " + v.Op.String() + " " + p.normExpr(v.Y)
	case *ast.UnaryExpr:
		return v.Op.String() + p.normExpr(v.X)
	case *ast.StarExpr:
		return "*" + p.normExpr(v.X)
	case *ast.CallExpr:
		var args []string
		for _, a := range v.Args {
			args = append(args, p.normExpr(a))
		}
		return p.normExpr(v.Fun) + "(" + strings.Join(args, ", ") + ")"
	}
	return exprStr(x)
}

// ---- constructor helpers
//
// Subst copies x, replacing the variables of env by their expressions. New nodes carry the type information of
// the nodes they were copied from.

func (p *Program) Subst(x ast.Expr, env map[types.Object]ast.Expr) ast.Expr {
	if x == nil || len(env) == 0 {
		return x
	}
	info := p.Info
	keep := func(n, old ast.Expr) ast.Expr {
		if tv, ok := info.Types[old]; ok {
			info.Types[n] = tv
		}
		return n
	}
	switch v := x.(type) {
	case *ast.Ident:
		if o := objOf(info, v); o != nil {
			if r, ok := env[o]; ok {
				return r
			}
		}
		return v
	case *ast.ParenExpr:
		return keep(&ast.ParenExpr{Lparen: v.Lparen, X: p.Subst(v.X, env), Rparen: v.Rparen}, v)
	case *ast.SelectorExpr:
		if sel, ok := info.Selections[v]; ok {
			n := &ast.SelectorExpr{X: p.Subst(v.X, env), Sel: v.Sel}
			info.Selections[n] = sel
			return keep(n, v)
		}
		return v
	case *ast.StarExpr:
		return keep(&ast.StarExpr{Star: v.Star, X: p.Subst(v.X, env)}, v)
	case *ast.UnaryExpr:
		return keep(&ast.UnaryExpr{OpPos: v.OpPos, Op: v.Op, X: p.Subst(v.X, env)}, v)
	case *ast.BinaryExpr:
		return keep(&ast.BinaryExpr{X: p.Subst(v.X, env), OpPos: v.OpPos, Op: v.Op, Y: p.Subst(v.Y, env)}, v)
	case *ast.IndexExpr:
		return keep(&ast.IndexExpr{X: p.Subst(v.X, env), Lbrack: v.Lbrack, Index: p.Subst(v.Index, env), Rbrack: v.Rbrack}, v)
	case *ast.SliceExpr:
		return keep(&ast.SliceExpr{X: p.Subst(v.X, env), Lbrack: v.Lbrack, Low: p.Subst(v.Low, env), High: p.Subst(v.High, env), Max: p.Subst(v.Max, env), Slice3: v.Slice3, Rbrack: v.Rbrack}, v)
	case *ast.KeyValueExpr:
		return &ast.KeyValueExpr{Key: v.Key, Colon: v.Colon, Value: p.Subst(v.Value, env)}
	case *ast.CompositeLit:
		n := &ast.CompositeLit{Type: v.Type, Lbrace: v.Lbrace, Rbrace: v.Rbrace, Incomplete: v.Incomplete}
		for _, el := range v.Elts {
			n.Elts = append(n.Elts, p.Subst(el, env))
		}
		return keep(n, v)
	case *ast.CallExpr:
		n := &ast.CallExpr{Fun: v.Fun, Lparen: v.Lparen, Ellipsis: v.Ellipsis, Rparen: v.Rparen}
		if sel, ok := v.Fun.(*ast.SelectorExpr); ok {
			if _, isSel := info.Selections[sel]; isSel {
				n.Fun = p.Subst(sel, env)
			}
		}
		for _, a := range v.Args {
			n.Args = append(n.Args, p.Subst(a, env))
		}
		return keep(n, v)
	case *ast.TypeAssertExpr:
		return keep(&ast.TypeAssertExpr{X: p.Subst(v.X, env), Lparen: v.Lparen, Type: v.Type, Rparen: v.Rparen}, v)
	}
	return x
}

// ExpandCall: the value of a call to a module helper that does nothing but build and return one expression
// (`func h(a, b) T { tmp := ...; return &T{...a...tmp...} }`), with the parameters replaced by the arguments.
// Returns nil if the callee is not of that shape.
func (p *Program) ExpandCall(call *ast.CallExpr) ast.Expr { return p.expandCall(call, 0) }

// ExpandResults is ExpandCall for a helper with several results: the expression each result stands for.
func (p *Program) ExpandResults(call *ast.CallExpr) []ast.Expr {
	fn := Callee(p.Info, call)
	if fn == nil {
		return nil
	}
	n := fn.Type().(*types.Signature).Results().Len()
	var out []ast.Expr
	for i := 0; i < n; i++ {
		x := p.expandCallResult(call, 0, i, n)
		if x == nil {
			return nil
		}
		out = append(out, x)
	}
	return out
}

func (p *Program) expandCall(call *ast.CallExpr, depth int) ast.Expr {
	return p.expandCallResult(call, depth, 0, 1)
}

func (p *Program) expandCallResult(call *ast.CallExpr, depth, idx, nres int) ast.Expr {
	if depth > 4 {
		return nil
	}
	info := p.Info
	fn := Callee(info, call)
	decl, _ := p.DeclOf(fn)
	var sig *types.Signature
	if fn != nil {
		sig = fn.Type().(*types.Signature)
	}
	if decl == nil {
		// a local closure that only builds and returns a value: onSide := func(alias string) *T { return &T{...} }
		if id, ok := ast.Unparen(call.Fun).(*ast.Ident); ok {
			if lit, isLit := ast.Unparen(p.DefExpr(id)).(*ast.FuncLit); isLit && p.callOnlyClosure(lit) != nil {
				decl = &ast.FuncDecl{Name: id, Type: lit.Type, Body: lit.Body}
				sig, _ = info.TypeOf(lit).(*types.Signature)
			}
		}
	}
	if decl == nil || decl.Body == nil || sig == nil {
		return nil
	}
	if sig.Variadic() || sig.Results().Len() != nres || sig.Params().Len() != len(call.Args) {
		return nil
	}
	// body: single-assignment temporaries, then one return
	var ret *ast.ReturnStmt
	for i, s := range decl.Body.List {
		switch v := s.(type) {
		case *ast.AssignStmt:
			if v.Tok != token.DEFINE {
				return nil
			}
			for _, l := range v.Lhs {
				if p.DefOf(l) == nil && p.litDef(l) == nil {
					return nil
				}
			}
		case *ast.ReturnStmt:
			if i != len(decl.Body.List)-1 || len(v.Results) != nres {
				return nil
			}
			ret = v
		default:
			return nil
		}
	}
	if ret == nil {
		return nil
	}
	env := map[types.Object]ast.Expr{}
	i := 0
	for _, f := range decl.Type.Params.List {
		for _, n := range f.Names {
			if o := info.Defs[n]; o != nil {
				if !p.neverReassigned(o) {
					return nil
				}
				env[o] = call.Args[i]
			}
			i++
		}
		if len(f.Names) == 0 {
			i++
		}
	}
	if decl.Recv != nil && len(decl.Recv.List) == 1 && len(decl.Recv.List[0].Names) == 1 {
		if sel, ok := ast.Unparen(call.Fun).(*ast.SelectorExpr); ok {
			if o := info.Defs[decl.Recv.List[0].Names[0]]; o != nil {
				env[o] = sel.X
			}
		}
	}
	body := p.ResolveDeepAll(ret.Results[idx])
	return p.Subst(body, env)
}

// ResolveDeepAll is ResolveDeep that also descends into composite literals, address-of and call arguments.
func (p *Program) ResolveDeepAll(x ast.Expr) ast.Expr {
	env := map[types.Object]ast.Expr{}
	ast.Inspect(x, func(n ast.Node) bool {
		if id, ok := n.(*ast.Ident); ok {
			if o := objOf(p.Info, id); o != nil {
				if _, done := env[o]; !done {
					if d := p.DefOf(id); d != nil {
						env[o] = p.ResolveDeepAll(d)
					} else if d := p.litDef(id); d != nil {
						env[o] = p.ResolveDeepAll(d)
					}
				}
			}
		}
		return true
	})
	return p.Subst(x, env)
}

// Constructed looks through names and constructor helpers: the composite literal (or other expression) that x
// evaluates to, if that can be told statically.
func (p *Program) Constructed(x ast.Expr) ast.Expr {
	for i := 0; i < 6; i++ {
		x = p.Resolve(x)
		switch v := x.(type) {
		case *ast.UnaryExpr:
			if v.Op == token.AND {
				return x
			}
		case *ast.CallExpr:
			if ex := p.ExpandCall(v); ex != nil {
				x = ex
				continue
			}
		}
		return x
	}
	return x
}

// unqualified drops package qualifiers from a rendered type ("*parser.parser" -> "*parser").
func unqualified(s string) string {
	var sb strings.Builder
	start := 0
	for i := 0; i < len(s); i++ {
		if !isIdentByte(s[i]) {
			if s[i] == '.' && i > start {
				// the identifier before the dot was a qualifier: drop it
				start = i + 1
				continue
			}
			sb.WriteString(s[start : i+1])
			start = i + 1
		}
	}
	sb.WriteString(s[start:])
	return sb.String()
}

// constTable: x names a package-level map that is initialised by a literal with constant keys (at most 48) and is
// never written afterwards; its entries.
func (p *Program) constTable(x ast.Expr) []*ast.KeyValueExpr {
	g, ok := objOf(p.Info, x).(*types.Var)
	if !ok || g.Pkg() == nil || g.Parent() != g.Pkg().Scope() {
		return nil
	}
	if _, isMap := g.Type().Underlying().(*types.Map); !isMap {
		return nil
	}
	if p.constTables == nil {
		p.constTables = map[*types.Var][]*ast.KeyValueExpr{}
	}
	if t, done := p.constTables[g]; done {
		return t
	}
	var entries []*ast.KeyValueExpr
	if p.globalNeverWritten(g) && p.onlyLookedUp(g) {
		for _, pkg := range p.All {
			for _, f := range pkg.Syntax {
				for _, d := range f.Decls {
					gd, ok := d.(*ast.GenDecl)
					if !ok || gd.Tok != token.VAR {
						continue
					}
					for _, sp := range gd.Specs {
						vs := sp.(*ast.ValueSpec)
						for i, n := range vs.Names {
							if p.Info.Defs[n] != g || i >= len(vs.Values) {
								continue
							}
							cl, ok := ast.Unparen(vs.Values[i]).(*ast.CompositeLit)
							if !ok || len(cl.Elts) == 0 || len(cl.Elts) > 48 {
								continue
							}
							good := true
							var es []*ast.KeyValueExpr
							for _, el := range cl.Elts {
								kv, ok := el.(*ast.KeyValueExpr)
								if !ok || constOf(p.Info, kv.Key) == nil {
									good = false
									break
								}
								es = append(es, kv)
							}
							if good {
								entries = es
							}
						}
					}
				}
			}
		}
	}
	p.constTables[g] = entries
	return entries
}

// onlyLookedUp: every mention of the package-level map g reads it - the operand of an index expression that is not
// stored to, incremented or deleted from, of a range statement, or of len. Anything else (passed on, assigned to
// another name, cleared) could change it behind the table's back.
func (p *Program) onlyLookedUp(g *types.Var) bool {
	ok := true
	for _, pkg := range p.All {
		for _, f := range pkg.Syntax {
			ast.Inspect(f, func(n ast.Node) bool {
				id, isID := n.(*ast.Ident)
				if !isID || !ok || p.Info.Uses[id] != types.Object(g) {
					return ok
				}
				var use ast.Node = id
				par := p.Parent(use)
				if sel, isSel := par.(*ast.SelectorExpr); isSel && sel.Sel == id {
					use, par = sel, p.Parent(sel) // pkg.Table
				}
				for {
					if pe, isParen := par.(*ast.ParenExpr); isParen {
						use, par = pe, p.Parent(pe)
						continue
					}
					break
				}
				switch v := par.(type) {
				case *ast.IndexExpr:
					if v.X != use {
						ok = false
						return false
					}
					switch gp := p.Parent(v).(type) {
					case *ast.IncDecStmt:
						ok = false
					case *ast.AssignStmt:
						for _, l := range gp.Lhs {
							if l == ast.Expr(v) {
								ok = false
							}
						}
					case *ast.UnaryExpr:
						if gp.Op == token.AND {
							ok = false
						}
					}
				case *ast.RangeStmt:
					if v.X != use {
						ok = false
					}
				case *ast.CallExpr:
					if !IsBuiltinCall(p.Info, v, "len") {
						ok = false
					}
				default:
					ok = false
				}
				return ok
			})
		}
	}
	return ok
}

// privateAlloc: a local variable that is assigned exactly once, from &T{...} or new(T), and is only ever used as the
// base of a selector (x.f, x.m(...)) - in its function and, as a receiver, in the methods called on it. Nothing but
// code that is handed x can reach what hangs off it.
func (p *Program) privateAlloc(o types.Object) bool {
	v, ok := o.(*types.Var)
	if !ok || v.IsField() || v.Pkg() == nil || v.Parent() == v.Pkg().Scope() {
		return false
	}
	if p.privAlloc == nil {
		p.privAlloc = map[types.Object]bool{}
	}
	if r, done := p.privAlloc[o]; done {
		return r
	}
	p.privAlloc[o] = false
	d := p.defTable()[o]
	if d == nil || d.count != 1 || d.rhs == nil || !p.neverReassigned(o) {
		return false
	}
	rhs := ast.Unparen(d.rhs)
	okAlloc := false
	if u, isU := rhs.(*ast.UnaryExpr); isU && u.Op == token.AND {
		_, okAlloc = ast.Unparen(u.X).(*ast.CompositeLit)
	}
	if call, isCall := rhs.(*ast.CallExpr); isCall && IsBuiltinCall(p.Info, call, "new") {
		okAlloc = true
	}
	// a struct held by value in the local (x := T{...}): the variable is the allocation; its address is only
	// ever taken implicitly, for the receivers of the methods checked below
	if cl, isLit := rhs.(*ast.CompositeLit); isLit {
		if _, isStruct := p.Info.TypeOf(cl).Underlying().(*types.Struct); isStruct {
			okAlloc = true
		}
	}
	if !okAlloc {
		return false
	}
	// the function that declares it
	var fd *ast.FuncDecl
	for _, pkg := range p.All {
		for _, f := range AllFuncs(pkg) {
			if f.Pos() <= o.Pos() && o.Pos() < f.End() {
				fd = f
			}
		}
	}
	if fd == nil {
		return false
	}
	onlySelectorBase := func(body ast.Node, obj types.Object) (bool, []*types.Func) {
		ok := true
		var methods []*types.Func
		ast.Inspect(body, func(n ast.Node) bool {
			id, isID := n.(*ast.Ident)
			if !isID || objOf(p.Info, id) != obj {
				return true
			}
			if p.Info.Defs[id] != nil {
				return true // the declaration itself
			}
			if _, isRet := p.Parent(id).(*ast.ReturnStmt); isRet {
				return true // handing it out ends the function: nothing can have reached it before
			}
			sel, isSel := p.Parent(id).(*ast.SelectorExpr)
			if !isSel || sel.X != ast.Expr(id) {
				ok = false
				return true
			}
			if s, has := p.Info.Selections[sel]; has && s.Kind() == types.MethodVal {
				if call, isCall := p.Parent(sel).(*ast.CallExpr); !isCall || call.Fun != ast.Expr(sel) {
					ok = false // a method value escapes
				} else if f, isF := s.Obj().(*types.Func); isF {
					methods = append(methods, f)
				}
			}
			return true
		})
		return ok, methods
	}
	ok1, methods := onlySelectorBase(fd.Body, o)
	if !ok1 {
		return false
	}
	seen := map[*types.Func]bool{}
	for i := 0; i < len(methods) && i < 32; i++ {
		m := methods[i]
		if seen[m] {
			continue
		}
		seen[m] = true
		decl, _ := p.DeclOf(m)
		if decl == nil || decl.Recv == nil || len(decl.Recv.List) != 1 || len(decl.Recv.List[0].Names) != 1 {
			if decl == nil {
				return false // a method we cannot see
			}
			continue
		}
		recv := p.Info.Defs[decl.Recv.List[0].Names[0]]
		if recv == nil {
			continue
		}
		okm, more := onlySelectorBase(decl.Body, recv)
		if !okm {
			return false
		}
		methods = append(methods, more...)
	}
	p.privAlloc[o] = true
	return true
}

// globalInitExpr: the initialiser of a package-level variable (nil if it has none).
func (p *Program) globalInitExpr(g *types.Var) ast.Expr {
	if p.globalInits == nil {
		p.globalInits = map[*types.Var]ast.Expr{}
		for _, pkg := range p.All {
			for _, f := range pkg.Syntax {
				for _, d := range f.Decls {
					gd, ok := d.(*ast.GenDecl)
					if !ok || gd.Tok != token.VAR {
						continue
					}
					for _, sp := range gd.Specs {
						vs := sp.(*ast.ValueSpec)
						for i, n := range vs.Names {
							if v, isVar := p.Info.Defs[n].(*types.Var); isVar && i < len(vs.Values) {
								p.globalInits[v] = vs.Values[i]
							}
						}
					}
				}
			}
		}
	}
	return p.globalInits[g]
}

// callOnlyClosure: lit is the one definition of a local variable (f := func(...) {...}) that is used only by
// calling it; returns that variable.
func (p *Program) callOnlyClosure(lit *ast.FuncLit) types.Object {
	if p.callOnly == nil {
		p.callOnly = map[*ast.FuncLit]types.Object{}
	}
	if v, done := p.callOnly[lit]; done {
		return v
	}
	p.callOnly[lit] = nil
	var v types.Object
	switch par := p.Parent(lit).(type) {
	case *ast.AssignStmt:
		if par.Tok == token.DEFINE && len(par.Lhs) == 1 && len(par.Rhs) == 1 {
			v = objOf(p.Info, par.Lhs[0])
		}
	case *ast.ValueSpec:
		if len(par.Names) == 1 && len(par.Values) == 1 {
			v = p.Info.Defs[par.Names[0]]
		}
	}
	lv, ok := v.(*types.Var)
	if !ok || lv.Pkg() == nil || lv.Parent() == lv.Pkg().Scope() || !p.neverReassigned(v) {
		return nil
	}
	fd := p.FuncAt(lit.Pos())
	if fd == nil {
		return nil
	}
	okUse := true
	ast.Inspect(fd.Body, func(n ast.Node) bool {
		id, isID := n.(*ast.Ident)
		if !isID || objOf(p.Info, id) != v || p.Info.Defs[id] != nil {
			return true
		}
		if call, isCall := p.Parent(id).(*ast.CallExpr); !isCall || call.Fun != ast.Expr(id) {
			okUse = false
		}
		return true
	})
	if !okUse {
		return nil
	}
	p.callOnly[lit] = v
	return v
}

// litDef: the variable is assigned exactly once, from a composite literal (or its address): a node under
// construction that a constructor helper names before returning it.
func (p *Program) litDef(x ast.Expr) ast.Expr {
	id, ok := ast.Unparen(x).(*ast.Ident)
	if !ok {
		return nil
	}
	o := objOf(p.Info, id)
	if o == nil {
		return nil
	}
	d := p.defTable()[o]
	if d == nil || d.count != 1 || d.rhs == nil || !p.neverReassigned(o) {
		return nil
	}
	r := ast.Unparen(d.rhs)
	if u, isU := r.(*ast.UnaryExpr); isU && u.Op == token.AND {
		r = ast.Unparen(u.X)
	}
	if _, isLit := r.(*ast.CompositeLit); !isLit {
		return nil
	}
	return d.rhs
}

// freshResult: fn is a module function with a single result, and every return gives a value that was made in the
// function (make, new, &T{...}, a map/slice literal, or a local that is only ever assigned such values): the
// result is never nil and nothing else refers to it.
func (p *Program) freshResult(fn *types.Func) bool {
	if p.fresh == nil {
		p.fresh = map[*types.Func]bool{}
	}
	if v, done := p.fresh[fn]; done {
		return v
	}
	p.fresh[fn] = false
	decl, _ := p.DeclOf(fn)
	if decl == nil || decl.Body == nil || fn.Type().(*types.Signature).Results().Len() != 1 {
		return false
	}
	switch fn.Type().(*types.Signature).Results().At(0).Type().Underlying().(type) {
	case *types.Map, *types.Slice, *types.Pointer:
	default:
		return false
	}
	info := p.Info
	isFresh := func(x ast.Expr) bool {
		x = ast.Unparen(x)
		switch v := x.(type) {
		case *ast.CallExpr:
			return IsBuiltinCall(info, v, "make") || IsBuiltinCall(info, v, "new")
		case *ast.UnaryExpr:
			if v.Op == token.AND {
				_, isLit := ast.Unparen(v.X).(*ast.CompositeLit)
				return isLit
			}
		case *ast.CompositeLit:
			switch info.TypeOf(v).Underlying().(type) {
			case *types.Map, *types.Slice:
				return true
			}
		}
		return false
	}
	ok, n := true, 0
	ast.Inspect(decl.Body, func(m ast.Node) bool {
		switch r := m.(type) {
		case *ast.FuncLit:
			return false
		case *ast.ReturnStmt:
			n++
			if len(r.Results) != 1 {
				ok = false
				return true
			}
			if isFresh(r.Results[0]) {
				return true
			}
			if _, isID := ast.Unparen(r.Results[0]).(*ast.Ident); isID && !isNilIdent(info, r.Results[0]) && p.allDefsAre(r.Results[0], isFresh) {
				return true
			}
			ok = false
		}
		return true
	})
	p.fresh[fn] = ok && n > 0
	return p.fresh[fn]
}

// paramCallArgs: for a parameter of a module function (not a method value or function value that escapes), the
// argument expressions passed for it at every call site of the function in the module. ok is false if o is not
// such a parameter, the function is exported or used as a value, or has no call site.
func (p *Program) paramCallArgs(o types.Object) (args []ast.Expr, ok bool) {
	v, isVar := o.(*types.Var)
	if !isVar || v.IsField() {
		return nil, false
	}
	fd := p.FuncAt(o.Pos())
	if fd == nil {
		return nil, false
	}
	pkg := p.PkgOf(fd.Pos())
	if pkg == nil {
		return nil, false
	}
	idx := paramIndex(pkg.TypesInfo, fd, v)
	if idx < 0 {
		// a parameter of a local closure that is only ever called: the arguments of its calls
		var lit *ast.FuncLit
		ast.Inspect(fd.Body, func(n ast.Node) bool {
			if fl, isLit := n.(*ast.FuncLit); isLit && fl.Type.Params != nil {
				for _, f := range fl.Type.Params.List {
					for _, nm := range f.Names {
						if p.Info.Defs[nm] == o {
							lit = fl
						}
					}
				}
			}
			return lit == nil
		})
		if lit == nil {
			return nil, false
		}
		holder := p.callOnlyClosure(lit)
		if holder == nil {
			return nil, false
		}
		li := 0
		found := -1
		for _, f := range lit.Type.Params.List {
			for _, nm := range f.Names {
				if p.Info.Defs[nm] == o {
					found = li
				}
				li++
			}
		}
		if found < 0 {
			return nil, false
		}
		ast.Inspect(fd.Body, func(n ast.Node) bool {
			if call, isCall := n.(*ast.CallExpr); isCall && objOf(p.Info, call.Fun) == holder && found < len(call.Args) {
				args = append(args, call.Args[found])
			}
			return true
		})
		return args, len(args) > 0
	}
	fn := FuncObj(pkg, fd)
	if fn == nil || fn.Exported() {
		return nil, false
	}
	sig := fn.Type().(*types.Signature)
	if sig.Variadic() && idx == sig.Params().Len()-1 {
		return nil, false
	}
	escapes := false
	for _, q := range p.All {
		for _, f := range q.Syntax {
			ast.Inspect(f, func(n ast.Node) bool {
				switch x := n.(type) {
				case *ast.CallExpr:
					c := Callee(q.TypesInfo, x)
					if c != nil && c.Origin() != nil {
						c = c.Origin()
					}
					if c == fn && idx < len(x.Args) {
						args = append(args, x.Args[idx])
					}
				case *ast.Ident:
					if q.TypesInfo.Uses[x] == types.Object(fn) {
						// used other than as the function of a call?
						par := p.Parent(x)
						if sel, isSel := par.(*ast.SelectorExpr); isSel && sel.Sel == x {
							par = p.Parent(sel)
						}
						if ix, isIx := par.(*ast.IndexExpr); isIx {
							par = p.Parent(ix) // generic instantiation f[T](...)
						}
						if call, isCall := par.(*ast.CallExpr); !isCall || (ast.Unparen(call.Fun) != ast.Expr(x) && !containsNode(call.Fun, x)) {
							escapes = true
						}
					}
				}
				return true
			})
		}
	}
	if escapes || len(args) == 0 {
		return nil, false
	}
	return args, true
}

func containsNode(root ast.Node, n ast.Node) bool {
	found := false
	ast.Inspect(root, func(m ast.Node) bool {
		if m == n {
			found = true
		}
		return !found
	})
	return found
}

// tokenLits: the Token literals written in root, and the ones that calls of constructor helpers stand for
// (newToken(kind, span, value) with a body that only builds and returns the literal: the call is replaced by the
// literal with the arguments in place of the parameters).
func (p *Program) tokenLits(root ast.Node) []*ast.CompositeLit {
	var out []*ast.CompositeLit
	ast.Inspect(root, func(n ast.Node) bool {
		switch v := n.(type) {
		case *ast.CompositeLit:
			if TypeStr(p.Info.TypeOf(v)) == "parser.Token" {
				out = append(out, v)
			}
		case *ast.CallExpr:
			f := Callee(p.Info, v)
			if f == nil || f.Pkg() == nil || f.Pkg().Path() != PathParser {
				return true
			}
			sig := f.Type().(*types.Signature)
			if sig.Results().Len() != 1 || TypeStr(sig.Results().At(0).Type()) != "parser.Token" {
				return true
			}
			if ex := p.ExpandCall(v); ex != nil {
				if lit := litOf(ex); lit != nil && TypeStr(p.Info.TypeOf(lit)) == "parser.Token" {
					out = append(out, lit)
				}
			}
		}
		return true
	})
	return out
}
