package pc

import (
	"go/ast"
	"go/token"
	"go/types"
	"strings"
)

// ---- single-assignment temporaries
//
// A local variable that is assigned exactly once (at its declaration) from a stable expression is a name for that
// expression. Resolve replaces such names by their definitions, so that a rule which recognises an expression
// still recognises it after "introduce a temporary variable" (and its inverse).

type defInfo struct {
	count int      // number of assignments (declaration included); range/inc/address-taken count as 2
	rhs   ast.Expr // the single defining expression, if the declaration had one value per name
}

func (p *Program) defTable() map[types.Object]*defInfo {
	if p.defs != nil {
		return p.defs
	}
	p.defs = map[types.Object]*defInfo{}
	info := p.Info
	get := func(o types.Object) *defInfo {
		d := p.defs[o]
		if d == nil {
			d = &defInfo{}
			p.defs[o] = d
		}
		return d
	}
	for _, pkg := range p.All {
		for _, f := range pkg.Syntax {
			ast.Inspect(f, func(n ast.Node) bool {
				switch x := n.(type) {
				case *ast.AssignStmt:
					for i, l := range x.Lhs {
						id, ok := ast.Unparen(l).(*ast.Ident)
						if !ok || id.Name == "_" {
							continue
						}
						o := objOf(info, id)
						if o == nil {
							continue
						}
						d := get(o)
						d.count++
						if (x.Tok == token.DEFINE || x.Tok == token.ASSIGN) && len(x.Lhs) == len(x.Rhs) {
							d.rhs = x.Rhs[i]
						} else {
							d.rhs = nil
							if x.Tok != token.DEFINE && x.Tok != token.ASSIGN {
								d.count++ // op-assignment
							}
						}
					}
				case *ast.ValueSpec:
					for i, id := range x.Names {
						o := info.Defs[id]
						if o == nil || id.Name == "_" {
							continue
						}
						d := get(o)
						d.count++
						if len(x.Values) == len(x.Names) {
							d.rhs = x.Values[i]
						} else if len(x.Values) == 0 {
							d.count++ // zero value now, assigned later
						}
					}
				case *ast.IncDecStmt:
					if o := objOf(info, x.X); o != nil {
						get(o).count += 2
					}
				case *ast.RangeStmt:
					for _, e := range []ast.Expr{x.Key, x.Value} {
						if e != nil {
							if o := objOf(info, e); o != nil {
								get(o).count += 2
							}
						}
					}
				case *ast.UnaryExpr:
					if x.Op == token.AND {
						if o := objOf(info, x.X); o != nil {
							get(o).count += 2
						}
					}
				}
				return true
			})
		}
	}
	return p.defs
}

// neverReassigned: a local or parameter that keeps the value it got at its declaration.
func (p *Program) neverReassigned(o types.Object) bool {
	v, ok := o.(*types.Var)
	if !ok || v.IsField() {
		return false
	}
	if v.Pkg() != nil && v.Parent() == v.Pkg().Scope() {
		return false
	}
	d := p.defTable()[o]
	return d == nil || d.count <= 1
}

// DefOf returns the defining expression of a single-assignment local, if that expression is stable.
func (p *Program) DefOf(x ast.Expr) ast.Expr {
	id, ok := ast.Unparen(x).(*ast.Ident)
	if !ok {
		return nil
	}
	o := objOf(p.Info, id)
	if o == nil {
		return nil
	}
	d := p.defTable()[o]
	if d == nil || d.count != 1 || d.rhs == nil || !p.neverReassigned(o) {
		return nil
	}
	if !p.stableExpr(d.rhs, 0) {
		return nil
	}
	return d.rhs
}

// stableExpr: evaluating x later (while its variables are in scope) gives the same value as evaluating it now.
func (p *Program) stableExpr(x ast.Expr, depth int) bool {
	if depth > 8 {
		return false
	}
	info := p.Info
	x = ast.Unparen(x)
	if tv, ok := info.Types[x]; ok && tv.Value != nil {
		return true
	}
	switch v := x.(type) {
	case *ast.Ident:
		o := objOf(info, v)
		switch o := o.(type) {
		case *types.Var:
			if o.Pkg() != nil && o.Parent() == o.Pkg().Scope() {
				return p.globalNeverWritten(o)
			}
			return p.neverReassigned(o)
		case *types.Nil, *types.Const, *types.Func:
			return true
		}
		return false
	case *ast.BasicLit:
		return true
	case *ast.BinaryExpr:
		return p.stableExpr(v.X, depth+1) && p.stableExpr(v.Y, depth+1)
	case *ast.UnaryExpr:
		if v.Op == token.AND || v.Op == token.ARROW {
			return false
		}
		return p.stableExpr(v.X, depth+1)
	case *ast.SelectorExpr:
		if sel, ok := info.Selections[v]; ok {
			if sel.Kind() != types.FieldVal {
				return false
			}
			if !p.stableExpr(v.X, depth+1) {
				return false
			}
			fld := sel.Obj().(*types.Var)
			if p.Summaries().IsFrozen(fld) {
				return true
			}
			// a field of a struct *value* held in a stable local (no pointer on the way)
			return !sel.Indirect() && p.valueChain(v.X)
		}
		if o, ok := info.Uses[v.Sel].(*types.Var); ok {
			return p.globalNeverWritten(o)
		}
		_, isConst := info.Uses[v.Sel].(*types.Const)
		return isConst
	case *ast.IndexExpr:
		if !p.stableExpr(v.X, depth+1) || !p.stableExpr(v.Index, depth+1) {
			return false
		}
		// elements of containers that are never stored into after construction
		switch b := ast.Unparen(v.X).(type) {
		case *ast.Ident:
			if o, ok := objOf(info, b).(*types.Var); ok && o.Pkg() != nil && o.Parent() == o.Pkg().Scope() {
				return p.globalNeverWritten(o)
			}
		case *ast.SelectorExpr:
			if fld := selField(info, b); fld != nil {
				return p.Summaries().IsFrozen(fld) && !p.fieldIndexStored(fld)
			}
		}
		return false
	case *ast.CallExpr:
		if tv, ok := info.Types[v.Fun]; ok && tv.IsType() && len(v.Args) == 1 {
			return p.stableExpr(v.Args[0], depth+1)
		}
		if IsBuiltinCall(info, v, "len") || IsBuiltinCall(info, v, "cap") {
			// the length of a local slice/string that is never reassigned or appended to
			if len(v.Args) == 1 {
				if id, ok := ast.Unparen(v.Args[0]).(*ast.Ident); ok {
					return p.neverReassigned(objOf(info, id))
				}
				if fld := selField(info, v.Args[0]); fld != nil {
					return p.Summaries().IsFrozen(fld) && p.stableExpr(v.Args[0], depth+1)
				}
			}
			return false
		}
		return false
	}
	return false
}

func (p *Program) valueChain(x ast.Expr) bool {
	x = ast.Unparen(x)
	switch v := x.(type) {
	case *ast.Ident:
		o, ok := objOf(p.Info, v).(*types.Var)
		if !ok {
			return false
		}
		_, isPtr := o.Type().Underlying().(*types.Pointer)
		return !isPtr && p.neverReassigned(o)
	case *ast.SelectorExpr:
		if sel, ok := p.Info.Selections[v]; ok && sel.Kind() == types.FieldVal && !sel.Indirect() {
			return p.valueChain(v.X)
		}
	}
	return false
}

// globalNeverWritten: a package-level variable no function stores to (element stores included).
func (p *Program) globalNeverWritten(o *types.Var) bool {
	if p.globalsWritten == nil {
		p.globalsWritten = map[*types.Var]bool{}
		for _, w := range p.Summaries().Writes {
			for g := range w.Globals {
				p.globalsWritten[g] = true
			}
		}
		info := p.Info
		for _, pkg := range p.All {
			for _, f := range pkg.Syntax {
				ast.Inspect(f, func(n ast.Node) bool {
					as, ok := n.(*ast.AssignStmt)
					if !ok {
						return true
					}
					for _, l := range as.Lhs {
						if ix, ok := ast.Unparen(l).(*ast.IndexExpr); ok {
							if g, ok := objOf(info, ix.X).(*types.Var); ok && g.Pkg() != nil && g.Parent() == g.Pkg().Scope() {
								p.globalsWritten[g] = true
							}
						}
					}
					return true
				})
			}
		}
	}
	return !p.globalsWritten[o]
}

// fieldIndexStored: some statement stores into an element of the container held in fld.
func (p *Program) fieldIndexStored(fld *types.Var) bool {
	if p.fieldIdxStored == nil {
		p.fieldIdxStored = map[*types.Var]bool{}
		info := p.Info
		for _, pkg := range p.All {
			for _, f := range pkg.Syntax {
				ast.Inspect(f, func(n ast.Node) bool {
					as, ok := n.(*ast.AssignStmt)
					if !ok {
						return true
					}
					for _, l := range as.Lhs {
						if ix, ok := ast.Unparen(l).(*ast.IndexExpr); ok {
							if fl := selField(info, ix.X); fl != nil {
								p.fieldIdxStored[fl] = true
							}
						}
					}
					return true
				})
			}
		}
	}
	return p.fieldIdxStored[fld]
}

// Resolve replaces single-assignment temporaries by their definitions, transitively, at the top of x
// (sub-expressions are resolved by ResolveDeep).
func (p *Program) Resolve(x ast.Expr) ast.Expr {
	for i := 0; i < 8; i++ {
		x = ast.Unparen(x)
		d := p.DefOf(x)
		if d == nil {
			return x
		}
		x = d
	}
	return x
}

// ResolveDeep rebuilds x with every single-assignment temporary replaced by its definition. The result shares
// unchanged sub-trees with x; new nodes carry the type information of the nodes they replace.
func (p *Program) ResolveDeep(x ast.Expr) ast.Expr {
	return p.resolveDeep(x, 0, p.Resolve)
}

func (p *Program) resolveDeep(x ast.Expr, depth int, top func(ast.Expr) ast.Expr) ast.Expr {
	if x == nil || depth > 12 {
		return x
	}
	x = top(x)
	copyType := func(n, old ast.Expr) ast.Expr {
		if tv, ok := p.Info.Types[old]; ok {
			p.Info.Types[n] = tv
		}
		return n
	}
	switch v := x.(type) {
	case *ast.BinaryExpr:
		a, b := p.resolveDeep(v.X, depth+1, top), p.resolveDeep(v.Y, depth+1, top)
		if a != v.X || b != v.Y {
			return copyType(&ast.BinaryExpr{X: a, OpPos: v.OpPos, Op: v.Op, Y: b}, v)
		}
	case *ast.UnaryExpr:
		a := p.resolveDeep(v.X, depth+1, top)
		if a != v.X {
			return copyType(&ast.UnaryExpr{OpPos: v.OpPos, Op: v.Op, X: a}, v)
		}
	case *ast.SelectorExpr:
		if sel, ok := p.Info.Selections[v]; ok {
			a := p.resolveDeep(v.X, depth+1, top)
			if a != v.X {
				n := &ast.SelectorExpr{X: a, Sel: v.Sel}
				p.Info.Selections[n] = sel
				return copyType(n, v)
			}
		}
	case *ast.IndexExpr:
		a, b := p.resolveDeep(v.X, depth+1, top), p.resolveDeep(v.Index, depth+1, top)
		if a != v.X || b != v.Index {
			return copyType(&ast.IndexExpr{X: a, Lbrack: v.Lbrack, Index: b, Rbrack: v.Rbrack}, v)
		}
	case *ast.CallExpr:
		if (IsBuiltinCall(p.Info, v, "len") || IsBuiltinCall(p.Info, v, "cap")) && len(v.Args) == 1 {
			a := p.resolveDeep(v.Args[0], depth+1, top)
			if a != v.Args[0] {
				return copyType(&ast.CallExpr{Fun: v.Fun, Lparen: v.Lparen, Args: []ast.Expr{a}, Rparen: v.Rparen}, v)
			}
		}
	case *ast.SliceExpr:
		a, lo, hi := p.resolveDeep(v.X, depth+1, top), p.resolveDeep(v.Low, depth+1, top), p.resolveDeep(v.High, depth+1, top)
		if a != v.X || lo != v.Low || hi != v.High {
			return copyType(&ast.SliceExpr{X: a, Lbrack: v.Lbrack, Low: lo, High: hi, Max: v.Max, Slice3: v.Slice3, Rbrack: v.Rbrack}, v)
		}
	}
	return x
}

// NormExpr renders x so that it reads the same after local renamings: constants by value, every local variable
// (parameters and receivers included) by "$" + its type; names are looked through first.
func (e *Engine) NormExpr(x ast.Expr) string {
	x = e.ResolveDeep(x)
	return e.P.normExpr(x)
}

func (p *Program) normExpr(x ast.Expr) string {
	if x == nil {
		return ""
	}
	info := p.Info
	if tv, ok := info.Types[x]; ok && tv.Value != nil {
		return constKey(tv.Value)
	}
	switch v := x.(type) {
	case *ast.ParenExpr:
		return p.normExpr(v.X)
	case *ast.Ident:
		if o, ok := objOf(info, v).(*types.Var); ok && !o.IsField() && !(o.Pkg() != nil && o.Parent() == o.Pkg().Scope()) {
			return "$" + types.TypeString(o.Type(), func(*types.Package) string { return "" })
		}
		return v.Name
	case *ast.SelectorExpr:
		return p.normExpr(v.X) + "." + v.Sel.Name
	case *ast.IndexExpr:
		return p.normExpr(v.X) + "[" + p.normExpr(v.Index) + "]"
	case *ast.SliceExpr:
		return p.normExpr(v.X) + "[" + p.normExpr(v.Low) + ":" + p.normExpr(v.High) + "]"
	case *ast.BinaryExpr:
		return p.normExpr(v.X) + " " + v.Op.String() + " " + p.normExpr(v.Y)
	case *ast.UnaryExpr:
		return v.Op.String() + p.normExpr(v.X)
	case *ast.StarExpr:
		return "*" + p.normExpr(v.X)
	case *ast.CallExpr:
		var args []string
		for _, a := range v.Args {
			args = append(args, p.normExpr(a))
		}
		return p.normExpr(v.Fun) + "(" + strings.Join(args, ", ") + ")"
	}
	return exprStr(x)
}
