package pc

import (
	"fmt"
	"go/ast"
	"go/constant"
	"go/token"
	"go/types"
	"sort"
	"strings"
)

// kfRow is one row of the knownFunctions table.
type kfRow struct {
	Name        string
	Write       *types.Func
	Decl        *ast.FuncDecl
	NeedsParens bool
	Pos         token.Pos
}

// knownFunctions reads the built-in rewrite table from initKnownFunctions.
func (p *Program) knownFunctions() []kfRow {
	pkg := p.PQL
	info := pkg.TypesInfo
	fd := p.MustFunc(pkg, "initKnownFunctions")
	var rows []kfRow
	ast.Inspect(fd.Body, func(n ast.Node) bool {
		cl, ok := n.(*ast.CompositeLit)
		if !ok {
			return true
		}
		mt, ok := info.TypeOf(cl).Underlying().(*types.Map)
		if !ok || !strings.HasSuffix(TypeStr(mt.Elem()), "functionRewrite") {
			return true
		}
		for _, el := range cl.Elts {
			kv, ok := el.(*ast.KeyValueExpr)
			if !ok {
				continue
			}
			name, ok := constString(info, kv.Key)
			if !ok {
				fatalf("knownFunctions: non-constant key at %s", p.Pos(kv.Pos()))
			}
			row := kfRow{Name: name, Pos: kv.Pos()}
			if vl, ok := kv.Value.(*ast.CompositeLit); ok {
				if w := litField(info, vl, "write"); w != nil {
					row.Write, _ = objOf(info, w).(*types.Func)
				}
				if np := litField(info, vl, "needsParens"); np != nil {
					if v := constOf(info, np); v != nil {
						row.NeedsParens = constant.BoolVal(v)
					}
				}
			}
			if row.Write == nil {
				fatalf("knownFunctions[%q]: writer is not a named function", name)
			}
			row.Decl = p.FuncDecl(pkg, row.Write.Name())
			if row.Decl == nil {
				fatalf("knownFunctions[%q]: writer %s has no declaration", name, row.Write.Name())
			}
			rows = append(rows, row)
		}
		return false
	})
	if len(rows) == 0 {
		// alternative idiom: helper calls of the form register(&functionRewrite{...}, "name", "alias")
		ast.Inspect(fd.Body, func(n ast.Node) bool {
			call, ok := n.(*ast.CallExpr)
			if !ok || len(call.Args) < 2 {
				return true
			}
			lit := litOf(call.Args[0])
			if lit == nil || !strings.HasSuffix(TypeStr(info.TypeOf(lit)), "functionRewrite") {
				return true
			}
			for _, a := range call.Args[1:] {
				name, ok := constString(info, a)
				if !ok {
					continue
				}
				row := kfRow{Name: name, Pos: call.Pos()}
				if w := litField(info, lit, "write"); w != nil {
					row.Write, _ = objOf(info, w).(*types.Func)
				}
				if np := litField(info, lit, "needsParens"); np != nil {
					if v := constOf(info, np); v != nil {
						row.NeedsParens = constant.BoolVal(v)
					}
				}
				if row.Write != nil {
					if row.Decl = p.FuncDecl(pkg, row.Write.Name()); row.Decl != nil {
						rows = append(rows, row)
					}
				}
			}
			return true
		})
	}
	if len(rows) == 0 {
		fatalf("anchor not found: knownFunctions table (map literal or register(...) calls) in initKnownFunctions")
	}
	sort.Slice(rows, func(i, j int) bool { return rows[i].Name < rows[j].Name })
	return rows
}

// builderParam returns the *strings.Builder parameter of fd, if any.
func builderParam(info *types.Info, fd *ast.FuncDecl) types.Object {
	for _, f := range fd.Type.Params.List {
		if TypeStr(info.TypeOf(f.Type)) == "*strings.Builder" {
			for _, n := range f.Names {
				return info.Defs[n]
			}
		}
	}
	return nil
}

// isBuilder reports whether e has type *strings.Builder.
func isBuilder(info *types.Info, e ast.Expr) bool {
	t := info.TypeOf(e)
	// a builder held by value is used through its address (sb.WriteString on `var sb strings.Builder`)
	return t != nil && (TypeStr(t) == "*strings.Builder" || TypeStr(t) == "strings.Builder")
}

// emissionBuilder returns the builder expression a call writes to (receiver or argument), or nil.
func emissionBuilder(info *types.Info, call *ast.CallExpr) ast.Expr {
	if sel, ok := ast.Unparen(call.Fun).(*ast.SelectorExpr); ok {
		if _, isSel := info.Selections[sel]; isSel && isBuilder(info, sel.X) {
			switch sel.Sel.Name {
			case "WriteString", "WriteByte", "WriteRune", "Write":
				return sel.X
			case "String", "Len", "Grow", "Reset", "Cap":
				return nil
			}
			return sel.X
		}
	}
	for _, a := range call.Args {
		if isBuilder(info, a) {
			return a
		}
	}
	return nil
}

// documented arity: [lo, hi], hi < 0 = unbounded.
var docArity = map[string][2]int64{
	"not": {1, 1}, "isnull": {1, 1}, "isnotnull": {1, 1}, "tolower": {1, 1}, "toupper": {1, 1}, "countif": {1, 1},
	"now": {0, 0}, "count": {0, 0}, "iff": {3, 3}, "iif": {3, 3}, "strcat": {1, -1},
}

type arityClient struct {
	BaseClient
	InlinePure
	p      *Program
	row    kfRow
	fn     string
	argsK  string // canonical key of x.Args
	lenKey string
	emits  int
}

func describeLen(f *Fact) (lo, hi int64, ne []string) {
	lo, hi = 0, -1
	if f == nil {
		return
	}
	if f.Lo != nil {
		lo = *f.Lo
	}
	if f.Hi != nil {
		hi = *f.Hi
	}
	for _, n := range f.Ne {
		if v, ok := parseInt(n); ok && v >= lo && (hi < 0 || v <= hi) {
			ne = append(ne, n)
		}
	}
	return lo, hi, ne
}

func (c *arityClient) PreCall(e *Engine, st *State, call *ast.CallExpr, _ *types.Func) *State {
	if emissionBuilder(e.Info, call) == nil {
		return nil
	}
	c.emits++
	lo, hi, ne := describeLen(st.Get(c.lenKey))
	want, documented := docArity[c.row.Name]
	key := fmt.Sprintf("%s arity of %q at emission #%d", c.fn, c.row.Name, c.ordinal(e, call))
	got := fmt.Sprintf("[%d,%s]", lo, hiStr(hi))
	if len(ne) > 0 {
		got += " minus {" + strings.Join(ne, ",") + "}"
	}
	if !documented {
		// the property enumerates the built-ins whose argument count is documented; another one is free to take
		// what it likes
		e.Site("C13/arity", key, call, true, "built-in not among those the property lists; argument count is constrained to "+got+" before anything is written (nothing demanded)")
		return st.WithExt("emitted", "1")
	}
	ok := lo == want[0] && hi == want[1] && len(ne) == 0
	if ok {
		e.Site("C13/arity", key, call, true, "argument count is known to be "+got+" when the first text is written (documented)")
	} else {
		e.Site("C13/arity", key, call, false, fmt.Sprintf("SQL is written while the argument count of %s is only known to be in %s; documented arity is [%d,%s]: a call with a wrong number of arguments would compile (or a valid one be rejected)", c.row.Name, got, want[0], hiStr(want[1])))
	}
	return st.WithExt("emitted", "1")
}

func hiStr(h int64) string {
	if h < 0 {
		return "∞"
	}
	return fmt.Sprint(h)
}

func (c *arityClient) ordinal(e *Engine, call *ast.CallExpr) int {
	n, idx := 0, 0
	ast.Inspect(e.Func.Body, func(x ast.Node) bool {
		if cc, ok := x.(*ast.CallExpr); ok && emissionBuilder(e.Info, cc) != nil {
			n++
			if cc == call {
				idx = n
			}
		}
		return true
	})
	return idx
}

func (c *arityClient) Return(e *Engine, st *State, ret *ast.ReturnStmt) {
	if !e.Reporting() || e.Lit != nil {
		return
	}
	var node ast.Node = e.Func
	var res ast.Expr
	if ret != nil && len(ret.Results) == 1 {
		node, res = ret, ret.Results[0]
	}
	key := fmt.Sprintf("%s return #%d", c.fn, returnOrdinal(e.Func, ret))
	if res != nil && isNilIdent(e.Info, res) || res == nil {
		e.Site("C13/arity", key, node, st.Ext("emitted") == "1", "success return after text was written")
		if st.Ext("emitted") != "1" {
			e.Site("C13/arity", key, node, false, "returns success without writing any SQL: the call would silently vanish from the output")
		}
		return
	}
	if st.Ext("emitted") != "1" {
		nn := knownNonNilError(e, st, res)
		e.Site("C13/arity", key, node, nn, "error return before any text is written is a non-nil error")
		if !nn {
			e.Site("C13/arity", key, node, false, "a return before any SQL is written may return a nil error: wrong arity would be accepted silently")
		}
	}
}

func returnOrdinal(fd *ast.FuncDecl, ret *ast.ReturnStmt) int {
	n, idx := 0, 0
	ast.Inspect(fd.Body, func(x ast.Node) bool {
		if _, ok := x.(*ast.FuncLit); ok {
			return false
		}
		if r, ok := x.(*ast.ReturnStmt); ok {
			n++
			if r == ret {
				idx = n
			}
		}
		return true
	})
	return idx
}

// knownNonNilError: &T{...}, fmt.Errorf/errors.New calls, or a value with a non-nil fact.
func knownNonNilError(e *Engine, st *State, x ast.Expr) bool {
	x = ast.Unparen(x)
	switch v := x.(type) {
	case *ast.UnaryExpr:
		if v.Op == token.AND {
			_, isLit := ast.Unparen(v.X).(*ast.CompositeLit)
			return isLit
		}
	case *ast.CompositeLit:
		return true
	case *ast.CallExpr:
		if f := Callee(e.Info, v); f != nil {
			switch f.FullName() {
			case "fmt.Errorf", "errors.New":
				return true
			}
		}
	}
	if e.NonNil(st, x) {
		return true
	}
	// a sentinel: a package-level error variable that is never assigned and initialised with a fresh error
	f := e.valueOf(st, x)
	return f != nil && f.Nil == 2
}

func ruleC13Arity(p *Program, r *Run) {
	pkg := p.PQL
	info := pkg.TypesInfo
	rows := p.knownFunctions()
	have := map[string]bool{}
	for _, row := range rows {
		have[row.Name] = true
		fd := row.Decl
		fn := FuncName(pkg, fd)
		r.Saw(fn)
		// the *parser.CallExpr parameter
		var xobj types.Object
		for _, f := range fd.Type.Params.List {
			if TypeStr(info.TypeOf(f.Type)) == "*parser.CallExpr" && len(f.Names) == 1 {
				xobj = info.Defs[f.Names[0]]
			}
		}
		if xobj == nil {
			r.Fail("C13/arity", fn+" signature", p.Pos(fd.Pos()), "writer has no *parser.CallExpr parameter")
			continue
		}
		c := &arityClient{p: p, row: row, fn: fn}
		e := NewEngine(p, pkg, fd, c)
		c.argsK = e.objKey(xobj) + ".Args"
		c.lenKey = "len(" + c.argsK + ")"
		e.Run(nil)
		for _, m := range e.Errs {
			r.Fail("C13/arity", fn+" engine", "-", m)
		}
		if c.emits == 0 {
			r.Fail("C13/arity", fn+" emissions", p.Pos(fd.Pos()), "no SQL is ever written on a feasible path")
		}
		e.FlushSites(r)
	}
	var names []string
	for n := range docArity {
		names = append(names, n)
	}
	sort.Strings(names)
	for _, n := range names {
		r.Check(have[n], "C13/arity", "pql.knownFunctions has documented built-in "+n, p.Pos(rows[0].Pos), "present", "documented built-in "+n+" is missing from the rewrite table: it would be passed through verbatim and its arity never checked")
	}
	r.Floor("C13/arity", 40)
}

// ---- C13/pair: Compile returns ("" , err != nil) or (sql, nil).

type pairClient struct {
	BaseClient
	InlinePredicates
	p       *Program
	fn      string
	exprVar types.Object // the *parser.TabularExpr local of Compile
}

// Inline: predicates, and the helpers Compile was split into (functions that did not exist on the reviewed tree).
func (c *pairClient) Inline(e *Engine, call *ast.CallExpr, callee *types.Func, decl *ast.FuncDecl) bool {
	if c.InlinePredicates.Inline(e, call, callee, decl) {
		return true
	}
	if callee.Pkg() == nil || callee.Pkg().Path() != PathPQL || c.p.recordedFunc(callee) {
		return false
	}
	n := 0
	ast.Inspect(decl.Body, func(x ast.Node) bool {
		if _, ok := x.(ast.Stmt); ok {
			n++
		}
		return true
	})
	return n <= 150
}

func (c *pairClient) PostCall(e *Engine, st *State, call *ast.CallExpr, _ *types.Func) *State {
	if _, inPlace := e.inlined[call]; inPlace {
		return nil // a helper interpreted in place: its own writes were seen
	}
	if b := emissionBuilder(e.Info, call); b != nil {
		k := e.CanonSt(st, b)
		if !k.OK {
			return nil
		}
		last := "?"
		if sel, ok := ast.Unparen(call.Fun).(*ast.SelectorExpr); ok && sel.Sel.Name == "WriteString" && len(call.Args) == 1 {
			if s, ok := constString(e.Info, call.Args[0]); ok {
				last = "const:" + s
			}
		}
		return st.WithExt("lastwrite:"+k.Key, last)
	}
	return nil
}

func (c *pairClient) PreAssign(e *Engine, st *State, lhs, rhs []ast.Expr, stmt ast.Stmt) *State {
	for i, l := range lhs {
		o := objOf(e.Info, l)
		if o == nil || TypeStr(o.Type()) != "*parser.TabularExpr" {
			continue
		}
		if _, isVar := o.(*types.Var); !isVar {
			continue
		}
		if _, isDecl := stmt.(*ast.DeclStmt); isDecl {
			continue
		}
		if as, isAs := stmt.(*ast.AssignStmt); !isAs || as.Tok != token.ASSIGN {
			continue // a declaration, or the binding of a helper's parameter or result
		}
		if i >= len(rhs) || len(rhs) != len(lhs) || isNilIdent(e.Info, rhs[i]) {
			continue
		}
		if _, isCall := ast.Unparen(rhs[i]).(*ast.CallExpr); isCall {
			continue
		}
		key := c.fn + " store to the query variable " + o.Name()
		isNil := e.IsNil(st, l)
		e.Site("C13/single", key, l, isNil, "the query variable is known nil when a tabular statement is stored: a second query statement cannot overwrite the first")
		if !isNil {
			e.Site("C13/single", key, l, false, "a tabular statement is stored while another one may already be held: a source with two queries would compile using only the last one instead of failing")
		}
	}
	return nil
}

func (c *pairClient) Return(e *Engine, st *State, ret *ast.ReturnStmt) {
	if !e.Reporting() || e.Lit != nil || ret == nil || len(ret.Results) != 2 {
		return
	}
	key := fmt.Sprintf("%s return #%d", c.fn, returnOrdinal(e.Func, ret))
	sqlE, errE := ret.Results[0], ret.Results[1]
	if isNilIdent(e.Info, errE) {
		// success: non-constant SQL that ends with ';' and a query was present
		call, ok := ast.Unparen(sqlE).(*ast.CallExpr)
		var b ast.Expr
		if ok {
			if sel, ok := ast.Unparen(call.Fun).(*ast.SelectorExpr); ok && sel.Sel.Name == "String" && isBuilder(e.Info, sel.X) {
				b = sel.X
			}
		}
		if b == nil {
			e.Site("C13/pair", key, ret, false, "success return whose SQL is not the contents of the output builder")
			return
		}
		k := e.CanonSt(st, b)
		last := st.Ext("lastwrite:" + k.Key)
		okSemi := last == "const:;"
		e.Site("C13/pair", key, ret, okSemi, "success return: (builder contents ending in the terminating ';', nil)")
		if !okSemi {
			e.Site("C13/pair", key, ret, false, fmt.Sprintf("success return where the last text written is %q, not the terminating \";\": the SQL may be empty or unterminated", strings.TrimPrefix(last, "const:")))
		}
		if c.exprVar != nil {
			id := ast.NewIdent(c.exprVar.Name())
			_ = id
			f := st.Get(e.objKey(c.exprVar))
			has := f != nil && f.Nil == 2
			e.Site("C13/single", c.fn+" success requires a query", ret, has, "a tabular statement is known to be present at the success return")
			if !has {
				e.Site("C13/single", c.fn+" success requires a query", ret, false, "success return reachable without any tabular statement")
			}
		}
		return
	}
	// failure: "" and a non-nil error
	s, isConst := constString(e.Info, sqlE)
	nn := knownNonNilError(e, st, errE)
	ok := isConst && s == "" && nn
	e.Site("C13/pair", key, ret, ok, "failure return: (\"\", error known non-nil)")
	if !ok {
		var why []string
		if !isConst || s != "" {
			why = append(why, "the SQL result is not the empty string")
		}
		if !nn {
			why = append(why, "the error result is not known to be non-nil on this path")
		}
		e.Site("C13/pair", key, ret, false, "failure return violates the either/or contract: "+strings.Join(why, "; "))
	}
}

func ruleC13Pair(p *Program, r *Run) {
	pkg := p.PQL
	info := pkg.TypesInfo
	fd := p.MustFunc(pkg, "CompileOptions.Compile")
	fn := FuncName(pkg, fd)
	r.Saw(fn)
	c := &pairClient{p: p, fn: fn}
	ast.Inspect(fd.Body, func(n ast.Node) bool {
		if id, ok := n.(*ast.Ident); ok {
			if v, ok := info.Defs[id].(*types.Var); ok && TypeStr(v.Type()) == "*parser.TabularExpr" && c.exprVar == nil {
				c.exprVar = v
			}
		}
		return true
	})
	e := NewEngine(p, pkg, fd, c)
	e.Run(nil)
	for _, m := range e.Errs {
		r.Fail("C13/pair", fn+" engine", "-", m)
	}
	e.FlushSites(r)
	r.Floor("C13/pair", 7)
	r.Floor("C13/single", 2)

	// every parsed statement is looked at: the statement loop is never left early except with an error
	var stmtLoop *ast.RangeStmt
	for _, root := range p.regionOf(pkg, fd.Body) {
		ast.Inspect(root, func(n ast.Node) bool {
			if rs, ok := n.(*ast.RangeStmt); ok && stmtLoop == nil {
				if sl, ok := info.TypeOf(rs.X).Underlying().(*types.Slice); ok && TypeStr(sl.Elem()) == "parser.Statement" {
					stmtLoop = rs
				}
			}
			return true
		})
	}
	if stmtLoop == nil {
		r.Fail("C13/all-statements", fn+" statement loop", p.Pos(fd.Pos()), "no loop over the parsed statements found")
	} else {
		var bad []string
		var walk func(n ast.Node, inSwitch int)
		walk = func(n ast.Node, inSwitch int) {
			ast.Inspect(n, func(x ast.Node) bool {
				switch v := x.(type) {
				case *ast.FuncLit:
					return false
				case *ast.BranchStmt:
					if v.Tok == token.BREAK && v.Label != nil {
						bad = append(bad, "labelled break at "+p.Pos(v.Pos()))
					}
					if v.Tok == token.GOTO {
						bad = append(bad, "goto at "+p.Pos(v.Pos()))
					}
				case *ast.ForStmt, *ast.RangeStmt:
					if x != ast.Node(stmtLoop) {
						return true
					}
				case *ast.ReturnStmt:
					// a return that does not hand back an error: the last result is nil, or there is none (named
					// results, or a helper without an error result)
					if len(v.Results) == 0 || isNilIdent(info, v.Results[len(v.Results)-1]) || TypeStr(info.TypeOf(v.Results[len(v.Results)-1])) != "error" && !types.Implements(info.TypeOf(v.Results[len(v.Results)-1]), errorIface()) {
						bad = append(bad, "success return inside the loop at "+p.Pos(v.Pos()))
					}
				}
				return true
			})
		}
		walk(stmtLoop.Body, 0)
		// an unlabelled break directly in the loop body (not inside a switch/select/inner loop) leaves the loop too
		var direct func(list []ast.Stmt)
		direct = func(list []ast.Stmt) {
			for _, s := range list {
				switch v := s.(type) {
				case *ast.BranchStmt:
					if v.Tok == token.BREAK && v.Label == nil {
						bad = append(bad, "break at "+p.Pos(v.Pos()))
					}
				case *ast.IfStmt:
					direct(v.Body.List)
					if blk, ok := v.Else.(*ast.BlockStmt); ok {
						direct(blk.List)
					}
				case *ast.BlockStmt:
					direct(v.List)
				}
			}
		}
		direct(stmtLoop.Body.List)
		r.Check(len(bad) == 0, "C13/all-statements", fn+" statement loop visits every statement", p.Pos(stmtLoop.Pos()), "the loop over the parsed statements is only left early by returning an error", "the loop over the parsed statements can be left before all statements were seen ("+strings.Join(bad, "; ")+"): a second query (or anything else) after that point is silently ignored")
	}
	r.Floor("C13/all-statements", 1)

	// the package-level Compile only forwards
	top := p.MustFunc(pkg, "Compile")
	okFwd := false
	if len(top.Body.List) == 1 {
		if ret, ok := top.Body.List[0].(*ast.ReturnStmt); ok && len(ret.Results) == 1 {
			if call, ok := ret.Results[0].(*ast.CallExpr); ok && Callee(info, call) == FuncObj(pkg, fd) {
				okFwd = true
			}
		}
	}
	r.Check(okFwd, "C13/pair", "pql.Compile forwards", p.Pos(top.Pos()), "returns the method's result pair unchanged", "pql.Compile does not simply forward the result pair of (*CompileOptions).Compile")
}

// ---- C13/errcheck: no error of an emitting/compiling function is dropped in package pql.

func ruleC13ErrCheck(p *Program, r *Run) {
	pkg := p.PQL
	info := pkg.TypesInfo
	errT := types.Universe.Lookup("error").Type()
	n := 0
	for _, fd := range AllFuncs(pkg) {
		fn := FuncName(pkg, fd)
		if fobj := FuncObj(pkg, fd); fobj != nil && !p.reachableFromAPI()[fobj] {
			continue // not part of what Compile does (a new convenience wrapper, say)
		}
		ast.Inspect(fd.Body, func(x ast.Node) bool {
			call, ok := x.(*ast.CallExpr)
			if !ok {
				return true
			}
			var sig *types.Signature
			if callee := Callee(info, call); callee != nil {
				if callee.Pkg() == nil || !strings.HasPrefix(callee.Pkg().Path(), PathPQL) {
					return true
				}
				sig = callee.Type().(*types.Signature)
			} else if t, ok := info.TypeOf(call.Fun).Underlying().(*types.Signature); ok && selField(info, call.Fun) != nil {
				sig = t // f.write(...)
			} else {
				return true
			}
			if sig.Results().Len() == 0 || !types.Identical(sig.Results().At(sig.Results().Len()-1).Type(), errT) {
				return true
			}
			n++
			key := fmt.Sprintf("%s call #%d of %s", fn, n, exprStr(call.Fun))
			how, ok := p.errorHandled(info, call)
			r.Check(ok, "C13/errcheck", key, p.Pos(call.Pos()), how, "the error result of "+exprStr(call.Fun)+" is not checked and propagated ("+how+"): a failed sub-expression would leave partial SQL in a successful result")
			return true
		})
	}
	r.Floor("C13/errcheck", 45)
}

// errorHandled classifies how the error result of call is consumed.
func (p *Program) errorHandled(info *types.Info, call *ast.CallExpr) (string, bool) {
	parent := p.Parent(call)
	returnsErr := func(body *ast.BlockStmt, errObj types.Object) bool {
		for _, s := range body.List {
			if ret, ok := s.(*ast.ReturnStmt); ok && len(ret.Results) > 0 {
				last := ret.Results[len(ret.Results)-1]
				if objOf(info, last) == errObj {
					return true
				}
				// wrapped
				found := false
				ast.Inspect(last, func(n ast.Node) bool {
					if id, ok := n.(*ast.Ident); ok && objOf(info, id) == errObj {
						found = true
					}
					return true
				})
				return found
			}
		}
		return false
	}
	condIsErrNotNil := func(cond ast.Expr, errObj types.Object) bool {
		x, notNil, ok := nilCompare(info, cond)
		return ok && notNil && objOf(info, x) == errObj
	}
	switch par := parent.(type) {
	case *ast.ReturnStmt:
		return "returned directly", true
	case *ast.ExprStmt:
		return "result discarded", false
	case *ast.AssignStmt:
		errLHS := par.Lhs[len(par.Lhs)-1]
		if id, ok := errLHS.(*ast.Ident); ok && id.Name == "_" {
			return "error assigned to _", false
		}
		errObj := objOf(info, errLHS)
		if errObj == nil {
			return "error stored in a non-variable", false
		}
		// if-init form
		if ifs, ok := p.Parent(par).(*ast.IfStmt); ok && ifs.Init == ast.Stmt(par) {
			if condIsErrNotNil(ifs.Cond, errObj) && returnsErr(ifs.Body, errObj) {
				return "if err := f(); err != nil { return err }", true
			}
			return "if-init without `err != nil` return", false
		}
		// next statement form
		if blk, ok := p.Parent(par).(*ast.BlockStmt); ok {
			for i, s := range blk.List {
				if s == ast.Stmt(par) && i+1 < len(blk.List) {
					if ifs, ok := blk.List[i+1].(*ast.IfStmt); ok && ifs.Init == nil && condIsErrNotNil(ifs.Cond, errObj) && returnsErr(ifs.Body, errObj) {
						return "x, err := f(); if err != nil { return err }", true
					}
				}
			}
		}
		if cc, ok := p.Parent(par).(*ast.CaseClause); ok {
			for i, s := range cc.Body {
				if s == ast.Stmt(par) && i+1 < len(cc.Body) {
					if ifs, ok := cc.Body[i+1].(*ast.IfStmt); ok && ifs.Init == nil && condIsErrNotNil(ifs.Cond, errObj) && returnsErr(ifs.Body, errObj) {
						return "x, err := f(); if err != nil { return err }", true
					}
				}
			}
		}
		return "error variable is not tested by the next statement", false
	}
	return "unrecognised use of the call", false
}

// ---- C13/gates: let-mode and join-alias gates dominate identifier emission.

type gatesClient struct {
	BaseClient
	InlinePredicates
	p        *Program
	fn       string
	quoteID  *types.Func
	ctxKey   string
	modeLet  string
	modeJoin string
	aliases  []string
	identT   types.Type
	sites    int
}

// Inline: predicates, and the helpers the expression writer was split into (functions that did not exist on the
// reviewed tree and do not lead back into the writer).
func (c *gatesClient) Inline(e *Engine, call *ast.CallExpr, callee *types.Func, decl *ast.FuncDecl) bool {
	if c.InlinePredicates.Inline(e, call, callee, decl) {
		return true
	}
	if callee.Pkg() == nil || callee.Pkg().Path() != PathPQL || c.p.recordedFunc(callee) || c.p.reachesWriter()[callee] {
		return false
	}
	// only helpers that are handed the expression context (not, say, a loop that strips parentheses)
	takesCtx := false
	sig := callee.Type().(*types.Signature)
	for i := 0; i < sig.Params().Len(); i++ {
		if TypeStr(sig.Params().At(i).Type()) == "*pql.exprContext" {
			takesCtx = true
		}
	}
	if r := sig.Recv(); r != nil && TypeStr(r.Type()) == "*pql.exprContext" {
		takesCtx = true
	}
	return takesCtx && smallBody(decl)
}

func (c *gatesClient) PreCall(e *Engine, st *State, call *ast.CallExpr, callee *types.Func) *State {
	if callee != c.quoteID || len(call.Args) != 2 {
		return nil
	}
	sel, ok := ast.Unparen(call.Args[1]).(*ast.SelectorExpr)
	if !ok || !types.Identical(e.Info.TypeOf(sel.X), c.identT) {
		return nil
	}
	// only identifier parts of a QualifiedIdent expression
	c.sites++
	base := e.CanonSt(st, sel.X)
	mode := st.Get(c.ctxKey + ".mode")
	key := fmt.Sprintf("%s emission of %s", c.fn, exprStr(call.Args[1]))
	// G1: not in let mode
	g1 := mode != nil && (hasStr(mode.Ne, c.modeLet) || (mode.HasEq && mode.Eq != c.modeLet))
	e.Site("C13/gate-let", key, call, g1, "ctx.mode != letExprMode on every path to the column emission")
	if !g1 {
		e.Site("C13/gate-let", key, call, false, "a column name can be emitted in let mode: a let value could refer to a column (only earlier bindings and constants are allowed)")
	}
	// G2: $left/$right only in join mode
	g2 := mode != nil && mode.HasEq && mode.Eq == c.modeJoin
	if base.OK {
		if q := st.Get(base.Key + ".Quoted"); q != nil && q.HasEq && q.Eq == "true" {
			g2 = true
		}
		if nm := st.Get(base.Key + ".Name"); nm != nil {
			all := true
			for _, a := range c.aliases {
				if !hasStr(nm.Ne, a) && !(nm.HasEq && nm.Eq != a) {
					all = false
				}
			}
			if all {
				g2 = true
			}
		}
	}
	e.Site("C13/gate-join", key, call, g2, "quoted, or name is neither $left nor $right, or ctx.mode == joinExprMode")
	if !g2 {
		e.Site("C13/gate-join", key, call, false, "an unquoted $left/$right can be emitted outside join mode: the alias check does not dominate this emission")
	}
	return nil
}

func ruleC13Gates(p *Program, r *Run) {
	pkg := p.PQL
	info := pkg.TypesInfo
	fd := p.MustFunc(pkg, "writeExpression")
	fn := FuncName(pkg, fd)
	r.Saw(fn)
	constVal := func(name string) string {
		c := p.constNamed(pkg.Types.Scope(), name)
		if c == nil {
			fatalf("anchor not found: const %s.%s", pkg.PkgPath, name)
		}
		return constKey(c.Val())
	}
	var ctxObj types.Object
	for _, f := range fd.Type.Params.List {
		if TypeStr(info.TypeOf(f.Type)) == "*pql.exprContext" && len(f.Names) == 1 {
			ctxObj = info.Defs[f.Names[0]]
		}
	}
	if ctxObj == nil {
		fatalf("anchor not found: *exprContext parameter of writeExpression")
	}
	c := &gatesClient{p: p, fn: fn, quoteID: FuncObj(pkg, p.MustFunc(pkg, "quoteIdentifier")),
		modeLet: constVal("letExprMode"), modeJoin: constVal("joinExprMode"),
		aliases: []string{constVal("leftJoinTableAlias"), constVal("rightJoinTableAlias")},
		identT:  types.NewPointer(p.Named(p.Parser, "Ident"))}
	e := NewEngine(p, pkg, fd, c)
	c.ctxKey = e.objKey(ctxObj)
	e.Run(nil)
	for _, m := range e.Errs {
		r.Fail("C13/gate-let", fn+" engine", "-", m)
	}
	e.FlushSites(r)
	r.Floor("C13/gate-let", 1)
	r.Floor("C13/gate-join", 1)
	// the mode of an expression context is fixed when it is built
	sums := p.Summaries()
	st := StructOf(p.Named(pkg, "exprContext"))
	for i := 0; i < st.NumFields(); i++ {
		f := st.Field(i)
		r.Check(sums.IsFrozen(f), "C13/ctx-immutable", "pql.exprContext."+f.Name()+" is never reassigned", p.Pos(f.Pos()), "set only in composite literals", "exprContext."+f.Name()+" is assigned after construction: a context shared between positions (e.g. the query-wide one) can change mode or scope under the writer, so the let/join gates no longer guard what they appear to guard")
	}
	r.Floor("C13/ctx-immutable", 3)
}

// ---- C13/parser-checks: join kind and row count validation in the parser.

type rowCountClient struct {
	BaseClient
	fn     string
	isInt  *types.Func
	litT   string
	nsites int
}

func (c *rowCountClient) Return(e *Engine, st *State, ret *ast.ReturnStmt) {
	if !e.Reporting() || ret == nil || len(ret.Results) != 2 || !isNilIdent(e.Info, ret.Results[1]) {
		return
	}
	c.nsites++
	xk := e.CanonSt(st, ret.Results[0])
	key := fmt.Sprintf("%s success return #%d", c.fn, returnOrdinal(e.Func, ret))
	if !xk.OK {
		e.Site("C13/rowcount", key, ret, false, "returned expression is not trackable")
		return
	}
	f := st.Get(xk.Key)
	notLit := f != nil && (hasStr(f.TyOut, c.litT) || (f.TyIn != nil && !hasStr(f.TyIn, c.litT)))
	intKey := "call:" + c.isInt.FullName() + "(assert(" + xk.Key + "," + c.litT + "))"
	isInt := false
	if g := st.Get(intKey); g != nil && g.HasEq && g.Eq == "true" {
		isInt = true
	}
	// a nil pointer of the literal's type is no literal (the defensive `ok && lit != nil`)
	if g := st.Get("assert(" + xk.Key + "," + c.litT + ")"); g != nil && g.Nil == 1 {
		notLit = true
	}
	ok := notLit || isInt
	e.Site("C13/rowcount", key, ret, ok, "row count is not a literal, or is a literal for which IsInteger() holds")
	if !ok {
		e.Site("C13/rowcount", key, ret, false, "a literal row count can be accepted without the IsInteger() check: `take 1.5` or `take \"x\"` would compile")
	}
}

func ruleC13Parser(p *Program, r *Run) {
	pkg := p.Parser
	info := pkg.TypesInfo
	// rowCount
	fd := p.MustFunc(pkg, "parser.rowCount")
	fn := FuncName(pkg, fd)
	r.Saw(fn)
	c := &rowCountClient{fn: fn, isInt: FuncObj(pkg, p.MustFunc(pkg, "BasicLit.IsInteger")), litT: "*parser.BasicLit"}
	e := NewEngine(p, pkg, fd, c)
	e.Run(nil)
	for _, m := range e.Errs {
		r.Fail("C13/rowcount", fn+" engine", "-", m)
	}
	e.FlushSites(r)
	r.Floor("C13/rowcount", 1)
	// both row-count users go through rowCount
	rc := FuncObj(pkg, fd)
	users := 0
	for _, ufd := range AllFuncs(pkg) {
		// every function of the parser that stores a row count
		stores := false
		ast.Inspect(ufd.Body, func(n ast.Node) bool {
			switch v := n.(type) {
			case *ast.AssignStmt:
				for _, l := range v.Lhs {
					if f := selField(info, l); f != nil && f.Name() == "RowCount" {
						stores = true
					}
				}
			case *ast.CompositeLit:
				if rc := litField(info, v, "RowCount"); rc != nil && StructOf(info.TypeOf(v)) != nil && !isNilIdent(info, rc) {
					stores = true
				}
			}
			return !stores
		})
		if !stores {
			continue
		}
		users++
		// every value stored into RowCount is the (first) result of rowCount() - followed through temporaries
		pc := &provClient{p: p, source: rc, field: "RowCount"}
		ue := NewEngine(p, pkg, ufd, pc)
		ue.Run(nil)
		uses := pc.stores > 0 && pc.bad == 0 && len(ue.Errs) == 0
		r.Check(uses, "C13/rowcount", FuncName(pkg, ufd)+" RowCount comes from rowCount()", p.Pos(ufd.Pos()), "row count parsed by the validating production", "RowCount is not parsed through rowCount(): the integer-literal check is bypassed")
	}
	r.Check(users >= 2, "C13/rowcount", "parser: take and top store a row count", p.Pos(fd.Pos()), fmt.Sprintf("%d functions store a row count, all through rowCount()", users), "fewer than two parser functions store a row count (take and top both have one)")

	// joinOperator: on every path on which the join kind was looked up in joinTypes and not found, the error that
	// is returned is known to be non-nil (path facts: the comma-ok result of the lookup; an error joined with a
	// fresh error is non-nil)
	jfd := p.MustFunc(pkg, "parser.joinOperator")
	jfn := FuncName(pkg, jfd)
	r.Saw(jfn)
	jc := &joinKindClient{p: p, table: "G:" + pkg.Types.Name() + ".joinTypes"}
	je := NewEngine(p, pkg, jfd, jc)
	je.Run(nil)
	key := jfn + " join kind lookup"
	switch {
	case len(je.Errs) > 0:
		r.Fail("C13/joinkind", key, p.Pos(jfd.Pos()), strings.Join(je.Errs, "; "))
	case jc.misses == 0:
		r.Fail("C13/joinkind", key, p.Pos(jfd.Pos()), "no return of joinOperator is reached on a path where the join kind was looked up in joinTypes and missed: an unknown join kind would be accepted by the parser")
	default:
		r.Check(jc.bad == "", "C13/joinkind", key, p.Pos(jfd.Pos()), fmt.Sprintf("every return after a missed joinTypes lookup carries a non-nil error (%d path states)", jc.misses), jc.bad+": an unknown join kind would be accepted by the parser")
	}
	// the kinds the parser lets through are exactly the documented ones (the compiler may rely on that)
	{
		kinds, jt := p.parserJoinKinds()
		var extra, missing []string
		for k := range kinds {
			if _, doc := docJoinKinds[k]; !doc {
				extra = append(extra, k)
			}
		}
		for k := range docJoinKinds {
			if !kinds[k] {
				missing = append(missing, k)
			}
		}
		sort.Strings(extra)
		sort.Strings(missing)
		why := ""
		if len(extra) > 0 {
			why += "kinds accepted by the parser but not documented: " + strings.Join(extra, ", ") + " (a join of such a kind compiles, or compiles as another kind, instead of being rejected)"
		}
		if len(missing) > 0 {
			if why != "" {
				why += "; "
			}
			why += "documented kinds the parser rejects: " + strings.Join(missing, ", ")
		}
		r.Check(why == "", "C13/joinkind", "parser.joinTypes is the documented set of join kinds", p.Pos(jt.Pos()), "inner, innerunique, leftouter", why)
	}
	r.Floor("C13/joinkind", 1)
}

// provClient: every value stored into a given field is the first result of a given function (the result is tagged
// where the call returns; the tag travels with the value through temporaries and helpers).
type provClient struct {
	BaseClient
	InlinePure
	p      *Program
	source *types.Func
	field  string
	stores int
	bad    int
}

func (c *provClient) PostCall(e *Engine, st *State, call *ast.CallExpr, callee *types.Func) *State {
	if callee != c.source {
		return nil
	}
	ids := e.CallResults(call)
	if len(ids) == 0 {
		return nil
	}
	k := e.CanonSt(st, ids[0])
	if !k.OK {
		return nil
	}
	if n := e.update(st.killObj(e.Info.Defs[ids[0]]), k, func(f *Fact) { f.Tags = []string{"from:" + c.source.Name()} }); n != nil {
		return n
	}
	return nil
}

func (c *provClient) tagged(e *Engine, st *State, x ast.Expr) bool {
	if call, ok := ast.Unparen(x).(*ast.CallExpr); ok && Callee(e.Info, call) == c.source {
		return true
	}
	if f := e.FactOf(st, x); f != nil {
		return hasStr(f.Tags, "from:"+c.source.Name())
	}
	return false
}

func (c *provClient) PreAssign(e *Engine, st *State, lhs, rhs []ast.Expr, _ ast.Stmt) *State {
	if !e.Reporting() {
		return nil
	}
	for i, l := range lhs {
		f := selField(e.Info, l)
		if f == nil || f.Name() != c.field {
			continue
		}
		c.stores++
		ok := false
		switch {
		case len(rhs) == len(lhs):
			ok = c.tagged(e, st, rhs[i])
		case len(rhs) == 1 && i == 0:
			// op.RowCount, err = p.rowCount()
			if call, isCall := ast.Unparen(rhs[0]).(*ast.CallExpr); isCall && Callee(e.Info, call) == c.source {
				ok = true
			}
		}
		if !ok {
			c.bad++
		}
	}
	return nil
}

func (c *provClient) Visit(e *Engine, st *State, n ast.Node) *State {
	cl, ok := n.(*ast.CompositeLit)
	if !ok || !e.Reporting() {
		return nil
	}
	if v := litField(e.Info, cl, c.field); v != nil && StructOf(e.Info.TypeOf(cl)) != nil && !isNilIdent(e.Info, v) {
		c.stores++
		if !c.tagged(e, st, v) {
			c.bad++
		}
	}
	return nil
}

// joinKindClient: after a missed lookup in the join-kind table the returned error is non-nil.
type joinKindClient struct {
	BaseClient
	InlinePure
	p      *Program
	table  string
	misses int
	bad    string
}

// PostCall: joining errors of which one is known non-nil gives a non-nil error.
func (c *joinKindClient) PostCall(e *Engine, st *State, call *ast.CallExpr, callee *types.Func) *State {
	if callee == nil || fnName(callee) != "joinErrors" {
		return nil
	}
	nonNil := false
	for _, a := range call.Args {
		if knownNonNilError(e, st, a) {
			nonNil = true
		}
	}
	if !nonNil {
		return nil
	}
	ids := e.CallResults(call)
	if len(ids) != 1 {
		return nil
	}
	k := e.CanonSt(st, ids[0])
	if !k.OK {
		return nil
	}
	if n := e.update(st.killObj(e.Info.Defs[ids[0]]), k, func(f *Fact) { f.Nil = 2 }); n != nil {
		return n
	}
	return nil
}

// missedLookup: the state knows that a look-up of the join kind in the table found nothing - the comma-ok result of
// a map index, slices.Contains(table, k) false, or slices.Index(table, k) negative.
func (c *joinKindClient) missedLookup(st *State) bool {
	for _, k := range st.Keys() {
		f := st.Get(k)
		if f == nil {
			continue
		}
		switch {
		case strings.HasPrefix(k, "has("+c.table+","), strings.HasPrefix(k, "call:slices.Contains("+c.table+","):
			if f.HasEq && f.Eq == "false" {
				return true
			}
		case strings.HasPrefix(k, "call:slices.Index("+c.table+","):
			if f.Hi != nil && *f.Hi < 0 || f.HasEq && f.Eq == "-1" {
				return true
			}
		}
	}
	return false
}

func (c *joinKindClient) Return(e *Engine, st *State, ret *ast.ReturnStmt) {
	if !e.Reporting() || e.Lit != nil || ret == nil || len(ret.Results) != 2 {
		return
	}
	missed := c.missedLookup(st)
	// the ok variable of the lookup may be out of scope by now: remembered by Stmt
	if st.Ext("jk:missed") == "1" {
		missed = true
	}
	if !missed {
		return
	}
	c.misses++
	if !knownNonNilError(e, st, ret.Results[1]) {
		c.bad = "the return at " + e.P.Pos(ret.Pos()) + " is reached after a missed joinTypes lookup with an error that is not known to be non-nil"
	}
}

// Stmt: remember a missed lookup beyond the scope of its ok variable.
func (c *joinKindClient) Stmt(e *Engine, st *State, _ ast.Stmt) *State {
	if st.Ext("jk:missed") == "1" {
		return nil
	}
	if c.missedLookup(st) {
		return st.WithExt("jk:missed", "1")
	}
	return nil
}

// errorIface: the built-in error interface.
func errorIface() *types.Interface {
	return types.Universe.Lookup("error").Type().Underlying().(*types.Interface)
}
