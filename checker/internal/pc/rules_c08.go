package pc

import (
	"fmt"
	"go/ast"
	"go/printer"
	"go/token"
	"go/types"
	"os"
	"sort"
	"strconv"
	"strings"
	"time"
)

// ---- C08/notfound: a "not found" result implies that no token was consumed.

type nfSummary struct {
	mayNF bool
	dirty bool   // may return a not-found error although tokens were consumed
	where string // first dirty return, for messages
	corr  bool   // returns (non-nil value, nil) or (nil value, non-nil error)
}

type nfWorld struct {
	p       *Program
	sum     map[ast.Node]*nfSummary // FuncDecl or FuncLit
	byFunc  map[*types.Func]*ast.FuncDecl
	parserT types.Type
	next    *types.Func
	prev    *types.Func
	changed bool
	final   bool
}

func (w *nfWorld) get(n ast.Node) *nfSummary {
	s := w.sum[n]
	if s == nil {
		s = &nfSummary{}
		w.sum[n] = s
	}
	return s
}

// not-found status of an error value: "none"; "0" clean and nothing consumed by the holder either;
// "c" clean (its producer consumed nothing) but the holder has consumed tokens - deciding on it is fine, returning
// it makes the holder dirty; "+" dirty (its producer had consumed tokens).
func joinNF(a, b string) string {
	rank := map[string]int{"none": 0, "": 0, "0": 1, "c": 2, "+": 3}
	if rank[a] >= rank[b] {
		if a == "" {
			return "none"
		}
		return a
	}
	return b
}

func incCnt(c string) string {
	switch c {
	case "0":
		return "1"
	case "1":
		return "2"
	case "2":
		return "3"
	}
	return "+"
}

func decCnt(c string) string {
	switch c {
	case "1":
		return "0"
	case "2":
		return "1"
	case "3":
		return "2"
	}
	return c
}

type nfClient struct {
	BaseClient
	w    *nfWorld
	fd   *ast.FuncDecl
	fn   string
	recv types.Object // the receiver parser, nil for plain functions
}

func (c *nfClient) unit(e *Engine) ast.Node {
	if e.Lit != nil {
		return e.Lit
	}
	return c.fd
}

func (c *nfClient) isParserMethod(fn *types.Func) bool {
	if fn == nil {
		return false
	}
	r := fn.Type().(*types.Signature).Recv()
	return r != nil && types.Identical(r.Type(), c.w.parserT)
}

func (c *nfClient) onRecv(e *Engine, call *ast.CallExpr) bool {
	sel, ok := ast.Unparen(call.Fun).(*ast.SelectorExpr)
	return ok && c.recv != nil && e.Lit == nil && objOf(e.Info, e.ResolveExpr(sel.X)) == c.recv
}

// Inline: a helper that was cut out of a production and hands back several things at once (the optional `name =`
// prefix of a column: name, span of the '=', error) is read where it is called, so that what it consumed and what
// it returned stay connected. Productions proper (a node and an error) keep their summaries.
func (c *nfClient) Inline(e *Engine, call *ast.CallExpr, callee *types.Func, decl *ast.FuncDecl) bool {
	if callee == nil || !c.isParserMethod(callee) || !smallBody(decl) {
		return false
	}
	sig := callee.Type().(*types.Signature)
	if sig.Results().Len() < 3 || !isErrorType(sig.Results().At(sig.Results().Len()-1).Type()) {
		return false
	}
	loops := false
	ast.Inspect(decl.Body, func(n ast.Node) bool {
		switch n.(type) {
		case *ast.ForStmt, *ast.RangeStmt:
			loops = true
		}
		return true
	})
	return !loops
}

func cntOf(st *State) string {
	if v := st.Ext("cnt"); v != "" {
		return v
	}
	return "0"
}

// containsNFLiteral: the expression builds a notFoundError value.
func (c *nfClient) containsNFLiteral(e *Engine, x ast.Expr) bool {
	found := false
	ast.Inspect(x, func(n ast.Node) bool {
		if cl, ok := n.(*ast.CompositeLit); ok && TypeStr(e.Info.TypeOf(cl)) == "parser.notFoundError" {
			found = true
		}
		return true
	})
	return found
}

// nfOf: "none", "0" (may be not-found, nothing consumed) or "+" (may be not-found after consumption), with a source note.
func (c *nfClient) nfOf(e *Engine, st *State, x ast.Expr) (string, string) {
	x = ast.Unparen(x)
	if isNilIdent(e.Info, x) {
		return "none", ""
	}
	switch v := x.(type) {
	case *ast.Ident:
		k := e.CanonSt(st, v)
		if !k.OK {
			return "none", ""
		}
		if f := st.Get("call:" + FuncObj(c.w.p.Parser, c.w.p.MustFunc(c.w.p.Parser, "isNotFound")).FullName() + "(" + k.Key + ")"); f != nil && f.HasEq && f.Eq == "false" {
			return "none", ""
		}
		if f := st.Get(k.Key); f != nil && f.Nil == 1 {
			return "none", ""
		}
		nf := st.Ext("nf:" + k.Key)
		if nf == "" {
			nf = "none"
		}
		return nf, st.Ext("src:" + k.Key)
	case *ast.CallExpr:
		callee := Callee(e.Info, v)
		if callee == nil {
			return "none", ""
		}
		switch callee.FullName() {
		case "fmt.Errorf":
			// %w keeps the wrapped error visible to errors.As
			if format, ok := constString(e.Info, v.Args[0]); !ok || strings.Contains(format, "%w") {
				out, src := "none", ""
				for _, a := range v.Args[1:] {
					if at := e.Info.TypeOf(a); at != nil && TypeStr(at) == "error" {
						n, s := c.nfOf(e, st, a)
						if n != "none" && (src == "" || n == "+") {
							src = s
						}
						out = joinNF(out, n)
					}
				}
				return out, src
			}
			return "none", ""
		case "errors.Unwrap":
			// what a wrapper exposes is what it wraps: the not-found error inside stays a not-found error
			if len(v.Args) == 1 {
				return c.nfOf(e, st, v.Args[0])
			}
			return "none", ""
		case "errors.Join":
			out, src := "none", ""
			for _, a := range v.Args {
				n, s := c.nfOf(e, st, a)
				if n != "none" && (src == "" || n == "+") {
					src = s
				}
				out = joinNF(out, n)
			}
			return out, src
		}
		switch fnName(callee) {
		case "makeErrorOpaque":
			return "none", ""
		case "joinErrors":
			out, src := "none", ""
			for _, a := range v.Args {
				n, s := c.nfOf(e, st, a)
				if n != "none" && src == "" {
					src = s
				}
				if n == "+" {
					src = s
				}
				out = joinNF(out, n)
			}
			return out, src
		}
		if callee.Origin() != nil && fnName(callee.Origin()) == "firstParse" || fnName(callee) == "firstParse" {
			out, src := "none", ""
			for _, a := range v.Args {
				if lit, ok := ast.Unparen(a).(*ast.FuncLit); ok {
					s := c.w.get(lit)
					switch {
					case s.dirty:
						out, src = "+", s.where
					case s.mayNF:
						n := c.byCount(st)
						if n == "+" {
							n = "c"
						}
						out = joinNF(out, n)
					}
				} else {
					out = "+"
					src = "a production passed as a function value"
				}
			}
			return out, src
		}
		if c.isParserMethod(callee) {
			if fd := c.w.byFunc[callee]; fd != nil {
				s := c.w.get(fd)
				switch {
				case s.dirty:
					return "+", s.where
				case s.mayNF:
					n := c.byCount(st)
					if n == "+" {
						n = "c"
					}
					return n, fmt.Sprintf("%s reports not-found to %s after %s consumed tokens", callee.Name(), c.fn, c.fn)
				}
			}
			return "none", ""
		}
		return "none", ""
	}
	if c.containsNFLiteral(e, x) {
		return c.byCount(st), fmt.Sprintf("%s builds a not-found error after consuming tokens", c.fn)
	}
	// a wrapper that errors.As can see through keeps the not-found-ness of what it wraps:
	// &T{..., err: inner} where T has an Unwrap method
	if lit := litOf(x); lit != nil {
		t := e.Info.TypeOf(lit)
		if t != nil && hasUnwrap(t) {
			out, src := "none", ""
			for _, el := range lit.Elts {
				v := el
				if kv, ok := el.(*ast.KeyValueExpr); ok {
					v = kv.Value
				}
				if vt := e.Info.TypeOf(v); vt != nil && TypeStr(vt) == "error" {
					n, s := c.nfOf(e, st, v)
					if n != "none" && (src == "" || n == "+") {
						src = s
					}
					out = joinNF(out, n)
				}
			}
			return out, src
		}
	}
	return "none", ""
}

// hasUnwrap: values of t (or *t) expose the error they wrap to errors.Is/As.
func hasUnwrap(t types.Type) bool {
	for _, tt := range []types.Type{t, types.NewPointer(t)} {
		ms := types.NewMethodSet(tt)
		for i := 0; i < ms.Len(); i++ {
			if ms.At(i).Obj().Name() == "Unwrap" {
				return true
			}
		}
	}
	return false
}

func (c *nfClient) byCount(st *State) string {
	if cntOf(st) == "0" {
		return "0"
	}
	return "+"
}

func (c *nfClient) PostCall(e *Engine, st *State, call *ast.CallExpr, callee *types.Func) *State {
	if !c.onRecv(e, call) {
		return nil
	}
	switch {
	case callee == c.w.next:
		return st.WithExt("cnt", incCnt(cntOf(st)))
	case callee == c.w.prev:
		return st.WithExt("cnt", decCnt(cntOf(st)))
	case callee != nil && (fnName(callee) == "split" || fnName(callee) == "splitSemi"):
		return st.WithExt("cnt", "+")
	}
	return nil
}

func (c *nfClient) PreCall(e *Engine, st *State, call *ast.CallExpr, callee *types.Func) *State {
	if callee == nil || fnName(callee) != "isNotFound" || len(call.Args) != 1 || !c.w.final {
		return nil
	}
	n, src := c.nfOf(e, st, call.Args[0])
	unit := c.fn
	if e.Lit != nil {
		unit += " (closure)"
	}
	ord, idx := 0, 0
	ast.Inspect(c.fd.Body, func(n ast.Node) bool {
		if cc, ok := n.(*ast.CallExpr); ok {
			if f := Callee(e.Info, cc); f != nil && fnName(f) == "isNotFound" {
				ord++
				if cc == call {
					idx = ord
				}
			}
		}
		return true
	})
	key := fmt.Sprintf("%s decision #%d isNotFound(%s)", unit, idx, exprStr(call.Args[0]))
	e.Site("C08/notfound", key, call, n != "+", "every not-found error that can reach this decision was produced before any token was consumed")
	if n == "+" {
		e.Site("C08/notfound", key, call, false, "a not-found error that was produced after tokens had been consumed can reach this decision ("+src+"): the parser then treats the production as absent and silently drops the tokens it already read")
	}
	return nil
}

func (c *nfClient) PostAssign(e *Engine, st *State, lhs, rhs []ast.Expr, _ ast.Stmt) *State {
	if len(rhs) != 1 {
		return nil
	}
	info := e.Info
	// save / restore of the cursor
	if len(lhs) == 1 {
		if sel, ok := ast.Unparen(rhs[0]).(*ast.SelectorExpr); ok && selName(sel) == "pos" && c.recv != nil && objOf(info, e.ResolveExpr(sel.X)) == c.recv {
			if k := e.CanonSt(st, lhs[0]); k.OK {
				return st.WithExt("save:"+e.objKey(objOf(info, lhs[0])), cntOf(st))
			}
		}
		if sel, ok := ast.Unparen(lhs[0]).(*ast.SelectorExpr); ok && selName(sel) == "pos" && c.recv != nil && objOf(info, e.ResolveExpr(sel.X)) == c.recv {
			if o := objOf(info, rhs[0]); o != nil {
				if saved := st.Ext("save:" + e.objKey(o)); saved != "" {
					return st.WithExt("cnt", saved)
				}
			}
			return st.WithExt("cnt", "+")
		}
	}
	return nil
}

// PreAssign: the not-found status of an assigned error is computed from the state before the assignment
// (facts such as isNotFound(err) == false are about the old value).
func (c *nfClient) PreAssign(e *Engine, st *State, lhs, rhs []ast.Expr, _ ast.Stmt) *State {
	if len(rhs) != 1 {
		return nil
	}
	info := e.Info
	// error variable
	last := lhs[len(lhs)-1]
	if TypeStr(info.TypeOf(last)) != "error" {
		return nil
	}
	k := e.CanonSt(st, last)
	if !k.OK {
		return nil
	}
	if call, ok := ast.Unparen(rhs[0]).(*ast.CallExpr); ok {
		if callee := Callee(info, call); callee != nil && c.isParserMethod(callee) && len(lhs) > 1 {
			return nil // handled by SplitAssign
		}
	}
	n, src := c.nfOf(e, st, rhs[0])
	return st.WithExt("nf:"+k.Key, n).WithExt("src:"+k.Key, src)
}

// SplitAssign: `v, err := production()` continues as (success) or (failure).
func (c *nfClient) SplitAssign(e *Engine, st *State, lhs, rhs []ast.Expr, _ ast.Stmt) []*State {
	if len(rhs) != 1 || len(lhs) < 2 {
		return nil
	}
	call, ok := ast.Unparen(rhs[0]).(*ast.CallExpr)
	if !ok {
		return nil
	}
	callee := Callee(e.Info, call)
	if _, inPlace := e.inlined[call]; inPlace {
		return nil // a helper read in place: what it consumed and returned is already in the state
	}
	// tok, ok := p.next(): at the end of the range nothing is consumed
	if callee == c.w.next && c.onRecv(e, call) && len(lhs) == 2 {
		if id, isID := lhs[1].(*ast.Ident); isID && id.Name != "_" {
			var out []*State
			if t := e.AssumeBool(st, id, true); t != nil {
				out = append(out, t)
			}
			if f := e.AssumeBool(st, id, false); f != nil {
				out = append(out, f.WithExt("cnt", decCnt(cntOf(f))))
			}
			return out
		}
		return nil
	}
	last := lhs[len(lhs)-1]
	if callee == nil || TypeStr(e.Info.TypeOf(last)) != "error" {
		return nil
	}
	isFirstParse := fnName(callee) == "firstParse" || (callee.Origin() != nil && fnName(callee.Origin()) == "firstParse")
	if !c.isParserMethod(callee) && !isFirstParse {
		return nil
	}
	ek := e.CanonSt(st, last)
	n, src := c.nfOf(e, st, call)
	var out []*State
	// success
	if okSt := e.SetNil(st, last); okSt != nil {
		if c.onRecv(e, call) {
			okSt = okSt.WithExt("cnt", "+")
		}
		if ek.OK {
			okSt = okSt.WithExt("nf:"+ek.Key, "none").WithExt("src:"+ek.Key, "")
			// a nil error is not a not-found error: `if !isNotFound(err) { return }` is taken on success
			if nf := c.w.p.FuncDecl(c.w.p.Parser, "isNotFound"); nf != nil {
				if fobj := FuncObj(c.w.p.Parser, nf); fobj != nil {
					ak := ek
					ak.Key = "call:" + fobj.FullName() + "(" + ek.Key + ")"
					if n2 := e.update(okSt, ak, func(f *Fact) { f.HasEq, f.Eq = true, "false" }); n2 != nil {
						okSt = n2
					}
				}
			}
		}
		if fd := c.w.byFunc[callee]; fd != nil && c.w.get(fd).corr {
			if n2 := e.SetNonNilStrict(okSt, lhs[0]); n2 != nil {
				okSt = n2
			}
		}
		out = append(out, okSt)
	}
	// failure
	if errSt := e.SetNonNilStrict(st, last); errSt != nil {
		if ek.OK {
			errSt = errSt.WithExt("nf:"+ek.Key, n).WithExt("src:"+ek.Key, src)
		}
		if fd := c.w.byFunc[callee]; fd != nil && c.w.get(fd).corr {
			if n2 := e.SetNil(errSt, lhs[0]); n2 != nil {
				errSt = n2
			}
		}
		out = append(out, errSt)
	}
	return out
}

func (c *nfClient) Return(e *Engine, st *State, ret *ast.ReturnStmt) {
	if ret == nil || len(ret.Results) == 0 {
		return
	}
	last := ret.Results[len(ret.Results)-1]
	// the unit's last result must be an error
	var ft *ast.FuncType
	if e.Lit != nil {
		ft = e.Lit.Type
	} else {
		ft = c.fd.Type
	}
	if ft.Results == nil || len(ft.Results.List) == 0 || TypeStr(e.Info.TypeOf(ft.Results.List[len(ft.Results.List)-1].Type)) != "error" {
		return
	}
	n, src := c.nfOf(e, st, last)
	s := c.w.get(c.unit(e))
	if n != "none" && !s.mayNF {
		s.mayNF = true
		c.w.changed = true
	}
	if (n == "+" || n == "c") && !s.dirty {
		s.dirty = true
		if src == "" {
			src = c.fn
		}
		s.where = fmt.Sprintf("%s return at %s: %s", c.fn, c.w.p.Pos(ret.Pos()), src)
		c.w.changed = true
	}
}

// corrOf: every return of fd is (non-nil literal/alloc, nil) or (nil, non-nil).
func (w *nfWorld) corrOf(fd *ast.FuncDecl) bool {
	info := w.p.Parser.TypesInfo
	if fd.Type.Results == nil || fd.Type.Results.NumFields() != 2 {
		return false
	}
	ok := true
	n := 0
	ast.Inspect(fd.Body, func(x ast.Node) bool {
		if _, isLit := x.(*ast.FuncLit); isLit {
			return false
		}
		ret, isRet := x.(*ast.ReturnStmt)
		if !isRet {
			return true
		}
		n++
		if len(ret.Results) != 2 {
			ok = false
			return true
		}
		v, er := ret.Results[0], ret.Results[1]
		vNil := isNilIdent(info, v)
		vFresh := litOf(v) != nil
		eNil := isNilIdent(info, er)
		eFresh := litOf(er) != nil
		if !((vNil && eFresh) || (vFresh && eNil)) {
			ok = false
		}
		return true
	})
	return ok && n > 0
}

func ruleC08NotFound(p *Program, r *Run) {
	pkg := p.Parser
	w := &nfWorld{p: p, sum: map[ast.Node]*nfSummary{}, byFunc: map[*types.Func]*ast.FuncDecl{},
		parserT: types.NewPointer(p.Named(pkg, "parser")),
		next:    FuncObj(pkg, p.MustFunc(pkg, "parser.next")), prev: FuncObj(pkg, p.MustFunc(pkg, "parser.prev"))}
	var units []*ast.FuncDecl
	for _, fd := range AllFuncs(pkg) {
		isProd := false
		if fd.Recv != nil && recvTypeName(fd.Recv.List[0].Type) == "parser" {
			isProd = true
		}
		if fd.Name.Name == "Parse" && fd.Recv == nil {
			isProd = true
		}
		if !isProd || declName(fd) == "next" || declName(fd) == "prev" {
			continue
		}
		units = append(units, fd)
		w.byFunc[FuncObj(pkg, fd)] = fd
		w.get(fd).corr = w.corrOf(fd)
	}
	run := func(final bool) []*Engine {
		w.final = final
		var engines []*Engine
		for _, fd := range units {
			c := &nfClient{w: w, fd: fd, fn: FuncName(pkg, fd)}
			if fd.Recv != nil && len(fd.Recv.List[0].Names) == 1 {
				c.recv = pkg.TypesInfo.Defs[fd.Recv.List[0].Names[0]]
			}
			e := NewEngine(p, pkg, fd, c)
			t0 := time.Now()
			e.Run(newState().WithExt("cnt", "0"))
			if os.Getenv("PQLCHECK_TIMING") != "" {
				fmt.Fprintf(os.Stderr, "nf %s %v\n", c.fn, time.Since(t0))
			}
			engines = append(engines, e)
		}
		return engines
	}
	for iter := 0; iter < 12; iter++ {
		w.changed = false
		run(false)
		if !w.changed {
			break
		}
	}
	engines := run(true)
	for i, e := range engines {
		r.Saw(FuncName(pkg, units[i]))
		for _, m := range e.Errs {
			r.Fail("C08/notfound", FuncName(pkg, units[i])+" engine", "-", m)
		}
		e.FlushSites(r)
	}
	// summary note
	var may, dirty []string
	for n, s := range w.sum {
		name := "closure"
		if fd, ok := n.(*ast.FuncDecl); ok {
			name = fd.Name.Name
		}
		if s.dirty {
			dirty = append(dirty, name)
		} else if s.mayNF {
			may = append(may, name)
		}
	}
	sort.Strings(may)
	sort.Strings(dirty)
	r.Note("productions that may report not-found (clean): %s", strings.Join(may, ", "))
	r.Note("productions that may report not-found after consuming tokens (every caller must sanitise): %s", strings.Join(dirty, ", "))
	r.Floor("C08/notfound", 8)
}

// ---- C08/endsplit: every split range is closed by an end-of-range check (or an error) on every path.

type splitPairClient struct {
	BaseClient
	InlinePredicates
	p    *Program
	fn   string
	open map[string]ast.Node // sub-parser key -> split call
}

// Inline: besides predicates, read-only methods of the parser (a look at the next unread token that also reports
// whether there is one) are read where they are called.
func (c *splitPairClient) Inline(e *Engine, call *ast.CallExpr, callee *types.Func, decl *ast.FuncDecl) bool {
	if c.InlinePredicates.Inline(e, call, callee, decl) {
		return true
	}
	return callee != nil && cursorOf(callee) == "parser" && fnName(callee) != "endSplit" && e.pureModuleFunc(callee) && smallBody(decl)
}

func isSplitCall(info *types.Info, e ast.Expr) *ast.CallExpr {
	call, ok := ast.Unparen(e).(*ast.CallExpr)
	if !ok {
		return nil
	}
	if f := Callee(info, call); f != nil && (fnName(f) == "split" || fnName(f) == "splitSemi") && f.Type().(*types.Signature).Recv() != nil {
		return call
	}
	return nil
}

func (c *splitPairClient) PostAssign(e *Engine, st *State, lhs, rhs []ast.Expr, _ ast.Stmt) *State {
	if len(lhs) == 1 && len(rhs) == 1 {
		if call := isSplitCall(e.Info, rhs[0]); call != nil {
			if o := objOf(e.Info, lhs[0]); o != nil {
				k := e.objKey(o)
				c.open[k] = call
				return st.WithExt("open:"+k, "1").WithExt("fresherr", "")
			}
		}
		// E = joinErrors(E, <fresh error literal>) / E = <fresh literal>
		if TypeStr(e.Info.TypeOf(lhs[0])) == "error" {
			// a fresh error: a literal, or a constructor helper that only builds and returns one
			isFresh := func(x ast.Expr) bool {
				return litOf(x) != nil || litOf(c.p.Constructed(x)) != nil
			}
			fresh := isFresh(rhs[0])
			if call, ok := ast.Unparen(rhs[0]).(*ast.CallExpr); ok {
				if f := Callee(e.Info, call); f != nil && fnName(f) == "joinErrors" {
					for _, a := range call.Args {
						if isFresh(a) {
							fresh = true
						}
					}
				}
			}
			if fresh {
				return st.WithExt("fresherr", "1")
			}
		}
	}
	return nil
}

func (c *splitPairClient) PostCall(e *Engine, st *State, call *ast.CallExpr, callee *types.Func) *State {
	if callee == nil || fnName(callee) != "endSplit" {
		return nil
	}
	sel, ok := ast.Unparen(call.Fun).(*ast.SelectorExpr)
	if !ok {
		return nil
	}
	o := objOf(e.Info, sel.X)
	if o == nil {
		return nil
	}
	k := e.objKey(o)
	// the result must not be discarded
	flows := false
	switch par := e.P.Parent(call).(type) {
	case *ast.CallExpr:
		if f := Callee(e.Info, par); f != nil && fnName(f) == "joinErrors" {
			switch gp := e.P.Parent(par).(type) {
			case *ast.AssignStmt, *ast.ReturnStmt:
				_ = gp
				flows = true
			}
		} else if f != nil && e.P.errorSink(f) {
			flows = true // handed to a function that merges its arguments into an accumulated error
		}
	case *ast.AssignStmt, *ast.ReturnStmt:
		flows = true
	}
	if !flows {
		e.Site("C08/endsplit", fmt.Sprintf("%s result of %s.endSplit()", c.fn, o.Name()), call, false, "the end-of-range check is performed but its result is discarded: leftover tokens in the range are silently dropped")
		return nil
	}
	return st.WithExt("open:"+k, "0")
}

// closed: the range of sub-parser k is accounted for in st.
func (c *splitPairClient) closed(st *State, k string) (bool, string) {
	switch st.Ext("open:" + k) {
	case "0":
		return true, "endSplit() result joined into the error"
	case "t":
		return true, "the path itself tested that the range is exhausted"
	case "n":
		return true, "a cursor position below zero (never reached: C12/cursor)"
	}
	if st.Ext("fresherr") == "1" {
		return true, "an error was recorded on this path"
	}
	if f := st.Get("(" + k + ".pos < len(" + k + ".tokens))"); f != nil && f.HasEq && f.Eq == "false" {
		return true, "the path itself tested that the range is exhausted"
	}
	// a path on which the cursor is known to be negative does not exist: the cursor starts at 0 and moves back only
	// over what it has read (C12/cursor, part of this check) - the false branch of a defensive `pos >= 0`
	if f := st.Get(k + ".pos"); f != nil && f.Hi != nil && *f.Hi < 0 {
		return true, "a cursor position below zero (never reached: C12/cursor)"
	}
	return false, ""
}

func (c *splitPairClient) checkAll(e *Engine, st *State, where ast.Node, what string, only func(k string) bool) {
	var ks []string
	for k := range st.ext {
		if strings.HasPrefix(k, "open:") {
			ks = append(ks, strings.TrimPrefix(k, "open:"))
		}
	}
	sort.Strings(ks)
	for _, k := range ks {
		if only != nil && !only(k) {
			continue
		}
		call := c.open[k]
		if call == nil {
			continue
		}
		name := strings.Split(k, "#")[0]
		key := fmt.Sprintf("%s range of %s := %s", c.fn, name, exprStr(call.(ast.Expr)))
		ok, how := c.closed(st, k)
		if ok {
			e.Site("C08/endsplit", key, call, true, "on every path: "+how)
		} else {
			e.Site("C08/endsplit", key, call, false, fmt.Sprintf("a path reaches %s (%s) without checking that the sub-parser consumed its whole token range and without recording an error: trailing tokens inside the range would be ignored silently", what, e.P.Pos(where.Pos())))
		}
	}
}

func (c *splitPairClient) Return(e *Engine, st *State, ret *ast.ReturnStmt) {
	if e.Lit != nil {
		return
	}
	var n ast.Node = e.Func
	if ret != nil {
		n = ret
	}
	c.checkAll(e, st, n, "a return", nil)
}

func (c *splitPairClient) ScopeEnd(e *Engine, st *State, n ast.Node) *State {
	// a sub-parser variable going out of scope (end of a loop iteration) must be closed
	lo, hi := n.Pos(), n.End()
	var closeKeys []string
	c.checkAll(e, st, n, "the end of the sub-parser's scope", func(k string) bool {
		call := c.open[k]
		if call == nil {
			return false
		}
		// the variable is declared inside n
		parts := strings.Split(k, "#")
		off, _ := strconv.Atoi(parts[len(parts)-1])
		pos := e.P.Fset.Position(lo)
		end := e.P.Fset.Position(hi)
		in := off >= pos.Offset && off < end.Offset
		if in {
			closeKeys = append(closeKeys, k)
		}
		return in
	})
	for _, k := range closeKeys {
		st = st.WithExt("open:"+k, "")
	}
	return c.noteTested(st)
}

// noteTested remembers an explicit `pos < len(tokens)` == false test while the fact is still alive.
func (c *splitPairClient) noteTested(st *State) *State {
	for k, v := range st.ext {
		if !strings.HasPrefix(k, "open:") || v != "1" {
			continue
		}
		key := strings.TrimPrefix(k, "open:")
		if f := st.Get("(" + key + ".pos < len(" + key + ".tokens))"); f != nil && f.HasEq && f.Eq == "false" {
			st = st.WithExt(k, "t")
		} else if f := st.Get(key + ".pos"); f != nil && f.Hi != nil && *f.Hi < 0 {
			st = st.WithExt(k, "n")
		}
	}
	return st
}

func (c *splitPairClient) Stmt(e *Engine, st *State, _ ast.Stmt) *State { return c.noteTested(st) }

func ruleC08EndSplit(p *Program, r *Run) {
	pkg := p.Parser
	info := pkg.TypesInfo
	sites := 0
	for _, fd := range AllFuncs(pkg) {
		has := false
		ast.Inspect(fd.Body, func(n ast.Node) bool {
			if as, ok := n.(*ast.AssignStmt); ok && len(as.Rhs) == 1 && isSplitCall(info, as.Rhs[0]) != nil {
				has = true
				sites++
			}
			return true
		})
		if !has {
			continue
		}
		fn := FuncName(pkg, fd)
		r.Saw(fn)
		c := &splitPairClient{p: p, fn: fn, open: map[string]ast.Node{}}
		e := NewEngine(p, pkg, fd, c)
		e.Run(nil)
		for _, m := range e.Errs {
			r.Fail("C08/endsplit", fn+" engine", "-", m)
		}
		e.FlushSites(r)
	}
	// a split whose result is not stored in a variable cannot be closed
	for _, fd := range AllFuncs(pkg) {
		ast.Inspect(fd.Body, func(n ast.Node) bool {
			call, ok := n.(*ast.CallExpr)
			if !ok {
				return true
			}
			if isSplitCall(info, call) == nil {
				return true
			}
			if as, ok := p.Parent(call).(*ast.AssignStmt); ok && len(as.Lhs) == 1 {
				if _, isId := as.Lhs[0].(*ast.Ident); isId {
					return true
				}
			}
			r.Fail("C08/endsplit", FuncName(pkg, fd)+" split result not bound to a variable", p.Pos(call.Pos()), "the sub-parser is not kept in a variable, so its range can never be checked for leftovers")
			return true
		})
	}
	r.Floor("C08/endsplit", 7)
	_ = sites
}

// ---- C08/errortoken: no production accepts an error token.

func ruleC08ErrorToken(p *Program, r *Run) {
	pkg := p.Parser
	info := pkg.TypesInfo
	// every comparison with TokenError
	for _, fd := range AllFuncs(pkg) {
		if p.isLexerFunc(fd) || p.IsGenerated(pkg, fd.Pos()) {
			continue // the parser proper: everything in the package that is not part of the lexer
		}
		ast.Inspect(fd.Body, func(n ast.Node) bool {
			b, ok := n.(*ast.BinaryExpr)
			if !ok || (b.Op != token.EQL && b.Op != token.NEQ) {
				return true
			}
			if constName(info, b.Y) != "TokenError" && constName(info, b.X) != "TokenError" {
				return true
			}
			fn := FuncName(pkg, fd)
			r.Saw(fn)
			// allowed: only to choose the wording of an error. For a function that returns a string (formatToken) that is
			// all it can do; otherwise every path on which a token is known to be the error token must construct a
			// parse error while that is known (path facts), before the token goes out of scope or the function returns.
			ok2 := false
			why := ""
			if res := fd.Type.Results; res != nil && len(res.List) == 1 && TypeStr(info.TypeOf(res.List[0].Type)) == "string" {
				ok2 = true
			} else {
				ec := &errTokClient{p: p, errKind: constKey(p.Parser.Types.Scope().Lookup("TokenError").(*types.Const).Val())}
				eng := NewEngine(p, pkg, fd, ec)
				eng.Run(nil)
				ok2 = ec.seen > 0 && ec.bad == "" && len(eng.Errs) == 0
				why = ec.bad
			}
			r.Check(ok2, "C08/errortoken", fmt.Sprintf("%s comparison with TokenError", fn), p.Pos(b.Pos()), "only selects the wording of an error: a parse error is constructed on every path where the token is known to be an error token", "a production tests for the lexer's error token: scan errors must never be accepted as part of a construct"+why)
			return true
		})
	}
	// case lists of productions never mention TokenError
	for _, fd := range AllFuncs(pkg) {
		ast.Inspect(fd.Body, func(n ast.Node) bool {
			cc, ok := n.(*ast.CaseClause)
			if !ok {
				return true
			}
			for _, e := range cc.List {
				if constName(info, e) == "TokenError" {
					// a clause of its own that does exactly what the default clause does treats the error token
					// like every other kind that is not listed: spelled out, not accepted
					if len(cc.List) == 1 && p.sameAsDefaultClause(cc) {
						r.Pass("C08/errortoken", FuncName(pkg, fd)+" case TokenError", p.Pos(e.Pos()), "the clause is a copy of the default clause: the error token is treated like any kind that is not listed")
						continue
					}
					r.Fail("C08/errortoken", FuncName(pkg, fd)+" case TokenError", p.Pos(e.Pos()), "a switch has a case for the lexer's error token")
				}
			}
			return true
		})
	}
	// the end-of-input token is an error token
	nx := p.MustFunc(pkg, "parser.next")
	okEOF := false
	ast.Inspect(nx.Body, func(n ast.Node) bool {
		if cl, ok := n.(*ast.CompositeLit); ok && TypeStr(info.TypeOf(cl)) == "parser.Token" {
			if k := litField(info, cl, "Kind"); k != nil && constName(info, k) == "TokenError" {
				okEOF = true
			}
		}
		return true
	})
	r.Check(okEOF, "C08/errortoken", "parser.(*parser).next end of range", p.Pos(nx.Pos()), "reading past the end yields a TokenError token, which no production accepts", "reading past the end of the token range does not yield an error token: productions could accept it")
	r.Floor("C08/errortoken", 3)
}

// errTokClient: wherever a token is known to be the lexer's error token, a parse error is constructed while that
// is known.
type errTokClient struct {
	BaseClient
	InlinePredicates
	p       *Program
	errKind string
	seen    int
	bad     string
}

func (c *errTokClient) errTokKeys(st *State) []string {
	var out []string
	for _, k := range st.Keys() {
		if strings.HasSuffix(k, ".Kind") && !strings.HasPrefix(k, "val:") {
			if f := st.Get(k); f != nil && f.HasEq && f.Eq == c.errKind {
				out = append(out, k)
			}
		}
	}
	return out
}

func (c *errTokClient) Visit(e *Engine, st *State, n ast.Node) *State {
	cl, ok := n.(*ast.CompositeLit)
	if !ok || TypeStr(e.Info.TypeOf(cl)) != "parser.parseError" {
		return nil
	}
	if len(c.errTokKeys(st)) > 0 || st.Ext("errtok:pending") == "1" {
		if e.Reporting() {
			c.seen++
		}
		return st.WithExt("errtok:reported", "1").WithExt("errtok:pending", "")
	}
	return nil
}

// Stmt: once a token is known to be the error token, a parse error must be constructed before that knowledge is
// gone (the token variable reassigned, out of scope, the iteration or the function over).
func (c *errTokClient) Stmt(e *Engine, st *State, s ast.Stmt) *State {
	known := len(c.errTokKeys(st)) > 0
	switch {
	case known && st.Ext("errtok:reported") != "1" && st.Ext("errtok:pending") != "1":
		return st.WithExt("errtok:pending", "1")
	case !known && st.Ext("errtok:pending") == "1":
		if e.Reporting() {
			c.bad = " (a token known to be an error token is dropped at " + e.P.Pos(s.Pos()) + " without a parse error having been constructed)"
		}
		return st.WithExt("errtok:pending", "")
	}
	return nil
}

func (c *errTokClient) end(e *Engine, st *State, where string) {
	if !e.Reporting() {
		return
	}
	if (len(c.errTokKeys(st)) > 0 || st.Ext("errtok:pending") == "1") && st.Ext("errtok:reported") != "1" {
		c.bad = " (a token is known to be an error token at " + where + " and no parse error was constructed)"
	}
}

func (c *errTokClient) Return(e *Engine, st *State, ret *ast.ReturnStmt) {
	if e.Lit != nil {
		return
	}
	where := "the end of the function"
	if ret != nil {
		where = "the return at " + e.P.Pos(ret.Pos())
	}
	c.end(e, st, where)
}

func (c *errTokClient) LoopBack(e *Engine, st *State, loop ast.Stmt) {
	c.end(e, st, "the end of an iteration of the loop at "+e.P.Pos(loop.Pos()))
}

// LoopHead: a new iteration starts without a report
func (c *errTokClient) LoopHead(e *Engine, st *State, _ ast.Stmt) *State {
	if st.Ext("errtok:reported") != "" || st.Ext("errtok:pending") != "" {
		return st.WithExt("errtok:reported", "").WithExt("errtok:pending", "")
	}
	return nil
}

// errorSink: a module function that merges (one of) its error parameters into an error it stores or returns:
// its body calls joinErrors with an argument that mentions the parameter, and the result is assigned or returned.
func (p *Program) errorSink(fn *types.Func) bool {
	decl, _ := p.DeclOf(fn)
	if decl == nil || decl.Body == nil || !smallBody(decl) {
		return false
	}
	info := p.Info
	params := map[types.Object]bool{}
	for _, f := range decl.Type.Params.List {
		for _, n := range f.Names {
			o := info.Defs[n]
			if o == nil {
				continue
			}
			t := o.Type()
			if sl, ok := t.Underlying().(*types.Slice); ok {
				t = sl.Elem()
			}
			if isErrorType(t) {
				params[o] = true
			}
		}
	}
	if len(params) == 0 {
		return false
	}
	sink := false
	ast.Inspect(decl.Body, func(n ast.Node) bool {
		call, ok := n.(*ast.CallExpr)
		if !ok {
			return true
		}
		if f := Callee(info, call); f == nil || fnName(f) != "joinErrors" {
			return true
		}
		mentions := false
		for _, a := range call.Args {
			ast.Inspect(a, func(m ast.Node) bool {
				if id, ok := m.(*ast.Ident); ok && params[objOf(info, id)] {
					mentions = true
				}
				return true
			})
		}
		if !mentions {
			return true
		}
		switch p.Parent(call).(type) {
		case *ast.AssignStmt, *ast.ReturnStmt:
			sink = true
		}
		return true
	})
	return sink
}

// sameAsDefaultClause: the statements of cc are, as text, those of the default clause of the same switch.
func (p *Program) sameAsDefaultClause(cc *ast.CaseClause) bool {
	blk, ok := p.Parent(cc).(*ast.BlockStmt)
	if !ok {
		return false
	}
	text := func(list []ast.Stmt) string {
		var sb strings.Builder
		for _, st := range list {
			printer.Fprint(&sb, p.Fset, st)
			sb.WriteString("\n")
		}
		return sb.String()
	}
	for _, s := range blk.List {
		if d, isCC := s.(*ast.CaseClause); isCC && d.List == nil {
			return text(d.Body) == text(cc.Body)
		}
	}
	return false
}
